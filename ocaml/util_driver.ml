(* component `util`: WideStr / FmtUtf16, strn / wstrn / trimn / parsen, GUID formatters, Ptr / Pir, flags! / enum1!.
   model_obs: the observation text computed from the extracted Model/Util.v.
   oracle: the extracted Spec/UtilSpec.v functions evaluated on the IMPLEMENTATION's observation. *)
let words_of_hex s =
  let b = bytes_of_hex s in
  let rec go = function a :: b :: r -> n_of_int (a + 256 * b) :: go r | [] -> [] | _ -> failwith "odd word data" in
  go b
let hex_of_words (ws : n list) =
  if ws = [] then "-" else String.concat "" (List.map (fun w -> let w = int_of_n w in Printf.sprintf "%02x%02x" (w land 255) (w lsr 8)) ws)
let string_of_name (nm : n list) = String.concat "" (List.map (fun c -> String.make 1 (Char.chr (int_of_n c))) nm)
let name_of_string (s : string) : n list = List.init (String.length s) (fun i -> n_of_int (Char.code s.[i]))
let chars_of_utf8_hex s = match utf8_decode (nlist_of_hex s) with Some cs -> cs | None -> failwith "case string is not UTF-8"
let show r = match r with Ok l -> hex_of_nlist l | _ -> "!fault"
let fault_text = function
  | Fault POverflow -> "panic:overflow" | Fault PIndex -> "panic:index" | Fault PSliceOrder -> "panic:slice"
  | Fault OutOfFuel -> "!fuel" | Fault _ -> "!fault" | Err _ -> "!err" | Ok _ -> "ok"
let nz i = n_of_int i
let bang obs = String.length obs > 0 && obs.[0] = '!'
let obs_fields obs = fields (String.split_on_char ' ' obs)
let fget ofs k = try List.assoc k ofs with Not_found -> "?"
(* the build's overflow-check flag is part of the observation *)
let checks_of obs = (try fget (obs_fields obs) "oc" <> "0" with _ -> true)
let two_pow k = n_of_z (Z.shift_left Z.one k)
let lenn l = n_of_int (List.length l)

let has p ws = List.exists (fun w -> p (int_of_n w)) ws
let wtags ws =
  let hi w = w >= 0xD800 && w <= 0xDBFF and lo w = w >= 0xDC00 && w <= 0xDFFF in
  let rec pairs = function a :: (b :: _ as r) -> (hi (int_of_n a) && lo (int_of_n b)) || pairs r | _ -> false in
  let its = utf16_decode_spec ws in
  let bad = List.exists (function IBad _ -> true | _ -> false) its in
  String.concat "," ((if ws = [] then ["empty"] else []) @ (if pairs ws then ["pair"] else []) @ (if bad then ["unpaired"] else ["wellformed"])
    @ (if has (fun w -> w = 0) ws then ["nul"] else []) @ (if has (fun w -> List.mem w [10; 13; 9; 34; 92]) ws then ["special"] else []))

(* str=ok:<hex>|err:<n> *)
let show_tostring = function
  | Ok (Inl b) -> "ok:" ^ hex_of_nlist b | Ok (Inr u) -> "err:" ^ string_of_n u | _ -> "!fault"
let show_tostring_spec = function Inl b -> "ok:" ^ hex_of_nlist b | Inr u -> "err:" ^ string_of_n u

let fmt_oracle ws ofs =
  let d = nlist_of_hex (fget ofs "disp") and g = nlist_of_hex (fget ofs "dbg") in
  display_ok ws d && debug_ok ws g && display_bound ws d && debug_bound ws g

let handle_wfmt fs obs =
  let ws = words_of_hex (field fs "ws") in
  let mobs = Printf.sprintf "disp=%s dbg=%s" (show (fmt_display ws)) (show (fmt_debug ws)) in
  let ok = (not (bang obs)) && fmt_oracle ws (obs_fields obs) in
  (mobs, ok, ws <> [], "wfmt," ^ wtags ws, None)

let handle_wwords fs obs =
  let ws = words_of_hex (field fs "ws") in
  let mobs = match from_words ws with
    | Ok None -> "none"
    | Ok (Some (at, r)) ->
      (match as_ref r with
       | Ok rf -> Printf.sprintf "some at=%s len=%d ref=%s str=%s disp=%s dbg=%s" (string_of_n at) (List.length r) (hex_of_words rf)
                    (show_tostring (to_string r)) (show (fmt_display rf)) (show (fmt_debug rf))
       | _ -> "!fault-as_ref")
    | r -> fault_text r in
  let ok = (not (bang obs)) && (match from_words_spec ws with
    | None -> obs = "none"
    | Some (at, l) ->
      let ofs = obs_fields obs in
      let rf = words_of_hex (fget ofs "ref") in
      (* region: starts at the slice, first word + 1 words, inside the slice; the invariant of from_words_unchecked *)
      fget ofs "at" = string_of_n at && fget ofs "len" = string_of_int (List.length l) && List.length l <= List.length ws
      && (match l with w0 :: t -> t = rf && wide_invb (w0 :: rf) | [] -> false)
      && fget ofs "str" = show_tostring_spec (to_string_spec rf) && fmt_oracle rf ofs) in
  let first = match ws with w :: _ -> int_of_n w + 1 | [] -> -1 in
  let cls = if ws = [] then "empty" else if first < List.length ws then "shorter" else if first = List.length ws then "exact" else "longer" in
  (mobs, ok, ws <> [], "wwords," ^ cls, None)

let handle_wbytes fs obs =
  let data = nlist_of_hex (field fs "data") in
  let al = n_of_string (field fs "al") in
  let mobs = match from_bytes al data with
    | Ok None -> "none"
    | Ok (Some (at, r)) ->
      (match as_ref r with
       | Ok rf -> Printf.sprintf "some at=%s len=%d ref=%s" (string_of_n at) (List.length r) (hex_of_words rf)
       | _ -> "!fault-as_ref")
    | Fault UBOob -> "!ub-oob" | Fault UBAlign -> "!ub-align" | r -> fault_text r in
  let ok = (not (bang obs)) && (match from_bytes_spec data with
    | None -> obs = "none"
    | Some (at, l) ->
      let ofs = obs_fields obs in
      let rf = words_of_hex (fget ofs "ref") in
      fget ofs "at" = string_of_n at && fget ofs "len" = string_of_int (List.length l) && 2 * List.length l <= List.length data
      && (match l with w0 :: t -> t = rf && wide_invb (w0 :: rf) | [] -> false)) in
  (mobs, ok, true, "wbytes," ^ (if mobs = "none" then "none" else "some"), None)

let word_sum first rf =
  let m = Z.pred (Z.shift_left Z.one 64) in
  List.fold_left (fun a x -> Z.logand (Z.add (Z.mul a (Z.of_int 31)) (z_of_n x)) m) (z_of_n first) rf

let handle_wfromstr big fs obs =
  let checks = checks_of obs in
  let s = if big then List.init (int_of_string (field fs "count")) (fun _ -> n_of_string (field fs "c")) else chars_of_utf8_hex (field fs "s") in
  let buflen = int_of_string (field fs "buflen") in
  let buffer = List.init buflen (fun _ -> nz 0xAAAA) in
  let oc = if checks then 1 else 0 in
  let render words = match words with
    | first :: rf ->
      if big then Printf.sprintf "at=0 n=%s len=%d sum=%s" (string_of_n first) (List.length words) (Z.to_string (word_sum first rf))
      else Printf.sprintf "at=0 n=%s len=%d ref=%s" (string_of_n first) (List.length words) (hex_of_words rf)
    | [] -> "!empty-result" in
  let mobs = match from_str checks s buffer with
    | Ok words -> Printf.sprintf "oc=%d %s" oc (render words)
    | r -> Printf.sprintf "oc=%d %s" oc (fault_text r) in
  let faults = from_str_faults checks s buffer in
  let ok = (not (bang obs)) && (
    if faults then obs = Printf.sprintf "oc=%d panic:%s" oc (if buflen = 0 then "index" else "overflow")
    else obs = Printf.sprintf "oc=%d %s" oc (render (from_str_spec checks s buffer))) in
  (mobs, ok, true, (if big then "wfromrep," else "wfromstr,") ^ (if faults then "faults" else "returns"), None)

let handle_weq fs obs =
  let ws = words_of_hex (field fs "ws") in
  let cs = chars_of_utf8_hex (field fs "s") in
  let mobs = match from_words ws with
    | Ok None -> "none"
    | Ok (Some (_, r)) -> (match eq_str r cs with Ok b -> Printf.sprintf "eq=%d" (if b then 1 else 0) | _ -> "!fault")
    | r -> fault_text r in
  let ok = (not (bang obs)) && (match from_words_spec ws with
    | None -> obs = "none"
    | Some (_, l) -> obs = Printf.sprintf "eq=%d" (if eq_str_spec (List.tl l) cs then 1 else 0)) in
  (mobs, ok, true, "weq," ^ (if mobs = "eq=1" then "equal" else "different"), None)

let handle_strn wide fs obs =
  let d = if wide then words_of_hex (field fs "ws") else nlist_of_hex (field fs "data") in
  let mobs = match (if wide then wstrn d else strn d) with
    | Ok r -> Printf.sprintf "at=0 len=%d" (List.length r)
    | r -> fault_text r in
  let ok = obs = Printf.sprintf "at=0 len=%d" (List.length (take_nonzero d)) in
  (mobs, ok, d <> [], (if wide then "wstrn," else "strn,") ^ (if List.length (take_nonzero d) = List.length d then "no-nul" else "nul"), None)

let show_parsen = function Inl t -> "ok:" ^ hex_of_nlist t | Inr b -> "err:" ^ hex_of_nlist b
let handle_secname fs obs =
  let nm = nlist_of_hex (field fs "name") in
  let t = match trimn nm with Ok t -> Printf.sprintf "0:%d" (List.length t) | r -> fault_text r in
  let p = match parsen utf8_valid nm with Ok r -> show_parsen r | r -> fault_text r in
  let mobs = Printf.sprintf "trim=%s name=%s" t p in
  let ok = obs = Printf.sprintf "trim=0:%d name=%s" (List.length (trim_spec nm)) (show_parsen (parsen_spec nm)) in
  (mobs, ok, true, "secname," ^ (if utf8_valid (trim_spec nm) then "utf8" else "not-utf8"), None)

let handle_guid fs obs =
  let b = nlist_of_hex (field fs "g") in
  let g = guid_of_bytes b in
  let d = show (guid_lower_dashed g) in
  let mobs = Printf.sprintf "d=%s g=%s x=%s X=%s" d d (show (guid_lower_hex g)) (show (guid_upper_hex g)) in
  let ok = (not (bang obs)) && (
    let ofs = obs_fields obs in
    let get k = nlist_of_hex (fget ofs k) in
    get "d" = guid_spec false true b && get "g" = guid_spec false true b && get "x" = guid_spec false false b && get "X" = guid_spec true false b
    && List.length (get "d") = 38 && List.length (get "x") = 32 && List.length (get "X") = 32) in
  (mobs, ok, true, "guid", None)

let show_res r = match r with Ok v -> string_of_n v | r -> fault_text r
let show_opt = function Some v -> string_of_n v | None -> "panic:overflow"
let handle_ptr kind fs obs =
  let bits = if kind = "ptr64" then 64 else 32 in
  let nb = nz bits in
  let checks = checks_of obs in
  let g k = n_of_string (field fs k) in
  let va = g "va" and so = g "so" and i = g "i" and sz = g "sz" in
  let fmts = Printf.sprintf "disp=%s dbg=%s x=%s X=%s ax=%s zx=%s" (show (ptr_display nb va)) (show (ptr_display nb va))
      (show (ptr_hex false false (nz 0) va)) (show (ptr_hex true false (nz 0) va)) (show (ptr_hex false true (nz 0) va)) (show (ptr_hex true true (nz 20) va)) in
  let sfmts = Printf.sprintf "disp=%s dbg=%s x=%s X=%s ax=%s zx=%s" (hex_of_nlist (ptr_display_spec nb va)) (hex_of_nlist (ptr_display_spec nb va))
      (hex_of_nlist (fmt_hex_spec false false (nz 0) va)) (hex_of_nlist (fmt_hex_spec true false (nz 0) va))
      (hex_of_nlist (fmt_hex_spec false true (nz 0) va)) (hex_of_nlist (fmt_hex_spec true true (nz 20) va)) in
  let oc = if checks then 1 else 0 in
  let at_m = show_res (ptr_at checks nb va i sz) and at_s = show_opt (ptr_at_spec checks nb va i sz) in
  let off_m = string_of_n (ptr_offset nb va so) in
  (* the signed reading: va + signed(so) modulo 2^bits *)
  let off_s = let w = Z.shift_left Z.one bits in
    let sgn = if Z.lt (z_of_n so) (Z.shift_left Z.one (bits - 1)) then z_of_n so else Z.sub (z_of_n so) w in
    Z.to_string (Z.erem (Z.add (z_of_n va) sgn) w) in
  let mobs, sobs =
    if kind = "pir" then
      Printf.sprintf "oc=%d offset=%s at=%s %s" oc off_m at_m fmts, Printf.sprintf "oc=%d offset=%s at=%s %s" oc off_s at_s sfmts
    else
      let off = g "off" in
      Printf.sprintf "oc=%d member=%s offset=%s at=%s %s" oc (show_res (ptr_member checks nb va off)) off_m at_m fmts,
      Printf.sprintf "oc=%d member=%s offset=%s at=%s %s" oc (show_opt (ptr_member_spec checks nb va off)) off_s at_s sfmts in
  let contains s sub = let n = String.length s and m = String.length sub in
    let rec go i = i + m <= n && (String.sub s i m = sub || go (i + 1)) in go 0 in
  let ovf = contains mobs "panic" in
  (mobs, obs = sobs, true, kind ^ "," ^ (if ovf then "overflow" else "fits"), None)

let flag_table_of ty = match ty with
  | "FileChars" -> (file_chars_table, 2) | "DllChars" -> (dll_chars_table, 2) | "SectionChars" -> (section_chars_table, 4)
  | _ -> failwith "flag type"
let handle_flags fs obs =
  let (t, size) = flag_table_of (field fs "ty") in
  let x = n_of_string (field fs "x") in
  let mobs = match to_strs true (nz size) t x with
    | Ok names -> "strs=" ^ join "," (List.map string_of_name names)
    | r -> fault_text r in
  let ok = (not (bang obs)) && (
    let got = List.map name_of_string (split_on ',' (fget (obs_fields obs) "strs")) in
    names_eqb got (to_strs_spec (nat_of_int (8 * size)) t x) && List.length got <= 8 * size) in
  (mobs, ok, true, "flags," ^ field fs "ty", None)

let handle_flagtab fs obs =
  let (t, size) = flag_table_of (field fs "ty") in
  let idx = List.init 70 (fun i -> i) @ [255; 256] in
  let rows f p = List.filter_map (fun i -> match f t i with
      | Some nm -> Some (Printf.sprintf "%s:%s:%s" (string_of_n i) (string_of_name nm) (match p t nm with Some v -> string_of_n v | None -> "none"))
      | None -> None) (List.map nz idx @ [n_of_string "4294967295"]) in
  let unk p = p t (name_of_string "IMAGE_NO_SUCH_FLAG") = None && p t [] = None in
  let mobs = Printf.sprintf "tab=%s unknown=%d" (join "," (rows flag_str parse_flag)) (if unk parse_flag then 1 else 0) in
  let spec_str t i = match lookup_flag t i with [nm] -> Some nm | _ -> None in
  let sobs = Printf.sprintf "tab=%s unknown=%d" (join "," (rows spec_str parse_flag_spec)) (if unk parse_flag_spec then 1 else 0) in
  (mobs, obs = sobs && flag_table_wf (nz (8 * size)) t, true, "flagtab," ^ field fs "ty", None)

let enum_table_of ty = match ty with
  | "Machine" -> (machine_table, 16) | "OptionalMagic" -> (optional_magic_table, 16) | "Subsystem" -> (subsystem_table, 16)
  | "DirectoryEntry" -> (directory_entry_table, 64) | "ResourceName" -> (resource_name_table, 16) | "RelocType" -> (reloc_type_table, 8)
  | "UnwindOp" -> (unwind_op_table, 8) | "UnwindFlag" -> (unwind_flag_table, 8) | "DebugType" -> (debug_type_table, 32)
  | _ -> failwith "enum type"
let handle_enum fs obs =
  let (t, bits) = enum_table_of (field fs "ty") in
  let v = n_of_string (field fs "v") in
  if Z.geq (z_of_n v) (Z.shift_left Z.one bits) then ("skip", obs = "skip", false, "enum,skip", None) else
  let render to_s from_s =
    let nm = to_s t v in
    let back = match nm with Some n -> (match from_s t n with Some k -> string_of_n k | None -> "none") | None -> "-" in
    let s = if field fs "s" = "2a" then
        let n = match nm with Some n -> string_of_name n | None -> "IMAGE_NONE" in
        (match field fs "p" with "0" -> n | "1" -> String.lowercase_ascii n | "2" -> String.sub n 0 (String.length n - 1) | _ -> n ^ " ")
      else string_of_name (nlist_of_hex (field fs "s")) in
    let parse = match from_s t (name_of_string s) with Some k -> string_of_n k | None -> "none" in
    Printf.sprintf "str=%s back=%s s=%s parse=%s" (match nm with Some n -> string_of_name n | None -> "none") back (hex_of_nlist (name_of_string s)) parse in
  let mobs = render enum_to_str enum_from_str in
  let sobs = render enum_to_str_spec enum_from_str_spec in
  (* round trip: a value with a name parses back to itself (the table is well formed) *)
  let ofs = if bang obs then [] else obs_fields obs in
  let rt = fget ofs "str" = "none" || fget ofs "back" = string_of_n v in
  (mobs, obs = sobs && enum_table_wf t && rt, true, "enum," ^ field fs "ty" ^ "," ^ (if enum_to_str t v = None then "unnamed" else "named"), None)

let handle kind fs obs =
  match kind with
  | "wfmt" -> handle_wfmt fs obs
  | "wwords" -> handle_wwords fs obs
  | "wbytes" -> handle_wbytes fs obs
  | "wfromstr" -> handle_wfromstr false fs obs
  | "wfromrep" -> handle_wfromstr true fs obs
  | "weq" -> handle_weq fs obs
  | "strn" -> handle_strn false fs obs
  | "wstrn" -> handle_strn true fs obs
  | "secname" -> handle_secname fs obs
  | "guid" -> handle_guid fs obs
  | "ptr32" | "ptr64" | "pir" -> handle_ptr kind fs obs
  | "flags" -> handle_flags fs obs
  | "flagtab" -> handle_flagtab fs obs
  | "enum" -> handle_enum fs obs
  | _ -> ("!unknown-kind", false, false, "unknown", None)
let () = run_driver handle
