(* C08 driver: export lookups.  The image is rebuilt from the case fields (image.ml), the model
   decodes the tables through Model/Views.v and answers every query; the oracle decodes the
   tables through the specification of slicing and judges the implementation's answers with the
   extracted Spec/ExportSpec.v functions. *)
let show_err = function
  | ENull -> "Null" | EBounds -> "Bounds" | EZeroFill -> "ZeroFill" | EUnmapped -> "Unmapped"
  | EMisaligned -> "Misaligned" | EBadMagic -> "BadMagic" | EPeMagic -> "PeMagic" | EInsanity -> "Insanity"
  | EInvalid -> "Invalid" | EOverflow -> "Overflow" | EEncoding -> "Encoding" | EAliasing -> "Aliasing"
let err_of_string = function
  | "Null" -> ENull | "Bounds" -> EBounds | "ZeroFill" -> EZeroFill | "Unmapped" -> EUnmapped
  | "Misaligned" -> EMisaligned | "BadMagic" -> EBadMagic | "PeMagic" -> EPeMagic | "Insanity" -> EInsanity
  | "Invalid" -> EInvalid | "Overflow" -> EOverflow | "Encoding" -> EEncoding | "Aliasing" -> EAliasing
  | s -> failwith ("error name " ^ s)
let show_fault = function
  | POverflow -> "overflow" | PIndex -> "index" | PSliceOrder -> "slice-order" | PCopyLen -> "copy-len"
  | PUnwrap -> "unwrap" | PAssert -> "assert" | UBOob -> "ub-oob" | UBAlign -> "ub-align" | OutOfFuel -> "out-of-fuel"
let show_r f = function Ok x -> f x | Err e -> "e" ^ show_err e | Fault x -> "!fault:" ^ show_fault x
let show_exp = show_r (function Symbol rva -> "S" ^ string_of_n rva | Forward s -> "F" ^ hex_of_nlist s)
let show_name = show_r (fun s -> "N" ^ hex_of_nlist s)
let show_imp = show_r (function ByName (h, s) -> Printf.sprintf "B%s.%s" (string_of_n h) (hex_of_nlist s) | ByOrdinal o -> "O" ^ string_of_n o)
let show_va = show_r (fun v -> "V" ^ string_of_n v)
let show_bool = show_r (fun b -> if b then "b1" else "b0")
let tail s = String.sub s 1 (String.length s - 1)
(* parse the implementation's answers back; anything unparsable is a Fault, which no spec value equals *)
let parse_r f s = if s = "" then Fault PAssert else match s.[0] with
  | 'e' -> (try Err (err_of_string (tail s)) with _ -> Fault PAssert)
  | _ -> (try f s with _ -> Fault PAssert)
let parse_exp = parse_r (fun s -> match s.[0] with
  | 'S' -> Ok (Symbol (n_of_string (tail s))) | 'F' -> Ok (Forward (nlist_of_hex (tail s))) | _ -> Fault PAssert)
let parse_name = parse_r (fun s -> if s.[0] = 'N' then Ok (nlist_of_hex (tail s)) else Fault PAssert)
let parse_imp = parse_r (fun s -> match s.[0] with
  | 'O' -> Ok (ByOrdinal (n_of_string (tail s)))
  | 'B' -> (match String.split_on_char '.' (tail s) with [h; x] -> Ok (ByName (n_of_string h, nlist_of_hex x)) | _ -> Fault PAssert)
  | _ -> Fault PAssert)
let parse_va = parse_r (fun s -> if s.[0] = 'V' then Ok (n_of_string (tail s)) else Fault PAssert)
let parse_bool = parse_r (function "b1" -> Ok true | "b0" -> Ok false | _ -> Fault PAssert)
let two s = match String.split_on_char '/' s with [a; b] -> (a, b) | _ -> ("", "")
let nlist s = List.map n_of_string (split_on ',' s)

let w32 = n_of_string "4294967296"
let w64 = n_of_string "18446744073709551616"

let handle kind fs obs =
  if kind <> "exports" then ("!unknown-kind", false, false, "unknown", None) else
  let img = image_of_fields fs in
  let get = mget_of img in
  let fmt64 = field fs "fmt" = "64" in
  let file = field fs "file" = "1" in
  let secs = List.map (fun s -> match String.split_on_char ':' s with
    | [a; b; c; d] -> { s_va = n_of_string a; s_vs = n_of_string b; s_prd = n_of_string c; s_srd = n_of_string d }
    | _ -> failwith "sec") (split_on ';' (field fs "secs")) in
  let v = { v_file = file; v_addr = n_of_int (4096 + int_of_string (field fs "place")); v_len = n_of_int (Bytes.length img);
            v_get = get; v_w = (if fmt64 then w64 else w32); v_base = n_of_string (match (try List.assoc "setbase" fs with Not_found -> "-") with "-" -> field fs "base" | sb -> sb);
            v_soh = n_of_string (field fs "soh"); v_soi = n_of_string (field fs "soi"); v_secs = secs } in
  let dd = (match field fs "dd" with "-" -> None | s -> (match String.split_on_char ':' s with
    | [a; b] -> Some (n_of_string a, n_of_string b) | _ -> failwith "dd")) in
  let qs = split_on ',' (field fs "q") in
  let tags = Hashtbl.create 16 in
  let tag t = Hashtbl.replace tags t () in
  tag (if file then "file" else "view"); tag (if fmt64 then "pe64" else "pe32");
  (* ---------------- model side ---------------- *)
  let cstr = view_cstr v in
  let mby = view_by v dd in
  let buf = Buffer.create 256 in
  let add s = (if Buffer.length buf > 0 then Buffer.add_char buf ' '); Buffer.add_string buf s in
  let faulted = ref None in
  let note_fault s = if !faulted = None && String.length s > 6 && String.sub s 0 6 = "!fault" then faulted := Some s in
  (match mby with
   | Ok t ->
     add "ex=ok by=ok";
     add (Printf.sprintf "base=%s/%s" (string_of_n t.t_base) (Z.to_string (Z.rem (z_of_n t.t_base) (Z.of_int 65536))));
     add ("f=" ^ join "," (List.map string_of_n t.t_funcs));
     add ("n=" ^ join "," (List.map string_of_n t.t_names));
     add ("i=" ^ join "," (List.map string_of_n t.t_idxs));
     add ("sorted=" ^ show_bool (check_sorted cstr t));
     add ("it=" ^ join "," (List.map show_exp (iter cstr t)));
     add ("itn=" ^ join "," (List.map (fun (n, e) -> show_name n ^ "/" ^ show_exp e) (iter_names cstr t)));
     add ("itni=" ^ join "," (List.map (fun (n, i) -> show_name n ^ "/" ^ string_of_n i) (iter_name_indices cstr t)))
   | Err e ->
     (* which of exports() / by() failed *)
     (match try_from (slice v) dd with
      | Ok _ -> add ("ex=ok by=e" ^ show_err e)
      | _ -> add ("ex=e" ^ show_err e ^ " by=-"))
   | Fault x -> add ("!fault:" ^ show_fault x));
  let gp r = let s = show_exp r ^ "/" ^ show_va (get_proc_address v r) in s in
  let mres = List.map (fun q ->
    let p = Array.of_list (String.split_on_char ':' q) in
    let n k = n_of_string p.(k) in
    let nm k = nlist_of_hex p.(k) in
    (* a C string given to Import::ByName ends at its first NUL *)
    let cut l = let rec go = function [] -> [] | x :: r -> if x = N0 then [] else x :: go r in go l in
    let s = (match p.(0), mby with
      (* get_export(key) = exports()?.by()?.<lookup>(key): the extracted Model/Exports.v get_export_* (theorems C08_no_fault_get_proc_address,
         C08_get_export_shape), not a recomposition in OCaml *)
      | "gpo", _ | "gpio", _ -> gp (get_export_ordinal v dd (n 1))
      | "gpn", _ -> gp (get_export_name v dd (nm 1))
      | "gpi", _ -> gp (get_export_import v dd (ByName (n 1, cut (nm 2))))
      | _, Err _ | _, Fault _ -> "x"
      | "ord", Ok t -> show_exp (ordinal cstr t (n 1))
      | "idx", Ok t -> show_exp (index cstr t (n 1))
      | "hint", Ok t -> show_exp (hint cstr t (n 1))
      | "lin", Ok t -> show_exp (name_linear cstr t (nm 1))
      | "name", Ok t -> show_exp (name cstr t (nm 1))
      | "noh", Ok t -> show_name (name_of_hint cstr t (n 1))
      | "hn", Ok t -> show_exp (hint_name cstr t (n 1) (nm 2))
      | "impn", Ok t -> show_exp (import_ cstr t (ByName (n 1, cut (nm 2))))
      | "impo", Ok t -> show_exp (import_ cstr t (ByOrdinal (n 1)))
      | "nl", Ok t -> show_imp (name_lookup cstr t (n 1))
      | _ -> "?") in
    s) qs in
  add "wrap=same";
  add ("r=" ^ join "," mres);
  let mobs = Buffer.contents buf in
  (* ---------------- oracle side: the implementation's observation against the Spec ---------------- *)
  let bang = String.length obs > 0 && obs.[0] = '!' in
  let nfail = ref 0 and nchecked = ref 0 in
  let why = ref [] in
  let check what b = incr nchecked; if not b then (incr nfail; why := what :: !why) in
  if not bang then begin
    let ofs = fields (String.split_on_char ' ' obs) in
    let ofield k = try List.assoc k ofs with Not_found -> "" in
    let scstr = cstr_spec v in
    let sby = by_spec v dd in
    let ires = Array.of_list (split_on ',' (ofield "r")) in
    check "query-count" (Array.length ires = List.length qs);
    (* the format-agnostic wrapper (src/wrap/exports.rs) answers exactly as the pe32 / pe64 implementation *)
    check "wrapper" (ofield "wrap" = "same");
    (* the outcome of exports()?.by()? *)
    let impl_by_ok = (ofield "ex" = "ok" && ofield "by" = "ok") in
    (match sby with
     | Ok st ->
       tag "by-ok";
       check "by" impl_by_ok;
       if impl_by_ok then begin
         let (b32, b16) = two (ofield "base") in
         let it = { t_funcs = nlist (ofield "f"); t_names = nlist (ofield "n"); t_idxs = nlist (ofield "i");
                    t_base = n_of_string b32; t_dva = st.t_dva; t_dsize = st.t_dsize } in
         check "tables" (tables_eqb it st);
         check "ordinal_base" (Z.equal (Z.of_string b16) (Z.rem (z_of_n st.t_base) (Z.of_int 65536)));
         let t = st in
         check "check_sorted" (rbool_eqb (parse_bool (ofield "sorted")) (check_sorted_spec scstr t));
         check "iter" (list_eqb rexp_eqb (List.map parse_exp (split_on ',' (ofield "it"))) (iter_spec scstr t));
         check "iter_names" (list_eqb (fun (a, b) (c, d) -> rname_eqb a c && rexp_eqb b d)
           (List.map (fun s -> let (a, b) = two s in (parse_name a, parse_exp b)) (split_on ',' (ofield "itn"))) (iter_names_spec scstr t));
         check "iter_name_indices" (list_eqb (fun (a, b) (c, d) -> rname_eqb a c && Z.equal (z_of_n b) (z_of_n d))
           (List.map (fun s -> let (a, b) = two s in (parse_name a, try n_of_string b with _ -> n_of_int (-1))) (split_on ',' (ofield "itni"))) (iter_name_indices_spec scstr t));
         if sortedb scstr t then tag "sorted" else tag "unsorted";
         if List.exists (fun r -> match r with Ok (Forward _) -> true | _ -> false) (iter_spec scstr t) then tag "forwarder";
         if List.exists (fun r -> match r with Err ENull -> true | _ -> false) (iter_spec scstr t) then tag "hole";
         if List.length t.t_names < List.length t.t_funcs then tag "fewer-names";
         if List.length t.t_names <> List.length t.t_idxs then tag "name-tables-differ"
       end
     | Err e ->
       tag ("by-" ^ show_err e);
       check "by-error" ((ofield "ex" = "e" ^ show_err e && ofield "by" = "-") || (ofield "ex" = "ok" && ofield "by" = "e" ^ show_err e))
     | Fault _ -> check "by-fault" false);
    List.iteri (fun k q ->
      let im = (try ires.(k) with _ -> "") in
      let p = Array.of_list (String.split_on_char ':' q) in
      let n j = n_of_string p.(j) in
      let nm j = nlist_of_hex p.(j) in
      let cut l = let rec go = function [] -> [] | x :: r -> if x = N0 then [] else x :: go r in go l in
      let lift f = (match sby with Ok t -> f t | Err e -> (fun r -> rexp_eqb r (Err e)) | Fault _ -> (fun _ -> false)) in
      (* get_export judged by the lookup's own rule, get_proc_address by proc_address_spec of the implementation's get_export *)
      let gpcheck what okf = (let (a, b) = two im in let r = parse_exp a in
        check what (okf r); check (what ^ "-va") (rN_eqb (parse_va b) (proc_address_spec v r));
        (match parse_va b with Ok _ -> tag "proc-address-ok" | _ -> ())) in
      match p.(0), sby with
      | "gpo", _ | "gpio", _ -> gpcheck p.(0) (lift (fun t r -> rexp_eqb r (ordinal_spec scstr t (n 1))))
      | "gpn", _ -> gpcheck "gpn" (lift (fun t r -> name_ok scstr t (nm 1) r))
      | "gpi", _ -> gpcheck "gpi" (lift (fun t r -> import_ok scstr t (ByName (n 1, cut (nm 2))) r))
      | _, Err _ | _, Fault _ -> check "no-by" (im = "x")
      | "ord", Ok t -> let s = ordinal_spec scstr t (n 1) in (match s with Ok _ -> tag "ordinal-ok" | _ -> ()); check "ordinal" (rexp_eqb (parse_exp im) s)
      | "idx", Ok t -> check "index" (rexp_eqb (parse_exp im) (index_spec scstr t (n 1)))
      | "hint", Ok t -> check "hint" (rexp_eqb (parse_exp im) (hint_spec scstr t (n 1)))
      | "lin", Ok t -> let s = name_linear_spec scstr t (nm 1) in (match s with Ok _ -> tag "name-linear-ok" | _ -> ()); check "name_linear" (rexp_eqb (parse_exp im) s)
      | "name", Ok t -> (match parse_exp im with Ok _ -> tag "name-ok" | _ -> ()); check "name" (name_ok scstr t (nm 1) (parse_exp im))
      | "noh", Ok t -> check "name_of_hint" (rname_eqb (parse_name im) (name_of_hint_spec scstr t (n 1)))
      | "hn", Ok t -> check "hint_name" (hint_name_ok scstr t (n 1) (nm 2) (parse_exp im))
      | "impn", Ok t -> check "import-name" (import_ok scstr t (ByName (n 1, cut (nm 2))) (parse_exp im))
      | "impo", Ok t -> check "import-ordinal" (import_ok scstr t (ByOrdinal (n 1)) (parse_exp im))
      | "nl", Ok t -> let s = name_lookup_spec scstr t (n 1) in (match s with Ok (ByName _) -> tag "name-lookup-byname" | _ -> ()); check "name_lookup" (rimp_eqb (parse_imp im) s)
      | _ -> check "unknown-query" false) qs
  end;
  if !why <> [] then tag ("fail-" ^ List.hd (List.rev !why));
  let taglist = String.concat "," (List.sort compare (Hashtbl.fold (fun k () acc -> k :: acc) tags [])) in
  let nontrivial = (match mby with Ok t -> t.t_funcs <> [] | _ -> false) in
  (mobs, (not bang) && !nfail = 0 && !nchecked > 0, nontrivial, taglist, None)

let () = run_driver handle
