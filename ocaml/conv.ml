(* conv.ml — textually included after `open <Model>`: conversions between the
   extracted Coq datatypes (positive, n, list, nat) and OCaml values, and the
   line protocol shared by all drivers. Trusted glue (see DESIGN.md §8). *)
let rec pos_of_z (z : Z.t) : positive =
  if Z.equal z Z.one then XH
  else if Z.testbit z 0 then XI (pos_of_z (Z.shift_right z 1))
  else XO (pos_of_z (Z.shift_right z 1))
let n_of_z (z : Z.t) : n = if Z.sign z <= 0 then N0 else Npos (pos_of_z z)
let rec z_of_pos (p : positive) : Z.t = match p with
  | XH -> Z.one
  | XO p -> Z.shift_left (z_of_pos p) 1
  | XI p -> Z.succ (Z.shift_left (z_of_pos p) 1)
let z_of_n (x : n) : Z.t = match x with N0 -> Z.zero | Npos p -> z_of_pos p
let n_of_int (i : int) : n = n_of_z (Z.of_int i)
let int_of_n (x : n) : int = Z.to_int (z_of_n x)
let n_of_string (s : string) : n = n_of_z (Z.of_string s)
let string_of_n (x : n) : string = Z.to_string (z_of_n x)
let nat_of_int (i : int) : nat = let rec go acc i = if i <= 0 then acc else go (S acc) (i - 1) in go O i
let int_of_nat (x : nat) : int = let rec go acc = function O -> acc | S m -> go (acc + 1) m in go 0 x

let hexval c = match c with
  | '0'..'9' -> Char.code c - 48 | 'a'..'f' -> Char.code c - 87 | 'A'..'F' -> Char.code c - 55
  | _ -> failwith "hex"
let bytes_of_hex (s : string) : int list =
  let s = if s = "-" then "" else s in
  let n = String.length s / 2 in
  List.init n (fun i -> hexval s.[2*i] * 16 + hexval s.[2*i+1])
let nlist_of_hex s = List.map n_of_int (bytes_of_hex s)
let hex_of_nlist (l : n list) : string =
  if l = [] then "-" else String.concat "" (List.map (fun b -> Printf.sprintf "%02x" (int_of_n b)) l)

let split_on c s = if s = "" || s = "-" then [] else String.split_on_char c s
let join c l = if l = [] then "-" else String.concat c l

(* key=value fields of a line *)
let fields (toks : string list) : (string * string) list =
  List.filter_map (fun t -> match String.index_opt t '=' with
    | Some i -> Some (String.sub t 0 i, String.sub t (i+1) (String.length t - i - 1))
    | None -> None) toks
let field fs k = try List.assoc k fs with Not_found -> failwith ("missing field " ^ k)

(* main loop: reads "CASE id kind k=v.." / "OBS id ..." pairs from stdin and
   calls [handle id kind casefields obsline], which returns
   (model_obs, oracle_ok, nontrivial, tags, known_class option) *)
let run_driver (handle : string -> (string*string) list -> string -> string * bool * bool * string * string option) =
  let cur = ref None in
  (try while true do
    let line = input_line stdin in
    match String.split_on_char ' ' line with
    | "CASE" :: id :: kind :: rest -> cur := Some (id, kind, fields rest)
    | "OBS" :: id :: rest ->
      (match !cur with
       | Some (cid, kind, fs) when cid = id ->
         let obs = String.concat " " rest in
         let (mobs, ok, nontriv, tags, cls) =
           (try handle kind fs obs with e -> ("!driver-exception:" ^ Printexc.to_string e, false, false, "exn", None)) in
         let agree = (mobs = obs) in
         Printf.printf "RES %s agree=%d oracle=%d nontrivial=%d tags=%s%s\n" id
           (if agree then 1 else 0) (if ok then 1 else 0) (if nontriv then 1 else 0) tags
           (match cls with Some c -> " class=" ^ c | None -> "");
         if not agree then Printf.printf "MODEL %s %s\n" id mobs;
         cur := None
       | _ -> ())
    | _ -> ()
  done with End_of_file -> ());
  flush stdout
