(* image.ml — textually included after conv.ml by drivers that take an image:
   rebuilds the buffer from  len= fill= hdr= pokes=  (see harness/src/pe.rs) *)
let pattern (fill : int) (i : int) : int =
  if fill = 0 then 0 else if fill = 0xFFFFFFFF then 0xFF else (((i + fill) * 0x9E3779B1) land 0xFFFFFFFF) lsr 24
let image_of_fields fs : Bytes.t =
  let len = int_of_string (field fs "len") in
  let fill = int_of_string (field fs "fill") in
  let b = Bytes.init len (fun i -> Char.chr (pattern fill i)) in
  let hdr = bytes_of_hex (field fs "hdr") in
  List.iteri (fun i x -> if i < len then Bytes.set b i (Char.chr x)) hdr;
  List.iter (fun p -> match String.split_on_char ':' p with
    | [o; h] -> let o = int_of_string o in
      List.iteri (fun k x -> if o + k < len then Bytes.set b (o + k) (Char.chr x)) (bytes_of_hex h)
    | _ -> failwith "poke") (split_on '/' (field fs "pokes"));
  b
(* image[i] as the model's  N -> N ; outside the buffer the value is irrelevant (0) *)
let mget_of (b : Bytes.t) : n -> n =
  let len = Bytes.length b in
  let tbl = Array.init 256 n_of_int in
  fun i -> let z = z_of_n i in
    if Z.fits_int z && Z.to_int z < len then tbl.(Char.code (Bytes.get b (Z.to_int z))) else N0
