(* C13 driver: version information *)
let whex (l : n list) : string = String.concat "" (List.map (fun x -> Printf.sprintf "%04x" (int_of_n x)) l)
let unwhex (s : string) : n list =
  List.init (String.length s / 4) (fun i -> n_of_int (int_of_string ("0x" ^ String.sub s (4*i) 4)))
let split2 c s = match String.index_opt s c with
  | Some i -> (String.sub s 0 i, String.sub s (i+1) (String.length s - i - 1))
  | None -> failwith ("split2 " ^ s)
let split_raw c s = if s = "" then [] else String.split_on_char c s

let parse_blocks (s : string) : vblock list =
  List.map (fun b ->
    let ty = String.sub b 0 2 and rest = String.sub b 2 (String.length b - 2) in
    let items = split_raw ';' rest in
    match ty with
    | "S/" -> BStrings (List.map (fun t ->
        match String.split_on_char '|' t with
        | key :: strs -> { vt_key = unwhex key; vt_strings = List.map (fun x -> let (k, v) = split2 ':' x in { vs_key = unwhex k; vs_value = unwhex v }) strs }
        | [] -> failwith "table") items)
    | "V/" -> BVars (List.map (fun x ->
        match String.split_on_char ':' x with
        | [k; v] -> { vv_key = unwhex k; vv_value = unwhex v; vv_odd = None }
        | [k; v; b] -> { vv_key = unwhex k; vv_value = unwhex v; vv_odd = (match unwhex b with [w] -> Some w | _ -> failwith "odd") }
        | _ -> failwith "var") items)
    | _ -> let (k, c) = split2 ':' rest in BOther (unwhex k, unwhex c)) (split_on ',' s)

let show_fixed = function Some f -> whex f | None -> "n"
let show_event = function
  | EvVersion (k, f) -> Printf.sprintf "V.%s.%s" (whex k) (show_fixed f)
  | EvFile k -> "F." ^ whex k
  | EvTable k -> "T." ^ whex k
  | EvString (k, v) -> Printf.sprintf "S.%s.%s" (whex k) (whex v)
  | EvVar (k, v) -> Printf.sprintf "R.%s.%s" (whex k) (whex v)
  | EvEnter d -> "E" ^ string_of_n d
  | EvExit d -> "X" ^ string_of_n d
let parse_fixed s = if s = "n" then None else Some (unwhex s)
let parse_event s =
  match s.[0] with
  | 'E' -> EvEnter (n_of_string (String.sub s 1 (String.length s - 1)))
  | 'X' -> EvExit (n_of_string (String.sub s 1 (String.length s - 1)))
  | c ->
    (match String.split_on_char '.' s with
     | ["V"; k; f] -> EvVersion (unwhex k, parse_fixed f)
     | ["F"; k] -> EvFile (unwhex k)
     | ["T"; k] -> EvTable (unwhex k)
     | ["S"; k; v] -> EvString (unwhex k, unwhex v)
     | ["R"; k; v] -> EvVar (unwhex k, unwhex v)
     | _ -> failwith ("event " ^ s))
let show_langs l = join ";" (List.map (fun (a, b) -> string_of_n a ^ ":" ^ string_of_n b) l)
let parse_lang s = let (a, b) = split2 ':' s in (n_of_string a, n_of_string b)
let parse_langs s = List.map parse_lang (split_on ';' s)
let show_val = function Some v -> "s" ^ whex v | None -> "n"
let parse_val s = if s = "n" then None else Some (unwhex (String.sub s 1 (String.length s - 1)))
let show_pairs l = String.concat "|" (List.map (fun (k, v) -> whex k ^ ":" ^ whex v) l)
let parse_pairs s = List.map (fun x -> let (k, v) = split2 ':' x in (unwhex k, unwhex v)) (split_raw '|' s)
let ints l = List.map int_of_n l
let show_dump (m : ((n * n) * (n list * n list) list) list) : string =
  let m = List.sort (fun ((a, b), _) ((c, d), _) -> compare (int_of_n a, int_of_n b) (int_of_n c, int_of_n d)) m in
  String.concat ";" (List.map (fun ((a, b), e) ->
    let e = List.sort (fun (k1, v1) (k2, v2) -> compare (ints k1, ints v1) (ints k2, ints v2)) e in
    String.concat "|" ((string_of_n a ^ ":" ^ string_of_n b) :: List.map (fun (k, v) -> whex k ^ ":" ^ whex v) e)) m)
let parse_dump s = List.map (fun t ->
  match String.split_on_char '|' t with
  | l :: kv -> (parse_lang l, List.map (fun x -> let (k, v) = split2 ':' x in (unwhex k, unwhex v)) kv)
  | [] -> failwith "dump") (split_raw ';' s)
let rec take_l n l = if n <= 0 then [] else match l with [] -> [] | x :: t -> x :: take_l (n-1) t
let is_fault = function Fault _ -> true | _ -> false
let show_err = function EMisaligned -> "Misaligned" | EInvalid -> "Invalid" | _ -> "Other"

let handle kind fs obs =
  if kind <> "vi" && kind <> "raw" then ("!unknown-kind", false, false, "unknown", None) else
  let off = n_of_string (field fs "off") in
  let mask = n_of_string (field fs "mask") in
  (* the bytes: given, or the Spec encoder's output with the case's corruptions applied *)
  let (bytes, expect) =
    if kind = "raw" then (nlist_of_hex (field fs "data"), None) else begin
      let tight = field fs "tight" = "1" in
      let vi = { vi_key = unwhex (field fs "key"); vi_fixed = unwhex (field fs "fixed"); vi_blocks = parse_blocks (field fs "blocks") } in
      let words = Array.of_list (List.map int_of_n (encode tight vi)) in
      let muts = split_on ',' (field fs "muts") in
      List.iter (fun m -> let (p, v) = split2 ':' m in let p = int_of_string p in
                  if p < Array.length words then words.(p) <- int_of_string v) muts;
      let bs = List.concat_map (fun w -> [w land 255; (w lsr 8) land 255]) (Array.to_list words) in
      let cut = int_of_string (field fs "cut") in
      let clean = muts = [] && cut >= List.length bs && vinfo_ok tight vi in
      (List.map n_of_int (take_l cut bs), if clean then Some vi else None)
    end in
  let queries = List.map (fun q -> let (l, k) = split2 '/' q in (parse_lang l, unwhex k)) (split_on ',' (field fs "q")) in
  (* ---- the model's observation ---- *)
  let data = hex_of_nlist bytes in
  let mobs =
    (match api_events false N0 off bytes with
     | Err e -> Printf.sprintf "data=%s tf=%s" data (show_err e)
     | Fault _ -> "!fault"
     | Ok ev ->
       let evm = if mask = N0 then Ok "=" else (match api_events false mask off bytes with Ok l -> Ok (join "," (List.map show_event l)) | _ -> Fault POverflow) in
       let fx = api_fixed false off bytes and tr = api_translation false off bytes in
       let qs = List.map (fun (l, k) -> (api_value false l k off bytes, api_strings false l off bytes)) queries in
       let fi = api_file_info false false off bytes and src = api_source_code false off bytes in
       (match evm, fx, tr, fi, src with
        | Ok evm, Ok fx, Ok tr, Ok fi, Ok src when List.for_all (fun (a, b) -> not (is_fault a) && not (is_fault b)) qs ->
          let qo = List.map (function (Ok v, Ok s) -> show_val v ^ "/" ^ show_pairs s | _ -> "?") qs in
          Printf.sprintf "data=%s tf=ok ev=%s evm=%s fx=%s tr=%s q=%s fi=%s/%s/%s src=%s" data (join "," (List.map show_event ev)) evm
            (show_fixed fx) (show_langs tr) (join "," qo) (show_fixed fi.fi_fixed) (show_langs fi.fi_langs) (show_dump fi.fi_strings)
            (if src = [] then "-" else whex src)
        | _ -> "!fault")) in
  (* ---- the oracle, on the implementation's observation ---- *)
  let bang = String.length obs > 0 && obs.[0] = '!' in
  let tags = ref [kind] in
  let ok = (not bang) && begin
    let ofs = fields (String.split_on_char ' ' obs) in
    let tf = field ofs "tf" in
    let aligned = (int_of_n off) mod 4 = 0 in
    if tf <> "ok" then (tags := "misaligned" :: !tags; tf = "Misaligned" && not aligned)
    else aligned && begin
      let ev = List.map parse_event (split_on ',' (field ofs "ev")) in
      let fx = parse_fixed (field ofs "fx") and tr = parse_langs (field ofs "tr") in
      let qo = List.map (fun s -> let (v, p) = split2 '/' s in (parse_val v, parse_pairs p)) (split_on ',' (field ofs "q")) in
      let (fifx, rest) = split2 '/' (field ofs "fi") in
      let (filangs, fidump) = split2 '/' rest in
      let dump = parse_dump fidump in
      let src = (let s = field ofs "src" in if s = "-" then [] else unwhex s) in
      (* (2) a well-formed resource is reported completely and unaltered *)
      let complete = (match expect with Some vi -> (tags := "clean" :: !tags; ev = events_of vi) | None -> (tags := "corrupt" :: !tags; true)) in
      (* (3) every query is its stated function of the reported events, and they agree with one another *)
      let q_ok = List.length qo = List.length queries && List.for_all2 (fun (l, k) (v, ps) ->
        v = spec_value l k ev && ps = spec_strings l ev
        && (not (wf_utf16 k) || v = None || dump_lookup dump l k = v)) queries qo in
      if List.exists (fun (v, _) -> v <> None) qo then tags := "value-found" :: !tags;
      complete && well_nested ev && fx = fixed_of ev && tr = translation_of [] ev && q_ok
      && parse_fixed fifx = fixed_of ev && parse_langs filangs = translation_of [] ev && dump_agrees ev dump
      && src = source_of ev
    end
  end in
  let nontrivial = (match api_events false N0 off bytes with Ok (_ :: _) -> true | _ -> false) in
  (mobs, ok, nontrivial, String.concat "," (List.rev !tags), None)
let () = run_driver handle
