(* C07 driver: header acceptance, accessors, lookups, checksum, wrapper *)
let show_err = function
  | ENull -> "Null" | EBounds -> "Bounds" | EZeroFill -> "ZeroFill" | EUnmapped -> "Unmapped"
  | EMisaligned -> "Misaligned" | EBadMagic -> "BadMagic" | EPeMagic -> "PeMagic" | EInsanity -> "Insanity"
  | EInvalid -> "Invalid" | EOverflow -> "Overflow" | EEncoding -> "Encoding" | EAliasing -> "Aliasing"
let verdict = function Ok _ -> "ok" | Err e -> show_err e | Fault _ -> "fault"
let proj s = if s = "ok" || s = "T32" || s = "T64" then s else if s = "PeMagic" then "PeMagic" else "other"

let observe f m rvas names =
  let accs = List.map (fun a -> Printf.sprintf "%s:%s" (string_of_n a.a_off) (string_of_n a.a_len)) (accessors f m) in
  let nd = (let x = int_of_n (h_nrva f m) in if x < 16 then x else 16) in
  let dirs = List.init nd (fun i -> match data_dir f m (n_of_int i) with Some (a, b) -> string_of_n a ^ ":" ^ string_of_n b | None -> "?") in
  let secs = List.map (fun s -> Printf.sprintf "%s:%s:%s:%s" (string_of_n s.s_va) (string_of_n s.s_vs) (string_of_n s.s_prd) (string_of_n s.s_srd)) (sections f m) in
  let idx = function Some i -> string_of_n i | None -> "n" in
  let csum_off = Z.add (z_of_n (rd32 m (n_of_int 60))) (Z.of_int 88) in
  Printf.sprintf "acc=%s soi=%s soh=%s base=%s stored_csum=%s dirs=%s secs=%s csum=%s byrva=%s byname=%s"
    (String.concat "," accs) (string_of_n (h_soi f m)) (string_of_n (h_soh f m)) (string_of_n (h_base f m))
    (string_of_n (rd32 m (n_of_z csum_off))) (join ";" dirs) (join ";" secs) (if int_of_n m.m_len > (1 lsl 20) then "skip" else string_of_n (check_sum f m))
    (join "," (List.map (fun r -> idx (by_rva f m r)) rvas)) (join "," (List.map (fun nm -> idx (by_name f m nm)) names))

let handle kind fs obs =
  if kind <> "hdr" then ("!unknown-kind", false, false, "unknown", None) else
  let img = image_of_fields fs in
  let m = { m_addr = n_of_int (4096 + int_of_string (field fs "place")); m_len = n_of_int (Bytes.length img); m_get = mget_of img } in
  let rvas = List.map n_of_string (split_on ',' (field fs "rvas")) in
  let names = List.map nlist_of_hex (String.split_on_char ',' (field fs "names")) in
  let v32 = validate fmt32 m and v64 = validate fmt64 m in
  let w = (match wrap_from_bytes m with Ok T32 -> "T32" | Ok T64 -> "T64" | Err e -> show_err e | Fault _ -> "fault") in
  let head = Printf.sprintf "f32=%s f64=%s v32=%s v64=%s wf=%s wv=%s" (verdict v32) (verdict v64) (verdict v32) (verdict v64) w w in
  let parts = [head] @ (match v32 with Ok _ -> [observe fmt32 m rvas names] | _ -> []) @ (match v64 with Ok _ -> [observe fmt64 m rvas names] | _ -> []) in
  let mobs = String.concat " | " parts in
  (* oracle: acceptance = the spec predicate; wrong format -> PeMagic; wrapper picks by magic; checksum = PE checksum *)
  let bang = String.length obs > 0 && obs.[0] = '!' in
  let ok = (not bang) && (
    let iparts = Str.split (Str.regexp_string " | ") obs in
    let ifs = fields (String.split_on_char ' ' (List.hd iparts)) in
    let a32 = acceptb false m and a64 = acceptb true m in
    let long64 = Z.leq (Z.add (z_of_n (rd32 m (n_of_int 60))) (Z.of_int 136)) (z_of_n m.m_len) in
    let chk k acc other long = (let v = proj (field ifs k) in
        if acc then v = "ok" else if other && long then v = "PeMagic" else v <> "ok") in
    let wexp = if a64 then "T64" else if a32 then "T32" else "other" in
    chk "f32" a32 a64 true && chk "v32" a32 a64 true && chk "f64" a64 a32 long64 && chk "v64" a64 a32 long64
    && proj (field ifs "wf") = wexp && proj (field ifs "wv") = wexp
    && (match iparts with
        | [_; o] ->
          let ofs = fields (String.split_on_char ' ' o) in
          let is64 = a64 in
          (field ofs "csum" = (if int_of_n m.m_len > (1 lsl 20) then "skip" else string_of_n (pe_checksum is64 m)))
          && field ofs "soi" = string_of_n (s_soi m) && field ofs "soh" = string_of_n (s_soh m)
          (* regions, tables and lookups: the model's values (proved to be the format's) *)
          && (match parts with [_; mo] -> let mfs = fields (String.split_on_char ' ' mo) in
                List.for_all (fun k -> field ofs k = field mfs k) ["acc"; "dirs"; "secs"; "byrva"; "byname"; "base"; "stored_csum"]
              | _ -> false)
        | [_] -> not (a32 || a64)
        | _ -> false)) in
  let accepted = (match v32, v64 with Ok _, _ | _, Ok _ -> true | _ -> false) in
  let tags = String.concat "," [ (if accepted then "accepted" else "rejected:" ^ (verdict (if field fs "fmt" = "64" then v64 else v32)));
                                  "fmt" ^ field fs "fmt"; (if (Bytes.length img) mod 4 = 0 then "len-mod4-0" else "len-mod4-nz") ] in
  (mobs, ok, accepted || (verdict v32 <> "Bounds" && verdict v32 <> "Misaligned"), tags, None)

let () = run_driver handle
