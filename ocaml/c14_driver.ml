(* C14 driver: model + oracle for relocation parsing and building *)
let show_block (b : block) =
  Printf.sprintf "%s:%s:%s:%s" (string_of_n b.b_off) (string_of_n b.b_va) (string_of_n b.b_sob)
    (join "," (List.map string_of_n b.b_words))
let show_blocks bs = join ";" (List.map show_block bs)
let show_pairs ps = join "," (List.map (fun (r, t) -> string_of_n r ^ ":" ^ string_of_n t) ps)
let parse_block s = match String.split_on_char ':' s with
  | [o; v; z; w] -> { b_off = n_of_string o; b_va = n_of_string v; b_sob = n_of_string z;
                      b_words = List.map n_of_string (split_on ',' w) }
  | _ -> failwith "block"
let parse_blocks s = List.map parse_block (split_on ';' s)
let parse_pairs s = List.map (fun p -> match String.split_on_char ':' p with
  | [r; t] -> (n_of_string r, n_of_string t) | _ -> failwith "pair") (split_on ',' s)
let show_fault = function
  | POverflow -> "POverflow" | PIndex -> "PIndex" | PSliceOrder -> "PSliceOrder" | PCopyLen -> "PCopyLen"
  | PUnwrap -> "PUnwrap" | PAssert -> "PAssert" | UBOob -> "UBOob" | UBAlign -> "UBAlign" | OutOfFuel -> "OutOfFuel"

let handle kind fs obs =
  let ofs = fields (String.split_on_char ' ' obs) in
  let bang = String.length obs > 0 && obs.[0] = '!' in
  match kind with
  | "parse" ->
    let data = nlist_of_hex (field fs "data") in
    (* the buffer sits [place] bytes behind a 16-aligned address: the checked twin (Model/Checked.v) takes the address of the
       directory, tests it like BaseRelocs::parse and checks every raw reference of the block walk against it *)
    let place = n_of_string (field fs "place") in
    let misaligned = (int_of_n place) mod 4 <> 0 in
    let mobs = (match reloc_parse_chk place data, fold_pairs_chk place data with
      | Ok bs, Ok flat -> Printf.sprintf "blocks=%s iter=%s fold=%s" (show_blocks bs) (show_pairs (flat_spec bs)) (show_pairs flat)
      | Fault f, _ | _, Fault f -> "!fault:" ^ show_fault f
      | Err EMisaligned, _ -> "!err Misaligned"
      | _ -> "!err") in
    (* oracle: a directory that is not dword aligned must be refused with Misaligned and nothing else; an aligned one must
       satisfy the statement of C14 - and the twin must agree with the unchecked model there (theorem C02_checked_reloc_parse) *)
    let twin_is_model = (match reloc_parse_chk place data, blocks data with
      | Ok a, Ok b -> a = b | Err EMisaligned, _ -> misaligned | _ -> false) in
    let ok = if misaligned then obs = "!err Misaligned" && twin_is_model else
      (not bang) && twin_is_model &&
      parse_ok data (parse_blocks (field ofs "blocks")) (parse_pairs (field ofs "iter")) (parse_pairs (field ofs "fold")) in
    let nb = (match blocks data with Ok bs -> List.length bs | _ -> 0) in
    (mobs, ok, nb >= 1, Printf.sprintf "parse,%sblocks%s" (if misaligned then "misaligned," else "")
       (if nb = 0 then "0" else if nb = 1 then "1" else if nb < 5 then "2-4" else "5+"), None)
  | "build" ->
    let rvas = List.map n_of_string (split_on ',' (field fs "rvas")) in
    let types = List.map n_of_string (split_on ',' (field fs "types")) in
    if not (build_pre rvas types) then ("!precondition", true, false, "build,outside-precondition", None) else
    let mobs = (match build rvas types with
      | Ok out -> (match blocks out, fold_pairs out with
          | Ok bs, Ok flat -> Printf.sprintf "out=%s blocks=%s flat=%s" (hex_of_nlist out) (show_blocks bs) (show_pairs flat)
          | _ -> "!reparse")
      | Fault f -> "!fault:" ^ show_fault f
      | Err _ -> "!err") in
    let ok = (not bang) &&
      build_ok rvas types (nlist_of_hex (field ofs "out")) (parse_blocks (field ofs "blocks")) (parse_pairs (field ofs "flat")) in
    (mobs, ok, rvas <> [], "build", None)
  | _ -> ("!unknown-kind", false, false, "unknown", None)

let () = run_driver handle
