(* C20 driver *)
let show_found (f : found) = Printf.sprintf "%s:%s:%s:%d" (string_of_n f.f_start) (string_of_n f.f_len) (string_of_n f.f_addr) (if f.f_nul then 1 else 0)
let parse_found s = match String.split_on_char ':' s with
  | [a; b; c; d] -> { f_start = n_of_string a; f_len = n_of_string b; f_addr = n_of_string c; f_nul = (d = "1") }
  | _ -> failwith "found"
(* kind "big": len zero bytes with [text] at offset [at].  The zeros around the text are NUL terminators of empty runs,
   which never qualify for thresholds >= 1, so the model is run on the window 00 text 00 00 placed at at-1 and its
   offsets are shifted back (the theorem C20_enumerate is about the whole buffer; this is its evaluation on a sparse one) *)
let handle_big fs obs =
  if obs = "!nomem" then (obs, true, false, "skipped-nomem", None) else
  let text = nlist_of_hex (field fs "text") in
  let at = n_of_string (field fs "at") in
  let c = { min_len = n_of_string (field fs "min"); min_len_nul = n_of_string (field fs "minnul"); strict = (field fs "strict" = "1") } in
  let base = n_of_string (field fs "base") in
  let shift = Z.pred (z_of_n at) in
  let window = (n_of_int 0) :: (text @ [n_of_int 0; n_of_int 0]) in
  let wbase = n_of_z (Z.rem (Z.add (z_of_n base) shift) (Z.shift_left Z.one 32)) in
  let spec = enumerate_spec c wbase window in
  let show (f : found) = Printf.sprintf "%s:%s:%s:%d" (Z.to_string (Z.add (z_of_n f.f_start) shift)) (string_of_n f.f_len) (string_of_n f.f_addr) (if f.f_nul then 1 else 0) in
  let mobs = Printf.sprintf "found=%s again=none" (join "," (List.map show spec)) in
  (mobs, mobs = obs, true, "big", None)
let handle kind fs obs =
  if kind = "big" then handle_big fs obs else
  if kind <> "strings" then ("!unknown-kind", false, false, "unknown", None) else
  let bytes = nlist_of_hex (field fs "data") in
  let c = { min_len = n_of_string (field fs "min"); min_len_nul = n_of_string (field fs "minnul"); strict = (field fs "strict" = "1") } in
  let base = n_of_string (field fs "base") in
  let spec = enumerate_spec c base bytes in
  let mobs = (match enumerate c base bytes with
    | Ok l -> Printf.sprintf "found=%s again=none" (join "," (List.map show_found l))
    | _ -> "!fault") in
  let bang = String.length obs > 0 && obs.[0] = '!' in
  let ok = (not bang) && (
    let ofs = fields (String.split_on_char ' ' obs) in
    founds_eqb (List.map parse_found (split_on ',' (field ofs "found"))) spec && field ofs "again" = "none") in
  let n = List.length spec in
  (mobs, ok, bytes <> [], Printf.sprintf "found%s,%s" (if n = 0 then "0" else if n < 3 then "1-2" else "3+") (if c.strict then "strict" else "lax"), None)
let () = run_driver handle
