(* C04 / C05 driver: address translation, slicing, typed reads *)
let prop = if Array.length Sys.argv > 1 then Sys.argv.(1) else "C04"
let show_err = function
  | ENull -> "Null" | EBounds -> "Bounds" | EZeroFill -> "ZeroFill" | EUnmapped -> "Unmapped"
  | EMisaligned -> "Misaligned" | EBadMagic -> "BadMagic" | EPeMagic -> "PeMagic" | EInsanity -> "Insanity"
  | EInvalid -> "Invalid" | EOverflow -> "Overflow" | EEncoding -> "Encoding" | EAliasing -> "Aliasing"
let err_of_string = function
  | "Null" -> ENull | "Bounds" -> EBounds | "ZeroFill" -> EZeroFill | "Unmapped" -> EUnmapped
  | "Misaligned" -> EMisaligned | "BadMagic" -> EBadMagic | "PeMagic" -> EPeMagic | "Insanity" -> EInsanity
  | "Invalid" -> EInvalid | "Overflow" -> EOverflow | "Encoding" -> EEncoding | "Aliasing" -> EAliasing
  | s -> failwith ("error name " ^ s)
let show_rn = function Ok x -> "ok:" ^ string_of_n x | Err e -> "e:" ^ show_err e | Fault _ -> "fault"
let show_rr = function Ok r -> Printf.sprintf "ok:%s:%s" (string_of_n r.r_off) (string_of_n r.r_len) | Err e -> "e:" ^ show_err e | Fault _ -> "fault"
(* parse an implementation result back *)
let parse_rn s = match String.split_on_char ':' s with
  | ["ok"; x] -> Ok (n_of_string x) | ["e"; e] -> Err (err_of_string e) | _ -> Fault PAssert
let parse_rr s = match String.split_on_char ':' s with
  | "ok" :: o :: l :: _ -> Ok { r_off = n_of_string o; r_len = n_of_string l } | ["e"; e] -> Err (err_of_string e) | _ -> Fault PAssert

let w32 = n_of_string "4294967296"
let w64 = n_of_string "18446744073709551616"

let handle kind fs obs =
  if kind <> "view" then ("!unknown-kind", false, false, "unknown", None) else
  let img = image_of_fields fs in
  let get = mget_of img in
  let fmt64 = field fs "fmt" = "64" in
  let file = field fs "file" = "1" in
  let secs = List.map (fun s -> match String.split_on_char ':' s with
    | [a; b; c; d] -> { s_va = n_of_string a; s_vs = n_of_string b; s_prd = n_of_string c; s_srd = n_of_string d }
    | _ -> failwith "sec") (split_on ';' (field fs "secs")) in
  let base = if field fs "setbase" <> "-" then n_of_string (field fs "setbase") else n_of_string (field fs "base") in
  (* the machine address only matters modulo the alignments tested: use the placement offset *)
  let v = { v_file = file; v_addr = n_of_int (4096 + int_of_string (field fs "place")); v_len = n_of_int (Bytes.length img);
            v_get = get; v_w = (if fmt64 then w64 else w32); v_base = base;
            v_soh = n_of_string (field fs "soh"); v_soi = n_of_string (field fs "soi"); v_secs = secs } in
  let qs = split_on ',' (field fs "q") in
  let bang = String.length obs > 0 && obs.[0] = '!' in
  let impl = if bang then [] else split_on ',' (field (fields (String.split_on_char ' ' obs)) "r") in
  let sl = slice v and rdv = read v in
  let sl_spec a m al = slice_spec v a m al in
  let rd_spec_opt a m al = read_spec v a m al in
  let value off size = le_value get off (nat_of_int size) in
  let c04 = (prop = "C04") in
  let nfail = ref 0 and ncounted = ref 0 and tags = Hashtbl.create 16 in
  let tag t = Hashtbl.replace tags t () in
  let model = List.mapi (fun i q ->
    let p = Array.of_list (String.split_on_char ':' q) in
    let n k = n_of_string p.(k) in
    let im = (try List.nth impl i with _ -> "!missing") in
    (* returns (model string, oracle verdict option: None = not this property's query / unconstrained) *)
    let (m, ok) = (match p.(0) with
      | "r2f" ->
        let r = rva_to_file_offset v.v_soh secs (n 1) in
        let chain = (match r with Ok fo -> show_rn (file_offset_to_rva v.v_soh secs fo) | _ -> "-") in
        let ok = (match String.split_on_char '|' im with
          | [a; c] -> resN_eqb (parse_rn a) (rva_to_file_offset_spec v.v_soh secs (n 1))
                      && inversion_ok v.v_soh secs (n 1) (parse_rn a) (if c = "-" then Fault PAssert else parse_rn c)
          | _ -> false) in
        (match r with Ok _ -> tag "r2f-ok" | Err EZeroFill -> tag "r2f-zerofill" | _ -> tag "r2f-err");
        (show_rn r ^ "|" ^ chain, if c04 && file then Some ok else None)
      | "f2r" ->
        let r = file_offset_to_rva v.v_soh secs (n 1) in
        let chain = (match r with Ok rva -> show_rn (rva_to_file_offset v.v_soh secs rva) | _ -> "-") in
        let ok = (match String.split_on_char '|' im with
          | [a; _] -> resN_eqb (parse_rn a) (file_offset_to_rva_spec v.v_soh secs (n 1)) | _ -> false) in
        (show_rn r ^ "|" ^ chain, if c04 && file then Some ok else None)
      | "sl" ->
        let r = sl (n 1) (n 2) (n 3) in
        (match r with Ok _ -> tag (if file then "slice-file-ok" else "slice-view-ok") | _ -> ());
        (show_rr r, if (c04 && file) || ((not c04) && not file) then Some (resR_eqb (parse_rr im) (sl_spec (n 1) (n 2) (n 3))) else None)
      | "rd" ->
        let r = rdv (n 1) (n 2) (n 3) in
        (show_rr r, if c04 then None else (match rd_spec_opt (n 1) (n 2) (n 3) with Some s -> Some (resR_eqb (parse_rr im) s) | None -> None))
      | "r2v" -> let r = rva_to_va v (n 1) in (show_rn r, if c04 then None else Some (resN_eqb (parse_rn im) (rva_to_va_spec v (n 1))))
      | "v2r" -> let r = va_to_rva v (n 1) in (show_rn r, if c04 then None else Some (resN_eqb (parse_rn im) (va_to_rva_spec v (n 1))))
      | "gsb" ->
        let i = int_of_string p.(1) in
        if i >= List.length secs then ("none", Some (im = "none")) else
        let s = List.nth secs i in
        let (a, z) = if file then (s.s_prd, s.s_srd) else (s.s_va, s.s_vs) in
        (show_rr (get_section_bytes v.v_len a z), if c04 then Some (resR_eqb (parse_rr im) (get_section_bytes_spec v.v_len a z)) else None)
      | "derva" | "vderva" ->
        let byva = p.(0) = "vderva" in
        let size = int_of_string p.(2) in
        let r = rd (if byva then rdv else sl) (n 1) (n 2) (n 2) in
        let show r = (match r with Ok rg -> Printf.sprintf "%s:%s" (show_rr r) (string_of_n (value rg.r_off size)) | _ -> show_rr r) in
        let spec = (if byva then (match rd_spec_opt (n 1) (n 2) (n 2) with Some (Ok rg) -> Some (Ok { r_off = rg.r_off; r_len = n 2 }) | Some e -> Some e | None -> None)
                    else (match sl_spec (n 1) (n 2) (n 2) with Ok rg -> Some (Ok { r_off = rg.r_off; r_len = n 2 }) | e -> Some e)) in
        (match r with Ok _ -> tag "typed-ok" | _ -> ());
        (show r, if c04 then None else (match spec with Some s -> Some (im = show s) | None -> None))
      | "copy" ->
        let size = int_of_string p.(2) in
        let r1 = rd_copy sl (n 1) (n 2) in
        let r2 = rd_copy sl (n 1) (n_of_int (3 * size)) in
        let s1 = (match r1 with Ok rg -> "ok:" ^ string_of_n (value rg.r_off size) | r -> show_rr r) in
        let s2 = (match r2 with Ok rg -> Printf.sprintf "ok:%s:%s:%s" (string_of_n (value rg.r_off size))
                      (string_of_n (value (n_of_int (int_of_n rg.r_off + size)) size)) (string_of_n (value (n_of_int (int_of_n rg.r_off + 2 * size)) size))
                    | r -> show_rr r) in
        let spec1 = (match sl_spec (n 1) (n 2) (n_of_int 1) with Ok rg -> "ok:" ^ string_of_n (value rg.r_off size) | r -> show_rr r) in
        let spec2 = (match sl_spec (n 1) (n_of_int (3 * size)) (n_of_int 1) with
                    | Ok rg -> Printf.sprintf "ok:%s:%s:%s" (string_of_n (value rg.r_off size))
                      (string_of_n (value (n_of_int (int_of_n rg.r_off + size)) size)) (string_of_n (value (n_of_int (int_of_n rg.r_off + 2 * size)) size))
                    | r -> show_rr r) in
        (s1 ^ "/" ^ s2, if c04 then None else Some (im = spec1 ^ "/" ^ spec2))
      | "arr" ->
        let r = rd_slice sl (n 1) (n 2) (n 2) (n 3) in
        let total = Z.mul (Z.of_string p.(2)) (Z.of_string p.(3)) in
        let spec = (if Z.geq total (z_of_n w64) then Err EOverflow else
                    match sl_spec (n 1) (n_of_z total) (n 2) with Ok rg -> Ok { r_off = rg.r_off; r_len = n_of_z total } | e -> e) in
        (show_rr r, if c04 then None else Some (resR_eqb (parse_rr im) spec))
      | "arrx" | "varrx" ->
        (* element types whose size is not their alignment ([u16;3], [u32;3], [u8;5], [u64;3]): arrx:addr:size:align:len *)
        let byva = p.(0) = "varrx" in
        let r = rd_slice (if byva then rdv else sl) (n 1) (n 2) (n 3) (n 4) in
        let total = Z.mul (Z.of_string p.(2)) (Z.of_string p.(4)) in
        let spec = (if Z.geq total (z_of_n w64) then Some (Err EOverflow) else
                    let pick = (if byva then rd_spec_opt (n 1) (n_of_z total) (n 3) else Some (sl_spec (n 1) (n_of_z total) (n 3))) in
                    match pick with Some (Ok rg) -> Some (Ok { r_off = rg.r_off; r_len = n_of_z total }) | Some e -> Some e | None -> None) in
        (match r with Ok _ -> tag "struct-array-ok" | _ -> ());
        (show_rr r, if c04 then None else (match spec with Some sp -> Some (resR_eqb (parse_rr im) sp) | None -> None))
      | "vcopy" ->
        (* deref_copy / deref_into: the VA twins of derva_copy / derva_into *)
        let size = int_of_string p.(2) in
        let r1 = rd_copy rdv (n 1) (n 2) in
        let s1 = (match r1 with Ok rg -> "ok:" ^ string_of_n (value rg.r_off size) | r -> show_rr r) in
        let spec1 = (match rd_spec_opt (n 1) (n 2) (n_of_int 1) with
                     | Some (Ok rg) -> Some ("ok:" ^ string_of_n (value rg.r_off size)) | Some r -> Some (show_rr r) | None -> None) in
        (s1, if c04 then None else (match spec1 with Some sp -> Some (im = sp) | None -> None))
      | "sent" | "vsent" ->
        let byva = p.(0) = "vsent" in
        let r = rd_slice_s get (if byva then rdv else sl) (n 1) (n 2) (n 2) (n 3) in
        let pz = (fun x -> Z.equal (z_of_n x) (z_of_n (n 3))) in
        let unconstrained = byva && rd_spec_opt (n 1) (n_of_int 0) (n 2) = None in
        let spec_sl a m al = (if byva then (match rd_spec_opt a m al with Some s -> s | None -> Err EBounds) else sl_spec a m al) in
        (match r with Ok _ -> tag "sentinel-ok" | Err EBounds -> tag "sentinel-missing" | _ -> ());
        (show_rr r, if c04 || unconstrained then None else Some (resR_eqb (parse_rr im) (slice_f_spec get spec_sl (n 1) (n 2) (n 2) pz)))
      | "cstr" | "vcstr" ->
        let byva = p.(0) = "vcstr" in
        let r = rd_c_str get (if byva then rdv else sl) (n 1) in
        let unconstrained = byva && rd_spec_opt (n 1) (n_of_int 0) (n_of_int 1) = None in
        let spec_sl a m al = (if byva then (match rd_spec_opt a m al with Some s -> s | None -> Err EBounds) else sl_spec a m al) in
        (match r with Ok _ -> tag "cstr-ok" | Err EEncoding -> tag "cstr-no-nul" | _ -> ());
        (show_rr r, if c04 || unconstrained then None else Some (resR_eqb (parse_rr im) (c_str_spec get spec_sl (n 1))))
      | _ -> ("?", None)) in
    (match ok with Some true -> incr ncounted | Some false -> incr ncounted; incr nfail | None -> ());
    (* queries the oracle has no verdict on (another property's query, or a point the spec leaves open) are still
       COMPARED: the model's own answer is printed, never the implementation's text *)
    ignore im; m) qs in
  tag (if file then "file" else "view"); tag (if fmt64 then "pe64" else "pe32");
  let mobs = if bang && impl = [] then "r=" ^ String.concat "," model else "r=" ^ String.concat "," model in
  let taglist = String.concat "," (Hashtbl.fold (fun k () acc -> k :: acc) tags []) in
  (mobs, (not bang) && !nfail = 0 && List.length impl = List.length qs, !ncounted > 0, taglist, None)

let () = run_driver handle
