(* C12 driver: resource tree traversal, lookup, fsck, icon- and cursor-group reassembly *)
let show_err = function
  | ENull -> "Null" | EBounds -> "Bounds" | EZeroFill -> "ZeroFill" | EUnmapped -> "Unmapped"
  | EMisaligned -> "Misaligned" | EBadMagic -> "BadMagic" | EPeMagic -> "PeMagic" | EInsanity -> "Insanity"
  | EInvalid -> "Invalid" | EOverflow -> "Overflow" | EEncoding -> "Encoding" | EAliasing -> "Aliasing"
let err_of_string = function
  | "Null" -> ENull | "Bounds" -> EBounds | "ZeroFill" -> EZeroFill | "Unmapped" -> EUnmapped
  | "Misaligned" -> EMisaligned | "BadMagic" -> EBadMagic | "PeMagic" -> EPeMagic | "Insanity" -> EInsanity
  | "Invalid" -> EInvalid | "Overflow" -> EOverflow | "Encoding" -> EEncoding | "Aliasing" -> EAliasing
  | s -> failwith ("error name " ^ s)
let sn = string_of_n
let lo = n_of_int 48

(* ---- printing (must equal the harness's text) ---- *)
let show_words ws = "w" ^ String.concat "." (List.map (fun w -> Printf.sprintf "%04x" (int_of_n w)) ws)
let show_name = function
  | NId id -> "i" ^ sn id
  | NWide ws -> show_words ws
  | NStr cs -> "s?"
let show_rname = function Ok n -> show_name n | Err e -> "x" ^ show_err e | Fault _ -> "!fault"
let show_ferr = function
  | FPe e -> "ePe." ^ show_err e | FBad8Path -> "eBad8Path" | FNotFound -> "eNotFound" | FNoRootPath -> "eNoRootPath"
  | FUnDataEntry -> "eUnDataEntry" | FUnDirectory -> "eUnDirectory"
let show_f show = function FOk a -> show a | FErr e -> show_ferr e | FFault _ -> "!fault"
let show_ent = function EDir o -> "D/" ^ sn o | EData o -> "F/" ^ sn o
let show_region r = Printf.sprintf "R/%s/%s" (sn r.r_off) (sn r.r_len)
let show_item (i : item) =
  let tgt = (match i.i_tgt with
    | TDir o -> "D/" ^ sn o
    | TData (o, b, sz, cp) ->
      Printf.sprintf "F/%s/%s/%s/%s" (sn o) (match b with Ok r -> sn r.r_off ^ "/" ^ sn r.r_len | Err e -> "e" ^ show_err e | Fault _ -> "!fault") (sn sz) (sn cp)
    | TBad (Err e) -> "X/" ^ show_err e
    | TBad _ -> "!fault") in
  Printf.sprintf "%s:%s:%s:%s:%d:%s" (sn i.i_lvl) (sn i.i_eoff) (if i.i_named then "n" else "i") (show_rname i.i_name) (if i.i_isdir then 1 else 0) tgt
let show_witem = function WItem i -> show_item i | WCut -> "cut" | WStop -> "stop"

(* ---- parsing the implementation's observation back ---- *)
let parse_words s =
  if s = "" then [] else List.map (fun w -> n_of_int (int_of_string ("0x" ^ w))) (String.split_on_char '.' s)
let utf8_decode (b : int list) : n list =
  let rec go = function
    | [] -> []
    | b0 :: r when b0 < 0x80 -> b0 :: go r
    | b0 :: b1 :: r when b0 land 0xE0 = 0xC0 -> (((b0 land 0x1F) lsl 6) lor (b1 land 0x3F)) :: go r
    | b0 :: b1 :: b2 :: r when b0 land 0xF0 = 0xE0 -> (((b0 land 0x0F) lsl 12) lor ((b1 land 0x3F) lsl 6) lor (b2 land 0x3F)) :: go r
    | b0 :: b1 :: b2 :: b3 :: r -> (((b0 land 0x07) lsl 18) lor ((b1 land 0x3F) lsl 12) lor ((b2 land 0x3F) lsl 6) lor (b3 land 0x3F)) :: go r
    | _ -> failwith "utf8" in
  List.map n_of_int (go b)
(* a query name:  i<dec> | w<words> | s<hex utf8> *)
let parse_qname (q : string) : name =
  let rest = String.sub q 1 (String.length q - 1) in
  match q.[0] with
  | 'i' -> NId (n_of_string rest)
  | 'w' -> NWide (parse_words rest)
  | _ -> NStr (utf8_decode (bytes_of_hex (if rest = "" then "-" else rest)))
let parse_rname (s : string) : name res =
  let rest = String.sub s 1 (String.length s - 1) in
  match s.[0] with
  | 'i' -> Ok (NId (n_of_string rest))
  | 'w' -> Ok (NWide (parse_words rest))
  | 'x' -> Err (err_of_string rest)
  | _ -> failwith "rname"
let parse_witem (s : string) : witem =
  if s = "cut" then WCut else if s = "stop" then WStop else
  match String.split_on_char ':' s with
  | [lvl; eoff; flag; nm; isdir; tgt] ->
    let t = (match String.split_on_char '/' tgt with
      | ["D"; o] -> TDir (n_of_string o)
      | ["F"; o; st; ln; sz; cp] -> TData (n_of_string o, Ok { r_off = n_of_string st; r_len = n_of_string ln }, n_of_string sz, n_of_string cp)
      | ["F"; o; e; sz; cp] -> TData (n_of_string o, Err (err_of_string (String.sub e 1 (String.length e - 1))), n_of_string sz, n_of_string cp)
      | ["X"; e] -> TBad (Err (err_of_string e))
      | _ -> failwith "target") in
    if flag <> "n" && flag <> "i" then failwith "flag";
    WItem { i_lvl = n_of_string lvl; i_eoff = n_of_string eoff; i_named = (flag = "n"); i_name = parse_rname nm; i_isdir = (isdir = "1"); i_tgt = t }
  | _ -> failwith "item"

let rec take n l = if n <= 0 then [] else match l with [] -> [] | x :: t -> x :: take (n-1) t
let starts_with p s = String.length s >= String.length p && String.sub s 0 (String.length p) = p

let handle kind fs obs =
  let bang = String.length obs > 0 && obs.[0] = '!' in
  let place = int_of_string (field fs "place") in
  let depth = int_of_string (field fs "depth") in
  let budget = n_of_string (field fs "budget") in
  (* the section *)
  let sec_res : rsec res =
    if kind = "pe" then begin
      let img = image_of_fields fs in
      pe_resources (n_of_int (65536 + place)) (n_of_int (Bytes.length img)) (mget_of img) (n_of_string (field fs "rva")) (n_of_string (field fs "size"))
    end else begin
      let b = Bytes.of_string (String.concat "" (List.map (fun x -> String.make 1 (Char.chr x)) (bytes_of_hex (field fs "sec")))) in
      Ok { rs_addr = n_of_int (4096 + place); rs_len = n_of_int (Bytes.length b); rs_get = mget_of b; rs_va = n_of_string (field fs "va") }
    end in
  if kind <> "res" && kind <> "pe" then ("!unknown-kind", false, false, "unknown", None) else
  match sec_res with
  | Err e -> let m = "res=e" ^ show_err e in (m, obs = m, false, "pe-noresources", None)
  | Fault _ -> ("!fault", false, false, "fault", None)
  | Ok s ->
  let qs = if kind = "pe" then ["f1"; "g:i3"; "g:i14"; "fr:i24:i1"; "p:1:233134"] else split_on ',' (field fs "q") in
  let rt = root s in
  let items = (match rt with Ok r -> fst (walk (nat_of_int depth) s r N0 budget) | _ -> []) in
  let show_unit_res = function Ok _ -> "ok" | Err e -> "e" ^ show_err e | Fault _ -> "!fault" in
  let and_then r f = (match r with FOk a -> f a | FErr e -> FErr e | FFault x -> FFault x) in
  let run_query (q : string) : string =
    let p = Array.of_list (String.split_on_char ':' q) in
    match p.(0) with
    | "g" -> (match rt with
        | Ok r -> let n = parse_qname p.(1) in
          Printf.sprintf "%s|%s|%s" (show_f show_ent (dir_get lo s r n)) (show_f (fun o -> "D/" ^ sn o) (get_dir lo s r n)) (show_f (fun o -> "F/" ^ sn o) (get_data lo s r n))
        | Err e -> "r" ^ show_err e | Fault _ -> "!fault")
    | "fr" -> let a = parse_qname p.(1) and b = parse_qname p.(2) in
      Printf.sprintf "%s|%s" (show_f (fun o -> "D/" ^ sn o) (find_resources lo s a b)) (show_f show_region (find_resource lo s a b))
    | "fx" -> show_f show_region (find_resource_ex lo s (parse_qname p.(1)) (parse_qname p.(2)) (parse_qname p.(3)))
    | "p" -> let parts = List.map (fun h -> utf8_decode (bytes_of_hex h)) (split_on '/' p.(2)) in
      let r = find_path lo s (p.(1) = "1") parts in
      Printf.sprintf "%s|%s|%s" (show_f show_ent r) (show_f (fun o -> "F/" ^ sn o) (and_then r as_data)) (show_f (fun o -> "D/" ^ sn o) (and_then r as_dir))
    | "f1" -> (match rt with
        | Ok r -> Printf.sprintf "%s|%s|%s" (show_f show_ent (first s r)) (show_f (fun o -> "F/" ^ sn o) (first_data s r)) (show_f (fun o -> "D/" ^ sn o) (first_dir s r))
        | Err e -> "r" ^ show_err e | Fault _ -> "!fault")
    | _ -> "?" in
  let show_group = show_f (fun (nm, g) -> Printf.sprintf "%s/%s/%s" (show_name nm) (sn g.r_off) (sn (g_count s g))) in
  let icons = take 40 (group_list s (n_of_int 14)) and cursors = take 40 (group_list s (n_of_int 12)) in
  let groups = take 4 (List.filter_map (function FOk (_, g) -> Some g | _ -> None) (icons @ cursors)) in
  let show_write g =
    let ents = List.map (fun e -> Printf.sprintf "%s/%s/%s" (sn (ge_id s e)) (sn (ge_bytes_in_res s e))
      (String.concat "." (String.split_on_char '/' (show_f show_region (g_image s g (ge_id s e)))))) (g_entries s g) in
    let (out, ok) = group_write s g in
    Printf.sprintf "%s|%s|%s|%s|%s" (sn g.r_off) (sn (g_type s g)) (join ";" ents) (if ok then "ok" else "err") (hex_of_nlist out) in
  let disp_ids = List.map n_of_string ["0"; "9"; "10"; "99"; "100"; "65535"; "65536"; "2147483647"; "2147483648"; "4294967295"]
    @ List.filter_map (fun q -> match String.split_on_char ':' q with
        | "g" :: n :: _ when String.length n > 0 && n.[0] = 'i' -> Some (n_of_string (String.sub n 1 (String.length n - 1)))
        | _ -> None) qs in
  let b2s b = if b then "1" else "0" in
  let show_disp id = let d = display_id id in
    Printf.sprintf "%s/%s%s%s" (hex_of_nlist d) (b2s (eq_string (NId id) d)) (b2s (name_eq (NStr d) (NId id))) (b2s (name_eq (NId id) (NStr d))) in
  (* the text Display for Resources writes (Model/ResourcesArt.v), UTF-8 encoded by the glue below *)
  let utf8_encode (cs : n list) : int list =
    List.concat_map (fun c -> let c = int_of_n c in
      if c < 0x80 then [c]
      else if c < 0x800 then [0xC0 lor (c lsr 6); 0x80 lor (c land 0x3F)]
      else if c < 0x10000 then [0xE0 lor (c lsr 12); 0x80 lor ((c lsr 6) land 0x3F); 0x80 lor (c land 0x3F)]
      else [0xF0 lor (c lsr 18); 0x80 lor ((c lsr 12) land 0x3F); 0x80 lor ((c lsr 6) land 0x3F); 0x80 lor (c land 0x3F)]) cs in
  let text_lines = display_text s in
  let text_bytes = utf8_encode (List.concat text_lines) in
  let show_text = Printf.sprintf "%d/%s" (List.length text_bytes) (String.concat "" (List.map (Printf.sprintf "%02x") (take 4096 text_bytes))) in
  let mobs = Printf.sprintf "root=%s walk=%s fsck=%s lines=%s q=%s man=%s ver=%s icons=%s cursors=%s grp=%s disp=%s text=%s"
    (match rt with Ok r -> "ok:" ^ sn r | Err e -> "e" ^ show_err e | Fault _ -> "!fault")
    (join "," (List.map show_witem items)) (show_unit_res (fsck s)) (sn (display_lines s))
    (join "," (List.map run_query qs)) (show_f show_region (manifest s)) (show_f (fun _ -> "ok") (version_info s))
    (join "," (List.map show_group icons)) (join "," (List.map show_group cursors)) (join "," (List.map show_write groups))
    (join "," (List.map show_disp disp_ids)) show_text in
  (* ---------------- oracle, on the implementation's observation ---------------- *)
  let tags = ref [] in
  let tag t = if not (List.mem t !tags) then tags := t :: !tags in
  let why = ref [] in
  let chk name b = if not b then why := name :: !why in
  tag kind;
  (if bang then chk "fault" false else begin
    let ofs = fields (String.split_on_char ' ' obs) in
    let iroot = field ofs "root" and iwalk = field ofs "walk" and ifsck = field ofs "fsck" in
    let oitems = List.map parse_witem (split_on ',' iwalk) in
    let root_ok = starts_with "ok:" iroot in
    tag (if root_ok then "root-ok" else "root-err");
    (* A: the writer's own tree *)
    let exp = if kind = "res" then field fs "exp" else "-" in
    if exp <> "-" || (kind = "res" && field fs "exp" = "-" && false) then begin
      tag "expected-tree";
      if place mod 4 = 0 then chk "walk<>writer's tree" (root_ok && iwalk = exp)
    end;
    (* B: what the consistency check must say *)
    (match (if kind = "res" then field fs "expfsck" else "-") with
     | "ok" -> tag "fsck-must-pass"; chk "fsck rejects a well-formed tree" (ifsck = "ok")
     | "err" -> tag "fsck-must-fail"; chk "fsck accepts a broken tree" (ifsck <> "ok")
     | _ -> ());
    (* the printed text is compared with Model/ResourcesArt.v byte by byte (field text= of the projected observation);
       no separate oracle: a stored name may itself contain line feeds, so the text alone does not determine its lines *)
    (match String.split_on_char '/' (try List.assoc "text" ofs with Not_found -> "-") with
     | [ln; _] -> tag (if int_of_string ln <= 4096 then "text-compared" else "text-compared-prefix")
     | _ -> ());
    (* H: Display / eq round trip (C12_display_roundtrip, C12_display_is_decimal): '#' + the decimal digits, equal all three ways *)
    let idisp = split_on ',' (field ofs "disp") in
    chk "display/eq round trip" (List.length idisp = List.length disp_ids &&
      List.for_all2 (fun id d -> d = hex_of_nlist (List.map (fun c -> n_of_int (Char.code c)) (List.of_seq (String.to_seq ("#" ^ sn id)))) ^ "/111") disp_ids idisp);
    if root_ok then begin
      (* C: every reported item is what the bytes say; entries at off+16+8i, named first *)
      chk "reported traversal is not what the bytes denote" (iroot = "ok:0" && walk_sound s oitems);
      let full = complete oitems in
      tag (if full then "walk-complete" else "walk-limited");
      (* D: fsck = everything reachable is valid, when the observer had fsck's own limits *)
      if depth = 32 && sn budget = sn (fsck_budget s) then begin
        (* how close the case comes to the two limits (depth 32, len/8 entries) *)
        let nitems = List.length (List.filter (function WItem _ -> true | _ -> false) oitems) in
        let maxlvl = List.fold_left (fun m -> function WItem i -> max m (int_of_n i.i_lvl) | _ -> m) (-1) oitems in
        let b = int_of_n budget in
        if List.mem WCut oitems then tag "limit:nested-33-or-more" else if maxlvl = 31 then tag "limit:nested-32" else if maxlvl = 30 then tag "limit:nested-31";
        if List.mem WStop oitems then tag "limit:entries-over-budget" else if nitems = b && b > 0 then tag "limit:entries=budget" else if nitems + 1 = b then tag "limit:entries=budget-1";
        let clean = items_clean oitems in
        tag (if clean then "clean" else "unclean");
        chk "fsck disagrees with the traversal" ((ifsck = "ok") = clean)
      end;
      (* E: lookups = first matching entry of the traversal *)
      if full then begin
        let iq = Array.of_list (split_on ',' (field ofs "q")) in
        List.iteri (fun k q ->
          let got = (try iq.(k) with _ -> "!missing") in
          let g = Array.of_list (String.split_on_char '|' got) in
          let p = Array.of_list (String.split_on_char ':' q) in
          let part i = (try g.(i) with _ -> "!missing") in
          let as_data_s r = and_then r as_data and as_dir_s r = and_then r as_dir in
          match p.(0) with
          | "g" ->
            let r = t_get_ent N0 oitems (parse_qname p.(1)) in
            (match r with FOk _ -> tag "get-found" | _ -> tag "get-notfound");
            chk ("get " ^ q) (part 0 = show_f show_ent r && part 1 = show_f (fun o -> "D/" ^ sn o) (as_dir_s r) && part 2 = show_f (fun o -> "F/" ^ sn o) (as_data_s r))
          | "fr" ->
            let r = t_find_resource oitems (parse_qname p.(1)) (parse_qname p.(2)) in
            (match r with FOk _ -> tag "find_resource-found" | _ -> ());
            chk ("find_resource " ^ q) (part 1 = show_f show_region r)
          | "fx" ->
            let r = t_find_resource_ex oitems (parse_qname p.(1)) (parse_qname p.(2)) (parse_qname p.(3)) in
            (match r with FOk _ -> tag "find_resource_ex-found" | _ -> ());
            chk ("find_resource_ex " ^ q) (part 0 = show_f show_region r)
          | "p" ->
            let parts = List.map (fun h -> utf8_decode (bytes_of_hex h)) (split_on '/' p.(2)) in
            let r = if p.(1) = "1" then t_find_parts N0 (FOk (EDir N0)) (Some oitems) parts
                    else (if parts = [] then FErr FNotFound else FErr FNoRootPath) in
            (match r with FOk _ -> tag "path-found" | _ -> ());
            chk ("find " ^ q) (part 0 = show_f show_ent r && part 1 = show_f (fun o -> "F/" ^ sn o) (as_data_s r) && part 2 = show_f (fun o -> "D/" ^ sn o) (as_dir_s r))
          | "f1" ->
            let r = (match t_first N0 oitems with FOk k -> tgt_ent (fst k).i_tgt | FErr e -> FErr e | FFault f -> FFault f) in
            chk "first" (part 0 = show_f show_ent r)
          | _ -> ()) qs;
        (* the helpers: manifest(), icons(), cursors() read off the listing (C12_lookups_on_traversal) *)
        let man = t_manifest oitems in
        (match man with FOk _ -> tag "manifest-found" | _ -> ());
        chk "manifest" (field ofs "man" = (match man with
          | FOk rg -> if utf8_valid (sec_bytes s rg.r_off rg.r_len) then show_region rg else "ePe.Encoding"
          | FErr e -> show_ferr e | FFault _ -> "!fault"));
        let exp_groups ty = join "," (List.map (function
          | FOk (nm, rg) -> (match group_new s rg with
              | Ok g -> Printf.sprintf "%s/%s/%s" (show_name nm) (sn g.r_off) (sn (g_count s g))
              | Err e -> "ePe." ^ show_err e | Fault _ -> "!fault")
          | FErr e -> show_ferr e | FFault _ -> "!fault") (take 40 (t_groups oitems (n_of_int ty)))) in
        (if t_groups oitems (n_of_int 14) <> [] then tag "icons-listed");
        chk "icons" (field ofs "icons" = exp_groups 14);
        chk "cursors" (field ofs "cursors" = exp_groups 12);
        let ver = t_find_resource oitems (NId (n_of_int 16)) (NId (n_of_int 1)) in
        (match ver with
         | FOk rg -> tag "version-found";
           chk "version_info" (field ofs "ver" = (if (4096 + place + int_of_n rg.r_off) mod 4 = 0 then "ok" else "ePe.Misaligned"))
         | FErr e -> chk "version_info" (field ofs "ver" = show_ferr e)
         | _ -> ())
      end;
      (* F: the original .ico is reproduced *)
      let igrp = split_on ',' (field ofs "grp") in
      let ico = if kind = "res" then field fs "ico" else "-" in
      if ico <> "-" then begin
        tag "ico-roundtrip";
        chk "write does not reproduce the .ico" (List.exists (fun g -> match String.split_on_char '|' g with
          | [_; "1"; _; "ok"; h] -> h = ico | _ -> false) igrp)
      end;
      (* F (cursors): the original .cur - written by the harness's independent .cur writer, then stored the way a resource
         compiler stores it (RT_GROUP_CURSOR entries with 16-bit sizes, hotspot in front of every RT_CURSOR) - is reproduced *)
      let cur = if kind = "res" then (try List.assoc "cur" fs with Not_found -> "-") else "-" in
      if cur <> "-" then begin
        tag "cur-roundtrip";
        chk "write does not reproduce the .cur" (List.exists (fun g -> match String.split_on_char '|' g with
          | [_; "2"; _; "ok"; h] -> h = cur | _ -> false) igrp)
      end;
      (* G: write = the file of the observed pieces when the sizes agree.
         icon groups (C12_group_write_ico): Ico.encode of the first 12 bytes of every entry and the resources;
         cursor groups (C12_group_write_cur_pieces): Cur.encode_file of the cursor images that the 14-byte entries and the
         resources denote (Cur.of_resources) - every resource at least as long as the hotspot *)
      List.iter (fun g -> match String.split_on_char '|' g with
        | [hoff; ty; ents; st; h] ->
          let es = List.map (fun e -> Array.of_list (String.split_on_char '/' e)) (split_on ';' ents) in
          let hoff = int_of_string hoff in
          let cursor = (ty = "2") in
          let ok_all = List.for_all (fun e -> match String.split_on_char '.' e.(2) with
            | ["R"; _; ln] -> ln = e.(1) && (not cursor || int_of_string ln >= 4) | _ -> false) es in
          if ok_all && st = "ok" then begin
            tag (if cursor then "write-consistent-cursor-group" else "write-consistent-group");
            let piece e = (match String.split_on_char '.' e.(2) with
              | ["R"; st; ln] -> sec_bytes s (n_of_string st) (n_of_string ln)
              | _ -> failwith "img") in
            if cursor then begin
              let c = of_resources (List.mapi (fun k _ -> sec_bytes s (n_of_int (hoff + 6 + 14 * k)) (n_of_int 14)) es) (List.map piece es) in
              if es <> [] then tag "cursor-images";
              chk "write <> Cur.encode_file" (h = hex_of_nlist (encode_file c))
            end else begin
              let imgs = List.mapi (fun k e -> { ii_head = sec_bytes s (n_of_int (hoff + 6 + 14 * k)) (n_of_int 12); ii_data = piece e }) es in
              chk "write <> Ico.encode" (h = hex_of_nlist (ico_encode (n_of_int 1) imgs))
            end
          end else begin
            tag (if st = "ok" then "write-mismatched-group" else "write-error");
            (* a cursor entry cannot be written without its hotspot: a missing or short resource is an error, never a file *)
            if cursor && st = "ok" then
              chk "cursor group written although a resource is missing or shorter than its hotspot" (List.for_all (fun e ->
                match String.split_on_char '.' e.(2) with ["R"; _; ln] -> int_of_string ln >= 4 && int_of_string e.(1) >= 4 | _ -> false) es)
          end
        | _ -> chk "grp syntax" false) igrp
    end else begin
      (* the root is rejected: everything reports that error *)
      chk "fsck on a rejected root" (ifsck = iroot)
    end
  end);
  let ok = (!why = []) in
  let nontriv = (match rt with Ok _ -> items <> [] | _ -> false) in
  if not ok then tag ("why:" ^ String.concat "+" (List.map (fun w -> String.concat "_" (String.split_on_char ' ' (String.concat "" (String.split_on_char ',' w)))) (take 2 (List.rev !why))));
  (mobs, ok, nontriv, String.concat "," (List.rev !tags), None)
let () = run_driver handle
