(* C10 driver: Matches::next / Scanner::finds on a view, and the oracle of Spec/ScanSpec.v on the observed run *)
let parse_atom t = match String.split_on_char ':' t with
  | [name] | [name; _] as l ->
    let a = (match l with [_; x] -> n_of_string x | _ -> N0) in
    (match name with
     | "Byte" -> Byte a | "Save" -> Save a | "Push" -> Push a | "Pop" -> Pop | "Fuzzy" -> Fuzzy a | "Skip" -> Skip a | "Back" -> Back a
     | "Rangext" -> Rangext a | "Many" -> Many a | "Jump1" -> Jump1 | "Jump4" -> Jump4 | "Ptr" -> Ptr | "Pir" -> Pir a | "VTypeName" -> VTypeName
     | "Check" -> Check a | "Aligned" -> Aligned a | "ReadI8" -> ReadI8 a | "ReadU8" -> ReadU8 a | "ReadI16" -> ReadI16 a | "ReadU16" -> ReadU16 a
     | "ReadI32" -> ReadI32 a | "ReadU32" -> ReadU32 a | "Zero" -> Zero a | "Case" -> Case a | "Break" -> Break a | _ -> Nop)
  | _ -> failwith "atom"
let w32 = n_of_string "4294967296"
let w64 = n_of_string "18446744073709551616"
let fill = n_of_string "1431655765"
let saves l = join "," (List.map string_of_n l)
let parse_saves s = List.map n_of_string (split_on ',' s)

exception Model_fault

let handle kind fs obs =
  if kind <> "scan" then ("!unknown-kind", false, false, "unknown", None) else
  let img = image_of_fields fs in
  let get = mget_of img in
  let fmt64 = field fs "fmt" = "64" in
  let file = field fs "file" = "1" in
  let secs = List.map (fun s -> match String.split_on_char ':' s with
    | [a; b; c; d] -> { s_va = n_of_string a; s_vs = n_of_string b; s_prd = n_of_string c; s_srd = n_of_string d } | _ -> failwith "sec") (split_on ';' (field fs "secs")) in
  let v = { v_file = file; v_addr = n_of_int 4096; v_len = n_of_int (Bytes.length img); v_get = get;
            v_w = (if fmt64 then w64 else w32); v_base = n_of_string (field fs "base");
            v_soh = n_of_string (field fs "soh"); v_soi = n_of_string (field fs "soi"); v_secs = secs } in
  let atoms = List.map parse_atom (split_on ',' (field fs "atoms")) in
  let rstart = n_of_string (field fs "rstart") and rend = n_of_string (field fs "rend") in
  let slots = int_of_string (field fs "slots") in
  let maxn = int_of_string (field fs "maxn") in
  let bang = String.length obs > 0 && obs.[0] = '!' in
  let ctor = String.length obs >= 5 && String.sub obs 0 5 = "!ctor" in
  let qs = setup atoms in
  let qslen = List.length qs in
  let strat = if qslen = 0 then "s0" else if qslen < 4 then "s1" else "s2" in
  let reads_saves = List.exists (function Check _ | Pir _ -> true | _ -> false) atoms in
  let starts_save0 = (match atoms with Save N0 :: _ -> true | _ -> false) in
  let cls = if sections_not_sorted v then Some "sections_not_sorted" else None in
  let tags = Printf.sprintf "%s,%s,%s,%s%s" strat (if file then "file" else "mapped") (if fmt64 then "pe64" else "pe32")
      (if z_of_n rend < z_of_n rstart then "reversed" else if rstart = rend then "empty" else "range")
      (if reads_saves then ",reads-saves" else "") in
  if ctor then (obs, true, false, "outside-precondition", None) else
  let ofs = if bang then [] else fields (String.split_on_char ' ' obs) in
  let xpart = if bang then "-" else field ofs "X" in
  (* ---- model side: the same sequence of calls ---- *)
  let mobs = (try
    let fresh () = List.init slots (fun _ -> fill) in
    let recs = ref [] in
    let st = ref (matches rstart rend) and save = ref (fresh ()) in
    let falses = ref 0 and k = ref 0 in
    while !k < maxn && !falses < 2 do
      incr k;
      (match next v atoms !st !save with
       | Ok ((ok, st'), save') ->
         st := st'; save := save';
         let base = Printf.sprintf "%d:%s:%s:%s" (if ok then 1 else 0) (string_of_n st'.m_start) (string_of_n st'.m_hits) (saves save') in
         let extra = if ok && slots > 0 then
             (match view_exec v atoms (List.hd save') (fresh ()) with
              | Ok (fok, fs') -> Printf.sprintf ":%d:%s" (if fok then 1 else 0) (saves fs')
              | _ -> raise Model_fault)
           else ":-:-" in
         recs := (base ^ extra) :: !recs;
         if not ok then incr falses
       | _ -> raise Model_fault)
    done;
    let fpart = (match finds v atoms rstart rend (fresh ()) with
      | Ok (f, s) -> Printf.sprintf "%d:%s" (if f then 1 else 0) (saves s)
      | _ -> raise Model_fault) in
    (* X: the positions of the sweep windows (clipped to the range, as the harness clips them) at which the MODEL's exec
       succeeds - recomputed, never copied from the observation *)
    let xmodel =
      if bang then "-" else begin
        let wins = List.map (fun w -> match String.split_on_char ':' w with [a; b] -> (Z.of_string a, Z.of_string b) | _ -> failwith "win") (split_on ';' (field fs "wins")) in
        let rs = z_of_n rstart and re = z_of_n rend in
        let tbl = Hashtbl.create 1024 in
        List.iter (fun (lo, hi) ->
          let lo = Z.max lo rs in
          let hi = Z.min (Z.min hi re) (Z.add lo (Z.of_int 0x4000)) in
          let c = ref lo in
          while Z.lt !c hi do Hashtbl.replace tbl (Z.to_int !c) (); c := Z.succ !c done) wins;
        let pos = List.sort compare (Hashtbl.fold (fun k () acc -> k :: acc) tbl []) in
        let hits = List.filter (fun c -> match view_exec v atoms (n_of_int c) (fresh ()) with Ok (true, _) -> true | Ok (false, _) -> false | _ -> raise Model_fault) pos in
        if hits = [] then "-" else String.concat "," (List.map string_of_int hits)
      end in
    Printf.sprintf "m=%s end=%s finds=%s X=%s" (String.concat "/" (List.rev !recs)) (string_of_n !st.m_end) fpart xmodel
  with Model_fault -> "!model-fault") in
  (* ---- oracle on the implementation's observation ---- *)
  let sound_rest = ref false in
  let ok = (not bang) && (try
    let recs = List.map (fun r -> Array.of_list (String.split_on_char ':' r)) (String.split_on_char '/' (field ofs "m")) in
    let trues = List.filter (fun r -> r.(0) = "1") recs in
    let complete = List.exists (fun r -> r.(0) = "0") recs in
    let xs = parse_saves xpart in
    let wins = List.map (fun w -> match String.split_on_char ':' w with [a; b] -> (n_of_string a, n_of_string b) | _ -> failwith "win") (split_on ';' (field fs "wins")) in
    let after = List.map (fun r -> n_of_string r.(1)) trues in
    let w = window atoms in
    let positional = starts_save0 && slots > 0 in
    let reported = if positional then List.map (fun r -> List.hd (parse_saves r.(3))) trues else [] in
    let o1 = (not positional) || reads_saves ||
             scan_oracle v w rstart rend wins reported after xs complete in
    (* captures: the slots written by a fresh execution at the reported position *)
    let o2 = (not positional) || reads_saves ||
             List.for_all (fun r -> r.(4) = "1" && captures_ok fill (parse_saves r.(3)) (parse_saves r.(5))) trues in
    (* without positions (no save slot 0): the number of reports still has to be the number of obliged positions at least *)
    let o3 = reads_saves || positional || (not complete) ||
             List.length trues >= List.length (List.filter (fun c -> must_report v w rstart rend c) xs) in
    (* finds *)
    let fpart = String.split_on_char ':' (field ofs "finds") in
    let fres = (List.nth fpart 0 = "1") and fsave = parse_saves (List.nth fpart 1) in
    let first_save = (match recs with r :: _ -> parse_saves r.(3) | [] -> []) in
    let o4 = reads_saves || finds_oracle (n_of_int (List.length trues)) complete fres first_save fsave in
    (* range.end never changes, range.start never moves backwards *)
    let o5 = field ofs "end" = field fs "rend" in
    (* the known class sections_not_sorted (F28) is about COMPLETENESS only: positions in a section listed after one
       with a higher address are skipped.  It excuses a failure only when everything else holds: the reports are
       sound (ascending, inside the range, positions where exec succeeds, range.start beyond each), the captures are
       those of the execution, and range.end is unchanged *)
    let sound = (not positional) || reads_saves ||
                (ascending reported
                 && List.for_all (fun c -> z_of_n rstart <= z_of_n c && z_of_n c < z_of_n rend && ((not (in_wins wins c)) || memN c xs)) reported
                 && advances reported after) in
    sound_rest := sound && o2 && o5;
    o1 && o2 && o3 && o4 && o5
  with _ -> false) in
  let nontriv = (not bang) && (String.length obs > 4 && String.sub obs 0 4 = "m=1:") in
  let cls = if ok || !sound_rest then cls else None in
  (mobs, ok, nontriv || bang, tags ^ (if nontriv then ",match" else ",nomatch"), cls)
let () = run_driver handle
