(* C03 component driver: CStr Debug/Display escape loops *)
let handle kind fs obs =
  if kind <> "cstr" then ("!unknown-kind", false, false, "unknown", None) else
  let bytes = nlist_of_hex (field fs "data") in
  let show r = match r with Ok l -> hex_of_nlist l | _ -> "!fault" in
  let d = show (cstr_debug bytes) and p = show (cstr_display bytes) in
  let bang = String.length obs > 0 && obs.[0] = '!' in
  let ofs = if bang then [] else fields (String.split_on_char ' ' obs) in
  let mobs = Printf.sprintf "dbg=%s disp=%s" d p in
  let ok = (not bang) && field ofs "dbg" = d && field ofs "disp" = p in
  let has c = List.exists (fun b -> int_of_n b = c) bytes in
  (mobs, ok, bytes <> [], (if has 0x7f then "del" else "nodel") ^ "," ^ (if List.length bytes = 0 then "empty" else "nonempty"), None)
let () = run_driver handle
