(* C15 driver: debug, TLS, load-config, exception and security directories.
   For every query the model's observation is printed with the same printer as the harness;
   the oracle evaluates the extracted Spec functions (Spec/DirSpec.v) on the implementation's tokens. *)
let show_err = function
  | ENull -> "Null" | EBounds -> "Bounds" | EZeroFill -> "ZeroFill" | EUnmapped -> "Unmapped"
  | EMisaligned -> "Misaligned" | EBadMagic -> "BadMagic" | EPeMagic -> "PeMagic" | EInsanity -> "Insanity"
  | EInvalid -> "Invalid" | EOverflow -> "Overflow" | EEncoding -> "Encoding" | EAliasing -> "Aliasing"
let show_rr = function Ok r -> Printf.sprintf "ok:%s:%s" (string_of_n r.r_off) (string_of_n r.r_len) | Err e -> "e:" ^ show_err e | Fault _ -> "fault"
let show_or = function Some r -> Printf.sprintf "some:%s:%s" (string_of_n r.r_off) (string_of_n r.r_len) | None -> "none"
let sn = string_of_n
let ni = n_of_int
let addn a k = n_of_z (Z.add (z_of_n a) (Z.of_int k))

let w32 = n_of_string "4294967296"
let w64 = n_of_string "18446744073709551616"

let handle kind fs obs =
  if kind <> "dirs" then ("!unknown-kind", false, false, "unknown", None) else
  let img = image_of_fields fs in
  let get = mget_of img in
  let fmt64 = field fs "fmt" = "64" in
  let file = field fs "file" = "1" in
  let secs = List.map (fun s -> match String.split_on_char ':' s with
    | [a; b; c; d] -> { s_va = n_of_string a; s_vs = n_of_string b; s_prd = n_of_string c; s_srd = n_of_string d }
    | _ -> failwith "sec") (split_on ';' (field fs "secs")) in
  let v = { v_file = file; v_addr = ni (4096 + int_of_string (field fs "place")); v_len = ni (Bytes.length img);
            v_get = get; v_w = (if fmt64 then w64 else w32); v_base = n_of_string (field fs "base");
            v_soh = n_of_string (field fs "soh"); v_soi = n_of_string (field fs "soi"); v_secs = secs } in
  let dirs = List.map (fun s -> match String.split_on_char ':' s with
    | [a; b] -> (n_of_string a, n_of_string b) | _ -> failwith "dd") (split_on ';' (field fs "dd")) in
  let nrva = n_of_string (field fs "nrva") in
  let dd i = data_dir nrva dirs (ni i) in
  let qs = split_on ',' (field fs "q") in
  (* what the generator says it wrote (absent in hand-made cases): "_" = no expectation *)
  let xs = (try split_on ',' (List.assoc "x" fs) with Not_found -> []) in
  let bang = String.length obs > 0 && obs.[0] = '!' in
  let impl = if bang then [] else split_on ',' (field (fields (String.split_on_char ' ' obs)) "r") in
  let nfail = ref 0 and ncounted = ref 0 and tags = Hashtbl.create 16 in
  let tag t = Hashtbl.replace tags t () in
  let pieces s = Array.of_list (String.split_on_char '|' s) in
  let piece a k = if k < Array.length a then a.(k) else "!missing" in
  (* --- printers shared by the model side and the spec side --- *)
  let show_unwind (r : region res) = (match r with
    | Ok u -> Printf.sprintf "ok:%s:%s:%s:%s:%s:%s:%s:%s" (sn u.r_off) (sn (uw_version get u)) (sn (uw_flags get u)) (sn (uw_size_of_prolog get u))
                (sn (uw_count get u)) (sn (uw_frame_register get u)) (sn (uw_frame_offset get u)) (show_rr (Ok (uw_codes get u)))
    | r -> show_rr r) in
  let show_items items = join ";" (List.map (fun it -> Printf.sprintf "%s.%s.%s.%s" (sn it.pg_rva) (sn it.pg_size) (sn it.pg_name.r_off) (sn it.pg_name.r_len)) items) in
  (* the fields behind the returned references are decoded by extracted Coq functions: [fields] is Model/DirsFields.v entry_fields
     on the model side and Spec/DirShape.v entry_fields_shape (literal offsets, theorem C15_entry_fields) on the spec side *)
  let str_of_bytes l = String.concat "" (List.map (fun b -> String.make 1 (Char.chr (int_of_n b land 255))) l) in
  let hex_of_bytes l = String.concat "" (List.map (fun b -> Printf.sprintf "%02x" (int_of_n b)) l) in
  let show_entry_head_with (fields : entry -> efields) (e : entry res) = (match e with
    | Ok (ECv20 (i, nm) as x) -> (match fields x with
        | FCv20 (fmt, offset, stamp, age) -> Printf.sprintf "cv20:%s:%s:%s:%s:%s:%s:%s" (sn i) (str_of_bytes fmt) (sn stamp) (sn age) (sn nm.r_off) (sn nm.r_len) (sn offset)
        | _ -> "!fields")
    | Ok (ECv70 (i, nm) as x) -> (match fields x with
        | FCv70 (fmt, guid, age) -> Printf.sprintf "cv70:%s:%s:%s:%s:%s:%s" (sn i) (str_of_bytes fmt) (hex_of_bytes guid) (sn age) (sn nm.r_off) (sn nm.r_len)
        | _ -> "!fields")
    | Ok (EDbg i as x) -> (match fields x with
        | FMisc (dt, len, uni) -> Printf.sprintf "dbg:%s:%s:%s:%s" (sn i) (sn dt) (sn len) (sn uni)
        | _ -> "!fields")
    | Ok (EPgo r) -> Printf.sprintf "pgo:%s:%s" (sn r.r_off) (sn (n_of_z (Z.div (z_of_n r.r_len) (Z.of_int 4))))
    | Ok (EUnknown d) -> "unk:" ^ show_or d
    | Err e -> "e:" ^ show_err e
    | Fault _ -> "fault") in
  let show_entry_head = show_entry_head_with (entry_fields get) in
  let show_entry_head_spec = show_entry_head_with (entry_fields_shape get) in
  let show_entry (e : entry res) = (match e with
    | Ok (EPgo r) -> show_entry_head e ^ ":" ^ (match pgo_iter get r with Ok items -> show_items items | _ -> "fault")
    | _ -> show_entry_head e) in
  let with_value (r : region res) = (match r with Ok x -> Printf.sprintf "%s:%s" (show_rr r) (sn (u32at get x.r_off)) | _ -> show_rr r) in
  let rdv = read v in
  (* the spec of a read by virtual address; None = unconstrained *)
  let rd_spec a size align = (match read_spec v a size align with
    | Some (Ok r) -> Some (Ok { r_off = r.r_off; r_len = size }) | Some e -> Some e | None -> None) in
  let exc_model = exception_try_from v (dd 3) in
  let dbg_model = debug_try_from v (dd 6) in
  let table = (match exc_model with Ok r -> Some (exception_functions v r) | _ -> None) in
  let model = List.mapi (fun i q ->
    let p = Array.of_list (String.split_on_char ':' q) in
    let im = (try List.nth impl i with _ -> "!missing") in
    let (m, ok) = (match p.(0) with
      | "exc" ->
        let show r = (match r with Ok rg -> Printf.sprintf "%s:%d" (show_rr r) (if check_sorted (exception_functions v rg) then 1 else 0) | _ -> show_rr r) in
        (match exc_model with Ok r -> tag "exc-ok"; if not (check_sorted (exception_functions v r)) then tag "exc-unsorted" | Err EInvalid -> tag "exc-invalid" | Err ENull -> tag "exc-null" | _ -> tag "exc-err");
        (show exc_model, Some (im = show (exception_spec v (dd 3))))
      | "fn" ->
        (match table with
         | None -> ("none", Some (im = "none"))
         | Some t ->
           (match List.nth_opt t (int_of_string p.(1)) with
            | None -> ("none", Some (im = "none"))
            | Some f ->
              let head = Printf.sprintf "%s:%s:%s" (sn f.rf_begin) (sn f.rf_end) (sn f.rf_unwind) in
              let uw = unwind_info v f in
              (match uw with Ok _ -> tag "unwind-ok" | Err EBounds -> tag "unwind-bounds" | _ -> ());
              (Printf.sprintf "%s|%s|%s" head (show_rr (function_bytes v f)) (show_unwind uw),
               Some (im = Printf.sprintf "%s|%s|%s" head (show_rr (function_bytes_spec v f)) (show_unwind (unwind_info_spec v f))))))
      | "idx" ->
        (match table with
         | None -> ("none", Some (im = "none"))
         | Some t ->
           let lo = Z.of_string p.(1) and hi = Z.of_string p.(2) in
           let cnt = Z.to_int (Z.sub hi lo) + 1 in
           let itoks = Array.of_list (String.split_on_char ';' im) in
           let sorted = check_sorted t in
           let good = ref (Array.length itoks = cnt) in
           let toks = List.init cnt (fun k ->
             let pc = n_of_z (Z.add lo (Z.of_int k)) in
             let it = if k < Array.length itoks then itoks.(k) else "!missing" in
             (* oracle on the implementation's token *)
             let parsed = (try
               if String.contains it '!' then None
               else if it.[0] = 'o' then Some (Found (n_of_string (String.sub it 1 (String.length it - 1))))
               else if it.[0] = 'e' then Some (Insert (n_of_string (String.sub it 1 (String.length it - 1))))
               else None with _ -> None) in
             (match parsed with Some r -> if not (index_ok t pc r) then good := false | None -> good := false);
             if not sorted then it else
             let r = index_of t pc and l = lookup_function_entry t pc in
             (match r, l with
              | Ok (Found a), Ok (Some (b, _)) -> tag "idx-found"; if z_of_n a = z_of_n b then "o" ^ sn a else Printf.sprintf "o%s!%s" (sn a) (sn b)
              | Ok (Insert k), Ok None -> tag "idx-none"; "e" ^ sn k
              | Ok (Found a), Ok None -> Printf.sprintf "o%s!none" (sn a)
              | Ok (Insert k), Ok (Some (b, _)) -> Printf.sprintf "e%s!%s" (sn k) (sn b)
              | _ -> "fault")) in
           (String.concat ";" toks, Some !good))
      | "sec" ->
        (* image().dwLength / wRevision / certificate_type(): extracted Model functions on the model side, the literal-offset
           reading Spec/DirShape.v security_fields_shape (theorem C15_security_fields) on the spec side; the certificate bytes of the
           model (certificate_bytes) must be the Size-8 bytes from offset 8 *)
        let show r = (match r with
          | Ok rg -> Printf.sprintf "ok:%s:%s:%s:%s:%s" (sn rg.r_off) (sn (certificate_type get rg)) (show_rr (certificate_data rg))
                       (sn (sec_length get rg)) (sn (sec_revision get rg))
          | r -> show_rr r) in
        let show_spec r = (match r with
          | Ok rg -> let sh = security_fields_shape get rg.r_off rg.r_len in
                     Printf.sprintf "ok:%s:%s:%s:%s:%s" (sn rg.r_off) (sn sh.ss_type)
                       (match certificate_data_spec (dd 4) with Some d -> show_rr (Ok d) | None -> "none")
                       (sn sh.ss_length) (sn sh.ss_revision)
          | r -> show_rr r) in
        let r = security_try_from v (dd 4) in
        (match r with Ok _ -> tag "sec-ok" | Err EUnmapped -> tag "sec-unmapped" | Err ENull -> tag "sec-null" | Err EMisaligned -> tag "sec-misaligned" | _ -> tag "sec-err");
        (show r, Some (im = show_spec (security_spec v (dd 4))))
      | "dbg" ->
        let show r pdb = (match r with Ok _ -> Printf.sprintf "%s|%s" (show_rr r) (show_or pdb) | _ -> show_rr r) in
        let pdb_m = (match dbg_model with Ok r -> pdb_file_name v (debug_dirs v r) | _ -> None) in
        let spec = debug_spec v (dd 6) in
        let pdb_s = (match spec with
          | Ok r -> List.fold_left (fun acc d -> match acc with Some _ -> acc | None ->
                      (match entry_spec v d with Ok (ECv20 (_, nm)) -> Some nm | Ok (ECv70 (_, nm)) -> Some nm | _ -> None)) None (debug_dirs v r)
          | _ -> None) in
        (match dbg_model with Ok _ -> tag "dbg-ok" | Err EInvalid -> tag "dbg-invalid" | Err ENull -> tag "dbg-null" | _ -> tag "dbg-err");
        (show dbg_model pdb_m, Some (im = show spec pdb_s))
      | "dir" ->
        (match dbg_model with
         | Ok r ->
           (match List.nth_opt (debug_dirs v r) (int_of_string p.(1)) with
            | None -> ("none", Some (im = "none"))
            | Some d ->
              let head = Printf.sprintf "%s:%s" (sn d.dd_type) (sn d.dd_time) in
              let e = dir_entry v d in
              (match e with
               | Ok (ECv20 _) -> tag "cv20" | Ok (ECv70 _) -> tag "cv70" | Ok (EDbg _) -> tag "misc" | Ok (EUnknown _) -> tag "unknown"
               | Ok (EPgo rg) -> tag "pgo"; (match pgo_iter get rg with Ok (_ :: _) -> tag "pgo-items" | _ -> ())
               | Err EEncoding -> tag "cv-no-nul" | Err EMisaligned -> tag "entry-misaligned" | Err EBadMagic -> tag "cv-badmagic" | _ -> ());
              let m = Printf.sprintf "%s|%s|%s" head (show_or (dir_data v d)) (show_entry e) in
              (* oracle: head, data and entry head against the spec; PGO items through the checker *)
              let ip = pieces im in
              let es = entry_spec v d in
              let ent_ok = (match es with
                | Ok (EPgo rg) ->
                  let h = show_entry_head_spec es ^ ":" in
                  let ie = piece ip 2 in
                  String.length ie >= String.length h && String.sub ie 0 (String.length h) = h &&
                  (let rest = String.sub ie (String.length h) (String.length ie - String.length h) in
                   try
                     let items = List.map (fun s -> match String.split_on_char '.' s with
                       | [a; b; c; e] -> { pg_rva = n_of_string a; pg_size = n_of_string b; pg_name = { r_off = n_of_string c; r_len = n_of_string e } }
                       | _ -> failwith "item") (split_on ';' rest) in
                     pgo_iter_check get rg items
                   with _ -> false)
                | _ -> piece ip 2 = show_entry_head_spec es) in
              (m, Some (piece ip 0 = head && piece ip 1 = show_or (dir_data_spec v d) && ent_ok && Array.length ip = 3)))
         | _ -> ("none", Some (im = "none")))
      | "tls" ->
        let r = tls_try_from v (dd 9) in
        (match r with
         | Ok t ->
           let head = Printf.sprintf "ok:%s:%s:%s:%s:%s" (sn t.r_off) (sn (tls_start v t)) (sn (tls_end v t)) (sn (tls_index v t)) (sn (tls_cb v t)) in
           let raw = tls_raw_data v t and slot = tls_slot v t and cbs = tls_callbacks v t in
           (match raw with Ok _ -> tag "tls-raw-ok" | Err EInvalid -> tag "tls-reversed" | _ -> ());
           (match cbs with Ok _ -> tag "tls-callbacks-ok" | _ -> ());
           let m = Printf.sprintf "%s|%s|%s|%s" head (show_rr raw) (with_value slot) (show_rr cbs) in
           (* spec side *)
           let ip = pieces im in
           let vs = va_size v in
           let s_ctor = struct_spec (tls_dir_size v) vs v (dd 9) in
           let s_head = (match s_ctor with Ok _ -> head | e -> show_rr e) in
           let st = tls_start v t and en = tls_end v t in
           let s_raw = (if Z.lt (z_of_n en) (z_of_n st) then Some "e:Invalid" else
                        let len = n_of_z (Z.sub (z_of_n en) (z_of_n st)) in
                        match rd_spec st len (ni 1) with Some x -> Some (show_rr x) | None -> None) in
           let s_slot = (match rd_spec (tls_index v t) (ni 4) (ni 4) with Some x -> Some (with_value x) | None -> None) in
           let s_cbs = (match read_spec v (tls_cb v t) (ni 0) vs with
                        | None -> None
                        | Some _ -> Some (show_rr (slice_f_spec get (fun a m al -> match read_spec v a m al with Some s -> s | None -> Err EBounds) (tls_cb v t) vs vs
                                                     (fun x -> Z.equal (z_of_n x) Z.zero)))) in
           let chk k s = (match s with Some x -> piece ip k = x | None -> true) in
           (m, Some (Array.length ip = 4 && piece ip 0 = s_head && (match s_ctor with Ok rg -> z_of_n rg.r_off = z_of_n t.r_off | _ -> false) && chk 1 s_raw && chk 2 s_slot && chk 3 s_cbs))
         | e -> (match e with Err ENull -> tag "tls-null" | _ -> tag "tls-err");
                (show_rr e, Some (im = show_rr (struct_spec (tls_dir_size v) (va_size v) v (dd 9)))))
      | "lc" ->
        let r = load_config_try_from v (dd 10) in
        (match r with
         | Ok t ->
           let head = Printf.sprintf "ok:%s:%s:%s:%s" (sn t.r_off) (sn (lc_cookie_ptr v t)) (sn (lc_table_ptr v t)) (sn (lc_count v t)) in
           let ck = lc_security_cookie v t and tab = lc_se_handler_table v t in
           (match ck with Ok _ -> tag "lc-cookie-ok" | _ -> ());
           (match tab with Ok _ -> tag "lc-table-ok" | Err EOverflow -> tag "lc-table-overflow" | _ -> ());
           let m = Printf.sprintf "%s|%s|%s" head (with_value ck) (show_rr tab) in
           let ip = pieces im in
           let vs = va_size v in
           let s_ctor = struct_spec (lc_dir_size v) vs v (dd 10) in
           let s_head = (match s_ctor with Ok _ -> head | e -> show_rr e) in
           let s_ck = (match rd_spec (lc_cookie_ptr v t) (ni 4) (ni 4) with Some x -> Some (with_value x) | None -> None) in
           let total = Z.mul (z_of_n vs) (z_of_n (lc_count v t)) in
           let s_tab = (if Z.geq total (z_of_n w64) then Some "e:Overflow" else
                        match rd_spec (lc_table_ptr v t) (n_of_z total) vs with Some x -> Some (show_rr x) | None -> None) in
           let chk k s = (match s with Some x -> piece ip k = x | None -> true) in
           (m, Some (Array.length ip = 3 && piece ip 0 = s_head && (match s_ctor with Ok rg -> z_of_n rg.r_off = z_of_n t.r_off | _ -> false) && chk 1 s_ck && chk 2 s_tab))
         | e -> (match e with Err ENull -> tag "lc-null" | _ -> tag "lc-err");
                (show_rr e, Some (im = show_rr (struct_spec (lc_dir_size v) (va_size v) v (dd 10)))))
      | _ -> ("?", None)) in
    (* the implementation's decoded values against the generator's own record of what it wrote *)
    let x = (try List.nth xs i with _ -> "_") in
    let sp c s = Array.of_list (String.split_on_char c s) in
    let at a k = if k < Array.length a then a.(k) else "!none" in
    let vs = if fmt64 then 8 else 4 in
    let xok = (if x = "_" then true else begin
      tag "expect";
      let ip = sp '|' im in
      match p.(0) with
      | "exc" -> let a = sp ':' im in at a 0 = "ok" && at a 2 = string_of_int (12 * int_of_string x)
      | "fn" -> at ip 0 = x
      | "dbg" -> let a = sp ':' (at ip 0) in at a 0 = "ok" && at a 2 = string_of_int (28 * int_of_string x)
      | "dir" ->
        let e = sp ':' (at ip 2) and xa = sp ':' x in
        (match at xa 0 with
         | "cv70" -> at e 0 = "cv70" && at e 2 = "RSDS" && at e 3 = at xa 1 && at e 4 = at xa 2 && at e 6 = at xa 3
         | "cv20" -> at e 0 = "cv20" && at e 2 = "NB10" && at e 3 = at xa 1 && at e 4 = at xa 2 && at e 6 = at xa 3
         | "misc" -> at e 0 = "dbg" && at e 2 = at xa 1 && at e 3 = at xa 2 && at e 4 = at xa 3
         | "pgo" ->
           let want = split_on ';' (at xa 1) in
           let got = split_on ';' (at e 3) in
           at e 0 = "pgo" && List.length want = List.length got &&
           List.for_all2 (fun w g -> let wa = sp '.' w and ga = sp '.' g in at wa 0 = at ga 0 && at wa 1 = at ga 1 && at wa 2 = at ga 3) want got
         | _ -> false)
      | "tls" ->
        let xa = sp ':' x in
        let raw = sp ':' (at ip 1) and slot = sp ':' (at ip 2) and cbs = sp ':' (at ip 3) in
        at raw 0 = "ok" && at raw 2 = at xa 0 && at slot 0 = "ok" && at slot 3 = at xa 1 &&
        at cbs 0 = "ok" && at cbs 2 = string_of_int (vs * int_of_string (at xa 2))
      | "lc" ->
        let xa = sp ':' x in
        let ck = sp ':' (at ip 1) and tab = sp ':' (at ip 2) in
        at ck 0 = "ok" && at ck 3 = at xa 0 && at tab 0 = "ok" && at tab 2 = string_of_int (vs * int_of_string (at xa 1))
      | "sec" ->
        (match x with
         | "null" -> im = "e:Null" | "unmapped" -> im = "e:Unmapped"
         | _ -> let xa = sp ':' x and a = sp ':' im in at a 0 = "ok" && at a 2 = at xa 0 && at a 3 = "ok" && at a 5 = at xa 1)
      | _ -> true end) in
    let ok = (match ok with Some b -> Some (b && xok) | None -> if xok then None else Some false) in
    (match ok with Some true -> incr ncounted | Some false -> incr ncounted; incr nfail | None -> ());
    m) qs in
  tag (if file then "file" else "view"); tag (if fmt64 then "pe64" else "pe32");
  let mobs = "r=" ^ String.concat "," model in
  let taglist = String.concat "," (Hashtbl.fold (fun k () acc -> k :: acc) tags []) in
  (mobs, (not bang) && !nfail = 0 && List.length impl = List.length qs, !ncounted > 0, taglist, None)

let () = run_driver handle
