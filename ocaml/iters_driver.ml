(* C18 driver: runs the call history of a case (ops n b t<k> q<k> l h c k d, r) on the extracted model of the iterator and
   on the deque (Spec/Deque.v) holding the implementation's own item list, and compares
   every call's output.  [d] (drain) is next until None; [r] starts again from a fresh
   iterator; both are expanded here, call by call, through the extracted step functions.

   The model's answer never copies the observation: where no iterator is handed out the model
   says so from the case's own [it=] field (1: an iterator must be handed out - the model then
   answers with the run on the expected items; 0: none may be; only the error kind after
   [noiter=] is taken over, the property says nothing about it).  Item texts the generator
   could not predict ([?]: malformed content behind a well-formed table) are taken from the
   implementation's item list by position; their number and order are the model's. *)
let show_err = function
  | ENull -> "Null" | EBounds -> "Bounds" | EZeroFill -> "ZeroFill" | EUnmapped -> "Unmapped"
  | EMisaligned -> "Misaligned" | EBadMagic -> "BadMagic" | EPeMagic -> "PeMagic" | EInsanity -> "Insanity"
  | EInvalid -> "Invalid" | EOverflow -> "Overflow" | EEncoding -> "Encoding" | EAliasing -> "Aliasing"
let show_fault = function
  | POverflow -> "overflow" | PIndex -> "index" | PSliceOrder -> "slice" | PCopyLen -> "copylen" | PUnwrap -> "unwrap"
  | PAssert -> "assert" | UBOob -> "ub-oob" | UBAlign -> "ub-align" | OutOfFuel -> "fuel"
let dwords_of_bytes (l : int list) : n list =
  let a = Array.of_list l in
  List.init (Array.length a / 4) (fun i -> n_of_z (Z.of_int (a.(4*i) lor (a.(4*i+1) lsl 8) lor (a.(4*i+2) lsl 16) lor (a.(4*i+3) lsl 24))))

exception Model_fault of string
exception Bad_obs

type tok = Reset | Drain of int | Call of int * op

let parse_tok (t : string) : tok =
  if t = "r" then Reset else begin
    let p = ref 0 in
    while !p < String.length t && t.[!p] >= '0' && t.[!p] <= '9' do incr p done;
    let slot = int_of_string (String.sub t 0 !p) in
    let arg = String.sub t (!p + 1) (String.length t - !p - 1) in
    match t.[!p] with
    | 'n' -> Call (slot, Next) | 'b' -> Call (slot, NextBack) | 't' -> Call (slot, Nth (n_of_string arg))
    | 'q' -> Call (slot, NthBack (n_of_string arg))
    | 'l' -> Call (slot, Len) | 'h' -> Call (slot, SizeHint) | 'c' -> Call (slot, Count) | 'k' -> Call (slot, Clone)
    | 'd' -> Drain slot
    | _ -> failwith "op"
  end

let show_out (show : 'a -> string) (o : 'a out) : string = match o with
  | ONone -> "N" | OItem a -> "S" ^ show a | ONum k -> "n" ^ string_of_n k
  | OHint (lo, hi) -> "h" ^ string_of_n lo ^ "/" ^ (match hi with Some h -> string_of_n h | None -> "-")
  | OCloned -> "k" | ONoIter -> "x" | OUnsupported -> "u"
let parse_out (s : string) : string out =
  if s = "" then raise Bad_obs else
  let rest = String.sub s 1 (String.length s - 1) in
  match s.[0] with
  | 'N' when rest = "" -> ONone
  | 'S' -> OItem rest
  | 'n' -> ONum (n_of_string rest)
  | 'h' -> (match String.split_on_char '/' rest with
            | [lo; hi] -> OHint (n_of_string lo, (if hi = "-" then None else Some (n_of_string hi)))
            | _ -> raise Bad_obs)
  | 'k' when rest = "" -> OCloned | 'x' when rest = "" -> ONoIter | 'u' when rest = "" -> OUnsupported
  | _ -> raise Bad_obs

(* a generic stepper: [stepf pool (slot, op)] = Some (pool', out) *)
let run_tokens (type p) (fresh : p) (stepf : p -> nat * op -> p * string out) (toks : tok list) (limit : int) : string out list list =
  let pool = ref fresh in
  let one t = match t with
    | Reset -> pool := fresh; []
    | Call (slot, o) -> let (p', r) = stepf !pool (nat_of_int slot, o) in pool := p'; [r]
    | Drain slot ->
      let acc = ref [] and fin = ref false and k = ref 0 in
      while not !fin do
        let (p', r) = stepf !pool (nat_of_int slot, Next) in
        pool := p'; acc := r :: !acc; incr k;
        (match r with OItem _ -> () | _ -> fin := true);
        if !k > limit then fin := true
      done;
      List.rev !acc in
  let rec go = function [] -> [] | t :: rest -> let r = one t in r :: go rest in
  go toks

let render (groups : string out list list) (toks : tok list) : string =
  join "," (List.map2 (fun g t -> match t with
    | Reset -> "r"
    | _ -> String.concat "+" (List.map (show_out (fun s -> s)) g)) groups toks)

(* the model side, for an iterator implementation with printable items *)
let model_side (type s) (type a) (impl : (s, a) iter_impl) (fresh : s) (show : a -> string) (toks : tok list) (limit : int) : string =
  let stepf pool c = match m_step impl pool c with
    | Ok (p', r) -> (p', (match r with
        | ONone -> ONone | OItem a -> OItem (show a) | ONum k -> ONum k | OHint (a, b) -> OHint (a, b)
        | OCloned -> OCloned | ONoIter -> ONoIter | OUnsupported -> OUnsupported))
    | Err _ -> raise (Model_fault "err")
    | Fault f -> raise (Model_fault (show_fault f)) in
  render (run_tokens [fresh] stepf toks limit) toks

let handle kind fs obs =
  let ofs = fields (String.split_on_char ' ' obs) in
  let bang = String.length obs > 0 && obs.[0] = '!' in
  let toks = List.map parse_tok (split_on ',' (field fs "hist")) in
  let wild = field fs "wild" = "1" in
  let n_expected = int_of_string (field fs "n") in
  let has_items = (not bang) && List.mem_assoc "items" ofs in
  let impl_items = if has_items then split_on ',' (field ofs "items") else [] in
  let limit = List.length impl_items + 64 in
  (* ---- model observation *)
  let full = (match kind with "rich" | "imp32" | "imp64" | "dbg32" | "dbg64" | "exc64"
                            | "res" | "iat32" | "iat64" | "int32" | "int64" | "dia32" | "dia64" | "sect" -> true | _ -> false) in
  (* forward iterators whose size hint is exact (Map over slice::Iter / Range / Zip behind `impl Iterator`) *)
  let exact = (match kind with "exp32" | "exp64" | "wexp" -> true | _ -> false) in
  (* is an iterator to be handed out?  Some true / Some false from the generator; None: not predicted *)
  let it = (match List.assoc_opt "it" fs with Some "1" -> Some true | Some "0" -> Some false | _ -> None) in
  let noiter_err = (match List.assoc_opt "noiter" ofs with Some e -> e | None -> "?") in
  let tag_of_hdr () =
    let hdr = bytes_of_hex (field fs "hdr") in
    let a = Array.of_list hdr in
    let e = a.(60) lor (a.(61) lsl 8) in
    let magic = a.(e + 24) lor (a.(e + 25) lsl 8) in
    if magic = 0x20b then (fun s -> "t64." ^ s) else (fun s -> "t32." ^ s) in
  let strip s = if String.length s > 4 && (String.sub s 0 4 = "t32." || String.sub s 0 4 = "t64.") then String.sub s 4 (String.length s - 4) else s in
  let impl_nth i = (match List.nth_opt impl_items i with Some x -> x | None -> "?") in
  (* an expected item list with the unpredicted texts taken from the implementation's list by position *)
  let fill (l : string list) = List.mapi (fun i s -> if s = "?" then strip (impl_nth i) else s) l in
  let expected : string list option ref = ref None in
  let with_items (items : string list) (outs : string) = Printf.sprintf "items=%s out=%s" (join "," items) outs in
  let orig = (try field fs "model" = "orig" with _ -> false) in
  let mobs = (try (match kind with
    | "rich" ->
      let image = dwords_of_bytes (bytes_of_hex (field fs "img")) in
      (match try_from image with
       | Err e -> "noiter=" ^ show_err e
       | Fault f -> "!fault:" ^ show_fault f
       | Ok se ->
         let st = rich_records_iter image se in
         let show r = Printf.sprintf "%s.%s.%s" (string_of_n r.r_build) (string_of_n r.r_product) (string_of_n r.r_count) in
         let its = List.map show (items rich_next (fun s -> nat_of_int (List.length (fst s))) st) in
         with_items its (model_side (if orig then rich_impl_orig else rich_impl) st show toks (List.length its + 64)))
    | "relocs" ->
      let data = nlist_of_hex (field fs "data") in
      let st = (N0, data) in
      let show b = Printf.sprintf "%s.%s.%s.%s" (string_of_n b.b_off) (string_of_n b.b_va) (string_of_n b.b_sob)
        (if b.b_words = [] then "-" else String.concat "_" (List.map string_of_n b.b_words)) in
      let its = List.map show (items blk_next blk_measure st) in
      with_items its (model_side blk_impl st show toks (List.length its + 64))
    | "strings" ->
      let data = nlist_of_hex (field fs "data") in
      let c = { min_len = n_of_string (field fs "min"); min_len_nul = n_of_string (field fs "minnul"); strict = (field fs "strict" = "1") } in
      let base = n_of_string (field fs "base") in
      let show f = Printf.sprintf "%s.%s.%s.%d" (string_of_n f.f_start) (string_of_n f.f_len) (string_of_n f.f_addr) (if f.f_nul then 1 else 0) in
      let its = List.map show (items (str_next c base data) (str_measure data) N0) in
      with_items its (model_side (str_impl c base data) N0 show toks (List.length its + 64))
    | "pgo" ->
      let words = List.map n_of_string (split_on ',' (field fs "words")) in
      let st = (match words with [] -> [] | _ :: t -> t) in      (* Pgo::iter skips the signature dword *)
      let show it = Printf.sprintf "%s.%s.%s" (string_of_n it.pg_rva) (string_of_n it.pg_size) (hex_of_nlist it.pg_name) in
      let its = List.map show (items pgo_next pgo_measure st) in
      with_items its (model_side pgo_impl st show toks (List.length its + 64))
    | "imp32" | "imp64" | "dbg32" | "dbg64" | "wimp" | "wdbg" ->
      (* delegating iterators (imports::Iter, debug::Iter and the Wrap over them): the underlying slice is the expected entry list of the generator (structured
         inputs) or the implementation's own forward list (malformed inputs, where no expectation exists) *)
      if it = Some false then "noiter=" ^ noiter_err
      else if it = None && not has_items then obs      (* outcome not predicted by the generator (old corpus files; a directory running into the fill) *)
      else
      let under = if wild && has_items then impl_items else split_on ',' (field fs "exp") in
      let inner = deleg_impl (fun (s : string) -> s) in
      if kind = "wimp" || kind = "wdbg" then begin
        (* the variant tag is part of the item text; take it from the expectation of the image's magic *)
        let tag = if wild && has_items then (fun s -> s) else tag_of_hdr () in
        let impl = wrap_impl inner tag (fun l -> nat_of_int (List.length l)) in
        with_items (List.map tag under) (model_side impl under (fun s -> s) toks (List.length under + 64))
      end else
        with_items under (model_side inner under (fun s -> s) toks (List.length under + 64))
    | "exp32" | "exp64" | "wexp" | "res" | "iat32" | "iat64" | "wiat" | "int32" | "int64" | "wint" | "dia32" | "dia64" | "wdia" | "icons" | "curs"
    | "exc64" | "sect" | "strs" ->
      (* compositions of std adaptors (Model/ItersMore.v): the model builds the iterator from the tables of the case *)
      if it = Some false then "noiter=" ^ noiter_err else begin
        let lst k = split_on ',' (field fs k) in
        let idm = (fun (s : string) -> s) in
        let fuel n = (fun _ -> nat_of_int (n + 1)) in
        let go (type s) (impl : (s, string) iter_impl) (st : s) (n : int) =
          let its = items impl.m_next (fuel n) st in
          expected := Some (List.map strip its);
          with_items its (model_side impl st idm toks (List.length its + 64)) in
        match kind with
        | "exp32" | "exp64" | "wexp" ->
          let sel = field fs "sel" in
          let ft = lst "ft" and nm = lst "nm" and ix = lst "ix" in
          (* the two components of the implementation's i-th item, for the texts that are not predicted *)
          let comp i k = (match String.split_on_char '/' (impl_nth i) with [a; b] -> if k = 0 then a else b | _ -> "?") in
          if sel = "iter" then go (exp_iter_impl idm) (fill ft) (List.length ft)
          else begin
            let name_text h = (match List.nth_opt nm h with Some "?" -> comp h 0 | Some s -> s | None -> "eBounds") in
            (* By::hint: name_indices.get(hint) then functions.get(index), each Err(Bounds) when out of range *)
            let hint_text h = (match List.nth_opt ix h with
              | None -> "eBounds"
              | Some i -> (match List.nth_opt ft (int_of_string i) with None -> "eBounds" | Some "?" -> comp h 1 | Some s -> s)) in
            if sel = "names" then
              go (exp_names_impl (fun h -> let h = int_of_n h in name_text h ^ "/" ^ hint_text h)) (exp_names_start nm) (List.length nm)
            else
              go (exp_nidx_impl (fun (h, i) -> name_text (int_of_n h) ^ "/" ^ i)) (exp_nidx_start nm ix) (List.length nm)
          end
        | "res" ->
          let arr = lst "arr" and nn = n_of_string (field fs "nn") and ni = n_of_string (field fs "ni") in
          let slice = (match field fs "sel" with "all" -> res_all nn ni arr | "named" -> res_named nn ni arr | _ -> res_id nn ni arr) in
          go (entries_impl idm) slice (List.length slice)
        | "icons" | "curs" ->
          (* FlatMap over the group directory if it can be reached (grp=1), over nothing otherwise *)
          let u = fill (lst "exp") in
          go (icons_impl idm) (icons_start (if field fs "grp" = "1" then Some u else None)) (List.length u)
        | "iat32" | "iat64" | "int32" | "int64" -> let u = fill (lst "exp") in go (entries_impl idm) u (List.length u)
        | "dia32" | "dia64" -> let u = fill (lst "exp") in go slice_impl u (List.length u)
        (* Exception::functions: the Map<slice::Iter, F> the code builds, over the planted runtime function records *)
        | "exc64" -> let u = fill (lst "exp") in go (exc_functions_impl idm) u (List.length u)
        (* SectionHeaders::iter / into_iter: the slice::Iter over the declared section headers *)
        | "sect" -> let u = lst "exp" in go sections_iter_impl u (List.length u)
        (* flags!::to_strs: FilterMap over 0..bits of the value's set bits through the identifier table of the case *)
        | "strs" ->
          let tab = Array.of_list (lst "tab") in
          let flag_str i = (let i = int_of_n i in if i < Array.length tab && tab.(i) <> "-" then Some tab.(i) else None) in
          let bits = n_of_string (field fs "bits") in
          go (to_strs_impl flag_str (n_of_string (field fs "value"))) (to_strs_start bits) (int_of_n bits)
        | "wiat" -> let u = fill (lst "exp") in go (wrap_entries_impl idm (tag_of_hdr ())) u (List.length u)
        | "wdia" -> let u = fill (lst "exp") in go (wrap_slice_impl (tag_of_hdr ())) u (List.length u)
        | _ -> let u = fill (lst "exp") in go (wrap_int_impl idm (tag_of_hdr ()) strip) u (List.length u)
      end
    | _ -> "!unknown-kind")
    with Model_fault f -> "!fault:" ^ f) in
  (* ---- oracle: the implementation's outputs against the deque holding its own item list *)
  let ok =
    if bang then false
    else if not has_items then
      (* no iterator was handed out: right when the generator says none may be; when it does not predict the outcome
         (malformed input of the first eleven kinds) there is nothing to check; a structured input must produce one *)
      (match it with Some false -> true | Some true -> false | None -> wild)
    else if it = Some false then false
    else (try
      let spec_groups = run_tokens [impl_items] (fun pool c -> step full pool c) toks limit in
      let impl_toks = split_on ',' (field ofs "out") in
      if List.length impl_toks <> List.length toks then false else
      let per = List.map2 (fun (g, t) io -> match t with
        | Reset -> io = "r"
        | _ ->
          let parts = List.map parse_out (String.split_on_char '+' io) in
          if exact then outs_eqb (fun a b -> a = b) g parts else outs_okb (fun a b -> a = b) full g parts) (List.combine spec_groups toks) impl_toks in
      List.for_all (fun b -> b) per
      && (wild || List.length impl_items = n_expected)
      && (match !expected with Some e -> List.map strip impl_items = e | None -> true)
      && (wild || not (List.mem_assoc "exp" fs) ||
          (let e = split_on ',' (field fs "exp") in
           List.map strip impl_items = e))
    with Bad_obs -> false) in
  let ncalls = List.length toks in
  let has_nth_back = List.exists (function Call (_, NthBack _) -> true | _ -> false) toks in
  let tags = Printf.sprintf "%s,%s,items%s,%s%s%s" kind (if wild then "wild" else "structured")
    (let k = List.length impl_items in if k = 0 then "0" else if k < 3 then "1-2" else if k < 9 then "3-8" else "9+")
    (if ncalls > 200 then "exhaustive" else "random")
    (if has_nth_back && has_items then (if full then ",nth_back" else ",nth_back-unsupported") else "")
    (if kind = "sect" && List.length impl_items >= 95 then ",sect95+" else "") in
  (mobs, ok, impl_items <> [], tags, None)
let () = run_driver handle
