(* C09 driver: import directory, per-DLL tables, thunk decoding, IAT *)
let show_err = function
  | ENull -> "Null" | EBounds -> "Bounds" | EZeroFill -> "ZeroFill" | EUnmapped -> "Unmapped"
  | EMisaligned -> "Misaligned" | EBadMagic -> "BadMagic" | EPeMagic -> "PeMagic" | EInsanity -> "Insanity"
  | EInvalid -> "Invalid" | EOverflow -> "Overflow" | EEncoding -> "Encoding" | EAliasing -> "Aliasing"
let err_of_string = function
  | "Null" -> ENull | "Bounds" -> EBounds | "ZeroFill" -> EZeroFill | "Unmapped" -> EUnmapped
  | "Misaligned" -> EMisaligned | "BadMagic" -> EBadMagic | "PeMagic" -> EPeMagic | "Insanity" -> EInsanity
  | "Invalid" -> EInvalid | "Overflow" -> EOverflow | "Encoding" -> EEncoding | "Aliasing" -> EAliasing
  | s -> failwith ("error name " ^ s)
let show_rr = function Ok r -> Printf.sprintf "ok:%s:%s" (string_of_n r.r_off) (string_of_n r.r_len) | Err e -> "e:" ^ show_err e | Fault _ -> "fault"
let parse_rr s = match String.split_on_char ':' s with
  | ["ok"; o; l] -> Ok { r_off = n_of_string o; r_len = n_of_string l } | ["e"; e] -> Err (err_of_string e) | _ -> Fault PAssert
let show_imp = function
  | Ok (ByName (h, r)) -> Printf.sprintf "n.%s.%s.%s" (string_of_n h) (string_of_n r.r_off) (string_of_n r.r_len)
  | Ok (ByOrdinal o) -> "o." ^ string_of_n o
  | Err e -> "e." ^ show_err e
  | Fault _ -> "fault"
let parse_imp s = match String.split_on_char '.' s with
  | ["n"; h; o; l] -> Ok (ByName (n_of_string h, { r_off = n_of_string o; r_len = n_of_string l }))
  | ["o"; x] -> Ok (ByOrdinal (n_of_string x))
  | ["e"; e] -> Err (err_of_string e)
  | _ -> Fault PAssert

let desc_cap = 12
let thunk_cap = 24
let rec take n l = if n <= 0 then [] else match l with [] -> [] | x :: t -> x :: take (n - 1) t
let w32 = n_of_string "4294967296"
let w64 = n_of_string "18446744073709551616"

let ip_pokes fs = List.map (fun p -> match String.split_on_char ':' p with
    | [o; h] -> (int_of_string o, bytes_of_hex h) | _ -> failwith "ip") (split_on ',' (field fs "ip"))

let rec handle kind fs obs =
  (* a machine that refuses the sparse 4 GiB mapping cannot run the case: skipped, never an alarm *)
  if obs = "!nomem" then (obs, true, false, "skipped-nomem", None) else handle_case kind fs obs
and handle_case kind fs obs =
  if kind <> "imp" && kind <> "big" then ("!unknown-kind", false, false, "unknown", None) else
  let big = (kind = "big") in
  let (get, len) =
    if big then begin
      (* sparse 4 GiB image: header bytes, the ip pokes, zero elsewhere *)
      let tbl = Hashtbl.create 1024 in
      List.iteri (fun i x -> Hashtbl.replace tbl i x) (bytes_of_hex (field fs "hdr"));
      List.iter (fun (o, bs) -> List.iteri (fun k x -> Hashtbl.replace tbl (o + k) x) bs) (ip_pokes fs);
      let zlen = Z.of_string (field fs "len") in
      ((fun i -> let z = z_of_n i in if Z.lt z zlen && Z.fits_int z then (match Hashtbl.find_opt tbl (Z.to_int z) with Some x -> n_of_int x | None -> N0) else N0),
       n_of_z zlen)
    end else begin
      let img = image_of_fields fs in
      let l = Bytes.length img in
      List.iter (fun (o, bs) -> List.iteri (fun k x -> if o + k < l then Bytes.set img (o + k) (Char.chr x)) bs) (ip_pokes fs);
      (mget_of img, n_of_int l)
    end in
  let fmt64b = field fs "fmt" = "64" in
  let file = field fs "file" = "1" in
  (* the view is what the library derives from the header bytes on every call (the generator's soh= soi= base=
     secs= fields are informational: generated import data may overlap the headers) *)
  let f = if fmt64b then fmt64 else fmt32 in
  let addr = n_of_int (4096 + int_of_string (field fs "place")) in
  let hmem = { m_addr = addr; m_len = len; m_get = get } in
  let nsec = int_of_n (h_nsec f hmem) in
  let secs = if nsec > 96 then [] else sections f hmem in
  let v = { v_file = file; v_addr = addr; v_len = len;
            v_get = get; v_w = (if fmt64b then w64 else w32); v_base = h_base f hmem;
            v_soh = h_soh f hmem; v_soi = h_soi f hmem; v_secs = secs } in
  let p = { p_f = (if fmt64b then fmt64 else fmt32); p_v = v } in
  let w = if fmt64b then 8 else 4 in
  let nw = n_of_int w in
  let full = not big in
  (* an image the constructor rejects (C07's business): predicted with the model of validate_headers *)
  let mem = { m_addr = v.v_addr; m_len = len; m_get = get } in
  match validate p.p_f mem with
  | Err e -> let m = "!ctor " ^ show_err e in (m, obs = m, false, "ctor-rejected", None)
  | Fault _ -> ("!ctor-fault", false, false, "ctor-fault", None)
  | Ok _ ->
  let tags = Hashtbl.create 16 in
  let tag t = Hashtbl.replace tags t () in
  tag (if file then "file" else "view"); tag (if fmt64b then "pe64" else "pe32"); if big then tag "4GiB";
  (* ---------------- model observation *)
  let parts = ref [] in
  let add s = parts := s :: !parts in
  let faulted = ref false in
  let chk_fault = function Fault _ -> faulted := true | _ -> () in
  if full then begin
    let ir = imports p in
    chk_fault ir;
    add ("imports=" ^ show_rr ir);
    (match ir with
     | Ok r ->
       let ds = take desc_cap (descs p r) in
       tag (match List.length (descs p r) with 0 -> "dll0" | 1 -> "dll1" | 2 | 3 -> "dll2-3" | _ -> "dll4+");
       add ("descs=" ^ join "/" (List.map (fun d ->
         let name = dll_name p d in
         (match name with Ok _ -> tag "name-ok" | Err _ -> tag "name-err" | _ -> ());
         let (iat_r, iat_v) = (match desc_iat p d with
           | Ok q -> tag "iat-ok"; (show_rr (Ok q), join ";" (List.map string_of_n (take thunk_cap (thunk_values p q))))
           | e -> chk_fault e; (match e with Err EBounds -> tag "iat-unterminated" | _ -> ()); (show_rr e, "-")) in
         let (int_r, int_v) = (match desc_int p d with
           | Ok q -> tag "int-ok";
             let is = int_imports p q in
             List.iter (fun i -> chk_fault i; match i with Ok (ByName _) -> tag "byname" | Ok (ByOrdinal _) -> tag "byordinal" | Err _ -> tag "thunk-err" | _ -> ()) is;
             ("ok:" ^ string_of_int (List.length is), join ";" (List.map show_imp (take thunk_cap is)))
           | Err ENull -> tag "int-null"; ("e:Null", "-")
           | e -> chk_fault e; (match e with Err EBounds -> tag "int-unterminated" | _ -> ()); (show_rr e, "-")) in
         Printf.sprintf "%s.%s.%s.%s.%s|%s|%s|%s|%s|%s" (string_of_n d.d_oft) (string_of_n d.d_tds) (string_of_n d.d_fwd)
           (string_of_n d.d_name) (string_of_n d.d_ft) (show_rr name) iat_r iat_v int_r int_v) ds))
     | Err e -> tag ("imports-" ^ show_err e); add "descs=-"
     | Fault _ -> add "descs=-")
  end;
  let ar = iat p in
  chk_fault ar;
  add ("iat=" ^ show_rr ar);
  (match ar with
   | Ok q ->
     tag "iatdir-ok";
     let es = iat_iter p q in
     List.iter (fun (_, i) -> chk_fault i) es;
     add ("iatv=" ^ join "," (List.map (fun (va, i) -> string_of_n va ^ "~" ^ show_imp i) (take thunk_cap es)))
   | Err e -> tag ("iatdir-" ^ show_err e); add "iatv=-"
   | Fault _ -> add "iatv=-");
  if full then add "wrap=same";
  let mobs = if !faulted then "!fault " ^ String.concat " " (List.rev !parts) else String.concat " " (List.rev !parts) in
  (* ---------------- oracle on the implementation's observation (spec functions only) *)
  let bang = String.length obs > 0 && obs.[0] = '!' in
  let ok = ref (not bang) in
  let check b = if not b then ok := false in
  (if not bang then begin
    let ofs = fields (String.split_on_char ' ' obs) in
    let n_eq a b = Z.equal (z_of_n a) (z_of_n b) in
    let check_entries strs (expected : n list) decode =
      (* strs: the implementation's entries; expected: the spec's thunk values (already capped) *)
      check (List.length strs = List.length expected);
      (try List.iter2 (fun s t -> decode s t) strs expected with Invalid_argument _ -> ()) in
    if full then begin
      let ir = parse_rr (field ofs "imports") in
      let spec = imports_spec p in
      check (resR_eqb ir spec);
      (match spec with
       | Ok r ->
         let n = int_of_n r.r_len / 20 in
         let ds = split_on '/' (field ofs "descs") in
         check (List.length ds = min n desc_cap);
         List.iteri (fun k d ->
           match String.split_on_char '|' d with
           | [f; nm; iatr; iatv; intr; intv] ->
             let fl = List.map n_of_string (String.split_on_char '.' f) in
             let exp = List.map (fun o -> desc_field get r.r_off (n_of_int k) (n_of_int o)) [0; 4; 8; 12; 16] in
             check (List.length fl = 5 && List.for_all2 n_eq fl exp);
             let oft = List.nth exp 0 and name = List.nth exp 3 and ft = List.nth exp 4 in
             check (resR_eqb (parse_rr nm) (c_string_spec p name));
             let ts = thunks_spec p ft in
             check (resR_eqb (parse_rr iatr) ts);
             (match ts with
              | Ok q ->
                let cnt = int_of_n q.r_len / w in
                let expected = List.init (min cnt thunk_cap) (fun j -> thunk_spec get q.r_off nw (n_of_int j)) in
                check_entries (split_on ';' iatv) expected (fun s t -> check (n_eq (n_of_string s) t))
              | _ -> check (iatv = "-"));
             (match thunks_spec p oft with
              | Ok q ->
                let cnt = int_of_n q.r_len / w in
                check (intr = "ok:" ^ string_of_int cnt);
                let expected = List.init (min cnt thunk_cap) (fun j -> thunk_spec get q.r_off nw (n_of_int j)) in
                check_entries (split_on ';' intv) expected (fun s t -> check (resI_eqb (parse_imp s) (import_spec p t)))
              | Err e -> check (intr = "e:" ^ show_err e); check (intv = "-")
              | Fault _ -> check false)
           | _ -> check false) ds
       | _ -> check (field ofs "descs" = "-"))
    end;
    if full then check (field ofs "wrap" = "same");
    let ar = parse_rr (field ofs "iat") in
    let spec = iat_spec p in
    check (resR_eqb ar spec);
    (match spec with
     | Ok q ->
       let cnt = int_of_n q.r_len / w in
       let expected = List.init (min cnt thunk_cap) (fun j -> thunk_spec get q.r_off nw (n_of_int j)) in
       check_entries (split_on ',' (field ofs "iatv")) expected (fun s t ->
         match String.split_on_char '~' s with
         | [va; i] -> check (n_eq (n_of_string va) t); check (resI_eqb (parse_imp i) (import_spec p t))
         | _ -> check false)
     | _ -> check (field ofs "iatv" = "-"))
  end);
  let nontrivial = (match imports p with Ok _ -> true | _ -> false) || (match iat p with Ok _ -> true | _ -> false) in
  let taglist = String.concat "," (Hashtbl.fold (fun k () acc -> k :: acc) tags []) in
  (mobs, !ok, nontrivial, taglist, None)

let () = run_driver handle
