(* C19 driver: variant selection, the modelled delegations, the computed JSON detail and the
   null-ness of the modelled `.ok()` fields from the extracted model; the oracle on the
   implementation's observation (wrapper = format-specific API row by row, JSON = accessors row by row).
   Third round: the JSON text of ALL ten members (`resources` included, Model/WrapJsonRes.v) is rebuilt from the model and
   compared byte for byte; the oracle json_text_full_ok drops no member. *)
let show_err = function
  | ENull -> "Null" | EBounds -> "Bounds" | EZeroFill -> "ZeroFill" | EUnmapped -> "Unmapped"
  | EMisaligned -> "Misaligned" | EBadMagic -> "BadMagic" | EPeMagic -> "PeMagic" | EInsanity -> "Insanity"
  | EInvalid -> "Invalid" | EOverflow -> "Overflow" | EEncoding -> "Encoding" | EAliasing -> "Aliasing"
let verdict = function Ok _ -> "ok" | Err e -> show_err e | Fault _ -> "fault"

(* ---- the image: synthetic (len/fill/hdr/pokes) or a demo DLL (optionally mapped by the same rule as the harness) with pokes ---- *)
let repo_dir () = try Sys.getenv "PELITE_REPO" with Not_found -> "/repo"
let read_file path = let ic = open_in_bin path in let n = in_channel_length ic in let b = Bytes.create n in really_input ic b 0 n; close_in ic; b
let r16 b o = if o + 2 <= Bytes.length b then Char.code (Bytes.get b o) lor (Char.code (Bytes.get b (o+1)) lsl 8) else 0
let r32 b o = if o + 4 <= Bytes.length b then r16 b o lor (r16 b (o+2) lsl 16) else 0
let map_image b =
  let e = r32 b 0x3c in
  let nsec = r16 b (e + 6) and optsz = r16 b (e + 20) in
  let soi = r32 b (e + 24 + 56) and soh = r32 b (e + 24 + 60) in
  let out = Bytes.make soi '\000' in
  let n = min (min soh (Bytes.length b)) soi in
  Bytes.blit b 0 out 0 n;
  for i = 0 to nsec - 1 do
    let p = e + 24 + optsz + 40 * i in
    let vs = r32 b (p + 8) and va = r32 b (p + 12) and srd = r32 b (p + 16) and prd = r32 b (p + 20) in
    let n = if vs > 0 then min srd vs else srd in
    if prd + n <= Bytes.length b && va + n <= soi then Bytes.blit b prd out va n
  done;
  out
let cache : (string, Bytes.t) Hashtbl.t = Hashtbl.create 4
let wj_image fs : Bytes.t =
  let src = field fs "src" in
  if src = "synth" then image_of_fields fs else begin
    let key = src ^ field fs "view" in
    let base = (try Hashtbl.find cache key with Not_found ->
      let b = read_file (repo_dir () ^ "/demo/" ^ src) in
      let b = if field fs "view" = "1" then map_image b else b in
      Hashtbl.add cache key b; b) in
    let b = Bytes.copy base in
    let len = Bytes.length b in
    List.iter (fun p -> match String.split_on_char ':' p with
      | [o; h] -> let o = int_of_string o in
        List.iteri (fun k x -> if o + k < len then Bytes.set b (o + k) (Char.chr x)) (bytes_of_hex h)
      | _ -> failwith "poke") (split_on '/' (field fs "pokes"));
    b
  end

(* ---- canonical printing, as harness/src/bin/wrapjson.rs ---- *)
let at o l = Printf.sprintf "@%s+%s" (string_of_n o) (string_of_n l)
let c_rr = function Ok r -> "ok(" ^ at r.r_off r.r_len ^ ")" | Err e -> "e:" ^ show_err e | Fault _ -> "fault"
let c_opt f = function Some x -> "some(" ^ f x ^ ")" | None -> "none"


(* ---- second round: value-only forms of the rows `m.*`, the JSON text token ---- *)
let fnv (s : string) : string =
  let h = ref 0xcbf29ce484222325L in
  String.iter (fun c -> h := Int64.mul (Int64.logxor !h (Int64.of_int (Char.code c))) 0x100000001b3L) s;
  Printf.sprintf "%Lx" !h
let long_values = (try ignore (Sys.getenv "WJ_LONG"); true with Not_found -> false)
let hl s = if String.length s > 160 && not long_values then Printf.sprintf "#%s+%d" (fnv s) (String.length s) else s
let rec take k l = if k <= 0 then [] else match l with [] -> [] | x :: t -> x :: take (k - 1) t
let jn l sep = if l = [] then "-" else String.concat sep l
let v_err e = "e." ^ show_err e
let v_x = function Ok (Symbol r) -> "sym." ^ string_of_n r | Ok (Forward s) -> "fwd." ^ hex_of_nlist s | Err e -> v_err e | Fault _ -> "fault"
let v_n = function Ok s -> "n." ^ hex_of_nlist s | Err e -> v_err e | Fault _ -> "fault"
let v_r f = function Ok x -> f x | Err e -> v_err e | Fault _ -> "fault"
let pct_of_nlist (l : n list) : string =
  let b = Buffer.create 4096 in
  List.iter (fun x -> let c = int_of_n x in
    if c <= 0x20 || c >= 0x7f || c = 37 then Buffer.add_string b (Printf.sprintf "%%%02X" c) else Buffer.add_char b (Char.chr c)) l;
  Buffer.contents b
let nlist_of_pct (s : string) : n list =
  let n = String.length s in
  let rec go i acc = if i >= n then List.rev acc
    else if s.[i] = '%' && i + 2 < n then go (i + 3) (n_of_int (hexval s.[i+1] * 16 + hexval s.[i+2]) :: acc)
    else go (i + 1) (n_of_int (Char.code s.[i]) :: acc) in
  go 0 []

let split_first c s = match String.index_opt s c with
  | Some i -> (String.sub s 0 i, String.sub s (i+1) (String.length s - i - 1)) | None -> (s, "")

(* ---- third round: coverage of the branches of the `resources` serializer (Model/WrapJsonRes.v), read off the model ---- *)
let res_tags tag fspec file m =
  match acc_resources fspec file m with
  | Err _ -> tag "jr-null"; tag "jr-null-accessor"
  | Fault _ -> tag "jr-fault"
  | Ok s ->
    (match root s with
     | Err _ -> tag "jr-null"; tag "jr-null-root"
     | Fault _ -> tag "jr-fault"
     | Ok r ->
       let b = fsck_budget s in
       let run d b = jwalk d s r true b in
       let base = run jRES_DEPTH b in
       (match base with
        | Ok (l, _) ->
          tag (if l = [] then "jr-empty" else "jr-array");
          let dp = int_of_nat (jdepth (JArr l)) in
          if dp >= 2 then tag "jr-tree";
          if dp >= 32 then tag "jr-depth-32";
          (* a limit mattered exactly when one more unit of it changes the value *)
          let items = function Ok (l, _) -> Some l | _ -> None in
          if items (run (S jRES_DEPTH) b) <> Some l then tag "jr-depth-cut";
          if items (run jRES_DEPTH (n_of_int (int_of_n b + 1))) <> Some l then tag "jr-budget-cut";
          (* names and entries of the part of the tree the walk visits *)
          let budget = ref (int_of_n b) in
          let rec visit d off top =
            List.iter (fun e -> if !budget > 0 then begin
              decr budget;
              (match e_name s e with
               | Ok (NWide ws) ->
                 let its = decode_utf16 ws in
                 if List.mem None its then tag "jr-lossy";
                 if List.exists (function Some c -> int_of_n c >= 65536 | None -> false) its then tag "jr-nonbmp";
                 tag "jr-wide"
               | Ok (NId id) ->
                 (match rsrc_type id with
                  | Some _ -> tag (if top then "jr-renamed" else "jr-nested-id-kept")
                  | None -> if top then tag "jr-top-id-plain")
               | Ok (NStr _) -> ()
               | Err _ -> tag "jr-name-null" | Fault _ -> tag "jr-fault");
              (match e_entry s e with
               | Ok (EDir o) -> if d > 0 then visit (d - 1) o false
               | Ok (EData _) -> tag "jr-data"
               | Err _ -> tag "jr-entry-null" | Fault _ -> tag "jr-fault")
            end) (entries s off) in
          visit (int_of_nat jRES_DEPTH) r true
        | _ -> tag "jr-fault"))

let handle kind fs obs =
  if kind <> "wj" then ("!unknown-kind", false, false, "unknown", None) else
  let img = wj_image fs in
  let get = mget_of img in
  let m = { m_addr = n_of_int (4096 + int_of_string (field fs "place")); m_len = n_of_int (Bytes.length img); m_get = get } in
  let file = field fs "view" = "0" in
  let sel = wrap_from_bytes m in
  let sel_s = (match sel with Ok T32 -> "T32" | Ok T64 -> "T64" | Err e -> show_err e | Fault _ -> "fault") in
  let head = Printf.sprintf "sel=%s f32=%s f64=%s" sel_s (verdict (validate fmt32 m)) (verdict (validate fmt64 m)) in
  let bang = String.length obs > 0 && obs.[0] = '!' in
  let toks = if bang then [] else String.split_on_char ' ' obs in
  let ifs = fields toks in
  let tags = ref [field fs "src"; (if file then "file" else "view")] in
  let tag t = if not (List.mem t !tags) then tags := t :: !tags in
  let isel = (try field ifs "sel" with _ -> "?") in
  let isel_w = (match isel with "T32" -> Some T32 | "T64" -> Some T64 | _ -> None) in
  let sel_ok = (not bang) && select_ok m isel_w in
  match sel with
  | Err _ | Fault _ ->
    tag ("rejected:" ^ sel_s);
    (head, sel_ok && isel_w = None, false, String.concat "," !tags, None)
  | Ok w ->
    let f = fmt_of w in
    tag (if f.f_64 then "pe64" else "pe32"); tag "accepted";
    (* the format named by the magic, independently of the wrapper model *)
    let fspec = (match fmt_by_magic m with Some f -> f | None -> failwith "magic") in
    let value off size = le_value get off (nat_of_int size) in
    let c_derva size r = (match r with Ok rg -> Printf.sprintf "ok(%s:%s)" (at rg.r_off rg.r_len) (string_of_n (value rg.r_off size)) | r -> c_rr r) in
    let c_copy size r1 r3 =
      let s1 = (match r1 with Ok rg -> "ok(" ^ string_of_n (value rg.r_off size) ^ ")" | r -> c_rr r) in
      let s3 = (match r3 with Ok rg -> let o k = n_of_int (int_of_n rg.r_off + k * size) in
                  Printf.sprintf "ok(%s:%s:%s)" (string_of_n (value (o 0) size)) (string_of_n (value (o 1) size)) (string_of_n (value (o 2) size))
                | r -> c_rr r) in
      Printf.sprintf "(%s;%s)" s1 s3 in
    (* a modelled row: Some (value through the wrapper model, value through the op of the magic's fmt) *)
    let modelled name : (string * string) option =
      let p = Array.of_list (String.split_on_char ':' name) in
      let n k = n_of_string p.(k) in
      let both g = Some (g true, g false) in   (* true = wrapper path *)
      (match p.(0) with
       | "image" | "hpe" -> both (fun _ -> at (n_of_int 0) m.m_len)
       | "align" -> both (fun _ -> if file then "File" else "Section")
       | "acc" -> both (fun wr -> String.concat "," (List.map (fun a -> at a.a_off a.a_len) (if wr then wrap_accessors w m else op_accessors fspec m)))
       | "dirs" -> both (fun wr -> String.concat ";" (List.map (fun (a, b) -> string_of_n a ^ ":" ^ string_of_n b) (if wr then wrap_data_directory w m else op_data_directory fspec m)))
       | "secs" -> both (fun wr -> String.concat ";" (List.map (fun s -> Printf.sprintf "%s:%s:%s:%s" (string_of_n s.s_va) (string_of_n s.s_vs) (string_of_n s.s_prd) (string_of_n s.s_srd))
                                     (if wr then wrap_section_headers w m else op_section_headers fspec m)))
       | "csum" -> both (fun wr -> if Bytes.length img > (1 lsl 20) then "0" else string_of_n (if wr then wrap_check_sum w m else op_check_sum fspec m))
       | "code_range" -> both (fun wr -> let (a, b) = (if wr then wrap_code_range w m else op_code_range fspec m) in string_of_n a ^ ".." ^ string_of_n b)
       | "image_range" -> both (fun wr -> let (a, b) = (if wr then wrap_image_range w m else op_image_range fspec m) in string_of_n a ^ ".." ^ string_of_n b)
       | "sl" -> tag "q-slice"; both (fun wr -> c_rr (if wr then wrap_slice w file m (n 1) (n 2) (n 3) else op_slice fspec file m (n 1) (n 2) (n 3)))
       | "sb" -> both (fun wr -> c_rr (if wr then wrap_slice_bytes w file m (n 1) else op_slice_bytes fspec file m (n 1)))
       | "gsb" -> both (fun wr -> c_opt c_rr (if wr then wrap_get_section_bytes w file m (n 1) else op_get_section_bytes fspec file m (n 1)))
       | "byrva" -> both (fun wr -> c_opt string_of_n (if wr then wrap_by_rva w m (n 1) else op_by_rva fspec m (n 1)))
       | "byname" -> both (fun wr -> c_opt string_of_n (by_name (if wr then f else fspec) m (nlist_of_hex p.(1))))
       | "derva" -> tag "q-derva"; let size = int_of_string p.(2) in
         both (fun wr -> c_derva size (if wr then wrap_derva w file m (n 1) (n 2) (n 2) else op_derva fspec file m (n 1) (n 2) (n 2)))
       | "copy" -> let size = int_of_string p.(2) in let s3 = n_of_int (3 * size) in
         both (fun wr -> if wr then c_copy size (wrap_derva_copy w file m (n 1) (n 2)) (wrap_derva_copy w file m (n 1) s3)
                         else c_copy size (op_derva_copy fspec file m (n 1) (n 2)) (op_derva_copy fspec file m (n 1) s3))
       | "arr" -> both (fun wr -> c_rr (if wr then wrap_derva_slice w file m (n 1) (n 2) (n 2) (n 3) else op_derva_slice fspec file m (n 1) (n 2) (n 2) (n 3)))
       | "sent" -> tag "q-sentinel"; both (fun wr -> c_rr (if wr then wrap_derva_slice_s w file m (n 1) (n 2) (n 2) (n 3) else op_derva_slice_s fspec file m (n 1) (n 2) (n 2) (n 3)))
       | "sentf" -> let k = z_of_n (n 3) in let pr x = Z.equal (Z.logand (z_of_n x) (Z.of_int 255)) k in
         both (fun wr -> c_rr (if wr then wrap_derva_slice_f w file m (n 1) (n 2) (n 2) pr else op_derva_slice_f fspec file m (n 1) (n 2) (n 2) pr))
       | "cstr" -> both (fun wr -> let r = c_rr (if wr then wrap_derva_c_str w file m (n 1) else op_derva_c_str fspec file m (n 1)) in Printf.sprintf "(%s;%s)" r r)
       | "m.by.iter" | "m.by.iter_names" | "m.by.iter_name_indices" ->
         both (fun wr ->
           let fm = if wr then f else fspec in
           let by = if wr then (match wrap_exports_by w file m with Ok x -> Ok (winto x) | Err e -> Err e | Fault y -> Fault y) else op_exports_by fspec file m in
           hl (v_r (fun t ->
             match p.(0) with
             | "m.by.iter" -> let t = { t with t_funcs = take 64 t.t_funcs } in
               jn (List.map v_x (if wr then wby_iter w (fun g -> op_cstr g file m) t else iter0 (op_cstr fm file m) t)) ","
             | "m.by.iter_names" -> let t = { t with t_names = take 64 t.t_names } in
               jn (List.map (fun (a, b) -> Printf.sprintf "(%s;%s)" (v_n a) (v_x b)) (if wr then wby_iter_names w (fun g -> op_cstr g file m) t else iter_names (op_cstr fm file m) t)) ","
             | _ -> let t = { t with t_names = take 64 t.t_names } in
               jn (List.map (fun (a, i) -> Printf.sprintf "(%s;%s)" (v_n a) (string_of_n i)) (if wr then wby_iter_name_indices w (fun g -> op_cstr g file m) t else iter_name_indices (op_cstr fm file m) t)) ",") by))
       | "m.imp.int" | "m.imp.iat" ->
         both (fun wr ->
           let fm = if wr then f else fspec in
           hl (v_r (fun r ->
             let descs = if wr then List.map winto (wrap_imports_iter w file m r) else op_descs fspec file m r in
             jn (List.map (fun d ->
               if p.(0) = "m.imp.int" then
                 v_r (fun l -> "[" ^ jn (List.map (fun i -> match i with
                     | Ok (ByName (h, nm)) -> Printf.sprintf "n.%s.%s" (string_of_n h) (hex_of_nlist (List.init (int_of_n nm.r_len - 1) (fun k -> get (n_of_int (int_of_n nm.r_off + k)))))
                     | Ok (ByOrdinal o) -> "o." ^ string_of_n o | Err e -> v_err e | Fault _ -> "fault") (take 64 l)) "," ^ "]")
                   (if wr then wrap_desc_int w file m d else op_desc_int fspec file m d)
               else
                 v_r (fun l -> "[" ^ jn (List.map string_of_n (take 64 l)) "," ^ "]")
                   (if wr then (match wrap_desc_iat w file m d with Ok x -> Ok (winto x) | Err e -> Err e | Fault y -> Fault y) else op_desc_iat fspec file m d))
               (take 8 descs)) "|") (op_imports fm file m)))
       | "m.dbg.into_iter" ->
         both (fun wr -> let fm = if wr then f else fspec in
           v_r (fun r -> string_of_int (if wr then List.length (wrap_debug_iter w file m r) else List.length (op_debug_dirs fspec file m r))) (op_debug fm file m))
       | _ -> None) in
    let show_acc r = (match r with Ok _ -> "ok" | Err e -> "e:" ^ show_err e | Fault _ -> "fault") in
    let accs = [ ("exports", acc_exports fspec file m); ("tls", acc_tls fspec file m); ("load_config", acc_load_config fspec file m);
                 ("debug", acc_debug fspec file m); ("base_relocs", acc_base_relocs fspec file m); ("security", acc_security fspec file m) ] in
    let verdicts = String.concat "," (List.map (fun (k, r) -> k ^ ":" ^ show_acc r) accs) in
    let details = (match details_dd_sections fspec m with
      | Ok l -> String.concat "," (List.map (function Some i -> string_of_n i | None -> "n") l) | _ -> "fault") in
    let all_ok = ref (sel_ok && not bang) in
    let fail why = all_ok := false; tag ("fail-" ^ why) in
    let json_seen = ref false in
    let nulls = Hashtbl.create 16 in
    let out = List.map (fun t ->
      if String.length t > 2 && (String.sub t 0 2 = "W:" || String.sub t 0 2 = "J:") then begin
        let isw = t.[0] = 'W' in
        let (name, v) = split_first '=' (String.sub t 2 (String.length t - 2)) in
        let (a, b) = split_first '~' v in
        (* oracle on the implementation's row *)
        if isw then begin
          if a <> b then fail "delegation";
          if String.length a > 6 && String.sub a 0 6 = "!panic" then tag "w-both-panic"
        end else begin
          if name = "acc.verdicts" then () else if a <> b then fail ("json-" ^ name);
          if String.length name > 5 && String.sub name 0 5 = "null." then Hashtbl.replace nulls (String.sub name 5 (String.length name - 5)) (a = "null");
          if name = "details.dd_sections" then begin
            let parsed = List.map (fun s -> if s = "n" then None else Some (n_of_string s)) (if a = "" then [] else String.split_on_char ',' a) in
            if not (details_ok fspec m parsed) then fail "details-oracle"
          end
        end;
        (* model text *)
        if isw then (match (try modelled name with _ -> None) with
          | Some (x, y) -> Printf.sprintf "W:%s=%s~%s" name x y
          | None -> t)
        else if name = "acc.verdicts" then Printf.sprintf "J:%s=%s~-" name verdicts
        else if name = "details.dd_sections" then Printf.sprintf "J:%s=%s~%s" name details details
        else t
      end else if String.length t > 3 && String.sub t 0 3 = "JT:" then begin
        let body = String.sub t 3 (String.length t - 3) in
        if body = "!big" then (tag "json-big"; t) else begin
          (* coverage of the branches of the serialization model, read off the implementation's text *)
          let has sub = (let n = String.length body and k = String.length sub in
            let rec go i = i + k <= n && (String.sub body i k = sub || go (i + 1)) in go 0) in
          List.iter (fun (sub, tg) -> if has sub then tag tg)
            [ ("\\u00", "j-escape-u00"); ("\\\\x", "j-cstr-hex"); ("\"Name\":[", "j-secname-bytes"); ("\"entry\":[{", "j-entry-pgo");
              ("\"entry\":[]", "j-entry-empty-array"); ("\"entry\":{}", "j-entry-dbg"); ("\"entry\":{\"format", "j-entry-codeview"); ("\"format\":\"NB10\"", "j-codeview-nb10"); ("\"OptionalHeader.Subsystem\":null", "j-subsystem-unknown"); ("\"FileHeader.Machine\":null", "j-machine-unknown");
              ("%C3%A9", "j-utf8-2byte"); ("%E2%82%AC", "j-utf8-3byte"); ("%F0%9F%98%80", "j-utf8-4byte"); ("\\\"", "j-escape-quote");
              ("\"ByOrdinal\"", "j-import-by-ordinal"); ("\"callbacks\":null", "j-callbacks-null"); ("\"raw_data\":null", "j-rawdata-null") ];
          let text = nlist_of_pct body in
          (* third round: all ten members, `resources` included, from the model; nothing is taken from the implementation's text *)
          let model = json_of_image_full fspec file m in
          if json_text_full_ok model text then tag "json-model-ok" else fail "json-text";
          res_tags tag fspec file m;
          (match model with
           | Ok j -> "JT:" ^ pct_of_nlist (print_json j)
           | Err e -> "JT:!model-" ^ show_err e | Fault _ -> "JT:!model-fault")
        end
      end else if String.length t > 3 && String.sub t 0 3 = "JD:" then begin
        (* Serialize for Directory on the root: the model's text, compared as a whole *)
        if t = "JD:!big" then t else begin
          let mt = (match acc_resources fspec file m with
            | Ok s -> (match root s with
                | Ok r -> (match json_directory s r with Ok j -> "JD:" ^ pct_of_nlist (print_json j) | _ -> "JD:!model")
                | _ -> "JD:!model-no-root")
            | _ -> "JD:!model-no-resources") in
          if mt <> t then fail "json-directory" else tag "jd-ok"; mt
        end
      end else if String.length t > 4 && String.sub t 0 2 = "JE" && t.[3] = ':' then begin
        (* Serialize for DirectoryEntry on the k-th entry of the root *)
        let k = Char.code t.[2] - 48 in
        if String.length t >= 8 && String.sub t 4 4 = "!big" then t else begin
          let mt = (match acc_resources fspec file m with
            | Ok s -> (match root s with
                | Ok r -> (match List.nth_opt (entries s r) k with
                    | Some e -> (match json_dir_entry s e with Ok j -> Printf.sprintf "JE%d:%s" k (pct_of_nlist (print_json j)) | _ -> "JE:!model")
                    | None -> "JE:!model-no-entry")
                | _ -> "JE:!model-no-root")
            | _ -> "JE:!model-no-resources") in
          if mt <> t then fail "json-dir-entry" else tag "je-ok"; mt
        end
      end else if String.length t > 5 && String.sub t 0 5 = "json=" then begin
        json_seen := true;
        if t <> "json=ok" then fail "json"; "json=ok"
      end else if String.length t > 6 && String.sub t 0 6 = "magic=" then "magic=" ^ string_of_n fspec.f_magic
      else if String.length t > 4 && String.sub t 0 4 = "sel=" then "sel=" ^ sel_s
      else if String.length t > 4 && String.sub t 0 4 = "f32=" then "f32=" ^ verdict (validate fmt32 m)
      else if String.length t > 4 && String.sub t 0 4 = "f64=" then "f64=" ^ verdict (validate fmt64 m)
      else t) toks in
    if not !json_seen then fail "json-missing";
    (* `.ok()` fields whose accessor is modelled: null exactly when the model accessor errs (exports goes through by(), checked by its J row only) *)
    List.iter (fun (k, r) -> if k <> "exports" then
      (match Hashtbl.find_opt nulls k with
       | Some isnull -> if not (null_ok r isnull) then fail ("null-" ^ k); if not isnull then tag ("has-" ^ k)
       | None -> fail ("null-missing-" ^ k))) accs;
    (match Hashtbl.find_opt nulls "exports" with Some false -> tag "has-exports" | _ -> ());
    (match Hashtbl.find_opt nulls "imports" with Some false -> tag "has-imports" | _ -> ());
    (match Hashtbl.find_opt nulls "resources" with Some false -> tag "has-resources" | _ -> ());
    let mobs = if bang then head else String.concat " " out in
    (mobs, !all_ok, true, String.concat "," !tags, None)

let () = run_driver handle
