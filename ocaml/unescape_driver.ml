(* C17 driver: the macro model (unescaper + parser) and the Rust-literal spec against the generated crate *)
let show_atom = function
  | Byte b -> "Byte:" ^ string_of_n b | Save s -> "Save:" ^ string_of_n s | Push k -> "Push:" ^ string_of_n k | Pop -> "Pop"
  | Fuzzy m -> "Fuzzy:" ^ string_of_n m | Skip k -> "Skip:" ^ string_of_n k | Back k -> "Back:" ^ string_of_n k
  | Rangext k -> "Rangext:" ^ string_of_n k | Many k -> "Many:" ^ string_of_n k | Jump1 -> "Jump1" | Jump4 -> "Jump4" | Ptr -> "Ptr"
  | Pir s -> "Pir:" ^ string_of_n s | VTypeName -> "VTypeName" | Check s -> "Check:" ^ string_of_n s | Aligned k -> "Aligned:" ^ string_of_n k
  | ReadI8 s -> "ReadI8:" ^ string_of_n s | ReadU8 s -> "ReadU8:" ^ string_of_n s | ReadI16 s -> "ReadI16:" ^ string_of_n s
  | ReadU16 s -> "ReadU16:" ^ string_of_n s | ReadI32 s -> "ReadI32:" ^ string_of_n s | ReadU32 s -> "ReadU32:" ^ string_of_n s
  | Zero s -> "Zero:" ^ string_of_n s | Case k -> "Case:" ^ string_of_n k | Break k -> "Break:" ^ string_of_n k | Nop -> "Nop"
let parse_atom t = match String.split_on_char ':' t with
  | [name] | [name; _] as l ->
    let a = (match l with [_; x] -> n_of_string x | _ -> N0) in
    (match name with
     | "Byte" -> Byte a | "Save" -> Save a | "Push" -> Push a | "Pop" -> Pop | "Fuzzy" -> Fuzzy a | "Skip" -> Skip a | "Back" -> Back a
     | "Rangext" -> Rangext a | "Many" -> Many a | "Jump1" -> Jump1 | "Jump4" -> Jump4 | "Ptr" -> Ptr | "Pir" -> Pir a | "VTypeName" -> VTypeName
     | "Check" -> Check a | "Aligned" -> Aligned a | "ReadI8" -> ReadI8 a | "ReadU8" -> ReadU8 a | "ReadI16" -> ReadI16 a | "ReadU16" -> ReadU16 a
     | "ReadI32" -> ReadI32 a | "ReadU32" -> ReadU32 a | "Zero" -> Zero a | "Case" -> Case a | "Break" -> Break a | "Nop" -> Nop
     | _ -> failwith ("atom " ^ name))
  | _ -> failwith "atom"
let show_err = function
  | UnpairedHexDigit -> "UnpairedHexDigit" | UnknownChar -> "UnknownChar" | ManyOverflow -> "ManyOverflow" | ManyRange -> "ManyRange"
  | ManyInvalid -> "ManyInvalid" | SaveOverflow -> "SaveOverflow" | StackError -> "StackError" | StackInvalid -> "StackInvalid"
  | UnclosedQuote -> "UnclosedQuote" | AlignedOperand -> "AlignedOperand" | ReadOperand -> "ReadOperand" | SubPattern -> "SubPattern" | SubOverflow -> "SubOverflow"
let show_reject = function
  | RNoQuote -> "noquote" | RUnicodeEscape -> "unicode" | RUnknownEscape c -> "unknown:" ^ string_of_n c
  | RTrailingBackslash -> "trailing-backslash" | RUnterminated -> "unterminated" | RSuffix -> "suffix"
let atoms_text l = join "," (List.map show_atom l)
let starts_with p s = String.length s >= String.length p && String.sub s 0 (String.length p) = p
let after p s = String.sub s (String.length p) (String.length s - String.length p)

(* ---- the code generation step ---- *)
let string_of_nlist (l : n list) : string = String.concat "" (List.map (fun b -> String.make 1 (Char.chr (int_of_n b))) l)
(* the text the macro returns for an argument whose Debug text is [dbg]: the model of format!(..) on the format string *)
let expansion_of_debug (dbg : n list) : n list option = rust_format format_string dbg
(* the oracle on the implementation's printed text: the extracted reader of the Rust fragment gives back the atoms *)
let reads_back (dbg : n list) (atoms : atom list) : bool =
  match expansion_of_debug dbg with Some text -> codegen_oracle atom_eqb text atoms | None -> false
(* the Spec's variant table (names, arities, field types) as the harness prints the enum's source *)
let variants_text = String.concat "," (List.map (fun (name, v) ->
  string_of_nlist name ^ (match v with VUnit _ -> "" | VTuple1 (U8, _) -> ":u8" | VTuple1 (U16, _) -> ":u16" | VTuple1 (U32, _) -> ":u32")) variants)

let shared_expect = "path_attr=1 mod_decl=1 single_copy=1 dep_path=1 reexport=1 cfg_neutral=1"
  ^ " fmt=" ^ hex_of_nlist format_string ^ " codegen_call=1 debug_derived=1 variants=" ^ variants_text

let handle kind fs obs =
  let bang = String.length obs > 0 && obs.[0] = '!' in
  match kind with
  | "shared" -> (shared_expect, obs = shared_expect, true, "shared-source", None)
  | "dbg" ->
    (* a hand-built vector: the real Debug text against the model's, read back by the Spec; the expansion text compiled
       by rustc (const=) against the vector *)
    let atoms = List.map parse_atom (split_on ',' (field fs "atoms")) in
    let mobs = Printf.sprintf "dbg=%s const=ok:%s" (hex_of_nlist (debug_atoms atoms)) (atoms_text atoms) in
    let ok = (not bang) && (try
      let ofs = fields (String.split_on_char ' ' obs) in
      let o_dbg = nlist_of_hex (field ofs "dbg") and o_const = field ofs "const" in
      starts_with "ok:" o_const
      && atoms_eqb atom_eqb (List.map parse_atom (split_on ',' (after "ok:" o_const))) atoms
      && reads_back o_dbg atoms
    with _ -> false) in
    let kinds = List.sort_uniq compare (List.map (fun a -> List.hd (String.split_on_char ':' (show_atom a))) atoms) in
    (mobs, ok, atoms <> [], "debug-vector," ^ (if atoms = [] then "empty-vector" else Printf.sprintf "%d-variants" (List.length kinds)), None)
  | "lit" | "tok" ->
    let ofs = if bang then [] else fields (String.split_on_char ' ' obs) in
    let solo = (try List.assoc "solo" ofs with Not_found -> "-") in
    let solo_expect = if solo = "-" then "-" else "1" in
    (match utf8_decode (nlist_of_hex (field fs "src")) with
     | None -> ("!notutf8", false, false, "notutf8", None)
     | Some src ->
       let lit = normalize_crlf src in
       let m = macro_model lit in
       let rust = if kind = "tok" then None else rust_unescape lit in
       let lex_ok = if kind = "tok" then true else rust_lex_ok lit in
       let m_macro = (match m with
         | MLiteral r -> "nocompile:literal:" ^ show_reject r
         | MPattern (e, pos) -> Printf.sprintf "nocompile:pattern:%s@%d" (show_err e) (int_of_nat pos)
         | MExpands atoms -> if lex_ok then "ok:" ^ atoms_text atoms else "nocompile:rustc"
         | MFault _ -> "!fault") in
       let m_str = if kind = "tok" then "-" else (match rust with Some s -> hex_of_nlist (utf8_encode s) | None -> "nocompile") in
       let m_parse = (match rust with
         | None -> "-"
         | Some s -> (match parse (utf8_encode s) with
             | Ok (Inr atoms) -> "ok:" ^ atoms_text atoms
             | Ok (Inl (e, pos)) -> Printf.sprintf "err:%s@%d" (show_err e) (int_of_nat pos)
             | _ -> "!fault")) in
       (* the Debug text of the run-time parser's result: what the macro's format!(..) prints for this literal *)
       let m_dbg = (match rust with
         | None -> "-"
         | Some s -> (match parse (utf8_encode s) with Ok (Inr atoms) -> hex_of_nlist (debug_atoms atoms) | _ -> "-")) in
       let mobs = Printf.sprintf "macro=%s str=%s parse=%s dbg=%s solo=%s" m_macro m_str m_parse m_dbg solo_expect in
       (* the oracle looks at the implementation's observation only *)
       let in_class = (kind = "lit") && escape_not_supported_by_macro lit in
       let ok = (not bang) && (try
         let o_macro = field ofs "macro" and o_str = field ofs "str" and o_parse = field ofs "parse" in
         let atoms_of s = List.map parse_atom (split_on ',' s) in
         let macro_o = if starts_with "ok:" o_macro then Some (atoms_of (after "ok:" o_macro))
                       else if starts_with "nocompile" o_macro then None else failwith "macro" in
         if kind = "tok" then macro_o = None && solo = solo_expect
         else begin
           let str_o = if o_str = "nocompile" then None else Some (nlist_of_hex o_str) in
           let parse_o = if starts_with "ok:" o_parse then Some (atoms_of (after "ok:" o_parse))
                         else if starts_with "err:" o_parse || o_parse = "-" then None else failwith "parse" in
           let o_dbg = field ofs "dbg" in
           c17_oracle str_o parse_o macro_o
           (* the implementation's printed text, read as Rust by the extracted Spec, is the vector it was printed from *)
           && (match parse_o with
               | Some a when starts_with "ok:" o_parse -> o_dbg <> "-" && reads_back (nlist_of_hex o_dbg) a
               | _ -> o_dbg = "-")
           (* a pattern the run-time parser rejects is refused at compile time with the same error at the same position *)
           && (if starts_with "err:" o_parse && starts_with "nocompile:pattern:" o_macro then after "err:" o_parse = after "nocompile:pattern:" o_macro else true)
           && solo = solo_expect
         end
       with _ -> false) in
       let tag =
         if kind = "tok" then "other-token"
         else if in_class then "known-class"
         else if rust = None then (if lex_ok then "suffix" else "not-a-rust-literal")
         else (match m with MExpands _ -> "expands" | MPattern _ -> "pattern-rejected" | MLiteral _ -> "literal-refused" | MFault _ -> "fault") in
       let has c = List.mem (n_of_int c) lit in
       let tags = String.concat "," (tag :: (if has 92 then ["backslash"] else []) @ (if has 10 then ["real-newline"] else [])
                                      @ (if has 9 then ["real-tab"] else []) @ (if List.exists (fun c -> int_of_n c > 127) lit then ["non-ascii"] else [])
                                      @ (if solo <> "-" then ["compiled-alone"] else [])) in
       let nontrivial = (match m with MExpands a -> List.length a >= 2 | MPattern _ -> true | _ -> has 92) in
       (* the class excuses a refusal by the unescaper, nothing else *)
       let refused = (try starts_with "nocompile:literal:" (List.assoc "macro" ofs) with Not_found -> false) in
       (mobs, ok, nontrivial, tags, (if in_class && refused then Some "escape_not_supported_by_macro" else None)))
  | _ -> ("!unknown-kind", false, false, "unknown", None)
let () = run_driver handle
