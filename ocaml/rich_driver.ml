(* C16 driver *)
let show_err = function
  | ENull -> "Null" | EBounds -> "Bounds" | EZeroFill -> "ZeroFill" | EUnmapped -> "Unmapped"
  | EMisaligned -> "Misaligned" | EBadMagic -> "BadMagic" | EPeMagic -> "PeMagic" | EInsanity -> "Insanity"
  | EInvalid -> "Invalid" | EOverflow -> "Overflow" | EEncoding -> "Encoding" | EAliasing -> "Aliasing"
let show_rec r = Printf.sprintf "%s:%s:%s" (string_of_n r.r_build) (string_of_n r.r_product) (string_of_n r.r_count)
let parse_rec s = match String.split_on_char ':' s with
  | [a; b; c] -> { r_build = n_of_string a; r_product = n_of_string b; r_count = n_of_string c } | _ -> failwith "rec"
let dwords_of_bytes (l : int list) : n list =
  let a = Array.of_list l in
  List.init (Array.length a / 4) (fun i -> n_of_z (Z.of_int (a.(4*i) lor (a.(4*i+1) lsl 8) lor (a.(4*i+2) lsl 16) lor (a.(4*i+3) lsl 24))))
let rec take n l = if n <= 0 then [] else match l with [] -> [] | x :: t -> x :: take (n-1) t

let handle kind fs obs =
  let ofs = fields (String.split_on_char ' ' obs) in
  let bang = String.length obs > 0 && obs.[0] = '!' in
  match kind with
  | "codec" ->
    let key = n_of_string (field fs "key") and v0 = n_of_string (field fs "v0") and v1 = n_of_string (field fs "v1") in
    let d = rdecode key v0 v1 in
    let (e0, e1) = rencode d key in
    let r = { r_build = n_of_string (field fs "build"); r_product = n_of_string (field fs "product"); r_count = n_of_string (field fs "count") } in
    let (f0, f1) = rencode r key in
    let d2 = rdecode key f0 f1 in
    let mobs = Printf.sprintf "dec=%s reenc=%s:%s enc=%s:%s redec=%s" (show_rec d) (string_of_n e0) (string_of_n e1) (string_of_n f0) (string_of_n f1) (show_rec d2) in
    (* oracle: the two inverse laws, on the implementation's own values *)
    let ok = (not bang) && field ofs "reenc" = (string_of_n v0 ^ ":" ^ string_of_n v1) && field ofs "redec" = show_rec r in
    (mobs, ok, true, "codec", None)
  | "rich" ->
    let image = dwords_of_bytes (bytes_of_hex (field fs "img")) in
    let expect = field fs "expect" in
    let extra = int_of_string (field fs "extra") in
    let mobs = (match try_from image with
      | Err e -> "res=" ^ show_err e
      | Fault _ -> "!fault"
      | Ok se ->
        let recs = records image se in
        let stub = take (int_of_nat (fst se)) image in
        let n = List.length recs in
        let enc = (match encode stub recs (nat_of_int (2 * n + 6 + extra)) with
          | Inl (Ok (w, total)) -> Printf.sprintf "ok:%s:%s" (string_of_n total) (join "." (List.map string_of_n w))
          | Inr total -> "err:" ^ string_of_n total | _ -> "!fault") in
        let encshort = (match encode stub recs (nat_of_int (max 0 (2 * n + 5 - extra))) with
          | Inl (Ok (_, total)) -> "ok:" ^ string_of_n total | Inr total -> "err:" ^ string_of_n total | _ -> "!fault") in
        Printf.sprintf "res=ok s=%d e=%d key=%s csum=%s recs=%s enc=%s encshort=%s" (int_of_nat (fst se)) (int_of_nat (snd se))
          (string_of_n (xor_key image se)) (string_of_n (checksum image se)) (join "," (List.map show_rec recs)) enc encshort) in
    let key = n_of_string (field fs "key") in
    let recs = List.map parse_rec (split_on ',' (field fs "recs")) in
    let nstub = int_of_string (field fs "nstub") in
    let stub = take nstub image in
    let kc = known_class key recs in
    let res = if bang then "" else field ofs "res" in
    let e_lf = (match List.nth_opt image 15 with Some x -> int_of_n x / 4 | None -> 0) in
    let dos = take e_lf image in
    (* whatever is accepted must have the well-formed trailer *)
    let wf_ok = (res <> "ok") || well_formedb dos (nat_of_int (int_of_string (field ofs "s"))) (nat_of_int (int_of_string (field ofs "e"))) in
    let rt_ok = (match expect with
      | "roundtrip" | "decode" ->
        res = "ok" && field ofs "key" = string_of_n key && field ofs "recs" = join "," (List.map show_rec recs)
        && int_of_string (field ofs "s") = nstub
        && (expect = "decode" ||
            (field ofs "csum" = string_of_n key && string_of_n (rich_checksum stub recs) = string_of_n key
             && (let w = write_words key recs in
                 let padn = extra in
                 (match String.split_on_char ':' (field ofs "enc") with
                  | ["ok"; _; ws] -> ws = join "." (List.map string_of_n (w @ List.init padn (fun _ -> N0)))
                  | _ -> false))))
      | _ -> true) in
    (* C16_reencode + C16_checksum_formula on whatever was accepted: encode() writes the header keyed with the
       checksum of (stub, the records it was given), zero padded *)
    let enc_ok = (res <> "ok") || (
      let s_i = int_of_string (field ofs "s") in
      let stub_i = take s_i image in
      let recs_i = List.map parse_rec (split_on ',' (field ofs "recs")) in
      let k = rich_checksum stub_i recs_i in
      (match String.split_on_char ':' (field ofs "enc") with
       | ["ok"; _; ws] -> ws = join "." (List.map string_of_n (write_words k recs_i @ List.init extra (fun _ -> N0)))
       | _ -> false)) in
    let ok = (not bang) && wf_ok && rt_ok && enc_ok in
    (mobs, ok, res = "ok" || expect <> "skip", Printf.sprintf "%s,%s" expect (if bang then "bang" else if res = "ok" then "accepted" else "rejected:" ^ res),
     (* the two known classes (F20 false header inside the records, key zero) are ambiguities of the DECODING: they excuse a
        failing round trip only; what is accepted must still be well formed and re-encode to the checksum-keyed words *)
     (if (not ok) && kc && wf_ok && enc_ok && not bang then Some (if Z.equal (z_of_n key) Z.zero then "key_is_zero" else "records_contain_false_header") else None))
  | _ -> ("!unknown-kind", false, false, "unknown", None)
let () = run_driver handle
