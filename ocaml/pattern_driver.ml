(* C11 driver: parser and interpreter *)
let show_atom = function
  | Byte b -> "Byte:" ^ string_of_n b | Save s -> "Save:" ^ string_of_n s | Push k -> "Push:" ^ string_of_n k | Pop -> "Pop"
  | Fuzzy m -> "Fuzzy:" ^ string_of_n m | Skip k -> "Skip:" ^ string_of_n k | Back k -> "Back:" ^ string_of_n k
  | Rangext k -> "Rangext:" ^ string_of_n k | Many k -> "Many:" ^ string_of_n k | Jump1 -> "Jump1" | Jump4 -> "Jump4" | Ptr -> "Ptr"
  | Pir s -> "Pir:" ^ string_of_n s | VTypeName -> "VTypeName" | Check s -> "Check:" ^ string_of_n s | Aligned k -> "Aligned:" ^ string_of_n k
  | ReadI8 s -> "ReadI8:" ^ string_of_n s | ReadU8 s -> "ReadU8:" ^ string_of_n s | ReadI16 s -> "ReadI16:" ^ string_of_n s
  | ReadU16 s -> "ReadU16:" ^ string_of_n s | ReadI32 s -> "ReadI32:" ^ string_of_n s | ReadU32 s -> "ReadU32:" ^ string_of_n s
  | Zero s -> "Zero:" ^ string_of_n s | Case k -> "Case:" ^ string_of_n k | Break k -> "Break:" ^ string_of_n k | Nop -> "Nop"
let parse_atom t = match String.split_on_char ':' t with
  | [name] | [name; _] as l ->
    let a = (match l with [_; x] -> n_of_string x | _ -> N0) in
    (match name with
     | "Byte" -> Byte a | "Save" -> Save a | "Push" -> Push a | "Pop" -> Pop | "Fuzzy" -> Fuzzy a | "Skip" -> Skip a | "Back" -> Back a
     | "Rangext" -> Rangext a | "Many" -> Many a | "Jump1" -> Jump1 | "Jump4" -> Jump4 | "Ptr" -> Ptr | "Pir" -> Pir a | "VTypeName" -> VTypeName
     | "Check" -> Check a | "Aligned" -> Aligned a | "ReadI8" -> ReadI8 a | "ReadU8" -> ReadU8 a | "ReadI16" -> ReadI16 a | "ReadU16" -> ReadU16 a
     | "ReadI32" -> ReadI32 a | "ReadU32" -> ReadU32 a | "Zero" -> Zero a | "Case" -> Case a | "Break" -> Break a | _ -> Nop)
  | _ -> failwith "atom"
let show_err = function
  | UnpairedHexDigit -> "UnpairedHexDigit" | UnknownChar -> "UnknownChar" | ManyOverflow -> "ManyOverflow" | ManyRange -> "ManyRange"
  | ManyInvalid -> "ManyInvalid" | SaveOverflow -> "SaveOverflow" | StackError -> "StackError" | StackInvalid -> "StackInvalid"
  | UnclosedQuote -> "UnclosedQuote" | AlignedOperand -> "AlignedOperand" | ReadOperand -> "ReadOperand" | SubPattern -> "SubPattern" | SubOverflow -> "SubOverflow"
let w32 = n_of_string "4294967296"
let w64 = n_of_string "18446744073709551616"

let handle kind fs obs =
  let bang = String.length obs > 0 && obs.[0] = '!' in
  match kind with
  | "parse" ->
    let text = nlist_of_hex (field fs "text") in
    let len = List.length text in
    let mobs = (match parse text with
      | Ok (Inr atoms) -> Printf.sprintf "ok atoms=%s save_len=%s" (join "," (List.map show_atom atoms)) (string_of_n (save_len atoms))
      | Ok (Inl (e, pos)) -> Printf.sprintf "err kind=%s pos=%d" (show_err e) (int_of_nat pos)
      | _ -> "!fault") in
    (* oracle (C11 theorem 1): a pattern, or an error whose position lies within the input *)
    let ok = (not bang) && (
      match String.split_on_char ' ' obs with
      | "ok" :: _ -> true
      | "err" :: rest -> let ofs = fields rest in int_of_string (field ofs "pos") <= len
      | _ -> false) in
    (mobs, ok, len > 0, (if String.length mobs > 2 && String.sub mobs 0 2 = "ok" then "parse-ok" else "parse-err"), None)
  | "exec" ->
    let img = image_of_fields fs in
    let get = mget_of img in
    let fmt64 = field fs "fmt" = "64" in
    let secs = List.map (fun s -> match String.split_on_char ':' s with
      | [a; b; c; d] -> { s_va = n_of_string a; s_vs = n_of_string b; s_prd = n_of_string c; s_srd = n_of_string d } | _ -> failwith "sec") (split_on ';' (field fs "secs")) in
    let v = { v_file = (field fs "file" = "1"); v_addr = n_of_int 4096; v_len = n_of_int (Bytes.length img); v_get = get;
              v_w = (if fmt64 then w64 else w32); v_base = n_of_string (field fs "base");
              v_soh = n_of_string (field fs "soh"); v_soi = n_of_string (field fs "soi"); v_secs = secs } in
    let atoms = (if field fs "atoms" <> "-" then Some (List.map parse_atom (split_on ',' (field fs "atoms")))
                 else match parse (nlist_of_hex (field fs "text")) with Ok (Inr a) -> Some a | _ -> None) in
    (match atoms with
     | None -> ("parse-error", false, false, "exec,unparsable", None)
     | Some atoms ->
       let slots = int_of_string (field fs "slots") in
       let save0 = List.init slots (fun _ -> n_of_string "1431655765") in
       let mobs = (match view_exec v atoms (n_of_string (field fs "cursor")) save0 with
         | Ok (m, save) -> Printf.sprintf "atoms=%s match=%d save=%s" (join "," (List.map show_atom atoms)) (if m then 1 else 0) (join "," (List.map string_of_n save))
         | _ -> "!fault") in
       (* oracle: the verdict and the captures the documented syntax implies for the synthesised layout *)
       let expect = field fs "expect" in
       let ok = (not bang) && (
         let ofs = fields (String.split_on_char ' ' obs) in
         match expect with
         | "match" ->
           field ofs "match" = "1" &&
           (let exp = split_on ',' (field fs "saves") and got = split_on ',' (field ofs "save") in
            let rec chk e g = (match e, g with
              | _, [] -> true
              | [], _ :: _ -> true      (* slots beyond what the pattern writes keep their initial value: not constrained here *)
              | x :: e', y :: g' -> (x = "3735928559" || x = y) && chk e' g') in
            chk exp got)
         | "nomatch" -> field ofs "match" = "0"
         | _ -> true) in
       (mobs, ok, true, Printf.sprintf "exec,%s,%s" expect (if fmt64 then "pe64" else "pe32"), None))
  | _ -> ("!unknown-kind", false, false, "unknown", None)
let () = run_driver handle
