(* C11 driver: parser and interpreter *)
let show_atom = function
  | Byte b -> "Byte:" ^ string_of_n b | Save s -> "Save:" ^ string_of_n s | Push k -> "Push:" ^ string_of_n k | Pop -> "Pop"
  | Fuzzy m -> "Fuzzy:" ^ string_of_n m | Skip k -> "Skip:" ^ string_of_n k | Back k -> "Back:" ^ string_of_n k
  | Rangext k -> "Rangext:" ^ string_of_n k | Many k -> "Many:" ^ string_of_n k | Jump1 -> "Jump1" | Jump4 -> "Jump4" | Ptr -> "Ptr"
  | Pir s -> "Pir:" ^ string_of_n s | VTypeName -> "VTypeName" | Check s -> "Check:" ^ string_of_n s | Aligned k -> "Aligned:" ^ string_of_n k
  | ReadI8 s -> "ReadI8:" ^ string_of_n s | ReadU8 s -> "ReadU8:" ^ string_of_n s | ReadI16 s -> "ReadI16:" ^ string_of_n s
  | ReadU16 s -> "ReadU16:" ^ string_of_n s | ReadI32 s -> "ReadI32:" ^ string_of_n s | ReadU32 s -> "ReadU32:" ^ string_of_n s
  | Zero s -> "Zero:" ^ string_of_n s | Case k -> "Case:" ^ string_of_n k | Break k -> "Break:" ^ string_of_n k | Nop -> "Nop"
let parse_atom t = match String.split_on_char ':' t with
  | [name] | [name; _] as l ->
    let a = (match l with [_; x] -> n_of_string x | _ -> N0) in
    (match name with
     | "Byte" -> Byte a | "Save" -> Save a | "Push" -> Push a | "Pop" -> Pop | "Fuzzy" -> Fuzzy a | "Skip" -> Skip a | "Back" -> Back a
     | "Rangext" -> Rangext a | "Many" -> Many a | "Jump1" -> Jump1 | "Jump4" -> Jump4 | "Ptr" -> Ptr | "Pir" -> Pir a | "VTypeName" -> VTypeName
     | "Check" -> Check a | "Aligned" -> Aligned a | "ReadI8" -> ReadI8 a | "ReadU8" -> ReadU8 a | "ReadI16" -> ReadI16 a | "ReadU16" -> ReadU16 a
     | "ReadI32" -> ReadI32 a | "ReadU32" -> ReadU32 a | "Zero" -> Zero a | "Case" -> Case a | "Break" -> Break a | _ -> Nop)
  | _ -> failwith "atom"
let show_err = function
  | UnpairedHexDigit -> "UnpairedHexDigit" | UnknownChar -> "UnknownChar" | ManyOverflow -> "ManyOverflow" | ManyRange -> "ManyRange"
  | ManyInvalid -> "ManyInvalid" | SaveOverflow -> "SaveOverflow" | StackError -> "StackError" | StackInvalid -> "StackInvalid"
  | UnclosedQuote -> "UnclosedQuote" | AlignedOperand -> "AlignedOperand" | ReadOperand -> "ReadOperand" | SubPattern -> "SubPattern" | SubOverflow -> "SubOverflow"
let w32 = n_of_string "4294967296"
let w64 = n_of_string "18446744073709551616"

(* the AST of Spec/PatSyntax.v from the harness's token list *)
let rec ast_seq toks stop =          (* returns (items, terminator, remaining tokens) *)
  match toks with
  | [] -> ([], "", [])
  | t :: rest when List.mem t stop -> ([], t, rest)
  | t :: rest ->
    let arg i = n_of_string (List.nth (String.split_on_char ':' t) i) in
    let jk i = (match int_of_string (List.nth (String.split_on_char ':' t) i) with 0 -> J1 | 1 -> J4 | _ -> JP) in
    let (it, rest) = (match t.[0] with
      | 'B' -> (IByte (arg 1), rest)
      | 'S' -> (IStr (nlist_of_hex (List.nth (String.split_on_char ':' t) 1)), rest)
      | 'W' -> (IWild (nat_of_int (int_of_n (arg 1))), rest)
      | 'K' -> (ISkip (arg 1), rest)
      | 'R' -> (IRange (arg 1, arg 2), rest)
      | 'Q' -> (ISave, rest)
      | 'I' -> (IRead (match int_of_n (arg 1) with 0 -> RI8 | 1 -> RU8 | 2 -> RI16 | 3 -> RU16 | 4 -> RI32 | _ -> RU32), rest)
      | 'Z' -> (IZero, rest)
      | 'A' -> (IAlign (arg 1), rest)
      | 'J' -> (IJump (jk 1), rest)
      | 'U' -> let (sub, _, rest') = ast_seq rest ["V"] in (ISub (jk 1, sub), rest')
      | 'P' ->
        let rec alts toks acc = (let (a, term, rest') = ast_seq toks ["O"; "C"] in
          if term = "O" then alts rest' (a :: acc) else (List.rev (a :: acc), rest')) in
        let (all, rest') = alts rest [] in
        (match all with a :: more -> (IAlt (a, more), rest') | [] -> failwith "alt")
      | _ -> failwith ("ast token " ^ t)) in
    let (items, term, rest'') = ast_seq rest stop in
    (it :: items, term, rest'')

(* the grammar oracle (Spec/PatRead.v): a string the implementation ACCEPTS must be in the documented grammar
   ([read_pat] = Some a), its AST must be well-formed ([wfb]) and compile to the atoms the implementation produced; a string
   the implementation REJECTS must not be a documented, well-formed pattern.  Returns (ok, tag). *)
let grammar_oracle (text : n list) (impl : atom list option) : bool * string =
  match impl, read_pat text with
  | Some _, None -> (false, ",gram-accepted-not-in-grammar")
  | Some atoms, Some a ->
    if not (wfb a) then (false, ",gram-accepted-not-wf")
    else if compile a <> atoms then (false, ",gram-compiles-differently")
    else (true, ",gram-ok")
  | None, Some a -> if wfb a then (false, ",gram-documented-but-rejected") else (true, ",gram-rejected-not-wf")
  | None, None -> (true, ",gram-rejected")
let atoms_of_field v = if v = "-" || v = "" then [] else List.map parse_atom (split_on ',' v)

let handle kind fs obs =
  let bang = String.length obs > 0 && obs.[0] = '!' in
  match kind with
  | "parse" ->
    let text = nlist_of_hex (field fs "text") in
    let len = List.length text in
    let mobs = (match parse text with
      | Ok (Inr atoms) -> Printf.sprintf "ok atoms=%s save_len=%s" (join "," (List.map show_atom atoms)) (string_of_n (save_len atoms))
      | Ok (Inl (e, pos)) -> Printf.sprintf "err kind=%s pos=%d" (show_err e) (int_of_nat pos)
      | _ -> "!fault") in
    (* oracle (C11 theorem 1): a pattern, or an error whose position lies within the input *)
    let ok = (not bang) && (
      match String.split_on_char ' ' obs with
      | "ok" :: _ -> true
      | "err" :: rest -> let ofs = fields rest in int_of_string (field ofs "pos") <= len
      | _ -> false) in
    let (gok, gtag) = (if bang then (true, "") else
      match String.split_on_char ' ' obs with
      | "ok" :: rest -> grammar_oracle text (Some (atoms_of_field (field (fields rest) "atoms")))
      | "err" :: _ -> grammar_oracle text None
      | _ -> (true, "")) in
    (mobs, ok && gok, len > 0, (if String.length mobs > 2 && String.sub mobs 0 2 = "ok" then "parse-ok" else "parse-err") ^ gtag, None)
  | "syn" ->
    (* theorem 2 against the real parser: model observation = the INTENDED compiler on the AST; oracle: the canonical
       spelling the harness printed is Spec `show`, the real parser's atoms are Spec `compile`, and so are the model parser's *)
    let text = nlist_of_hex (field fs "text") in
    let (a, _, _) = ast_seq (split_on ',' (field fs "ast")) [] in
    let atoms = compile a in
    let mobs = Printf.sprintf "ok atoms=%s save_len=%s" (join "," (List.map show_atom atoms)) (string_of_n (save_len atoms)) in
    let ok = (not bang) && show a = text && obs = mobs && (match parse text with Ok (Inr p) -> p = atoms | _ -> false) in
    (* the reader inverts the printer (the generator makes no empty wildcard run), and the grammar oracle on the implementation's answer *)
    let rd = (read_pat text = Some a) in
    let (gok, gtag) = (if bang then (true, "") else
      match String.split_on_char ' ' obs with
      | "ok" :: rest -> grammar_oracle text (Some (atoms_of_field (field (fields rest) "atoms")))
      | "err" :: _ -> grammar_oracle text None
      | _ -> (true, "")) in
    (mobs, ok && rd && gok, true, "syn" ^ (if rd then "" else ",reader-does-not-invert-printer") ^ gtag, None)
  | "exec" ->
    let img = image_of_fields fs in
    let get = mget_of img in
    let fmt64 = field fs "fmt" = "64" in
    let secs = List.map (fun s -> match String.split_on_char ':' s with
      | [a; b; c; d] -> { s_va = n_of_string a; s_vs = n_of_string b; s_prd = n_of_string c; s_srd = n_of_string d } | _ -> failwith "sec") (split_on ';' (field fs "secs")) in
    let v = { v_file = (field fs "file" = "1"); v_addr = n_of_int 4096; v_len = n_of_int (Bytes.length img); v_get = get;
              v_w = (if fmt64 then w64 else w32); v_base = n_of_string (field fs "base");
              v_soh = n_of_string (field fs "soh"); v_soi = n_of_string (field fs "soi"); v_secs = secs } in
    let atoms = (if field fs "atoms" <> "-" then Some (List.map parse_atom (split_on ',' (field fs "atoms")))
                 else match parse (nlist_of_hex (field fs "text")) with Ok (Inr a) -> Some a | _ -> None) in
    (match atoms with
     | None ->
       (* the text is rejected by the model parser.  A CAPACITY limit of the compiled form (an alternative of 256 atoms or
          more: SubOverflow; more than 255 save slots: SaveOverflow; a skip beyond 16383: ManyOverflow) is part of the
          parser the model mirrors, not of the documented syntax: when the implementation reports the same error at the
          same position the case is a limit case, not a failure (thorough sweep, seed 1: an alternative holding a long
          string).  Any other rejection of a generated pattern remains a failure. *)
       (match parse (nlist_of_hex (field fs "text")) with
        | Ok (Inl (e, pos)) ->
          let mobs = Printf.sprintf "parse-error_ParsePatError_{_kind:_%s,_position:_%d_}" (show_err e) (int_of_nat pos) in
          let capacity = (match e with SubOverflow | SaveOverflow | ManyOverflow -> true | _ -> false) in
          (mobs, capacity && obs = mobs, false, (if capacity then "exec,capacity-limit" else "exec,unparsable"), None)
        | _ -> ("parse-error", false, false, "exec,unparsable", None))
     | Some atoms ->
       let slots = int_of_string (field fs "slots") in
       let save0 = List.init slots (fun _ -> n_of_string "1431655765") in
       let mobs = (match view_exec v atoms (n_of_string (field fs "cursor")) save0 with
         | Ok (m, save) -> Printf.sprintf "atoms=%s match=%d save=%s" (join "," (List.map show_atom atoms)) (if m then 1 else 0) (join "," (List.map string_of_n save))
         | _ -> "!fault") in
       (* oracle: the verdict and the captures the documented syntax implies for the synthesised layout *)
       let expect = field fs "expect" in
       let ok = (not bang) && (
         let ofs = fields (String.split_on_char ' ' obs) in
         match expect with
         | "match" ->
           field ofs "match" = "1" &&
           (let exp = split_on ',' (field fs "saves") and got = split_on ',' (field ofs "save") in
            let rec chk e g = (match e, g with
              | _, [] -> true
              | [], _ :: _ -> true      (* slots beyond what the pattern writes keep their initial value: not constrained here *)
              | x :: e', y :: g' -> (x = "3735928559" || x = y) && chk e' g') in
            chk exp got)
         | "nomatch" -> field ofs "match" = "0"
         | _ -> true) in
       (* oracle 2 (theorems 3a and 3b, as a check of the implementation): the structural semantics [den_top] of the AST.
          - AST without braces and alternatives whose last item constrains something (3a): exact verdict, and the save array
            is the initial one with the log's captures stored.
          - any other AST whose compiled form [compile a] is the atom list that was executed and loses nothing but the returns of
            closing braces to the parser's trimming (3b): exact
            verdict, the array keeps its length and every slot the log writes holds what the log applied to the initial
            array holds there. For an AST in the known class F34 the same comparison is made and reported under the class. *)
       let from_text = (field fs "atoms" = "-") in
       let text = (if from_text then nlist_of_hex (field fs "text") else []) in
       let impl_atoms = (if bang then None else
         match List.assoc_opt "atoms" (fields (String.split_on_char ' ' obs)) with Some v -> Some (atoms_of_field v) | None -> None) in
       (* the grammar oracle on the atoms the implementation parsed the text into *)
       let (gok, gtag) = (match from_text, impl_atoms with
         | true, Some ia -> grammar_oracle text (Some ia)
         | _ -> (true, "")) in
       (* the AST of the semantic oracle: the generator's when it sent one, otherwise the one the independent reader finds *)
       let ast_opt = (match List.assoc_opt "ast" fs with
         | Some toks -> let (a, _, _) = ast_seq (split_on ',' toks) [] in Some a
         | None -> if from_text then read_pat text else None) in
       let (ok2, tag2, cls) = (match ast_opt, impl_atoms with
         | None, _ | _, None -> (true, "", None)
         | Some a, Some ia ->
           let flat = List.for_all (function ISub _ | IAlt _ -> false | _ -> true) a in
           let solid = (match List.rev a with
             | [] -> true
             | (IByte _ | ISave | IRead _ | IZero | IAlign _ | IJump _) :: _ -> true
             | IStr (_ :: _) :: _ -> true
             | _ -> false) in
           let ofs = fields (String.split_on_char ' ' obs) in
           let cursor = n_of_string (field fs "cursor") in
           (* the atoms that were executed must be what the AST compiles to: anything else is a failure, not a skip *)
           if compile a <> ia then (false, ",den-compile-differs", None)
           else if flat && solid then
             (match den_top (scan_of_view v) a cursor with
              | Some lg -> (field ofs "match" = "1" && field ofs "save" = join "," (List.map string_of_n (apply_log lg save0)), ",den-match", None)
              | None -> (field ofs "match" = "0", ",den-nomatch", None))
           else if trims_only_braces a then begin
             let in_class = range_skip_in_last_alternative_with_suffix a in
             let cls = if in_class then Some "range_skip_in_last_alternative_with_suffix" else None in
             let shape = (if in_class then ",f34-class" else if noalt a then ",den-sub" else ",den-alt") in
             (match den_top (scan_of_view v) a cursor with
              | Some lg ->
                let want = Array.of_list (List.map string_of_n (apply_log lg save0)) in
                let got = Array.of_list (split_on ',' (field ofs "save")) in
                let got = if slots = 0 then [||] else got in
                let written = List.map (fun (i, _) -> int_of_n i) lg in
                let slots_ok = Array.length got = Array.length want &&
                  List.for_all (fun i -> i >= Array.length want || got.(i) = want.(i)) written in
                (field ofs "match" = "1" && slots_ok, shape ^ "-match", cls)
              | None -> (field ofs "match" = "0", shape ^ "-nomatch", cls))
           end
           (* the only skip left: the parser trimmed trailing skips / range skips, the pattern says less than it is written *)
           else (true, ",den-skip-trimmed", None)) in
       (* raw atom lists (explicit atoms= field): no semantic oracle, the comparison of verdict and save array with the model is the check *)
       let contains s sub = (let n = String.length sub in let rec go i = i + n <= String.length s && (String.sub s i n = sub || go (i + 1)) in go 0) in
       let rawtag = if field fs "atoms" = "-" then "" else if contains mobs "match=1" then ",raw-atoms,raw-match" else ",raw-atoms,raw-nomatch" in
       (mobs, ok && ok2 && gok, true, Printf.sprintf "exec,%s,%s%s%s%s" expect (if fmt64 then "pe64" else "pe32") tag2 gtag rawtag,
        (* the class F34 excuses the SEMANTIC comparison with den_top only: the grammar oracle and the layout synthesiser's own
           expectation must hold *)
        (if gok && ok then cls else None)))
  | _ -> ("!unknown-kind", false, false, "unknown", None)
let () = run_driver handle
