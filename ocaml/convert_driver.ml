(* C06 driver: to_view / to_file, prefix simulation of slices, round trip *)
let show_err = function
  | ENull -> "Null" | EBounds -> "Bounds" | EZeroFill -> "ZeroFill" | EUnmapped -> "Unmapped"
  | EMisaligned -> "Misaligned" | EBadMagic -> "BadMagic" | EPeMagic -> "PeMagic" | EInsanity -> "Insanity"
  | EInvalid -> "Invalid" | EOverflow -> "Overflow" | EEncoding -> "Encoding" | EAliasing -> "Aliasing"
let err_of_string = function
  | "Null" -> ENull | "Bounds" -> EBounds | "ZeroFill" -> EZeroFill | "Unmapped" -> EUnmapped
  | "Misaligned" -> EMisaligned | "BadMagic" -> EBadMagic | "PeMagic" -> EPeMagic | "Insanity" -> EInsanity
  | "Invalid" -> EInvalid | "Overflow" -> EOverflow | "Encoding" -> EEncoding | "Aliasing" -> EAliasing
  | s -> failwith ("error name " ^ s)
let show_rr = function
  | None -> "-"
  | Some (Ok r) -> Printf.sprintf "ok:%s:%s" (string_of_n r.r_off) (string_of_n r.r_len)
  | Some (Err e) -> "e:" ^ show_err e
  | Some (Fault _) -> "fault"
let parse_rr s = match String.split_on_char ':' s with
  | ["-"] -> None
  | ["ok"; o; l] -> Some (Ok { r_off = n_of_string o; r_len = n_of_string l })
  | ["e"; e] -> Some (Err (err_of_string e))
  | _ -> Some (Fault PAssert)

(* the sparse dump of harness/src/bin/convert.rs *)
let sparse (b : Bytes.t) : string =
  let len = Bytes.length b in
  let runs = ref [] in
  let i = ref 0 in
  while !i < len do
    if Bytes.get b !i = '\000' then incr i
    else begin
      let s = !i in
      let last = ref s in
      let j = ref (s + 1) in
      while !j < len && !j - !last <= 8 do
        if Bytes.get b !j <> '\000' then last := !j;
        incr j
      done;
      let buf = Buffer.create (2 * (!last - s + 1)) in
      for k = s to !last do Buffer.add_string buf (Printf.sprintf "%02x" (Char.code (Bytes.get b k))) done;
      runs := Printf.sprintf "%d.%s" s (Buffer.contents buf) :: !runs;
      i := !last + 1
    end
  done;
  Printf.sprintf "%d:%s" len (join "/" (List.rev !runs))
let unsparse (s : string) : Bytes.t =
  match String.index_opt s ':' with
  | None -> failwith "sparse"
  | Some k ->
    let len = int_of_string (String.sub s 0 k) in
    let b = Bytes.make len '\000' in
    List.iter (fun r -> match String.split_on_char '.' r with
      | [o; h] -> let o = int_of_string o in
        String.iteri (fun _ _ -> ()) h;
        let n = String.length h / 2 in
        for q = 0 to n - 1 do Bytes.set b (o + q) (Char.chr (hexval h.[2*q] * 16 + hexval h.[2*q+1])) done
      | _ -> failwith "run") (split_on '/' (String.sub s (k + 1) (String.length s - k - 1)));
    b
let bytes_of_nlist (l : n list) : Bytes.t =
  let b = Bytes.create (List.length l) in
  List.iteri (fun i x -> Bytes.set b i (Char.chr (int_of_n x))) l; b
let common (a : Bytes.t) (ra : region) (b : Bytes.t) (rb : region) : int =
  let oa = int_of_n ra.r_off and ob = int_of_n rb.r_off in
  let n = min (int_of_n ra.r_len) (int_of_n rb.r_len) in
  let k = ref 0 in
  while !k < n && Bytes.get a (oa + !k) = Bytes.get b (ob + !k) do incr k done; !k

let timing = (try Sys.getenv "PVD_TIME" <> "" with Not_found -> false)
let lap = ref (Sys.time ())
let tick (what : string) = if timing then begin let t = Sys.time () in Printf.eprintf "%s %.3f\n" what (t -. !lap); lap := t end
let one = n_of_int 1 and zero = n_of_int 0
let cap = 0x100000

let handle kind fs obs =
  if kind <> "conv" then ("!unknown-kind", false, false, "unknown", None) else
  let img = image_of_fields fs in
  let getF = mget_of img in
  let flen = n_of_int (Bytes.length img) in
  let f = if field fs "fmt" = "64" then fmt64 else fmt32 in
  let m = { m_addr = zero; m_len = flen; m_get = getF } in
  (* the generator's own values: the oracle's reading of the headers *)
  let soh = n_of_string (field fs "soh") and soi = n_of_string (field fs "soi") in
  let secs = List.map (fun s -> match String.split_on_char ':' s with
    | [a; b; c; d] -> { s_va = n_of_string a; s_vs = n_of_string b; s_prd = n_of_string c; s_srd = n_of_string d }
    | _ -> failwith "sec") (split_on ';' (field fs "secs")) in
  let qs = split_on ',' (field fs "q") in
  let tags = Hashtbl.create 16 in
  let tag t = Hashtbl.replace tags t () in
  tag (if f.f_64 then "pe64" else "pe32");
  let nsec = List.length secs in
  tag (if nsec = 0 then "nsec0" else if nsec = 1 then "nsec1" else if nsec <= 8 then "nsec2-8" else if nsec <= 32 then "nsec9-32" else if nsec < 96 then "nsec33-95" else "nsec96");
  (* one query on (file bytes, decoded file table) and (view bytes, decoded view table or none) *)
  let query (fb : Bytes.t) (mf : mem) (vb : Bytes.t) (mv : mem option) (q : string) : (region res option * region res option * int) =
    let p = Array.of_list (String.split_on_char ':' q) in
    let n k = n_of_string p.(k) in
    let fsecs = sections f mf in
    let slf a mn al = slice_file zero mf.m_len fsecs a mn al in
    let slv mv a mn al = slice_section zero mv.m_len a mn al in
    let (rf, rv) = (match p.(0) with
      | "s" -> (Some (slf (n 1) (n 2) one), (match mv with Some mv -> Some (slv mv (n 1) (n 2) one) | None -> None))
      | "c" -> (Some (rd_c_str mf.m_get slf (n 1)), (match mv with Some mv -> Some (rd_c_str mv.m_get (slv mv) (n 1)) | None -> None))
      | "g" ->
        let i = int_of_string p.(1) in
        let g (mm : mem) file = (match List.nth_opt (sections f mm) i with
          | Some s -> Some (if file then get_section_bytes mm.m_len s.s_prd s.s_srd else get_section_bytes mm.m_len s.s_va s.s_vs)
          | None -> None) in
        (g mf true, (match mv with Some mv -> g mv false | None -> None))
      | _ ->
        let i = n 1 in
        ((match data_dir f mf i with Some (va, sz) -> Some (slf va sz one) | None -> None),
         (match mv with Some mv -> (match data_dir f mv i with Some (va, sz) -> Some (slv mv va sz one) | None -> None) | None -> None))) in
    let c = (match rf, rv with Some (Ok a), Some (Ok b) -> common fb a vb b | _ -> 0) in
    (rf, rv, c) in
  let show_q (rf, rv, c) = Printf.sprintf "%s|%s|%d" (show_rr rf) (show_rr rv) c in
  (* the decoded values of a directory parser on one representation (file = true: PeFile, else PeView) *)
  let hex_region (b : Bytes.t) (r : region) : string =
    let o = int_of_n r.r_off and l = int_of_n r.r_len in
    if l = 0 then "-" else begin
      let buf = Buffer.create (2 * l) in
      for k = o to o + l - 1 do Buffer.add_string buf (Printf.sprintf "%02x" (Char.code (Bytes.get b k))) done;
      Buffer.contents buf end in
  let jl (l : n list) = join "." (List.map string_of_n l) in
  let dq (file : bool) (bb : Bytes.t) (mm : mem) (k : string) : string =
    let v = { v_file = file; v_addr = zero; v_len = mm.m_len; v_get = mm.m_get;
              v_w = (if f.f_64 then n_of_z (Z.shift_left Z.one 64) else n_of_z (Z.shift_left Z.one 32));
              v_base = h_base f mm; v_soh = h_soh f mm; v_soi = h_soi f mm; v_secs = sections f mm } in
    let res_str sh = function Ok x -> "ok:" ^ sh x | Err e -> "e:" ^ show_err e | Fault _ -> "fault" in
    (match k with
     | "x" -> res_str (fun t -> Printf.sprintf "%s/%s/%s/%s" (jl t.t_funcs) (jl t.t_names) (jl t.t_idxs) (string_of_n t.t_base))
                (view_by v (data_dir f mm zero))
     | "i" ->
       let p = { p_f = f; p_v = v } in
       res_str (fun r ->
           join ";" (List.map (fun d ->
               let dll = (match dll_name p d with Ok r -> "n" ^ hex_region bb r | Err e -> "e" ^ show_err e | Fault _ -> "fault") in
               let iat = (match desc_iat p d with Ok r -> "v" ^ jl (thunk_values p r) | Err e -> "e" ^ show_err e | Fault _ -> "fault") in
               Printf.sprintf "%s.%s.%s.%s.%s/%s/%s" (string_of_n d.d_oft) (string_of_n d.d_tds) (string_of_n d.d_fwd) (string_of_n d.d_name) (string_of_n d.d_ft) dll iat)
             (descs p r)))
         (imports p)
     | "r" ->
       (* the resource tree: section length, root, fsck, traversal (4 levels, 64 entries), find_resource(VERSION, 1) *)
       (match x_resources v (data_dir f mm (n_of_int 2)) with
        | Err e -> "e:" ^ show_err e
        | Fault _ -> "fault"
        | Ok s ->
          let sn = string_of_n in
          let show_name = function
            | NId id -> "i" ^ sn id
            | NWide ws -> "w" ^ String.concat "." (List.map (fun w -> Printf.sprintf "%04x" (int_of_n w)) ws)
            | NStr _ -> "s?" in
          let show_rname = function Ok n -> show_name n | Err e -> "x" ^ show_err e | Fault _ -> "!fault" in
          let show_item (i : item) =
            let tgt = (match i.i_tgt with
              | TDir o -> "D/" ^ sn o
              | TData (o, b, sz, cp) ->
                Printf.sprintf "F/%s/%s/%s/%s" (sn o)
                  (match b with
                   | Ok r -> let k = if Z.lt (z_of_n r.r_len) (Z.of_int 16) then r.r_len else n_of_int 16 in
                     sn r.r_off ^ "/" ^ sn r.r_len ^ "/" ^ hex_of_nlist (x_sec_bytes s r.r_off k)
                   | Err e -> "e" ^ show_err e | Fault _ -> "!fault") (sn sz) (sn cp)
              | TBad (Err e) -> "X/" ^ show_err e
              | TBad _ -> "!fault") in
            Printf.sprintf "%s:%s:%s:%s:%d:%s" (sn i.i_lvl) (sn i.i_eoff) (if i.i_named then "n" else "i") (show_rname i.i_name) (if i.i_isdir then 1 else 0) tgt in
          let show_witem = function WItem i -> show_item i | WCut -> "cut" | WStop -> "stop" in
          let rt = x_root s in
          let items = (match rt with Ok r -> fst (x_walk (nat_of_int 4) s r N0 (n_of_int 64)) | _ -> []) in
          let show_ferr = function
            | FPe e -> "ePe." ^ show_err e | FBad8Path -> "eBad8Path" | FNotFound -> "eNotFound" | FNoRootPath -> "eNoRootPath"
            | FUnDataEntry -> "eUnDataEntry" | FUnDirectory -> "eUnDirectory" in
          Printf.sprintf "ok:%s;%s;%s;%s;%s" (sn s.rs_len)
            (match rt with Ok r -> "ok" ^ sn r | Err e -> "e" ^ show_err e | Fault _ -> "!fault")
            (match x_fsck s with Ok _ -> "ok" | Err e -> "e" ^ show_err e | Fault _ -> "!fault")
            (join "+" (List.map show_witem items))
            (match x_find_resource s (n_of_int 16) (n_of_int 1) with
             | FOk r -> Printf.sprintf "R.%s.%s" (sn r.r_off) (sn r.r_len) | FErr e -> show_ferr e | FFault _ -> "!fault"))
     | "m" ->
       (* the debug directory: fields, Dir::data, Dir::entry *)
       let sn = string_of_n in
       let hexn off k = hex_of_nlist (List.init k (fun j -> mm.m_get (n_of_z (Z.add (z_of_n off) (Z.of_int j))))) in
       let show_data = function
         | Some r -> let l = int_of_n r.r_len in Printf.sprintf "d%d.%s" l (hexn r.r_off (min l 40))
         | None -> "none" in
       res_str (fun r ->
           let ds = x_debug_dirs v r in
           let rec take k l = if k <= 0 then [] else (match l with [] -> [] | x :: t -> x :: take (k - 1) t) in
           Printf.sprintf "%s;%s" (sn (n_of_int (List.length ds)))
             (join ";" (List.map (fun d ->
                  let ent = (match x_dir_entry v d with
                    | Ok (ECv20 (i, nm)) -> Printf.sprintf "cv20.%s.%s" (hexn i 16) (hexn nm.r_off (int_of_n nm.r_len))
                    | Ok (ECv70 (i, nm)) -> Printf.sprintf "cv70.%s.%s" (hexn i 24) (hexn nm.r_off (int_of_n nm.r_len))
                    | Ok (EDbg i) -> "dbg." ^ hexn i 12
                    | Ok (EPgo r) -> Printf.sprintf "pgo.%d" (int_of_n r.r_len / 4)
                    | Ok (EUnknown u) -> "unk." ^ show_data u
                    | Err e -> "e" ^ show_err e
                    | Fault _ -> "!fault") in
                  Printf.sprintf "%s.%s.%s.%s/%s/%s" (sn d.dd_type) (sn d.dd_size) (sn d.dd_addr) (sn d.dd_ptr) (show_data (x_dir_data v d)) ent)
                (take 8 ds))))
         (x_debug_try_from v (data_dir f mm (n_of_int 6)))
     | "u" ->
       (* the exception directory: RUNTIME_FUNCTION, Function::bytes, Function::unwind_info *)
       let sn = string_of_n in
       let hexn off k = hex_of_nlist (List.init k (fun j -> mm.m_get (n_of_z (Z.add (z_of_n off) (Z.of_int j))))) in
       res_str (fun r ->
           let fs = x_exception_functions v r in
           let rec take k l = if k <= 0 then [] else (match l with [] -> [] | x :: t -> x :: take (k - 1) t) in
           Printf.sprintf "%d;%s" (List.length fs)
             (join ";" (List.map (fun fn ->
                  let by = (match x_function_bytes v fn with
                    | Ok b -> let l = int_of_n b.r_len in Printf.sprintf "b%d.%s" l (hexn b.r_off (min l 8))
                    | Err e -> "e" ^ show_err e | Fault _ -> "!fault") in
                  let uw = (match x_unwind_info v fn with
                    | Ok u ->
                      let ((((((ver, fl), pro), cnt), fr), fo), codes) = x_unwind_vals mm.m_get u in
                      Printf.sprintf "u%s.%s.%s.%s.%s.%s.%s" (sn ver) (sn fl) (sn pro) (sn cnt) (sn fr) (sn fo) (hex_of_nlist codes)
                    | Err e -> "e" ^ show_err e | Fault _ -> "!fault") in
                  Printf.sprintf "%s.%s.%s/%s/%s" (sn fn.rf_begin) (sn fn.rf_end) (sn fn.rf_unwind) by uw)
                (take 8 fs))))
         (x_exception_try_from v (data_dir f mm (n_of_int 3)))
     | _ -> res_str (fun r -> hex_region bb r) (relocs_try_from v (data_dir f mm (n_of_int 5)))) in
  let is_dq q = String.length q > 1 && (q.[0] = 'x' || q.[0] = 'i' || q.[0] = 'b' || q.[0] = 'r' || q.[0] = 'm' || q.[0] = 'u') && q.[1] = ':' in
  let show_dq fb mf vb mvo q =
    let k = String.sub q 0 1 in
    let sf = dq true fb mf k in
    let sv = (match mvo with Some mv -> dq false vb mv k | None -> "-") in
    Printf.sprintf "%s|%s|%d" sf sv (if sf = sv then 1 else 0) in
  tick "setup";
  (* ---- the model's observation ---- *)
  let mobs = (match validate f m with
    | Err e -> "!ctor " ^ show_err e
    | Fault _ -> "!fault"
    | Ok _ ->
      if int_of_n (h_soi f m) > cap then "!cap" else
      (match pe_to_view f m with
       | Ok vl ->
         let vb = bytes_of_nlist vl in
         let mv = { m_addr = zero; m_len = n_of_int (Bytes.length vb); m_get = mget_of vb } in
         let (mvo, fobs) = (match validate f mv with
           | Ok _ -> (Some mv, (match pe_to_file f mv with Ok fl -> sparse (bytes_of_nlist fl) | _ -> "!fault"))
           | Err e -> (None, "!" ^ show_err e)
           | Fault _ -> (None, "!fault")) in
         Printf.sprintf "v=%s f=%s r=%s" (sparse vb) fobs (join "," (List.map (fun q -> if is_dq q then show_dq img m vb mvo q else show_q (query img m vb mvo q)) qs))
       | _ -> "!fault")) in
  tick "model";
  (* ---- the oracle on the implementation's observation ---- *)
  let bang = String.length obs > 0 && obs.[0] = '!' in
  if bang then begin
    let capped = (obs = "!cap") in
    let ctor = String.length obs >= 5 && String.sub obs 0 5 = "!ctor" in
    if capped then tag "outside-precondition";
    if ctor then tag "rejected";
    (mobs, (capped || ctor) && obs = mobs, false, String.concat "," (Hashtbl.fold (fun k () a -> k :: a) tags []), None)
  end else begin
    let ofs = fields (String.split_on_char ' ' obs) in
    let vb = unsparse (field ofs "v") in
    let getV = mget_of vb and vlen = n_of_int (Bytes.length vb) in
    (* the theorems relate a file view and a mapped view that carry the SAME headers (mapped_view .. soh soi secs): true of
       to_view's output only when the whole of the headers - through the last section header - lies in the SizeOfHeaders
       bytes that are copied.  An image whose SizeOfHeaders cuts its own headers short is not well formed (the generator's
       wf=0 stream); its converted form has an empty data directory and zeroed section headers (thorough sweep, seed 0) *)
    let hdr_end = Z.add (z_of_n (sec_table_off f m)) (Z.mul (Z.of_int 40) (z_of_n (h_nsec f m))) in
    let headers_copied = Z.leq hdr_end (z_of_n soh) in
    if not headers_copied then tag "headers-beyond-SizeOfHeaders";
    let wf = wf_sections flen soh soi secs && headers_copied in
    tag (if wf then "wf" else "odd");
    List.iter (fun s ->
      let c = compare (Z.to_int (z_of_n s.s_vs)) (Z.to_int (z_of_n s.s_srd)) in
      tag (if c < 0 then "vs<srd" else if c = 0 then "vs=srd" else "vs>srd");
      if s.s_srd = N0 then tag "srd=0") secs;
    (* theorem 1, general and in the property's words *)
    let ok_v = view_ok_b getF flen soh soi secs getV vlen in
    tick "view_ok";
    let ok_words = (not wf) || view_words_b getF soh soi secs getV in
    tick "view_words";
    (* the way back: the general rule on what the implementation's view decodes to *)
    let mv = { m_addr = zero; m_len = vlen; m_get = getV } in
    let fo = field ofs "f" in
    let fbang = String.length fo > 0 && fo.[0] = '!' in
    let (ok_f, roundtrip_ok, mvo) = (match validate f mv with
      | Ok _ when not fbang ->
        let fb' = unsparse fo in
        let getF' = mget_of fb' and flen' = n_of_int (Bytes.length fb') in
        let soh' = h_soh f mv and soi' = h_soi f mv and secs' = sections f mv in
        let okf = file_ok_b getV vlen soh' soi' secs' getF' flen' in
        let same = (soh' = soh && soi' = soi && secs' = secs) in
        let rt = (if wf && wf_raw soh secs && same then (tag "roundtrip"; roundtrip_b getF soh secs getF' flen') else true) in
        (okf, rt, Some mv)
      | Err e when fbang -> (fo = "!" ^ show_err e, true, None)
      | _ -> (false, true, None)) in
    tick "file_ok";
    (* theorem 2 on the observed slices *)
    let impl = split_on ',' (field ofs "r") in
    let restricted = ref true and literal = ref true and unexcused = ref false in
    List.iteri (fun i q ->
      let im = (try List.nth impl i with _ -> "?") in
      (match String.split_on_char '|' im with
       | [a; b; _] when is_dq q ->
         (* C06_exports_equal / C06_imports_equal (+ dll names, IAT values) / C06_relocs_equal on the implementation's
            two answers: outside raw_tail_not_mapped, whatever the file view decodes the converted view decodes identically *)
         let is_ok x = String.length x >= 3 && String.sub x 0 3 = "ok:" in
         let body x = String.sub x 3 (String.length x - 3) in
         let f37l = lazy (raw_tail_not_mapped getF secs) in   (* only forced for well-formed tables: raw sizes are bounded by the file *)
         if q.[0] = 'r' then begin
           (* C06_resources_queries_equal: outside F37, when the directory lies in stored bytes (the file view did not clamp:
              stored_at) and the section is stored congruently to its VirtualAddress modulo 4, every query is EQUAL *)
           if wf && mvo <> None && is_ok a && not (Lazy.force f37l) then begin
             (match data_dir f m (n_of_int 2) with
              | Some (va, size) when stored_at secs va size && prd_va_congruent (n_of_int 4) secs va ->
                tag "res-equal"; if a <> b then literal := false
              | Some (va, size) ->
                tag (if stored_at secs va size then "res-incongruent" else "res-clamped");
                if a <> b then tag "res-differs-outside-hypotheses"
              | None -> ())
           end
         end
         else if q.[0] = 'm' then begin
           (* C06_debug_equal (the table, outside F37) and C06_debug_payload_equal / C06_debug_entry_equal per CONSISTENT entry *)
           if wf && mvo <> None && is_ok a then begin
             let es x = (match String.split_on_char ';' (body x) with _ :: t -> t | [] -> []) in
             if not (Lazy.force f37l) then begin
               tag "dbg-table";
               if not (is_ok b) then literal := false
               else begin
                 let ea = es a and eb = es b in
                 if List.length ea <> List.length eb then literal := false
                 else List.iter2 (fun x y -> match String.split_on_char '/' x, String.split_on_char '/' y with
                   | fx :: _, fy :: _ -> if fx <> fy then literal := false
                   | _ -> literal := false) ea eb
               end
             end;
             if is_ok b && List.length (es a) = List.length (es b) then
               List.iter2 (fun x y -> match String.split_on_char '/' x, String.split_on_char '/' y with
                 | [fx; dx; ex], [fy; dy; ey] when fx = fy ->
                   (match String.split_on_char '.' fx with
                    | [_; size; addr; ptr] ->
                      let size = n_of_string size and addr = n_of_string addr and ptr = n_of_string ptr in
                      if x_debug_consistent getF soh secs size addr ptr then begin
                        tag "dbg-consistent";
                        if dx <> dy then restricted := false;
                        if prd_va_congruent (n_of_int 4) secs addr then (if ex <> ey then restricted := false)
                      end else begin
                        tag "dbg-inconsistent"; if dx <> dy then tag "dbg-payload-differs-outside-hypothesis"
                      end
                    | _ -> restricted := false)
                 | _ -> ()) (es a) (es b)
           end
         end
         else if q.[0] = 'u' then begin
           (* C06_exception_equal, C06_function_bytes_equal, C06_unwind_info_equal: outside F37 whatever the file yields
              (table; per function the bytes and the unwind info) the view yields *)
           if wf && mvo <> None && is_ok a && not (Lazy.force f37l) then begin
             tag "exc-ok";
             if not (is_ok b) then literal := false
             else begin
               let fa = String.split_on_char ';' (body a) and fb = String.split_on_char ';' (body b) in
               if List.length fa <> List.length fb then literal := false
               else List.iter2 (fun x y ->
                   match String.split_on_char '/' x, String.split_on_char '/' y with
                   | [rx; bx; ux], [ry; by; uy] ->
                     if rx <> ry then literal := false;
                     if bx.[0] = 'b' && bx <> by then literal := false;
                     if ux.[0] = 'u' then (tag "unwind-ok"; if ux <> uy then literal := false)
                   | [cx], [cy] -> if cx <> cy then literal := false
                   | _ -> literal := false) fa fb
             end
           end
         end
         else
         if wf && mvo <> None && is_ok a then begin
           tag ("dir-" ^ String.sub q 0 1 ^ "-ok");
           let same = (if q.[0] <> 'i' then a = b else is_ok b && begin
               let ds x = split_on ';' (String.sub x 3 (String.length x - 3)) in
               let da = ds a and db = ds b in
               List.length da = List.length db &&
               List.for_all2 (fun x y -> match String.split_on_char '/' x, String.split_on_char '/' y with
                 | [f1; n1; i1], [f2; n2; i2] ->
                   f1 = f2 && (n1.[0] <> 'n' || n1 = n2) && (i1.[0] <> 'v' || i1 = i2)
                 | _ -> false) da db end) in
           if not same then literal := false
         end
       | [a; b; c] ->
         let rf = parse_rr a and rv = parse_rr b and c = n_of_string c in
         let p = Array.of_list (String.split_on_char ':' q) in
         (match p.(0), rf, rv with
          | ("s" | "d"), Some fr, _ when wf && mvo <> None ->
            let rva = (if p.(0) = "s" then Some (n_of_string p.(1)) else (match data_dir f m (n_of_string p.(1)) with Some (va, _) -> Some va | None -> None)) in
            (match rva, rv with
             | Some rva, Some vr ->
               (match fr with Ok _ -> tag "stored-slice" | _ -> ());
               let (r1, r2) = prefix_b secs rva fr vr c in
               if not r1 then restricted := false; if not r2 then literal := false;
               (* F37 excuses a failing whole-slice prefix only for a slice that lies in a section whose OWN raw tail beyond
                  VirtualSize holds a non-zero byte - not because some other section of the image is in the class *)
               if not r2 then (match first_v secs rva with
                 | Some s when raw_tail_not_mapped getF [s] -> ()
                 | _ -> unexcused := true)
             | Some _, None -> (match fr with Ok _ -> restricted := false | _ -> ())
             | None, _ -> ())
          | "c", Some (Ok fr), _ when wf && mvo <> None ->
            (* monotonicity of a typed reader: a C string read from the file view that lies in the
               mapped part of its section is read identically from the converted view *)
            let rva = n_of_string p.(1) in
            (match first_v secs rva with
             | Some s when Z.leq (Z.add (Z.sub (z_of_n rva) (z_of_n s.s_va)) (z_of_n fr.r_len)) (z_of_n (mapped_len s)) ->
               tag "cstr-mapped";
               (match rv with Some (Ok vr) when vr.r_len = fr.r_len && c = fr.r_len -> () | _ -> restricted := false)
             | _ -> ())
          | "g", Some (Ok fr), Some (Ok vr) when wf ->
            let i = int_of_string p.(1) in
            (match List.nth_opt secs i with
             | Some s -> if Z.lt (z_of_n c) (z_of_n (mapped_len s)) then restricted := false
             | None -> ())
          | _ -> ())
       | _ -> restricted := false)) qs;
    let base_ok = ok_v && ok_words && ok_f && !restricted && List.length impl = List.length qs in
    let lit_ok = roundtrip_ok && !literal in
    let cls = (if base_ok && not lit_ok then begin
        let c1 = stored_beyond_size_of_image soh soi secs and c2 = raw_tail_not_mapped getF secs in
        if (roundtrip_ok || c1) && (!literal || (c2 && not !unexcused)) then
          Some (if not roundtrip_ok then "stored_beyond_size_of_image" else "raw_tail_not_mapped")
        else None
      end else None) in
    (match cls with Some c -> tag c | None -> ());
    if not ok_v then tag "FAIL-view-bytes"; if not ok_words then tag "FAIL-view-words"; if not ok_f then tag "FAIL-file-bytes";
    if not !restricted then tag "FAIL-prefix"; if not roundtrip_ok then tag "fail-roundtrip"; if not !literal then tag "fail-literal-prefix";
    (mobs, base_ok && lit_ok, secs <> [], String.concat "," (Hashtbl.fold (fun k () a -> k :: a) tags []), cls)
  end

let () = run_driver handle
