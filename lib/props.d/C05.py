"""check configuration for C05 (see lib/vcheck.py)"""
CONFIG = dict(
    claim="Machine-checked proof over an executable model of rva<->va conversion, mapped-view slicing, va-based reading and the typed read family: closed forms for rva_to_va / va_to_rva and the round trips on (0, SizeOfImage) (C05_rva_va_roundtrip, C05_va_rva_roundtrip), a mapped view slices the buffer at offset rva (C05_slice_section), reading at B+r equals slicing at r as a result value - same region, same error - for file and mapped views (C05_read_is_slice), zero addresses always give Null, fixed-size typed reads are exactly a prefix of the untyped slice, sentinel/predicate reads return the longest prefix before the first matching element or Bounds and never run out of fuel (C05_rd_slice_f), C strings end at the first NUL or fail with Encoding (C05_rd_c_str). Tied to /repo by the correspondence check (both views, both formats, by-rva and by-va paths, element sizes 1/2/4/8).",
    note="Trusted: Coq kernel, extraction and glue. derva_string::<WideStr> is not reachable through the public API and is not modelled. The model is hand-written; the correspondence is differential testing bounded by its generator.",
    bin="views", driver="views_driver", model_ml="views_model", driver_includes=["image.ml"], driver_args=["C05"], extract=["Views"], shrink_fields=["q"],
    quick_cases=3000, thorough_cases=150000, case_seconds=5,
    correspondence="Model/Views.v {rva_to_va, va_to_rva, slice_section, read_section, read_file, slice, read, rd, rd_copy, rd_slice, rd_slice_s, rd_c_str} vs pelite Pe::{rva_to_va, va_to_rva, slice, read, derva, derva_copy, derva_into, derva_slice, derva_slice_s, derva_c_str, deref, deref_slice_s, deref_c_str}",
    rule="same image generator as C04, file and mapped views, ImageBase in {0, 0x1000, typical, 2^32-0x1000, 2^64-0x1000}, overridden bases for mapped views; queries by rva and by va = base + rva "
         "(plus va 0, base-1, random); element sizes 1,2,4,8; array lengths {0, small, 2^61, 2^63-1}; sentinel 0 or random; NUL/zero runs planted in the pattern-filled content. "
         "Non-trivial: at least one query of this property's kinds was evaluated.",
    trusted_base=["Spec/ViewSpec.v as the reading of the property text"],
    assumptions=["Va is 32 or 64 bits wide, usize is 64 bits; derva_string::<WideStr> is not reachable through the public API (WideStr is crate-private) and is not exercised"],
)
