"""check configuration for C02 (cross-cutting; see lib/vmeta.py)"""

def fails(obs, case):
    if obs.startswith("!panic"):
        # assertions of the harness itself belong to the property they test (C01 placement, C03 counts, C10 order)
        body = obs[len("!panic"):]
        parts = [p.strip() for p in body.split("||")]
        real = [p for p in parts if p and not p.startswith("harness:")]
        if real:
            return "panic"
        # assertions of the un-owned components (util, walker) that no other property consumes: the call returned
        # something the totality theorems' models cannot produce
        for p in parts:
            if "deref and as_ref differ" in p or "malformed JSON" in p or "positions not ascending" in p:
                return "harness-assertion"
        return None
    if obs.startswith("!abort"):
        return "abort"
    # harnesses that catch a panic per call and report it inside a row (wrapper / JSON component)
    if "!panic:" in obs:
        return "panic-in-row"
    return None

def classify(case, obs):
    return None

WALKER = dict(bin="walker", driver_cmd=["python3", "lib/null_driver.py"], case_seconds=20)
CSTR = dict(bin="cstrfmt", driver="cstrfmt_driver", model_ml="cstrfmt_model", extract=["CStrFmt"], case_seconds=3)
UTIL = dict(bin="util", driver="util_driver", model_ml="util_model", extract=["Util"], case_seconds=20)

CONFIG = dict(

    claim="Machine-checked proof that the executable models - which return the distinguished outcome Fault for every panic of a checked build (integer overflow, slice index, length mismatch, unwrap) - never return it: header validation of both formats and the wrapper constructors on any buffer at any address (C02_validate_total, C02_wrapper_total), address translation on any section table (C02_rva_to_file_offset_total ...), slicing and reading on file and mapped views for any address and min_size and any power-of-two align (anything else fails AlignTo's debug assertion by design), the typed read family on both paths including the sentinel scans, relocation iteration/fold/build, the Rich header scans, the string enumerator, the pattern parser on any byte string, the pattern interpreter on any atom list, and the C string formatters. The no-fault theorems of the directory modules are restated here from their own properties: to_view/to_file (C02_to_view_total, C02_to_file_total), export table extraction and get_proc_address by ordinal/name/import (C02_exports_by_total, C02_get_proc_address_total), imports and thunk decoding (C02_imports_total, C02_import_from_va_total), Matches::next for every pattern and range (C02_scanner_next_total), version info with ANY visitor (C02_version_info_total), RichIter under any call history (C02_rich_iter_total), exception/security/debug/TLS/load-config (C02_directories_total) and the resource consistency check on any bytes (C02_resources_fsck_total). Tied to /repo by re-running every component correspondence in debug (overflow checks, std UB checks) AND release builds with every API call under catch_unwind in isolated workers, plus a walker that calls the whole public API (accessors, directory parsers, iterators, Debug/Display, serde_json, scanner, to_view/to_file, resources incl. fsck/version info/icon groups) on the shipped PE files (2 demo DLLs, 11 tiny, 217 corkami) and field-level corruptions of them. CHECKED TWINS (Model/Checked.v): the first-phase models of Mapping/Views/Headers/Rich/Relocs/Strings wrote some plain Rust operators with unbounded arithmetic and total nth, so no-fault over them was true by omission; each such function now has a twin with chk_add/chk_sub/chk_mul at every plain + - *, Fault PIndex/PSliceOrder at every index and re-slicing and a reference check at every raw cast, and a theorem that the twin equals the model (C02_checked_rva_to_file_offset, _file_offset_to_rva, _range_file, _slice, _read, _va_to_rva: no hypothesis; C02_checked_typed_reads incl. the derva_slice_f loop under len + size_of T < 2^64 with the witness C02_checked_slice_f_needs_range that the hypothesis is needed; C02_checked_validate, C02_checked_wrapper for byte-valued buffers; C02_checked_rich_try_from - in particular for every e_lfanew below 0x40 -, C02_checked_rich_accessors, C02_checked_rich_encode; C02_checked_reloc_parse with the Err(Misaligned) branch of BaseRelocs::parse, C02_checked_reloc_build_size; C02_checked_strings_next). One obligation was false: RichStructure::encode overflowed u32 from 2^29 - 4 records on (F41, C02_F41_rich_encode_orig_refuted, repaired; C02_checked_rich_encode_total for the repaired code). The utility / formatting layer (component `util`): UTF-16 decoding, FmtUtf16 Display / Debug, WideStr::from_words and accessors, strn / wstrn / trimn / parsen / split_f, the GUID formatters, Ptr::fmt and the hex traits and flags!::to_strs (1 << i never shifts by the width) never panic on any input (C02_util_total); the free-standing helpers that CAN panic do so exactly on the stated arguments - WideStr::from_str on an empty buffer or, in a build that checks overflow, from 65536 code units on; Ptr::member / Ptr::at / Pir::at when base + offset leaves the Va range, with the 32-bit truncation of (i * size) stated (C02_util_from_str_faults_iff, C02_util_ptr_*); none of these is reachable from a parsed image.",
    note="Partial: stack bytes are outside the model (depth is bounded by theorems, F31 - about 10k skip ranges in one pattern exhaust an 8 MiB stack in a debug build - is outside the generators); formatters and serializers other than the C string escape loops are exercised by the walker, not modelled. Trusted: Coq kernel, extraction and glue, catch_unwind + process isolation of the harness.",
    extract=["CStrFmt"],
    release_in_quick=True,
    components=[
        dict(name="util", cfg=UTIL, quick_cases=1500, thorough_cases=100000),
        dict(name="walker", cfg=WALKER, quick_cases=1200, thorough_cases=80000),
        dict(prop="C05", quick_cases=600, thorough_cases=60000),
        dict(prop="C07", quick_cases=600, thorough_cases=60000),
        dict(prop="C14", quick_cases=600, thorough_cases=60000),
        dict(prop="C16", quick_cases=400, thorough_cases=40000),
        dict(prop="C20", quick_cases=600, thorough_cases=60000),
        dict(prop="C11", quick_cases=1200, thorough_cases=100000),
        dict(name="cstrfmt", cfg=CSTR, quick_cases=400, thorough_cases=40000),
        dict(prop="C06", quick_cases=300, thorough_cases=30000),
        dict(prop="C08", quick_cases=600, thorough_cases=60000),
        dict(prop="C10", quick_cases=600, thorough_cases=40000),
        dict(prop="C13", quick_cases=600, thorough_cases=60000),
        dict(prop="C18", quick_cases=600, thorough_cases=40000),
        dict(prop="C09", quick_cases=600, thorough_cases=40000),
        dict(prop="C12", quick_cases=1000, thorough_cases=60000),
        dict(prop="C19", quick_cases=300, thorough_cases=20000),
        dict(prop="C15", quick_cases=800, thorough_cases=60000),
    ],
    fails=fails, classify=classify,
    rule="union of the component generators (see the evidence of each component property) plus the walker inputs (2 demo DLLs, 11 tiny files, 217 corkami files; 0..6 field-level corruptions aimed at headers, data directories, section headers and directory contents; truncations; file and mapped; every part of the walk under its own catch_unwind so that one defect does not hide the next). Debug and release builds. A case fails when any API call panics (harness assertions excluded: they belong to C01/C03/C10) or the worker process dies. Non-trivial: as defined by each component.",
    trusted_base=["catch_unwind with a panic hook recording the location; worker death attributed to the case in flight"],
    assumptions=["64-bit usize", "documented preconditions respected (build: equal lengths; encode: destination long enough)"],
)
