"""check configuration for C15 (see lib/vcheck.py)"""
CONFIG = dict(
    claim="Machine-checked proof over an executable model of pe64/{exception,security,debug,tls,load_config}.rs, src/security.rs and the PGO iterator "
          "of wrap/debug.rs (shared by pe32), on top of the typed-read models of C05. "
          "Exception: Size mod 12 -> Invalid, else Size/12 records decoded from the slice at VirtualAddress (C15_exception_try_from, C15_exception_shape); "
          "check_sorted decides sortedness (C15_check_sorted); on every table with check_sorted = true, index_of pc = Ok i <-> Begin_i <= pc < End_i "
          "(C15_index_of_found_iff), Err exactly when no record contains pc (C15_index_of_none_iff) with the insertion index before the first record, "
          "after the last and inside a gap (C15_index_of_before_first/after_last/in_gap); this holds for ANY search that meets the documented contract of "
          "slice::binary_search_by, whose precondition sorted tables satisfy (C15_closure_orders_sorted_tables, C15_contract_gives_lookup), and the model's "
          "plain binary search meets that contract within its fuel and never leaves the slice on any table (C15_index_of_sorted, C15_index_of_total); "
          "lookup_function_entry returns exactly that record; bytes = [Begin, End); unwind_info has 4 + 2*CountOfCodes bytes inside the slice "
          "(C15_function_bytes, C15_unwind_info, C15_unwind_info_shape). "
          "Security: mapped view -> Unmapped, null -> Null, misaligned -> Misaligned, else Size-8 bytes at file offset VirtualAddress+8, no overflow "
          "(C15_security, C15_security_shape). "
          "Debug: Size mod 28 -> Invalid, Size/28 entries, data = SizeOfData bytes at PointerToRawData (file) / AddressOfRawData (mapped), entries decoded "
          "by type with the CodeView path ending at the first NUL (C15_debug_try_from, C15_debug_shape, C15_dir_data, C15_dir_entry, C15_cstr_from_bytes, "
          "C15_pdb_file_name); round trips against independent writers of RSDS, NB10 and POGO records for every record list and every path/name length "
          "(C15_cv70_roundtrip, C15_cv20_roundtrip, C15_pgo_roundtrip); the PGO iterator is total and yields exactly the list the record checker accepts "
          "(C15_pgo_iter, C15_pgo_iter_total). "
          "TLS / load config: the directory structure is the slice at VirtualAddress (Null when absent); raw_data = End-Start bytes at Start through the VA "
          "path, Invalid if reversed; slot; callbacks up to the first zero; security cookie; SEHandlerCount Va-sized handler entries "
          "(C15_tls_*, C15_lc_*, C15_absent_is_null). No modelled function faults (C15_no_fault). "
          "F17 (inverted comparator) and F8 (u32 add overflow) are refuted for the code as it stood (C15_F17_..., C15_F8_...) and repaired. "
          "WHICH bytes are decoded HOW, over the bytes of the view at the literal offsets of the PE/COFF specification and without the model decoder (Spec/DirShape.v): security = the Size bytes at file offset VirtualAddress with dwLength / wRevision / wCertificateType = the dword at 0 and the words at 4 and 6 and the certificate = the Size-8 bytes from 8 (C15_security_fields); CodeView NB10 = signature bytes, Offset at 4, TimeDateStamp at 8, Age at 12, path from 16 and RSDS = signature bytes, the 16 GUID bytes at 4, Age at 20, path from 24, MISC = DataType / Length / Unicode at 0 / 4 / 8, POGO and raw payloads, with every error case (C15_entry_fields, C15_dir_entry_shape, C15_dir_entry_errors); UNWIND_INFO bit fields, unwind_info and function bytes in closed form (C15_unwind_fields, C15_unwind_info_closed, C15_function_bytes_closed) - the field decoding that used to live in the OCaml driver is now extracted Coq (Model/DirsFields.v) and compared with the implementation. "
          "Tied to the repository by the correspondence check on generated PE32 / PE32+ images, file and mapped views.",
    note="Trusted: Coq kernel, extraction and glue; Spec/DirSpec.v as the reading of the property text; std's slice::binary_search_by is characterised by "
         "its documented contract only (Spec/DirSpec.v bsearch_contract: on a slice ordered by the closure it returns Ok(i) with f(a[i]) = Equal, or Err(k) with "
         "all elements before k Less and all from k on Greater) - the model runs a plain binary search that is proved to meet that contract, and on tables that "
         "fail check_sorted, where std's answer is implementation specific, the correspondence compares nothing but the oracle still requires Ok(i) to contain pc "
         "and Err(k) to lie inside the table. The TLS / load-config theorems through the VA path are stated for addresses strictly above the image base "
         "(va = base reaches rva 0, which the view layer leaves unconstrained, see C05). IMAGE_DEBUG_MISC is decoded as its 12-byte header only (as the code does). "
         "The model is hand-written; the correspondence is differential testing bounded by its generator.",
    bin="dirs", driver="dirs_driver", model_ml="dirs_model", driver_includes=["image.ml"], extract=["Dirs"], shrink_fields=["q"],
    quick_cases=2400, thorough_cases=120000, case_seconds=5,
    correspondence="Model/Dirs.v {exception_try_from, exception_functions, check_sorted, index_of, lookup_function_entry, function_bytes, unwind_info + accessors, "
                   "security_try_from, certificate_type, certificate_data, Model/DirsFields.v {sec_length, sec_revision, entry_fields}, debug_try_from, debug_dirs, dir_data, dir_entry, pdb_file_name, pgo_iter, tls_try_from, "
                   "tls_raw_data, tls_slot, tls_callbacks, load_config_try_from, lc_security_cookie, lc_se_handler_table} vs pelite pe32/pe64 "
                   "Pe::{exception, security, debug, tls, load_config} and Exception::{image, check_sorted, functions, index_of, lookup_function_entry}, "
                   "Function::{image, bytes, unwind_info}, UnwindInfo::*, Security::{image, certificate_type, certificate_data}, Debug::{image, iter, pdb_file_name}, "
                   "Dir::{image, data, entry}, CodeView::*, Pgo::{image, iter}, Tls::{image, raw_data, slot, callbacks}, LoadConfig::{image, security_cookie, se_handler_table}",
    rule="cases 0 and 1 are the shipped demo/Demo64.dll and demo/Demo.dll (headers parsed by the harness with explicit offsets, the whole file travels in the "
         "CASE line; index_of / lookup_function_entry for every pc of all 38 functions). All other cases are real PE32 and PE32+ images (three sections, file layout "
         "and mapped layout, buffer placed at 0/4/8/12 mod 16, three image bases) written by the independent writer harness/src/pe.rs plus the directory writers in "
         "harness/src/bin/dirs.rs: 0..64 runtime functions of 0..12 bytes with adjacency and gaps of 1..9, 20% unsorted (swapped, Begin > End, overlapping), unwind "
         "infos with 0..6 or 255 codes, some at the end of the section; index_of and lookup_function_entry for EVERY pc from 3 below the first to 3 above the last "
         "function plus 0, 1, 2^32-2, 2^32-1; 0..5 debug entries (RSDS, NB10, unknown signature, short, MISC, POGO with 0..5 records and names of 0..14 bytes, "
         "truncated / unterminated / trailing dwords, 18 other type values) with paths of 0..900 bytes, missing NUL, misaligned data; TLS with 0..64 template bytes "
         "and 0..16 callbacks, load config with 0..8 handlers, both widths; certificates of 8..320 bytes in 8-byte steps. A separate malformed stream (25%): sizes that "
         "are not a record multiple, absent and out-of-range directories, VirtualAddress + Size at and over 2^32, misaligned addresses, NumberOfRvaAndSizes below the "
         "index, reversed / null / out-of-image pointers, counts up to 2^61, byte flips, truncated buffers. Three oracles per query: model = implementation (string "
         "equality), the extracted Spec functions on the implementation's tokens, and - in the well-formed stream - the implementation's decoded values against the "
         "generator's own record of what it wrote (x= field: counts, Begin/End/Unwind, GUID / timestamp / age / path length, POGO records, template length, slot and "
         "cookie values, callback and handler counts, certificate type and length). Non-trivial: at least one query was evaluated by the oracle.",
    trusted_base=["Spec/DirSpec.v as the reading of the property text", "Spec/DirShape.v + Spec/LeBytes.v (literal field offsets of WIN_CERTIFICATE, CodeView NB10 / RSDS, IMAGE_DEBUG_MISC, UNWIND_INFO)",
                  "the documented contract of slice::binary_search_by (Spec/DirSpec.v bsearch_contract); std's own loop is not modelled"],
    assumptions=["Va is 32 or 64 bits wide, usize is 64 bits",
                 "the buffer is 4-aligned (validated by PeFile/PeView::from_bytes) - needed for the debug assertion in Security::new",
                 "data directory values and header fields are machine words (dd_ok, view_ok)"],
    open_statements=[],
)
