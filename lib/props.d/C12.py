"""check configuration for C12 (see lib/vcheck.py)"""
CONFIG = dict(
    required_tags=['cur-roundtrip', 'ico-roundtrip', 'text-compared', 'fsck-must-pass', 'fsck-must-fail', 'walk-complete'],
    claim="Machine-checked proof over an executable model of resources/{mod,find,group,art}.rs and Pe::resources(): "
          "the entry array of a directory is the named entries followed by the ID entries at off+16+8i, inside the section and aligned for every Directory value "
          "(C12_entries_named_then_ids, C12_entries_positions, C12_entries_safe); names and data entries are exactly what the bytes say, both ways - a data entry yields Size bytes "
          "at OffsetToData - VA with its code page (C12_name_complete/sound, C12_data_entry_complete/sound); traversal = denotation in both directions: for every section whose bytes denote a tree t "
          "(Spec/ResTree.v repr: counts, entries in stored order, names, links, data ranges) a traversal of sufficient depth and budget returns exactly the depth-first listing of t (C12_traverse_repr), and every "
          "traversal of an accepted directory that lists only valid entries and is neither cut nor stopped IS the listing of such a tree, no deeper than the depth given, its size the budget consumed "
          "(C12_traverse_repr_converse, C12_traverse_clean_iff); the run-time oracle walk_sound, evaluated on the implementation's listing, accepts every listing the model produces on any bytes, depth and budget "
          "(C12_walk_sound, C12_walk_sound_root); the repaired consistency check never faults, terminates by structural recursion on ANY bytes including directories that contain themselves, succeeds exactly when the root "
          "denotes a tree of at most 32 nested directories and at most len/8 entries (C12_fsck_no_fault, C12_fsck_iff), hence on every well-formed tree laid out without sharing that is at most 32 deep "
          "(C12_wellformed_size, C12_fsck_wellformed), rejects every section in which a reachable directory contains itself and accepts only sections in which every reachable directory, name, target and data range is valid "
          "(C12_fsck_rejects_cycles, C12_fsck_ok_reachable), and visits at most len/8 entries at most 32 levels deep, stated for a ghost-instrumented fsck proved equal to the model function (C12_fsck_counted, "
          "C12_fsck_dir_counted); the traversal lists exactly budget-minus-remaining entries below level lvl+depth and the tree printer writes at most 1+len/8 lines (C12_walk_count, C12_walk_levels, "
          "C12_display_lines_bound); Name comparison is the documented rule - '#<decimal id>', predefined '#TYPE' names, exact UTF-16 including surrogate pairs (C12_name_matching), Name::Id(n) displays as '#' + decimal "
          "digits which compares equal to Name::Id(n) in every direction and to no other id, for every n < 2^32 (C12_display_roundtrip, C12_display_is_decimal, C12_display_injective); lookup returns the first entry "
          "in stored order whose stored name matches (C12_lookup_first_match), and get, find_resource, find_resource_ex, rooted path find, manifest, version_info, GroupResource::image, icons and cursors equal the "
          "Spec's lookups read off the listing, for every complete listing of the root the model produces and for the listing of every section that denotes a tree (C12_lookups_on_traversal, C12_lookups_on_tree, "
          "C12_lookup_on_listing, C12_lookup_on_traversal); the find API, the manifest/version helpers, GroupResource::new and image never fault (C12_find_api_no_fault); every Directory, DirectoryEntry, DataEntry "
          "reference, every name and data slice, every group header and entry, every slice returned by the find API and every reference carried by a traversal lies inside the section with its address aligned for its "
          "type, and Pe::resources() hands out a slice of the image (C12_try_from_safe, C12_entry_refs_safe, C12_name_safe, C12_entry_safe, C12_data_bytes_safe, C12_group_new_safe, C12_find_resource(_ex)_safe, "
          "C12_manifest_safe, C12_version_info_safe, C12_group_image_safe, C12_group_list_safe, C12_pe_resources_safe, C12_walk_refs_safe, C12_walk_root_refs_safe); the text of the tree printer (Model/ResourcesArt.v, compared byte by byte with the implementation's) has exactly "
          "display_lines lines on any section (C12_display_text_lines); reassembly: for an accepted ICON group (idType 1) whose images are found with "
          "the stated sizes and a file below 4 GiB, write produces exactly Ico.encode: header, entries with recomputed offsets 6+16n+sum, image data in entry order (C12_group_write_ico; restated: it used to "
          "cover idType 2 through the same encoder, which was the code's own assumption); for an accepted CURSOR group (idType 2), after the F44 repair, write produces exactly Cur.encode_file - the .cur "
          "layout with hotspots in the entries, 8-bit sizes, sizes and offsets without the 4-byte hotspot headers - of the cursor images that the 16-bit group entries and the RT_CURSOR resources denote "
          "(C12_group_write_cur_pieces), reading back what a resource compiler stores for a .cur file gives the file (C12_cur_resources_roundtrip), hence compiling ANY .cur file (Cur.to_resources) and "
          "reassembling the group reproduces it (C12_group_write_cur, C12_group_write_cur_image), up to bColorCount/bReserved which the resource format does not keep (written as 0). "
          "F4, F16, F26, F29 were rediscovered by the check, repaired in /repo and refuted for the code as it stood (C12_F*_refuted); F44 (cursor groups written in the icon layout) was found by the independent "
          "audit - spec, harness and oracle had copied the code's assumption - rediscovered by the check once the harness stored real cursors, repaired and refuted (C12_F44_cursor_group_orig_refuted). "
          "Tied to /repo by the correspondence check on sections built by an independent writer; the oracle compares write with the original .ico AND the original .cur (independent writers), evaluates "
          "manifest/icons/cursors read off the implementation's listing and the Display/eq round trip.",
    note="Trusted: Coq kernel, extraction and OCaml glue (UTF-8 decoding of query strings, UTF-8 encoding of the printed text, the item parser), the harness's independent section, .ico and .cur writers and its "
         "resource-compiler layout for cursors; Spec/ResTree.v, Spec/Ico.v (.ico) and Spec/Cur.v (.cur file + RT_GROUP_CURSOR / RT_CURSOR layout, from the references in group.rs) as the reading of the "
         "property text; the hand-copied Error::to_str messages in Model/ResourcesArt.v; the hand-copied RSRC_TYPES table (every name is queried by the generator); std::path component splitting (paths are given to the model as component lists: '/' + components "
         "joined by '/', components non-empty, not '.'/'..', without '/' or NUL); str::from_utf8 is modelled by a validity test; io::Write is an append-all sink (Vec<u8>); VersionInfo::try_from is modelled "
         "up to its alignment test (C13 covers the rest); serde output and Debug are not covered. Bit tests on u32 fields are written arithmetically in the model. "
         "The repaired fsck/printer fail (stop) on trees deeper than 32 or whose unfolding has more than len/8 entries: sharing a sub-directory between several parents can exceed that budget although the "
         "structure is acyclic - this is part of the stated characterisation (C12_fsck_iff), not hidden.",
    bin="resources", driver="resources_driver", model_ml="resources_model", driver_includes=["image.ml"], extract=["Resources"],
    shrink_fields=["q"],
    quick_cases=16000, thorough_cases=200000, case_seconds=4,
    correspondence="Model/Resources.v {root, walk (entries/named_entries/id_entries/name/is_dir/entry/bytes/size/code_page), fsck, display_lines, dir_get/get_dir/get_data/first*, "
                   "find_resource(s)/find_resource_ex/find_path, manifest, version_info, group_list (icons/cursors), group_new/g_entries/g_image/group_write (icon and cursor branch), pe_resources}, Model/ResourcesArt.v display_text vs "
                   "pelite::resources::{Resources, Directory, DirectoryEntry, DataEntry, Name, FindError}, resources::group::GroupResource, Display for Resources, pe64::Pe::resources()",
    rule="resource sections from an independent writer (directories, then name strings, data entries, data; explicit offsets): free-form trees of depth 1..4 with 0..4 entries per directory, named and ID "
         "entries, UTF-16 names incl. non-BMP pairs, unpaired surrogates, '#', digits, '/', empty names, ids {0, 0xFFFF, 2^31-1, 1..24, random}, empty directories and empty data; typed trees "
         "(ICON/GROUP_ICON with 0..4 images; CURSOR/GROUP_CURSOR: three in four REAL cursor sets - an independent .cur writer, then the resource-compiler layout: 16-bit width and doubled height, planes/bit count "
         "from the DIB header, hotspot in front of every RT_CURSOR, dwBytesInRes counting it; 0..4 images of 16/32/48/64/256 (=0 in the file byte)/1/255/non-square/random sizes, hotspots 0 / size-1 / 0xFFFF / random, "
         "DIBs that are empty, shorter than a header, odd-sized, PNG or a BITMAPINFOHEADER with bits - the rest arbitrary bytes in a type-2 group; MANIFEST with valid/invalid UTF-8, VERSION, a named type) with "
         "group corruptions (reserved/type/length/entry bytes, dwBytesInRes 0..60 incl. below the hotspot size, sizes adding up beyond u32, missing images, a data entry where a directory is expected); "
         "limit shapes (1 in 41): chains of 30..34 nested directories and shared-child graphs whose unfolding has len/8 - 1, len/8, len/8 + 1 entries (trailing padding sets the budget); structural variations: shared children, directories containing themselves or an ancestor (1..3 back references), "
         "dangling directory/data/name references, odd name offsets, data ranges below the VA / beyond the section / size 2^32-1, data at odd offsets, header counts that disagree with the name kinds, "
         "duplicate names; malformed stream: 1..3 field pokes with boundary values, truncation anywhere; placement at addresses 0,1,2,4,6,8,10,12 mod 16; VA in {0, 0xFFFFF000, 0x1002, random, pages}; "
         "observer depth 32 / budget len/8 (80%), or small depth / budget; 26 queries per case: present and absent names as Id, '#<id>', '#0<id>', '#TYPE', UTF-8 and UTF-16, odd forms "
         "('#0', '#', '', '#007', '#4294967296', '#+7', '#icon', non-ASCII), type/name(/language) lookups, paths by components (rooted, relative, empty); 1 in 97 cases goes through "
         "Pe::resources() on a mapped PE32+ view (RVA 0 / 2 / 4 mod 8, Size smaller, equal, 2^32-1); every case also prints Name::Id(n) and compares it with its own text three ways for n in {0, 9, 10, 99, 100, 65535, 65536, 2^31-1, 2^31, 2^32-1} and the ids of its get queries. Non-trivial: the root is accepted and has at least one entry.",
    trusted_base=["Spec/ResTree.v (repr, flatten, name_matches, listing lookups), Spec/ResSafety.v and Spec/Ico.v as the reading of the property text",
                  "hand-copied RSRC_TYPES table in Model/Resources.v; std::path splitting; str::from_utf8 modelled as a validity test",
                  "harness/src/bin/resources.rs independent resource-section, .ico and .cur writers, resource-compiler layout of cursors",
                  "Spec/Cur.v: the .cur file and RT_GROUP_CURSOR / RT_CURSOR layouts (bColorCount / bReserved of the file are not kept by the resource format: canonical 0)"],
    assumptions=["usize is 64 bits; section bytes are bytes (sec_ok) where a theorem says so; query strings are valid Unicode scalar sequences; stored ids < 2^32",
                 "fsck accepts at most 32 nested directories and len/8 visited entries (repair of F16); write reports InvalidData when offsets exceed u32 (repair of F26) and when a cursor entry has no resource of at least 4 bytes or dwBytesInRes < 4 (repair of F44)",
                 "cursor files: width < 2^16, 2*height < 2^16, hotspots < 2^16, resource ids < 2^16, file below 4 GiB (Cur.image_ok; the ranges of the 16-bit group fields)",
                 "the reassembly theorems (icon and cursor) cover groups in which every entry's dwBytesInRes equals the length of the resource its nId names (piece_ok: what a resource compiler writes, and the only groups that come from an .ico/.cur file); on a mismatch GroupResource::write takes sizes and offsets from the group entries and the bytes from the resources (the FIXME in group.rs), the output is not a well-formed file, and the harness tags the case write-mismatched-group without judging it (third audit, F7)"],
    open_statements=[],
)
