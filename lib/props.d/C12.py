"""check configuration for C12 (see lib/vcheck.py)"""
CONFIG = dict(
    claim="Partial. Machine-checked proof over an executable model of resources/{mod,find,group,art}.rs and Pe::resources(): "
          "the entry array of a directory is the named entries followed by the ID entries at off+16+8i, inside the section and aligned for every Directory value "
          "(C12_entries_named_then_ids, C12_entries_positions, C12_entries_safe); names and data entries are exactly what the bytes say, both ways - a data entry yields Size bytes "
          "at OffsetToData - VA with its code page (C12_name_complete/sound, C12_data_entry_complete/sound); for every section whose bytes denote a tree t (Spec/ResTree.v repr: counts, "
          "entries in stored order, names, links, data ranges), a traversal of sufficient depth and budget returns exactly the depth-first listing of t (C12_traverse_repr); "
          "the repaired consistency check never faults, terminates by structural recursion on ANY bytes including directories that contain themselves, and succeeds exactly when the root "
          "denotes a tree of at most 32 nested directories and at most len/8 entries (C12_fsck_no_fault, C12_fsck_iff); Name comparison is the documented rule - '#<decimal id>', predefined "
          "'#TYPE' names, exact UTF-16 including surrogate pairs (C12_name_matching) and lookup returns the first entry in stored order whose stored name matches (C12_lookup_first_match); "
          "the find API, the manifest/version helpers, GroupResource::new and image never fault (C12_find_api_no_fault); for an accepted group whose images are found with the stated sizes and a "
          "file below 4 GiB, write produces exactly Ico.encode: header, entries with recomputed offsets 6+16n+sum, image data in entry order (C12_group_write_ico). "
          "F4, F16, F26, F29 were rediscovered by the check, repaired in /repo and refuted for the code as it stood (C12_F*_refuted). "
          "Not proved (listed as open): the converse listing equality for the traversal, the agreement of the Spec's listing-level lookup functions (used by the run-time oracle) with the model, "
          "Display/eq round trip for all ids, and an explicit work-bound theorem for fsck. Tied to /repo by the correspondence check on sections built by an independent writer.",
    note="Trusted: Coq kernel, extraction and OCaml glue (UTF-8 decoding of query strings, the item parser), the harness's independent section writer; Spec/ResTree.v and Spec/Ico.v as the reading of the "
         "property text; the hand-copied RSRC_TYPES table (every name is queried by the generator); std::path component splitting (paths are given to the model as component lists: '/' + components "
         "joined by '/', components non-empty, not '.'/'..', without '/' or NUL); str::from_utf8 is modelled by a validity test; io::Write is an append-all sink (Vec<u8>); VersionInfo::try_from is modelled "
         "up to its alignment test (C13 covers the rest); serde output and Debug are not covered. Bit tests on u32 fields are written arithmetically in the model. "
         "The repaired fsck/printer fail (stop) on trees deeper than 32 or whose unfolding has more than len/8 entries: sharing a sub-directory between several parents can exceed that budget although the "
         "structure is acyclic - this is part of the stated characterisation (C12_fsck_iff), not hidden.",
    bin="resources", driver="resources_driver", model_ml="resources_model", driver_includes=["image.ml"], extract=["Resources"],
    shrink_fields=["q"],
    quick_cases=16000, thorough_cases=200000, case_seconds=4,
    correspondence="Model/Resources.v {root, walk (entries/named_entries/id_entries/name/is_dir/entry/bytes/size/code_page), fsck, display_lines, dir_get/get_dir/get_data/first*, "
                   "find_resource(s)/find_resource_ex/find_path, manifest, version_info, group_list (icons/cursors), group_new/g_entries/g_image/group_write, pe_resources} vs "
                   "pelite::resources::{Resources, Directory, DirectoryEntry, DataEntry, Name, FindError}, resources::group::GroupResource, Display for Resources, pe64::Pe::resources()",
    rule="resource sections from an independent writer (directories, then name strings, data entries, data; explicit offsets): free-form trees of depth 1..4 with 0..4 entries per directory, named and ID "
         "entries, UTF-16 names incl. non-BMP pairs, unpaired surrogates, '#', digits, '/', empty names, ids {0, 0xFFFF, 2^31-1, 1..24, random}, empty directories and empty data; typed trees "
         "(ICON/GROUP_ICON, CURSOR/GROUP_CURSOR with 0..4 images, MANIFEST with valid/invalid UTF-8, VERSION, a named type) with group corruptions (reserved/type/length/entry bytes, sizes adding up "
         "beyond u32, missing images, a data entry where a directory is expected); structural variations: shared children, directories containing themselves or an ancestor (1..3 back references), "
         "dangling directory/data/name references, odd name offsets, data ranges below the VA / beyond the section / size 2^32-1, data at odd offsets, header counts that disagree with the name kinds, "
         "duplicate names; malformed stream: 1..3 field pokes with boundary values, truncation anywhere; placement at addresses 0,1,2,4,6,8,10,12 mod 16; VA in {0, 0xFFFFF000, 0x1002, random, pages}; "
         "observer depth 32 / budget len/8 (80%), or small depth / budget; 26 queries per case: present and absent names as Id, '#<id>', '#0<id>', '#TYPE', UTF-8 and UTF-16, odd forms "
         "('#0', '#', '', '#007', '#4294967296', '#+7', '#icon', non-ASCII), type/name(/language) lookups, paths by components (rooted, relative, empty); 1 in 97 cases goes through "
         "Pe::resources() on a mapped PE32+ view (RVA 0 / 2 / 4 mod 8, Size smaller, equal, 2^32-1). Non-trivial: the root is accepted and has at least one entry.",
    trusted_base=["Spec/ResTree.v (repr, flatten, name_matches, listing lookups) and Spec/Ico.v as the reading of the property text",
                  "hand-copied RSRC_TYPES table in Model/Resources.v; std::path splitting; str::from_utf8 modelled as a validity test",
                  "harness/src/bin/resources.rs independent resource-section and .ico writer"],
    assumptions=["usize is 64 bits; section bytes are bytes (sec_ok) where a theorem says so; query strings are valid Unicode scalar sequences; stored ids < 2^32",
                 "fsck accepts at most 32 nested directories and len/8 visited entries (repair of F16); write reports InvalidData when offsets exceed u32 (repair of F26)"],
    open_statements=[
        "C12_traverse_repr_converse: a clean listing returned by walk is the flatten of a tree represented by the bytes (existence of the tree follows from C12_fsck_iff; listing equality not proved)",
        "C12_walk_sound: the extracted oracle walk_sound accepts every listing produced by the model (run-time check only)",
        "C12_lookup_on_listing: dir_get/find_resource/find_resource_ex/find_path equal the Spec's listing-level lookups t_get_ent/t_find_resource/t_find_resource_ex/t_find_parts on flatten (run-time oracle only; the level-wise statement C12_lookup_first_match is proved)",
        "C12_display_roundtrip: forall id < 2^32, eq_string (NId id) (display_id id) = true (proved for the F29 witness only)",
        "C12_fsck_work_bound: explicit step-count theorem for fsck (the bound is the budget counter itself)",
    ],
)
