"""check configuration for C06 (see lib/vcheck.py)"""
CONFIG = dict(
    claim="Partial. Machine-checked proof over an executable model of PeFile::to_view and PeView::to_file (byte lists, the copy loops with get/get_mut "
          "skipping, the repaired min-length copy; the code as it stood is kept as to_view_orig/to_file_orig and refuted on Demo64.dll's first section header): "
          "for EVERY accepted buffer of either format the conversions neither panic nor read out of bounds (C06_to_view_no_fault, C06_to_file_no_fault) and the "
          "output has SizeOfImage bytes (resp. min(file extent, SizeOfImage)) each of which is the byte of the loop-free rule of Spec/ConvertSpec.v - headers below "
          "SizeOfHeaders, then the last section of the table whose copied range min(VS,SRD) covers the byte, else zero (C06_to_view_bytes, C06_to_view_table, "
          "C06_to_file_table; no well-formedness assumed). For well-formed tables (virtual extents max(VS,SRD) pairwise disjoint inside [SizeOfHeaders, SizeOfImage), raw "
          "data inside the file) this is the property's wording: headers and each section's stored bytes at their virtual addresses, the virtual-only tail of every "
          "section and every byte outside all sections zero (C06_to_view_wellformed); every slice that succeeds on the file view succeeds on the view over the converted "
          "buffer, is at least as long and agrees on the stored-and-mapped bytes, and is a full prefix when the raw tail beyond VirtualSize is zero padding "
          "(C06_prefix_simulation); to_file(to_view F) reproduces the headers and every section's stored-and-mapped bytes at their file offsets when raw ranges are disjoint, "
          "behind the headers and the file extent does not exceed SizeOfImage (C06_roundtrip). "
          "Second layer (Proofs/ConvertSimProofs.v), direction file => view, for the file view vf of F and the mapped view vv of to_view F with the same decoded header fields and ImageBase, "
          "buffers congruent modulo the alignment of the read: slice and read of any alignment are simulated (C06_slice_simulation); every typed read of both families (derva_*/deref_*: rd, rd_copy, "
          "rd_slice, rd_slice_f/_s, rd_c_str) that succeeds on vf succeeds on vv with the same length at the RVA read and equal bytes on min(length, agree_len) - agree_len reaches the end of min(VS,SRD), "
          "and the end of the raw data when the raw tail is zero; for the sentinel readers under the decidable proviso inside_agree (C06_rd_*_simulation); outside the known class raw_tail_not_mapped no "
          "proviso is left (C06_rd_equal .. C06_rd_c_str_equal). From that, outside F37: the export tables, names and lookups by ordinal and by name are EQUAL (C06_exports_equal, C06_export_names_equal, "
          "C06_get_export_ordinal_equal, C06_get_export_name_equal); import descriptors, dll names, thunk arrays, import entries, IAT (C06_imports_equal, C06_pe_imports_equal, C06_dll_name_equal, "
          "C06_thunks_equal, C06_import_from_va_equal, C06_iat_equal); base relocation bytes, blocks and pairs (C06_relocs_equal); exception table (C06_exception_equal); debug directory table "
          "(C06_debug_equal); TLS and load config directories, their pointer fields and what those point to (C06_tls_equal, C06_load_config_equal); the resource section (C06_resources_section_equal). "
          "When the file's headers lie inside SizeOfHeaders (headers_within, decidable; validate_headers only bounds them by the buffer) PeView::from_bytes accepts the converted buffer and decodes the same "
          "e_lfanew, SizeOfHeaders, SizeOfImage, ImageBase, section table and data directory (C06_headers_equal) and the Rich structure, its key, records and checksum are identical (C06_rich_equal). "
          "Not equal, by theorem: the security directory (a mapped view has none, C06_security_view_unmapped) and Headers::check_sum (C06_check_sum_not_preserved). "
          "Partial: the converse direction (view => file) is false in general and not characterised; the resource tree walkers, the debug entry payloads, export name_linear/iterators and unwind_info/function_bytes "
          "are covered by correspondence only. Two known classes: stored_beyond_size_of_image (F33), raw_tail_not_mapped (F37).",
    note="Trusted: Coq kernel, extraction and glue; Spec/ConvertSpec.v as the reading of the property (last-writer-wins rule, wf_sections, the two classes); the "
         "harness's own header writer supplies the section table the oracle uses, the model decodes its own from the bytes (Model/Headers.v). Allocation failure of "
         "vec![0; SizeOfImage] is outside the model (cap 1 MiB in generated cases). to_file is modelled and checked on PeView::from_bytes(to_view F) and on arbitrary "
         "tables at list level; PeView::module is not exercised.",
    bin="convert", driver="convert_driver", model_ml="convert_model", driver_includes=["image.ml"], extract=["Convert"], shrink_fields=["q"],
    quick_cases=1600, thorough_cases=120000, case_seconds=10,
    correspondence="Model/Convert.v {pe_to_view, pe_to_file} (+ Mapping.slice_file, Views.slice_section, rd_c_str, get_section_bytes, Headers.data_dir on both buffers; Exports.view_by, Imports.{imports, descs, dll_name, desc_iat, thunk_values}, ConvertSimSpec.relocs_try_from on the file view and on the mapped view) vs pelite pe32/pe64 PeFile::to_view, PeView::from_bytes + to_file, Pe::{slice, derva_c_str, get_section_bytes, data_directory, exports().by(), imports() with dll_name/iat per descriptor, base_relocs()} on PeFile(F) and PeView(to_view F)",
    rule="70% well-formed images from the harness's own writer: 1..96 sections (1, 2-8, 9-29, 30-95, 96), section alignment {0x2000,0x1000,0x200,0x100,0x80,0x40} x file "
         "alignment {0x200,0x80,0x20,4,1}, SizeOfRawData in {0, one file unit, 1..0x500 rounded or not}, VirtualSize <,=,> SizeOfRawData (incl. 0 and SRD plus more than a "
         "section unit), empty raw data with PointerToRawData 0, raw tail beyond VirtualSize zero padded (7/8) or pattern, optional gap between headers and raw data (file "
         "extent beyond SizeOfImage), overlay bytes, 0-3 data directories inside sections, both formats, e_lfanew {0x40,0x80,0xF8}; 30% accepted-but-odd: the section shapes "
         "of pe.rs gen_sections (overlapping, unsorted, raw data outside the file, wrapping ranges, sections over the headers), compressed virtual layouts, SizeOfHeaders in "
         "{0,len,header end,random,0x400}, SizeOfImage in {SizeOfHeaders, len, just below the last section end, 0x40, 0x8000, 1 MiB}. 12-36 queries per image at section edges "
         "+-{0,1,2,3,16}: slice(rva,0|1|4|0x20|0x200|2^32,1), derva_c_str, get_section_bytes(i), slice of data directory i - each on PeFile(F) and PeView(to_view F) with the "
         "number of equal leading bytes. Half of the well-formed images with a roomy section carry a structured export directory (1-3 functions, 2 names, ordinals, sometimes AddressOfNames 0), "
         "an import directory (one descriptor with dll name, thunk array of a hint/name entry and an ordinal entry, usually null-terminated) and a base relocation block, placed mostly inside min(VS,SRD) and "
         "sometimes running into the raw tail or beyond the stored data; those images (and a quarter of the others) add the queries x (exports().by(): the three tables and Base), i (imports(): descriptor "
         "fields, dll name bytes, IAT values) and b (base_relocs() bytes), each decoded on PeFile(F) and on PeView(to_view F), compared three ways (model on both, implementation on both, oracle: whatever the "
         "file decodes the view decodes identically outside raw_tail_not_mapped). Observed: full bytes (non-zero runs) of to_view and of to_file. Non-trivial: at least one section.",
    trusted_base=["Spec/ConvertSpec.v as the reading of the property text"],
    assumptions=["usize is 64 bits; section fields and SizeOfImage are u32; SizeOfImage <= 1 MiB in generated cases (allocation cap; allocation failure is not modelled)"],
    open_statements=["C06_directory_queries_equal (remaining part): (a) the converse direction view => file, false in general (the view also reads headers, virtual-only zero tails and gaps) - the set of RVAs where it holds is not stated; "
                     "(b) the resource tree walkers on the two resource sections (C06_resources_section_equal gives equal sections; a frame lemma 'every parser of Model/Resources.v reads below rs_len only' is missing); "
                     "(c) debug entry payloads (dir_data uses PointerToRawData on a file, AddressOfRawData on a view); (d) Exports name_linear and the iterators, exception unwind_info/function_bytes - thin over the typed reads, not written down; "
                     "lookups that ignore read errors (name_linear) are not monotone. Proved by theorem: typed reads, exports tables/names/ordinal/name lookups, imports, IAT, base relocations, exception table, debug table, TLS, load config, resource section, Rich, header fields; by correspondence: exports().by(), imports() with dll names and IAT, base_relocs() on both representations"],
)
