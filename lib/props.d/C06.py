"""check configuration for C06 (see lib/vcheck.py)"""
CONFIG = dict(
    claim="Partial. Machine-checked proof over an executable model of PeFile::to_view and PeView::to_file (byte lists, the copy loops with get/get_mut "
          "skipping, the repaired min-length copy; the code as it stood is kept as to_view_orig/to_file_orig and refuted on Demo64.dll's first section header): "
          "for EVERY accepted buffer of either format the conversions neither panic nor read out of bounds (C06_to_view_no_fault, C06_to_file_no_fault) and the "
          "output has SizeOfImage bytes (resp. min(file extent, SizeOfImage)) each of which is the byte of the loop-free rule of Spec/ConvertSpec.v - headers below "
          "SizeOfHeaders, then the last section of the table whose copied range min(VS,SRD) covers the byte, else zero (C06_to_view_bytes, C06_to_view_table, "
          "C06_to_file_table; no well-formedness assumed). For well-formed tables (virtual extents max(VS,SRD) pairwise disjoint inside [SizeOfHeaders, SizeOfImage), raw "
          "data inside the file) this is the property's wording: headers and each section's stored bytes at their virtual addresses, the virtual-only tail of every "
          "section and every byte outside all sections zero (C06_to_view_wellformed); every slice that succeeds on the file view succeeds on the view over the converted "
          "buffer, is at least as long and agrees on the stored-and-mapped bytes, and is a full prefix when the raw tail beyond VirtualSize is zero padding "
          "(C06_prefix_simulation); to_file(to_view F) reproduces the headers and every section's stored-and-mapped bytes at their file offsets when raw ranges are disjoint, "
          "behind the headers and the file extent does not exceed SizeOfImage (C06_roundtrip). Partial: 'every directory query gives equal results on both' is proved only "
          "as far as the prefix simulation of slices plus monotonicity of the C-string reader (C06_c_str_monotone, C06_c_str_simulation); the directory parsers are not modelled "
          "here - section bytes and data-directory slices are compared by correspondence only; Rich header and checksum not covered. Two known classes: stored_beyond_size_of_image (F33), raw_tail_not_mapped (F37).",
    note="Trusted: Coq kernel, extraction and glue; Spec/ConvertSpec.v as the reading of the property (last-writer-wins rule, wf_sections, the two classes); the "
         "harness's own header writer supplies the section table the oracle uses, the model decodes its own from the bytes (Model/Headers.v). Allocation failure of "
         "vec![0; SizeOfImage] is outside the model (cap 1 MiB in generated cases). to_file is modelled and checked on PeView::from_bytes(to_view F) and on arbitrary "
         "tables at list level; PeView::module is not exercised.",
    bin="convert", driver="convert_driver", model_ml="convert_model", driver_includes=["image.ml"], extract=["Convert"], shrink_fields=["q"],
    quick_cases=1600, thorough_cases=120000, case_seconds=10,
    correspondence="Model/Convert.v {pe_to_view, pe_to_file} (+ Mapping.slice_file, Views.slice_section, rd_c_str, get_section_bytes, Headers.data_dir on both buffers) vs pelite pe32/pe64 PeFile::to_view, PeView::from_bytes + to_file, Pe::{slice, derva_c_str, get_section_bytes, data_directory}",
    rule="70% well-formed images from the harness's own writer: 1..96 sections (1, 2-8, 9-29, 30-95, 96), section alignment {0x2000,0x1000,0x200,0x100,0x80,0x40} x file "
         "alignment {0x200,0x80,0x20,4,1}, SizeOfRawData in {0, one file unit, 1..0x500 rounded or not}, VirtualSize <,=,> SizeOfRawData (incl. 0 and SRD plus more than a "
         "section unit), empty raw data with PointerToRawData 0, raw tail beyond VirtualSize zero padded (7/8) or pattern, optional gap between headers and raw data (file "
         "extent beyond SizeOfImage), overlay bytes, 0-3 data directories inside sections, both formats, e_lfanew {0x40,0x80,0xF8}; 30% accepted-but-odd: the section shapes "
         "of pe.rs gen_sections (overlapping, unsorted, raw data outside the file, wrapping ranges, sections over the headers), compressed virtual layouts, SizeOfHeaders in "
         "{0,len,header end,random,0x400}, SizeOfImage in {SizeOfHeaders, len, just below the last section end, 0x40, 0x8000, 1 MiB}. 12-36 queries per image at section edges "
         "+-{0,1,2,3,16}: slice(rva,0|1|4|0x20|0x200|2^32,1), derva_c_str, get_section_bytes(i), slice of data directory i - each on PeFile(F) and PeView(to_view F) with the "
         "number of equal leading bytes. Observed: full bytes (non-zero runs) of to_view and of to_file. Non-trivial: at least one section.",
    trusted_base=["Spec/ConvertSpec.v as the reading of the property text"],
    assumptions=["usize is 64 bits; section fields and SizeOfImage are u32; SizeOfImage <= 1 MiB in generated cases (allocation cap; allocation failure is not modelled)"],
    open_statements=["C06_directory_queries_equal: every directory parser returns equal results on PeFile(F) and PeView(to_view F) - covered only through C06_prefix_simulation, C06_c_str_simulation and by correspondence on slices, section bytes, data-directory slices and C strings"],
)
