"""check configuration for C03 (cross-cutting; see lib/vmeta.py)"""
import re

def fails(obs, case):
    if obs.startswith("!hang"):
        return "hang"
    if obs.startswith("!abort") and ("stack overflow" in obs or "overflowed its stack" in obs):
        return "stack-exhaustion"
    if obs.startswith("!panic") and "harness: more " in obs:
        return "item-count-exceeds-bound"
    return None

WALKER = dict(bin="walker", driver_cmd=["python3", "lib/null_driver.py"], case_seconds=20)
CSTR = dict(bin="cstrfmt", driver="cstrfmt_driver", model_ml="cstrfmt_model", extract=["CStrFmt"], case_seconds=3)

CONFIG = dict(

    claim="Machine-checked proof, over the executable models of all traversals modelled so far, that the stated fuel - a function of the input length - always suffices and that item counts are bounded by the input: relocation blocks (fuel = length, at most len/8 blocks; the builder writes at most 12 bytes per rva), the string enumerator (at most length+1 items), sentinel / predicate scans and C strings on both read paths (fuel = slice length / element size + 1), the two backward scans of the Rich header, the pattern parser on any byte string (fuel length+1), the pattern interpreter on any atom list (fuel |pat|+1 per invocation, program counter as measure), and the escape loops of <CStr as Debug>/<CStr as Display> (fuel length+1, at most 4 output bytes per byte; F15 repaired). Restated from the directory modules: the exception binary search terminates on any table (C03_exception_search_terminates), POGO records (C03_pgo_iter_terminates), fsck on any section bytes including directories that contain themselves (C03_resources_fsck_terminates), the TLV parser stops after an error and the version-info walk completes with any visitor (C03_tlv_parser_stops_after_error, C03_version_info_walk_terminates), forward-only iterators stay exhausted (C03_forward_iterators_fused); the export binary search (fuel len+1) and the scanner iteration ((end-start)+1 calls) are stated in C08 and C10. Tied to /repo by re-running every component correspondence under a per-case CPU budget in isolated worker processes (a case that exceeds it is re-run alone with ten times the budget before it is called a hang), plus a walker that calls every iterator, formatter, serializer, fsck and scanner query on the shipped PE files and field-level corruptions of them with item-count assertions.",
    note="Partial by nature: wall-clock time and stack bytes are not modelled; the models bound steps and recursion depth. Trusted: Coq kernel, extraction and glue, process isolation and the alarm()-based budget of the harness.",
    extract=["CStrFmt"],
    components=[
        dict(name="cstrfmt", cfg=CSTR, quick_cases=1500, thorough_cases=200000),
        dict(prop="C14", quick_cases=1200, thorough_cases=100000),
        dict(prop="C20", quick_cases=1200, thorough_cases=100000),
        dict(prop="C16", quick_cases=800, thorough_cases=50000),
        dict(prop="C05", quick_cases=600, thorough_cases=50000),
        dict(prop="C11", quick_cases=1200, thorough_cases=100000),
        dict(name="walker", cfg=WALKER, quick_cases=600, thorough_cases=40000),
        dict(prop="C08", quick_cases=600, thorough_cases=60000),
        dict(prop="C10", quick_cases=600, thorough_cases=40000),
        dict(prop="C13", quick_cases=800, thorough_cases=60000),
        dict(prop="C18", quick_cases=800, thorough_cases=40000),
        dict(prop="C06", quick_cases=200, thorough_cases=20000),
        dict(prop="C09", quick_cases=400, thorough_cases=40000),
        dict(prop="C12", quick_cases=1500, thorough_cases=60000),
        dict(prop="C15", quick_cases=600, thorough_cases=40000),
    ],
    fails=fails,
    rule="union of the component generators (see the evidence of C14, C20, C16, C05, C11) plus byte strings for the C string formatters (0x7F, 0x1F, 0x80, specials over-represented) and the walker inputs (2 demo DLLs, 11 tiny files, 217 corkami files; 0..6 field-level corruptions aimed at headers, data directories, section headers and directory contents; truncations; file and mapped). A case fails on a hang (CPU budget, confirmed by a 10x solo re-run), a stack exhaustion, or an item count above the analytic bound. Non-trivial: as defined by each component.",
    trusted_base=["per-case CPU budget via alarm() in an isolated worker process; SIGALRM = hang after a solo re-run with 10x budget"],
    assumptions=["64-bit usize", "buffer shorter than 4 GiB for the pattern interpreter"],
)
