"""check configuration for C03 (cross-cutting; see lib/vmeta.py)"""

def fails(obs, case):
    if obs.startswith("!hang"):
        return "hang"
    if obs.startswith("!abort") and ("stack overflow" in obs or "overflowed its stack" in obs):
        return "stack-exhaustion"
    if obs.startswith("!panic") and "harness: more " in obs:
        return "item-count-exceeds-bound"
    return None

WALKER = dict(bin="walker", driver_cmd=["python3", "lib/null_driver.py"], case_seconds=20)
CSTR = dict(bin="cstrfmt", driver="cstrfmt_driver", model_ml="cstrfmt_model", extract=["CStrFmt"], case_seconds=3)
UTIL = dict(bin="util", driver="util_driver", model_ml="util_model", extract=["Util"], case_seconds=20)

CONFIG = dict(

    claim="Machine-checked proof, over the executable models of all traversals modelled so far, that the stated fuel - a function of the input length - always suffices, that item counts are bounded by the input and that the WORK is bounded by an explicit function of input and pattern length. Fuel and items: relocation blocks (fuel = length, at most len/8 blocks, at most len/2 words decoded and pairs yielded by the fold; the builder writes at most 12 bytes per rva), the string enumerator (at most length+1 items), sentinel / predicate scans and C strings on both read paths (fuel = slice length / element size + 1; the accepted index r satisfies (r+1)*size <= slice length, the NUL lies among the len bytes), the two backward scans of the Rich header (record count = (end-start-6)/2, all before e_lfanew), the pattern parser on any byte string (fuel length+1), the escape loops of <CStr as Debug>/<CStr as Display> (fuel length+1, at most 4 output bytes per byte; F15 repaired), the TLV parser (an item that parses consumes >= 4 words: at most len/4 items per level, at most len/4+1 results until exhaustion, at most one error), the binary searches of the exception directory and of the export names (floor(log2 n)+2 iterations of the loop on ANY table), Size/12 and Size/28 records of the exception and debug directories, and the resource traversal, tree printer and fsck (at most len/8 entries looked at in total and 32 levels, cycles and shared children included; fsck with a ghost visit counter whose erasure is fsck). Work, by ghost step counters whose erasure is the model function: (1) Exec::exec - the number of atoms executed plus retry-loop iterations over all nested invocations is at most wcost(pat) <= |pat| * prod over the Many atoms of (f_i + 1), f_i = number of cursor positions the skip range can try (min(slice length, 256*Rangext + operand), slice length for an open range): ONE FACTOR PER SKIP-RANGE OPERATOR, inherent in first-match-skipping-as-little-as-possible and stated, not hidden; linear (<= |pat|) without skip ranges (C03_exec_work_bounded, on every view shorter than 4 GiB, together with totality). This needs the Case blocks of the atom list to be properly nested, a decidable static check (cases_nested) proved sound against the interpreter (C03_exec_nesting_check_sound) and proved to hold for EVERY pattern string the parser accepts (C03_exec_parsed_patterns_nested: parse s = Ok p -> cases_nested p = true, an invariant of the parser loop; hence also for every compiled AST of the documented syntax, C03_exec_compiled_patterns_nested), so the bound with one factor per skip range and none per Case holds for every accepted pattern string. For ARBITRARY hand-written atom lists the proved bound has a factor 2 per Case atom and that is attained: 12 hand-written Case(0) atoms take 2^13-1 steps (C03_exec_work_case_chain_refuted). Before the repair of F40 (repo 91e76e1) the same blow-up was reachable from a pattern STRING: the parser reset its brace depth at '|' and ')' and accepted k groups '(%{|?)' with a brace left open inside the alternative, which take 7*2^k-5 steps (C03_exec_work_unbalanced_brace_refuted on parse_orig, the parser as it stood; reproduced on the real Scanner::exec: k=24 0.6 s, k=28 beyond the CPU budget, doubling per group); the repaired parser reports StackError there (C03_unbalanced_brace_rejected). (2) Matches::next - the implementation's own candidate counter `hits` grows by at most the distance range.start advances in one call and over any number of calls of an iteration, i.e. at most range length exec invocations per scan, and (end-start)+1 calls exhaust the iteration. (3) the string enumerator - one call examines exactly the bytes between the old and the new offset, a full iteration examines every byte exactly once (work = len). Restated from the directory modules: the exception binary search terminates on any table, POGO records, fsck on any section bytes including directories that contain themselves, the TLV parser stops after an error and the version-info walk completes with any visitor, forward-only iterators stay exhausted. Tied to /repo by re-running every component correspondence under a per-case CPU budget in isolated worker processes (a case that exceeds it is re-run alone with ten times the budget before it is called a hang), plus a walker that calls every iterator, formatter, serializer, fsck and scanner query on the shipped PE files and field-level corruptions of them with item-count assertions. The step counters themselves are not observed on the implementation (wall-clock budget only). The formatting layer (component `util`): the decode_utf16 loop and both FmtUtf16 formatters finish within fuel length+1 and write at most 3 bytes per input word (Display) resp. 6 bytes per word plus 3 (Debug), the GUID formatters write exactly 38 / 32 / 32 bytes, Ptr::fmt exactly 2 + 2*size bytes, to_strs yields at most `width` names (C03_util_*).",
    note="Partial by nature: wall-clock time and stack bytes are not modelled; the models bound steps and recursion depth. Trusted: Coq kernel, extraction and glue, process isolation and the alarm()-based budget of the harness.",
    extract=["CStrFmt"],
    components=[
        dict(name="util", cfg=UTIL, quick_cases=1500, thorough_cases=100000),
        dict(name="cstrfmt", cfg=CSTR, quick_cases=1500, thorough_cases=200000),
        dict(prop="C14", quick_cases=1200, thorough_cases=100000),
        dict(prop="C20", quick_cases=1200, thorough_cases=100000),
        dict(prop="C16", quick_cases=800, thorough_cases=50000),
        dict(prop="C05", quick_cases=600, thorough_cases=50000),
        dict(prop="C11", quick_cases=1200, thorough_cases=100000),
        dict(name="walker", cfg=WALKER, quick_cases=600, thorough_cases=40000),
        dict(prop="C08", quick_cases=600, thorough_cases=60000),
        dict(prop="C10", quick_cases=600, thorough_cases=40000),
        dict(prop="C13", quick_cases=800, thorough_cases=60000),
        dict(prop="C18", quick_cases=800, thorough_cases=40000),
        dict(prop="C06", quick_cases=200, thorough_cases=20000),
        dict(prop="C09", quick_cases=400, thorough_cases=40000),
        dict(prop="C12", quick_cases=1500, thorough_cases=60000),
        dict(prop="C15", quick_cases=600, thorough_cases=40000),
    ],
    open_statements=[],
    fails=fails,
    rule="union of the component generators (see the evidence of C14, C20, C16, C05, C11) plus byte strings for the C string formatters (0x7F, 0x1F, 0x80, specials over-represented) and the walker inputs (2 demo DLLs, 11 tiny files, 217 corkami files; 0..6 field-level corruptions aimed at headers, data directories, section headers and directory contents; truncations; file and mapped). A case fails on a hang (CPU budget, confirmed by a 10x solo re-run), a stack exhaustion, or an item count above the analytic bound. Non-trivial: as defined by each component.",
    trusted_base=["per-case CPU budget via alarm() in an isolated worker process; SIGALRM = hang after a solo re-run with 10x budget"],
    assumptions=["64-bit usize", "buffer shorter than 4 GiB for the pattern interpreter"],
)
