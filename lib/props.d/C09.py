"""check configuration for C09 (see lib/vcheck.py)"""
CONFIG = dict(
    claim="Machine-checked proof over an executable model of src/pe64/imports.rs (shared by pe32) on top of the view model of C04/C05: "
          "the import directory is the longest prefix of 20-byte descriptors at the directory RVA before the first one whose FirstThunk is zero, Bounds if the available bytes hold none, "
          "Null for a zero directory RVA, Bounds for a directory index at or beyond NumberOfRvaAndSizes (C09_imports, C09_imports_null, C09_dir_absent), and exactly the descriptors up to the all-zero "
          "terminator when every earlier descriptor has a non-zero FirstThunk (C09_imports_wf); the iterator yields them in order (C09_descs_in_order); dll_name is the bytes up to the first NUL at Name "
          "(C09_dll_name); the name table and the address table are the thunks before the first zero thunk, Null when the field is zero (C09_thunks, C09_tables_null); a thunk decodes, for 32- and 64-bit "
          "thunks, to the low 16 bits as ordinal when the top bit is set and otherwise to the u16 hint at rva = t mod 2^32 and the C string at rva+2, with the errors of the two reads propagated "
          "(C09_import_from_va), and every entry of a name table and of the IAT is decoded that way (C09_tables_decode); the IAT view has exactly Size / pointer-size entries at the directory RVA (C09_iat, C09_iat_length, C09_iat_null); no model function faults (C09_tables_no_fault, "
          "C09_import_from_va_no_fault). WHICH bytes are decoded HOW, over the bytes at literal offsets and over slice itself, with no hypothesis on the image: a descriptor is the five dwords at offsets 0, 4, 8, 12, 16 of its 20-byte record (C09_desc_shape, C09_descs_shape); a thunk is the pointer-wide little-endian value at FirstThunk + i*va_bytes, every reported thunk is non-zero and the next one inside the slice is zero (C09_thunk_shape, C09_thunks_shape); thunk decoding with every outcome attributed to the step that produced it (C09_import_shape, C09_ordinal_flag_bit). F38 (new): rva + 2 overflowed on mapped views of 4 GiB or more - found by the check, fixed in the library, the code as it stood is refuted "
          "(C09_F38_import_from_va_orig_refuted) and shown unchanged elsewhere (C09_F38_orig_agrees). Tied to the library by the correspondence check on generated PE32 / PE32+ images, file and mapped.",
    note="Trusted: Coq kernel, extraction and glue; Spec/ImportSpec.v as the reading of the property (format constants written from the PE/COFF specification, slicing through the closed forms slice_spec / "
         "c_str_spec of C04/C05). The data directory is read from the header bytes by Model/Headers.v data_dir and proved equal to the spec's dir_spec for both formats. The Debug and serde "
         "implementations of imports.rs are not modelled; the wrappers of src/wrap/imports.rs are exercised by the harness (wrap=same) but have no model of their own (they are one match per method). "
         "Hypotheses: the buffer holds bytes (< 256), the format is PE32 or PE32+, view_ok of C05; a thunk value is below 2^32 resp. 2^64.",
    bin="imports", driver="imports_driver", model_ml="imports_model", driver_includes=["image.ml"], extract=["Imports"], shrink_fields=["ip"],
    quick_cases=4000, thorough_cases=200000, case_seconds=10,
    correspondence="Model/Imports.v {imports, descs, dll_name, desc_iat, desc_int, thunk_values, import_from_va, int_imports, iat, iat_iter} (+ Model/Headers.v validate, data_dir) vs pelite "
                   "pe32/pe64 Pe::{imports, iat}, Imports::{image, iter}, Desc::{image, dll_name, iat, int}, IAT::{image, iter} and the same calls through pelite::Wrap",
    rule="PE32 and PE32+ images, file layout and mapped layout (1:1), written by the independent writer harness/src/pe.rs; 1-3 well-formed sections (6/7) or the C04 section-shape generator (1/7, malformed stream); "
         "NumberOfRvaAndSizes in {0,1,2,12,13,16,17,2^32-1}; 0-4 DLLs x 0-6 thunks: by-ordinal (also with garbage above bit 15), hint/name entries (also unterminated, misaligned, ending exactly at the end of the "
         "available bytes, PE32+ thunks with bits 32..62 set), thunks pointing anywhere / into headers / at 2^32-2; OriginalFirstThunk missing or shared with FirstThunk; tables and the descriptor array with or "
         "without terminator, placed in sequence or flush with the end of the section / buffer; terminators all-zero or FirstThunk-only; directory RVA null, random, shifted, misaligned; IAT size exact, "
         "not a multiple of the pointer size, 0, huge; buffers truncated or with overlay; placement at 0/4/8/12 mod 16; zero or pattern fill; one case in 997 is a sparse 4 GiB(+0,2,4096) mapped PE32+ view "
         "whose IAT refers to the last bytes of the 32-bit rva space. Non-trivial: the import directory or the IAT directory was read successfully.",
    trusted_base=["Spec/ImportSpec.v as the reading of the property text", "Spec/ViewSpec.v, Spec/MappingSpec.v (closed forms of slicing, proved against the model in C04/C05)"],
    assumptions=["usize is 64 bits; Va is 32 bits (PE32) or 64 bits (PE32+)", "the 4 GiB cases need 4 GiB of virtual address space (MAP_NORESERVE); when mmap fails the case reports !nomem and counts as a failure"],
)
