"""check configuration for C01 (cross-cutting; see lib/vmeta.py)"""

def fails(obs, case):
    if obs.startswith("!abort"):
        if "stack overflow" in obs or "overflowed its stack" in obs or "memory allocation" in obs:
            return None        # C02/C03
        return "abort:" + obs.split(" ")[0].split(":")[-1]
    if obs.startswith("!panic") and ("harness: returned region outside" in obs or "harness: misaligned" in obs):
        return "returned-borrow-outside-or-misaligned"
    return None

WALKER = dict(bin="walker", driver_cmd=["python3", "lib/null_driver.py"], case_seconds=20)

CONFIG = dict(

    claim="Machine-checked proof over the executable models, in which every accessor returns the REGION of the borrow it hands out: after the validation gate every unchecked header accessor returns a region inside the buffer and aligned for its struct type, with sizes and alignments regenerated from src/image.rs on every run (C01_header_accessors_32/64); for any (rva | va, min_size, align) a slice returned by a file or mapped view lies inside the buffer, has at least min_size bytes and starts at an address that is a multiple of align (C01_slice, C01_read); every typed read on both paths (derva/deref, _copy/_into, _slice, _slice_f/_s, _c_str) returns a region inside the buffer, aligned for the element type, of exactly the stated size (C01_typed_reads); the dword view used by check_sum and rich_structure is aligned and inside (C01_dword_view); relocation blocks lie inside the directory (C01_reloc_blocks); the resource entry array handed out by from_raw_parts lies inside the section and is aligned (C01_resource_entries); UNWIND_INFO with its code array lies inside the slice it was read from (C01_unwind_info). Further region facts of the directory parsers are stated in their own properties (C08 tables, C09 thunk tables, C12, C13 fixed info, C15). Tied to /repo by re-running every component correspondence with the buffer placed flush against PROT_NONE guard pages (end and start side, all alignment classes the generators choose) in a debug build with std's UB checks (misaligned pointer dereference, from_raw_parts / get_unchecked preconditions abort the process), by placement assertions on every returned reference, slice and string (inside the buffer or an empty/static constant, aligned for its type), and by a walker over the whole public API on the shipped PE files and their corruptions.",
    note="Partial by nature: a Coq model cannot exhibit what the hardware does with a bad pointer; that part is observed (SIGSEGV on guard pages, UB-check aborts). Formatters and serializers other than the loops modelled are exercised by the walker only. Trusted: Coq kernel, extraction and glue, tools/gen_layout.py, mmap/mprotect placement in harness/src/lib.rs.",
    extract=[],
    modes=[("guard-end", {"PVH_GUARD": "end"}), ("guard-start", {"PVH_GUARD": "start"})],
    components=[
        dict(name="walker", cfg=WALKER, quick_cases=1000, thorough_cases=80000, release=False),
        dict(prop="C05", quick_cases=1000, thorough_cases=80000, release=False),
        dict(prop="C07", quick_cases=800, thorough_cases=60000, release=False),
        dict(prop="C14", quick_cases=400, thorough_cases=40000, release=False),
        dict(prop="C16", quick_cases=400, thorough_cases=40000, release=False),
        dict(prop="C11", quick_cases=800, thorough_cases=60000, release=False),
        dict(prop="C06", quick_cases=400, thorough_cases=40000, release=False),
        dict(prop="C08", quick_cases=800, thorough_cases=60000, release=False),
        dict(prop="C10", quick_cases=600, thorough_cases=40000, release=False),
        dict(prop="C13", quick_cases=800, thorough_cases=60000, release=False),
        dict(prop="C18", quick_cases=600, thorough_cases=40000, release=False),
        dict(prop="C09", quick_cases=600, thorough_cases=40000, release=False),
        dict(prop="C12", quick_cases=1000, thorough_cases=60000, release=False),
        dict(prop="C19", quick_cases=300, thorough_cases=20000, release=False),
        dict(prop="C15", quick_cases=800, thorough_cases=60000, release=False),
    ],
    fails=fails,
    rule="union of the component generators (see the evidence of each component property) and the walker inputs (2 demo DLLs, 11 tiny files, 217 corkami files; 0..6 field-level corruptions; truncations; file and mapped), every buffer placed in an mmap region between two PROT_NONE pages: flush against the end guard (exactly when (place+len) mod 16 = 0, else within 15 bytes as the requested alignment class place in {0,4,8,12} demands) and, in a second pass, directly after the start guard. A case fails when the worker dies by a signal (SIGSEGV/SIGBUS on a guard page, SIGABRT from a std UB check) or a returned borrow lies outside the buffer or is misaligned. Non-trivial: as defined by each component.",
    trusted_base=["guard pages by mmap/mprotect; std debug-build UB checks; placement assertions in the harness"],
    assumptions=["x86_64, 64-bit usize", "the buffer does not wrap around the address space (addr + len < 2^64)"],
)
