"""check configuration for C01 (cross-cutting; see lib/vmeta.py)"""
import os, re

_GEN = os.path.join(os.path.dirname(os.path.abspath(__file__)), "..", "..", "coq", "gen")

def _gen_layout():
    """what coq/gen/Layout.v and LayoutExtra.v say: {NAME: "size/align", NAME.field: "off"} (read at every call: the
    files are regenerated during the run)"""
    want = {}
    for fname in ("Layout.v", "LayoutExtra.v"):
        path = os.path.join(_GEN, fname)
        if not os.path.exists(path):
            continue
        text = open(path).read()
        sizes = dict(re.findall(r"Definition (\w+)_size : N := (\d+)\.", text))
        aligns = dict(re.findall(r"Definition (\w+)_align : N := (\d+)\.", text))
        for name in sizes:
            want[name] = "%s/%s" % (sizes[name], aligns.get(name, "?"))
            for f, off in re.findall(r"Definition %s_(\w+)_off : N := (\d+)\." % re.escape(name), text):
                # a struct whose name is a prefix of another one (IMAGE_NT_HEADERS32 / ..32_x): keep the fields rustc was asked about
                want.setdefault("%s.%s" % (name, f), off)
    return want

def layout_mismatch(obs):
    """the layout component: every number rustc reports equals the number the Coq development uses"""
    got = dict(kv.split("=", 1) for kv in obs.split(" ")[1:] if "=" in kv)
    want = _gen_layout()
    if not got:
        return "layout:no-structs-reported"
    for k, v in got.items():
        if want.get(k) != v:
            return "layout:%s rustc=%s gen=%s" % (k, v, want.get(k))
    for k in want:
        if "." not in k and k not in got:
            return "layout:%s is in coq/gen but rustc was not asked (stale harness/src/layout_gen.rs)" % k
    return None

def fails(obs, case):
    if obs.startswith("layout "):
        return layout_mismatch(obs)
    if obs.startswith("!abort"):
        if "stack overflow" in obs or "overflowed its stack" in obs or "memory allocation" in obs:
            return None        # C02/C03
        return "abort:" + obs.split(" ")[0].split(":")[-1]
    if obs.startswith("!panic") and ("harness: returned region outside" in obs or "harness: misaligned" in obs):
        return "returned-borrow-outside-or-misaligned"
    return None

WALKER = dict(bin="walker", driver_cmd=["python3", "lib/null_driver.py"], case_seconds=20)
UTIL = dict(bin="util", driver="util_driver", model_ml="util_model", extract=["Util"], case_seconds=20)
LAYOUT = dict(bin="layout", driver_cmd=["python3", "lib/null_driver.py"], case_seconds=20)

CONFIG = dict(

    claim="Machine-checked proof over the executable models, in which every accessor returns the REGION of the borrow it hands out: after the validation gate every unchecked header accessor returns a region inside the buffer and aligned for its struct type, with sizes and alignments regenerated from src/image.rs on every run (C01_header_accessors_32/64); for any (rva | va, min_size) and any power-of-two align (the documented precondition of AlignTo; C01_alignment_test_is_mask ties the code's mask test to the divisibility test of the models) a slice returned by a file or mapped view lies inside the buffer, has at least min_size bytes and starts at an address that is a multiple of align (C01_slice, C01_read); every typed read on both paths (derva/deref, _copy/_into, _slice, _slice_f/_s, _c_str) returns a region inside the buffer, aligned for the element type, of exactly the stated size (C01_typed_reads); the dword view used by check_sum and rich_structure is aligned and inside (C01_dword_view); relocation blocks lie inside the directory (C01_reloc_blocks); the resource entry array handed out by from_raw_parts lies inside the section and is aligned (C01_resource_entries); UNWIND_INFO with its code array lies inside the slice it was read from (C01_unwind_info). The directory modules are covered accessor by accessor (Spec/SafetyDirsSpec.v, Proofs/SafetyDirsProofs.v), each borrow inside the buffer and at an address that is a multiple of the alignment of the Rust type it is cast to (gen/Layout.v): the IMAGE_EXPORT_DIRECTORY, the three By tables (static empty slice or a derva_slice region aligned for Rva / u16) and every name string (C01_exports_regions); the import descriptor array and each descriptor, dll names, the IAT / INT thunk arrays and each thunk (Va: 4 in PE32, 8 in PE32+), by-name import names, the IAT directory (C01_imports_regions); the RUNTIME_FUNCTION table and each record, function bytes, UNWIND_INFO with the UNWIND_CODE array from_raw_parts builds behind it (C01_exception_regions); the certificate with its 8 header bytes and the get_unchecked(8..) payload (C01_security_region); the IMAGE_DEBUG_DIRECTORY array and each Dir, Dir::data, the CodeView PDB20 / PDB70, IMAGE_DEBUG_MISC and PGO dword-slice casts, pdb_file_name and every PgoIter name (C01_debug_regions); IMAGE_TLS_DIRECTORY32/64, raw data, slot, callbacks (C01_tls_regions); IMAGE_LOAD_CONFIG_DIRECTORY32/64, cookie, SE handler table (C01_load_config_regions); Resources::slice / slice_ws, Directory::try_from with the entry arrays of entries() / named_entries() / id_entries() and each entry, wide names, sub-directories and data entries, DataEntry::bytes, the find.rs queries, version_info() bytes, GroupResource::new with its entry array and the icon / cursor listings, and the section itself as a borrow of a file or mapped view (C01_resources_regions, C01_resource_groups, C01_resources_in_view; C01_resource_entries kept); the u16 view of a version resource, key / value / children of every block, the VS_FIXEDFILEINFO cast - whose misaligned case is unreachable - and Language::from_slice (C01_version_info_regions); the dos stub, Rich image and record words on the dword view (C01_rich_region); the relocation directory and the 4-byte alignment of every block header IterBlocks dereferences (C01_relocs_region, C01_reloc_blocks_aligned). Every C string handed out (typed reads, pdb and PGO names) is non-empty, ends with a NUL and contains no other - the invariant CStr::from_bytes_unchecked asks for (C01_c_str_invariant); the unchecked accesses that hand out no borrow and are marked with a UB fault in the models - the header copy of to_view / to_file, the probe of binary_search_by, the VS_FIXEDFILEINFO cast - are unreachable (C01_no_ub). Where a model decodes values (export tables) the statement is about the slicing step they were decoded from. No cast was found whose size / alignment precondition the models do not establish; GRPICONDIR / GRPICONDIRENTRY / Language (defined outside image.rs) take their sizes, alignments and offsets from gen/LayoutExtra.v (tools/gen_layout_extra.py), and every size, alignment and field offset of gen/Layout.v and gen/LayoutExtra.v is compared with what rustc reports (component 'layout'). Tied to /repo by re-running every component correspondence with the buffer placed flush against PROT_NONE guard pages (end and start side, all alignment classes the generators choose) in a debug build with std's UB checks (misaligned pointer dereference, from_raw_parts / get_unchecked preconditions abort the process), by placement assertions on every returned reference, slice and string (inside the buffer or an empty/static constant, aligned for its type), and by a walker over the whole public API on the shipped PE files and their corruptions. CHECKED TWINS (Model/Checked.v): every raw reference the first-phase models handed out without a check is ref_chk (Fault UBOob outside the buffer, Fault UBAlign when misaligned for its type) in a twin that provably equals the model: the &IMAGE_BASE_RELOCATION and &[u16] of IterBlocks::peek on the directory of any file or mapped view (C01_reloc_refs_checked) and on any slice given to BaseRelocs::parse (C01_reloc_parse_checked; C01_reloc_refs_need_alignment: without the Misaligned test the first dereference is misaligned), the DOS / NT header casts of validate_headers (C01_header_refs_checked), the dword view of rich_structure()/check_sum (C01_dword_view_checked) and the casts of the typed read family relative to the byte slice they come from (C01_typed_refs_checked). The utility layer (component `util`, Model/Util.v; docs/notes-UTIL.md): WideStr::from_words hands out the prefix of first word + 1 words and establishes the invariant from_words_unchecked asks for (C01_util_from_words_region); <WideStr as FromBytes>::from_bytes stays inside the byte slice and aligned under exactly the guarantees derva_string / deref_string give it (MIN_SIZE_OF = 2, ALIGN_OF = 2) and is undefined behaviour exactly outside them (C01_util_from_bytes_region, C01_util_from_bytes_faults_iff); Deref / AsRef (get_unchecked(1..)) is in bounds after every constructor and out of bounds only on the empty slice no constructor produces (C01_util_as_ref_after_constructors, C01_util_as_ref_faults_iff); WideStr::from_str - dead, unexported code - keeps the invariant only when the string fills the buffer (C01_util_from_str_invariant_iff); strn / wstrn / trimn return prefixes of their buffer (C01_util_strn_trimn_regions).",
    note="Partial by nature: a Coq model cannot exhibit what the hardware does with a bad pointer; that part is observed (SIGSEGV on guard pages, UB-check aborts). Formatters and serializers other than the loops modelled are exercised by the walker only. Trusted: Coq kernel, extraction and glue, mmap/mprotect placement in harness/src/lib.rs. tools/gen_layout.py and gen_layout_extra.py are no longer trusted for the numbers: the 'layout' component asks rustc for size_of / align_of / offset_of of every struct and field of coq/gen/Layout.v and LayoutExtra.v and the check fails on any difference.",
    extract=[],
    modes=[("guard-end", {"PVH_GUARD": "end"}), ("guard-start", {"PVH_GUARD": "start"})],
    components=[
        dict(name="util", cfg=UTIL, quick_cases=1500, thorough_cases=100000),
        dict(name="walker", cfg=WALKER, quick_cases=1000, thorough_cases=80000, release=False),
        dict(name="layout", cfg=LAYOUT, quick_cases=2, thorough_cases=2, release=False, modes=[("plain", {})]),
        dict(prop="C05", quick_cases=1000, thorough_cases=80000, release=False),
        dict(prop="C07", quick_cases=800, thorough_cases=60000, release=False),
        dict(prop="C14", quick_cases=400, thorough_cases=40000, release=False),
        dict(prop="C16", quick_cases=400, thorough_cases=40000, release=False),
        dict(prop="C11", quick_cases=800, thorough_cases=60000, release=False),
        dict(prop="C06", quick_cases=400, thorough_cases=40000, release=False),
        dict(prop="C08", quick_cases=800, thorough_cases=60000, release=False),
        dict(prop="C10", quick_cases=600, thorough_cases=40000, release=False),
        dict(prop="C13", quick_cases=800, thorough_cases=60000, release=False),
        dict(prop="C18", quick_cases=600, thorough_cases=40000, release=False),
        dict(prop="C09", quick_cases=600, thorough_cases=40000, release=False),
        dict(prop="C12", quick_cases=1000, thorough_cases=60000, release=False),
        dict(prop="C19", quick_cases=300, thorough_cases=20000, release=False),
        dict(prop="C15", quick_cases=800, thorough_cases=60000, release=False),
    ],
    fails=fails,
    rule="union of the component generators (see the evidence of each component property) and the walker inputs (2 demo DLLs, 11 tiny files, 217 corkami files; 0..6 field-level corruptions; truncations; file and mapped), every buffer placed in an mmap region between two PROT_NONE pages: flush against the end guard (exactly when (place+len) mod 16 = 0, else within 15 bytes as the requested alignment class place in {0,4,8,12} demands) and, in a second pass, directly after the start guard. A case fails when the worker dies by a signal (SIGSEGV/SIGBUS on a guard page, SIGABRT from a std UB check) or a returned borrow lies outside the buffer or is misaligned. Non-trivial: as defined by each component.",
    trusted_base=["guard pages by mmap/mprotect; std debug-build UB checks; placement assertions in the harness"],
    assumptions=["x86_64, 64-bit usize", "the buffer does not wrap around the address space (addr + len < 2^64)"],
)
