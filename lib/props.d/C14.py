"""check configuration for C14 (see lib/vcheck.py)"""
CONFIG = dict(
    claim="Machine-checked proof (Coq 8.16.1) over an executable Gallina model of base_relocs.rs: for every directory the block iterator terminates, never faults and yields the partition the property describes (C14_blocks_partition, C14_chain_meaning); the internal fold equals the flattened non-padding entries of those blocks (C14_fold_is_flat); build followed by parse returns exactly the input pairs in page-aligned blocks of size multiple of four for every rva list and types 1..15 (C14_build_roundtrip). The model is tied to /repo on every run by a differential correspondence check (extracted OCaml model vs the real library on generated directories and rva lists) and by evaluating the extracted boolean form of the theorem statements on the implementation's own observations.",
    note="Trusted: Coq kernel; extraction (ExtrOcamlBasic only) and the OCaml/Rust glue; the hand-written model is tied to the code only by the correspondence check (differential testing, bounded by its generator). Theorems carry machine-range hypotheses (slice length < 2^64-3; build: 2*len+11 < 2^32). try_from (directory extraction from an image) is covered by the slicing theorems of C04/C05.",
    bin="c14", driver="c14_driver", extract=["C14"],
    quick_cases=4000, thorough_cases=400000, case_seconds=3,
    correspondence="Model/Relocs.v {blocks, fold_pairs, build} and Model/Checked.v {reloc_parse_chk, fold_pairs_chk} vs pelite::base_relocs::{BaseRelocs::parse/iter_blocks/for_each/fold, build}",
    rule="60% relocation directories (structured blocks with SizeOfBlock drawn from {0,1,7,9,true,true+-1,true+2,true+4k,2^31,2^32-4..2^32-1,random}, "
         "10% of them pure noise, optional truncation/trailing bytes, buffer placed at 0/4/8/12 mod 16, one in six at 1/2/3/5/6/7/10/14/15 mod 16 where BaseRelocs::parse must answer Misaligned as the checked twin reloc_parse_chk of Model/Checked.v predicts), 40% build() inputs (ascending rvas stepping to page "
         "starts, to offset 0xFFF, near 2^32, duplicates, occasionally unsorted; types 1..15). A case is non-trivial when the directory has at least one "
         "block / the rva list is non-empty; distinct = distinct case text.",
    trusted_base=["Spec/RelocSpec.v as the reading of the property text"],
    assumptions=["slice lengths are below 2^64-3 (Rust: at most isize::MAX)", "build(): 2*len(rvas)+11 < 2^32, equal-length inputs (documented assert)"],
)
