"""check configuration for C04 (see lib/vcheck.py)"""
CONFIG = dict(
    claim="Machine-checked proof over an executable model of the address-translation core of pe.rs: for every section table (any number of sections, any u32 field values including wrapping VirtualAddress+size and raw ranges) and every RVA / file offset / (min_size, align) request, the first-match section walk with its wrapping and checked arithmetic equals the loop-free PE mapping rule of Spec/MappingSpec.v (C04_rva_to_file_offset, C04_file_offset_to_rva, C04_slice_file), a successful slice starts at PRD+(rva-VA) of the first containing section and ends where its raw data ends inside the buffer (C04_slice_file_ok), a request for more never succeeds, and offset->rva inverts rva->offset on stored, mapped, unaliased bytes (aliased bytes are excluded by hypothesis: no function can invert two RVAs that map to one offset, which C04_inverse_impossible_when_aliased records as the trivial fact it is). Tied to /repo by the correspondence check on generated section tables with boundary-enumerated queries, and by evaluating the spec on the implementation's results.",
    note="Trusted: Coq kernel, extraction and glue, the generator's own header writer (the model takes the decoded section table from the generator, so pelite's header decoding is exercised too). The model is hand-written; the correspondence is differential testing bounded by its generator.",
    bin="views", driver="views_driver", model_ml="views_model", driver_includes=["image.ml"], driver_args=["C04"], extract=["Views"], shrink_fields=["q"],
    quick_cases=3000, thorough_cases=150000, case_seconds=5,
    correspondence="Model/Mapping.v {rva_to_file_offset, file_offset_to_rva, range_file, slice_file, get_section_bytes} vs pelite::pe32/pe64::Pe methods on PeFile",
    rule="PE32 and PE32+ images written by the harness's own header writer: 0..12 sections drawn from the shapes of the quantifier (aligned, unaligned raw pointer, "
         "VirtualSize <,=,> SizeOfRawData, empty raw data, overlapping virtual ranges, shared raw data, VA+size wrapping or ending at 2^32, raw data partly/wholly "
         "outside the file or wrapping, sections inside the header range, unsorted), SizeOfHeaders in {0, len, header end, random, 0x400}; 40 queries per image at "
         "section edges (VA, VA+VS, VA+SRD, VA+max, PRD, PRD+SRD, SizeOfHeaders, SizeOfImage, len, 2^32-1) + {-8..8}, min_size in {0,1,2,4,8,len,2^32,2^63,2^64-1,random}, "
         "align in {1,2,4,8}; buffer placed at 0/4/8/12 mod 16. Non-trivial: at least one query of this property's kinds was evaluated; distinct = distinct case text.",
    trusted_base=["Spec/MappingSpec.v as the reading of the property text (first containing section, stored / tail / outside)"],
    assumptions=["section header fields and RVAs are u32, file offsets are usize (64-bit)"],
)
