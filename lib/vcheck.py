#!/usr/bin/env python3
"""Orchestration of one property check (see DESIGN.md section 3).

  proofs      : regenerate gen/*.v, make the .vo closure of Properties/<P>.v, capture
                Print Assumptions, compare the statement hash, grep for forbidden tokens
  correspondence: build the extracted model driver and the Rust harness against /repo's
                working tree, run generated cases (corpus first) through both, compare
  oracle      : the extracted boolean reflection of the theorem statements, evaluated on
                the implementation's observations
"""
import fcntl, glob, hashlib, json, os, re, subprocess, sys, time

VERIF = os.path.dirname(os.path.dirname(os.path.abspath(__file__)))
REPO = os.environ.get("PELITE_REPO", "/repo")
CACHE = os.path.join(VERIF, ".cache")
COQ = os.path.join(VERIF, "coq")
OCAML = os.path.join(VERIF, "ocaml")
HARNESS = os.path.join(VERIF, "harness")
TARGET = os.path.join(CACHE, "target")
NPROC = 16
MAX_DEATHS_PER_SHARD = 6   # a tree that kills the worker this often is broken; do not spend the budget on it

sys.path.insert(0, os.path.join(VERIF, "lib"))
from props import PROPS  # noqa: E402

FORBIDDEN = re.compile(r"\b(Admitted|admit|Axiom|Axioms|Parameter|Parameters|Conjecture|Conjectures|Hypothesis|Hypotheses|Variable|Variables)\b|Unset Guard|bypass_check|type-in-type|impredicative-set|Admit Obligations|Unset Positivity|Unset Universe|\b(Abort|Undo|Restart)\b|\bProof\b(?!\s*\.)(?!\s+(?:using|with)\b)|^\s*(?:Goal|Save)\b")
AXIOM_ALLOW = []  # names of standard-library axioms a theorem may depend on; target: none


def sh(cmd, cwd=None, timeout=None, env=None, quiet=True):
    e = dict(os.environ)
    e.update({"CARGO_NET_OFFLINE": "true"})
    if env:
        e.update(env)
    p = subprocess.run(cmd, cwd=cwd, shell=isinstance(cmd, str), stdout=subprocess.PIPE, stderr=subprocess.STDOUT,
                       timeout=timeout, env=e, text=True, errors="replace")
    return p.returncode, p.stdout


class Lock:
    def __init__(self, name):
        os.makedirs(CACHE, exist_ok=True)
        self.path = os.path.join(CACHE, name + ".lock")

    def __enter__(self):
        self.f = open(self.path, "w")
        fcntl.flock(self.f, fcntl.LOCK_EX)
        return self

    def __exit__(self, *a):
        fcntl.flock(self.f, fcntl.LOCK_UN)
        self.f.close()



# ----------------------------------------------------------------------------- change-directed escalation
# sources.lock (tools/lock_sources.sh) records the sha256 of every file under /repo/src and /repo/Cargo.toml at the
# commit against which the hand-written model was last validated.  The tie between model and code is the correspondence
# check; when the code has changed since then the tie is in doubt for exactly the files that changed, and the quick tier
# spends more of its budget there: a property anchored in a changed file runs `escalate` times its quick case count,
# every other property twice.  On the tree the lock was taken from nothing changes.  This never decides anything by
# itself - it only enlarges the search.

def _anchor_files(pid):
    try:
        for line in open(os.path.join(VERIF, "properties.jsonl")):
            d = json.loads(line)
            if d.get("id") == pid:
                return list(d.get("anchors", {}).get("files", []))
    except Exception:
        pass
    return []


def changed_sources():
    lock = os.path.join(VERIF, "sources.lock")
    if not os.path.exists(lock):
        return []
    want = {}
    for line in open(lock):
        parts = line.split()
        if len(parts) == 2:
            want[parts[1]] = parts[0]
    have = {}
    for root, dirs, files in os.walk(os.path.join(REPO, "src")):
        for fn in files:
            if fn.endswith(".rs"):
                full = os.path.join(root, fn)
                have[os.path.relpath(full, REPO)] = hashlib.sha256(open(full, "rb").read()).hexdigest()
    for extra in ("Cargo.toml", "src/proc-macros/Cargo.toml"):
        full = os.path.join(REPO, extra)
        if os.path.exists(full):
            have[extra] = hashlib.sha256(open(full, "rb").read()).hexdigest()
    return sorted(f for f in set(want) | set(have) if want.get(f) != have.get(f))


def case_scale(pid, cfg, tier):
    """(factor for the quick case count, changed files, changed files this property is anchored in)"""
    if os.environ.get("VERIF_NO_ESCALATE"):
        return 1, [], []
    ch = changed_sources()
    if not ch or tier != "quick":
        return 1, ch, []
    rel = set(_anchor_files(pid)) | set(cfg.get("sources", []))
    # pe32/* and pe64/* are one set of source files compiled twice (#[path]); a change to either side counts
    hit = [f for f in ch if f in rel or f.replace("src/pe32/", "src/pe64/") in rel]
    return (cfg.get("escalate", 8) if hit else 2), ch, hit

# ----------------------------------------------------------------------------- proofs

def strip_comments(text):
    out, depth, i = [], 0, 0
    while i < len(text):
        if text.startswith("(*", i):
            depth += 1
            i += 2
        elif text.startswith("*)", i) and depth > 0:
            depth -= 1
            i += 2
        else:
            if depth == 0:
                out.append(text[i])
            i += 1
    return "".join(out)


def forbidden_scan():
    hits = []
    for path in sorted(glob.glob(os.path.join(COQ, "*", "*.v"))):
        body = strip_comments(open(path).read())
        in_section = 0
        for ln, line in enumerate(body.split("\n"), 1):
            if re.match(r"\s*Section\b", line):
                in_section += 1
            if re.match(r"\s*End\b", line) and in_section > 0:
                in_section -= 1
            for m in FORBIDDEN.finditer(line):
                tok = m.group(0)
                if tok in ("Variable", "Variables", "Hypothesis", "Hypotheses") and in_section > 0:
                    continue  # section variables are discharged, not axioms
                hits.append("%s:%d: %s" % (os.path.relpath(path, VERIF), ln, tok))
    return hits


GEN_OUTPUTS = {"gen_layout.py": "gen/Layout.vo", "gen_layout_extra.py": "gen/LayoutExtra.vo", "gen_consts.py": "gen/Consts.vo",
               "gen_leaf.py": "gen/Leaf.vo", "gen_strtab.py": "Model/WrapStrTab.vo"}
REGENERATED = {"Model/WrapStrTab.v"}   # mirrors of source tables written by tools/gen_*.py outside coq/gen: rebuilt on every run, not pinned


def run_generators(log):
    """Runs every tools/gen_*.py against the current source.  Returns the .vo targets of the generators that failed: a
    failure concerns exactly the properties whose dependency closure holds that file (a stale generated file must
    not pass for them); the others are untouched by it."""
    failed = []
    for tool in sorted(glob.glob(os.path.join(VERIF, "tools", "gen_*.py"))):
        try:
            rc, out = sh([sys.executable, tool, REPO, os.path.join(COQ, "gen")], timeout=300)
        except subprocess.TimeoutExpired:
            rc, out = 124, "timed out"
        if rc != 0:
            failed.append(GEN_OUTPUTS.get(os.path.basename(tool), os.path.basename(tool)))
            log.append("generator %s failed:\n%s" % (os.path.basename(tool), out[-2000:]))
    return failed


def full_closure(pid, extra=()):
    """all .vo files in the dependency closure of Properties/<pid>.vo (and of the extra targets)"""
    dep = os.path.join(COQ, ".Makefile.d")
    if not os.path.exists(dep):
        return None
    deps = {}
    for line in open(dep):
        if ":" not in line:
            continue
        lhs, rhs = line.split(":", 1)
        tgt = [t for t in lhs.split() if t.endswith(".vo")]
        if tgt:
            deps[tgt[0]] = [d for d in rhs.split() if d.endswith(".vo")]
    seen, todo = set(), ["Properties/%s.vo" % pid] + list(extra)
    while todo:
        t = todo.pop()
        if t in seen:
            continue
        seen.add(t)
        todo.extend(deps.get(t, []))
    return seen


def spec_closure(pid):
    """Spec/*.v files in the dependency closure of Properties/<pid>.v (from the Makefile's dependency file)"""
    dep = os.path.join(COQ, ".Makefile.d")
    if not os.path.exists(dep):
        return []
    deps = {}
    for line in open(dep):
        if ":" not in line:
            continue
        lhs, rhs = line.split(":", 1)
        tgt = [t for t in lhs.split() if t.endswith(".vo")]
        if tgt:
            deps[tgt[0]] = [d for d in rhs.split() if d.endswith(".vo")]
    seen, todo = set(), ["Properties/%s.vo" % pid]
    while todo:
        t = todo.pop()
        if t in seen:
            continue
        seen.add(t)
        todo.extend(deps.get(t, []))
    return sorted(t[:-1] for t in seen if t.startswith("Spec/"))


def stmt_closure(pid):
    """Model/*.v and Proofs/*.v files in the dependency closure of Properties/<pid>.v (pinned by statement hash)"""
    dep = os.path.join(COQ, ".Makefile.d")
    if not os.path.exists(dep):
        return []
    deps = {}
    for line in open(dep):
        if ":" not in line:
            continue
        lhs, rhs = line.split(":", 1)
        tgt = [t for t in lhs.split() if t.endswith(".vo")]
        if tgt:
            deps[tgt[0]] = [d for d in rhs.split() if d.endswith(".vo")]
    seen, todo = set(), ["Properties/%s.vo" % pid]
    while todo:
        t = todo.pop()
        if t in seen:
            continue
        seen.add(t)
        todo.extend(deps.get(t, []))
    return sorted(t[:-1] for t in seen if t.startswith("Model/") or t.startswith("Proofs/"))


def build_proofs(pid, cfg, log, tier="quick"):
    """returns dict(proof_ok, obligations, discharged, assumptions, problems)"""
    res = dict(proof_ok=False, obligations=0, discharged=0, assumptions={}, problems=[])
    with Lock("coq"):
        gen_failed = run_generators(log)
        sh([os.path.join(VERIF, "tools", "mkcoqproject.sh")], timeout=120)
        targets = ["Properties/%s.vo" % pid] + ["Extract/%s.vo" % e for e in cfg.get("extract", [pid])]
        if gen_failed:
            clo = full_closure(pid, targets[1:])
            mine = [g for g in gen_failed if clo is None or g in clo or not g.endswith(".vo")]
            if mine:
                res["problems"].append("regeneration from the source failed for %s, which this property's theorems or extracted model depend on" % ", ".join(mine))
        t0 = time.time()
        rc, out = sh(["timeout", "3000", "make", "-j%d" % NPROC] + targets, cwd=COQ, timeout=3100)
        log.append("make %s: rc=%d in %.1fs" % (" ".join(targets), rc, time.time() - t0))
        if rc != 0:
            res["problems"].append("coq build failed: " + out[-1500:])
            # try to build at least the extraction so that the search for a failing input can run
            sh(["timeout", "3000", "make", "-j%d" % NPROC, "-k"] + targets[1:], cwd=COQ, timeout=3100)
        # Re-run coqc on the statement file to capture Print Assumptions
        pfile = os.path.join(COQ, "Properties", pid + ".v")
        text = strip_comments(open(pfile).read())
        theorems = re.findall(r"^\s*(?:Theorem|Lemma|Corollary)\s+(\w+)", text, re.M)
        res["obligations"] = len(theorems)
        res["theorems"] = theorems
        bad_proofs = [m for m in re.findall(r"Proof\.(.*?)Qed\.", text, re.S)
                      if not re.fullmatch(r"\s*(exact\s+[\w.@]+\s*\.|vm_compute\.\s*reflexivity\.|vm_compute\.\s*repeat split;\s*reflexivity\.)\s*", m)]
        if bad_proofs:
            res["problems"].append("Properties/%s.v contains a proof that is not `exact <lemma>`" % pid)
        if rc == 0:
            tmp = os.path.join(CACHE, "tmp")
            os.makedirs(tmp, exist_ok=True)
            rc2, out2 = sh(["timeout", "900", "coqc", "-Q", ".", "PV", "-w", "-deprecated-since-8.16",
                            "Properties/%s.v" % pid, "-o", os.path.join(tmp, pid + ".vo")], cwd=COQ, timeout=1000)
            if rc2 != 0:
                res["problems"].append("coqc Properties/%s.v failed: %s" % (pid, out2[-1500:]))
            else:
                # split output per Print Assumptions
                chunks = re.split(r"(?=Closed under the global context|Axioms:)", out2)
                chunks = [c for c in chunks if c.startswith("Closed") or c.startswith("Axioms:")]
                n_print = len(re.findall(r"Print Assumptions", text))
                if n_print < len(theorems):
                    res["problems"].append("a theorem without Print Assumptions in Properties/%s.v" % pid)
                disc = 0
                for name, c in zip(theorems, chunks):
                    if c.startswith("Closed"):
                        res["assumptions"][name] = "Closed under the global context"
                        disc += 1
                    else:
                        ax = re.findall(r"^(\S+)\s*:", c[len("Axioms:"):], re.M)
                        res["assumptions"][name] = "Axioms: " + ", ".join(ax)
                        if all(a in AXIOM_ALLOW for a in ax):
                            disc += 1
                        else:
                            res["problems"].append("theorem %s depends on axioms outside the allow-list: %s" % (name, ax))
                res["discharged"] = disc
    # thorough tier: re-check the compiled closure with the independent checker and read the axioms it reports
    if tier == "thorough" and not res["problems"]:
        with Lock("coq"):
            t0 = time.time()
            rc3, out3 = sh(["timeout", "3000", "coqchk", "-o", "-silent", "-Q", ".", "PV", "PV.Properties.%s" % pid], cwd=COQ, timeout=3100)
        log.append("coqchk PV.Properties.%s: rc=%d in %.1fs" % (pid, rc3, time.time() - t0))
        ax = re.search(r"\* Axioms:(.*?)\n\s*\n\* Constants/Inductives relying on type-in-type:(.*?)\n\s*\n\* Constants/Inductives relying on unsafe \(co\)fixpoints:(.*?)\n\s*\n\* Inductives whose positivity is assumed:(.*?)\n", out3 + "\n", re.S)
        res["coqchk"] = "not parsed"
        if rc3 != 0 or not ax:
            res["problems"].append("coqchk failed on PV.Properties.%s: %s" % (pid, out3[-800:]))
        else:
            fields = [x.strip() for x in ax.groups()]
            res["coqchk"] = "axioms: %s; type-in-type: %s; unsafe fixpoints: %s; assumed positivity: %s" % tuple(fields)
            if any(f != "<none>" and not all(a in AXIOM_ALLOW for a in f.split()) for f in fields):
                res["problems"].append("coqchk reports assumptions outside the allow-list: " + res["coqchk"])
    # statement pin
    lock = os.path.join(VERIF, "statements.lock")
    want = {}
    if os.path.exists(lock):
        for line in open(lock):
            parts = line.split()
            if len(parts) == 2:
                want[parts[1]] = parts[0]
    for key in ["Properties/%s.v" % pid] + spec_closure(pid):
        got = hashlib.sha256(open(os.path.join(COQ, key), "rb").read()).hexdigest()
        if want.get(key) != got:
            res["problems"].append("statement hash of %s differs from statements.lock (the meaning of the pinned statements lives in the Spec files they mention)" % key)
    # definitions that pinned statements mention also live in Model/ and Proofs/ files: those are pinned by their
    # statement hash (text without comments and proof scripts, tools/stmt_hash.py)
    sys.path.insert(0, os.path.join(VERIF, "tools"))
    from stmt_hash import stmt_hash
    for key in stmt_closure(pid):
        full = os.path.join(COQ, key)
        if key in REGENERATED:
            continue
        if os.path.exists(full) and want.get("stmt:" + key) != stmt_hash(full):
            res["problems"].append("statement hash of %s (definitions and lemma statements, proofs left out) differs from statements.lock" % key)
    hits = forbidden_scan()
    if hits:
        res["problems"].append("forbidden tokens: " + "; ".join(hits[:10]))
    res["proof_ok"] = (not res["problems"]) and res["obligations"] > 0 and res["discharged"] == res["obligations"]
    return res


# ----------------------------------------------------------------------------- builds

def build_driver(pid, cfg, log):
    name = cfg["driver"]
    model = cfg.get("model_ml", pid.lower() + "_model")
    gen = os.path.join(OCAML, "gen")
    os.makedirs(os.path.join(OCAML, "bin"), exist_ok=True)
    exe = os.path.join(OCAML, "bin", name)
    srcs = [os.path.join(gen, model + ".ml"), os.path.join(OCAML, "conv.ml")] + \
           [os.path.join(OCAML, i) for i in cfg.get("driver_includes", [])] + [os.path.join(OCAML, name + ".ml")]
    with Lock("ocaml-" + name):
        if not all(os.path.exists(s) for s in srcs):
            log.append("driver sources missing: %s" % [s for s in srcs if not os.path.exists(s)])
            return None
        if os.path.exists(exe) and all(os.path.getmtime(exe) >= os.path.getmtime(s) for s in srcs):
            return exe
        main = os.path.join(gen, name + "_main.ml")
        with open(main, "w") as f:
            f.write("open %s\n" % (model[0].upper() + model[1:]))
            for src in srcs[1:]:
                f.write(open(src).read())
        rc, out = sh(["ocamlfind", "ocamlopt", "-O2" if False else "-inline", "50", "-w", "-a", "-package", ",".join(["zarith"] + cfg.get("ocaml_packages", [])), "-linkpkg",
                      model + ".mli", model + ".ml", name + "_main.ml", "-o", exe], cwd=gen, timeout=900)
        if rc != 0:
            log.append("ocaml build failed:\n" + out[-3000:])
            return None
    return exe


def build_harness(cfg, log, release=False):
    binname = cfg["bin"]
    with Lock("cargo"):
        lockf = os.path.join(HARNESS, "Cargo.lock")
        if not os.path.exists(lockf):
            rc, out = sh(["cp", os.path.join(REPO, "Cargo.lock"), lockf])
        cmd = ["cargo", "build", "--offline", "--bin", binname] + (["--release"] if release else [])
        t0 = time.time()
        rc, out = sh(cmd, cwd=HARNESS, timeout=1800)
        log.append("cargo build %s%s: rc=%d in %.1fs" % (binname, " --release" if release else "", rc, time.time() - t0))
        if rc != 0:
            log.append(out[-3000:])
            return None
    return os.path.join(TARGET, "release" if release else "debug", binname)


# ----------------------------------------------------------------------------- running cases

SIGNAMES = {-6: "SIGABRT", -11: "SIGSEGV", -14: "SIGALRM", -27: "SIGPROF", -4: "SIGILL", -7: "SIGBUS", -9: "SIGKILL", -8: "SIGFPE", -5: "SIGTRAP"}


def run_isolated(argv_for, first, count, budget, log_prefix="", extra_env=None):
    """Runs `argv_for(start, count)` processes until all cases first..first+count-1 have an OBS.
    A process that dies is restarted after the case in flight, which gets an `!abort`/`!hang` observation."""
    lines = []
    start = first
    end = first + count
    env = {"PVH_CASE_SECONDS": str(budget)}
    env.update(extra_env or {})
    deaths = 0
    while start < end:
        if deaths >= MAX_DEATHS_PER_SHARD:
            lines.append("NOTE shard abandoned after %d process deaths; cases %d..%d not run" % (deaths, start, end - 1))
            break
        rc, out = sh(argv_for(start, end - start), env=env, timeout=None)
        got = out.split("\n")
        pending = None
        for ln in got:
            if ln.startswith("CASE "):
                pending = ln
                lines.append(ln)
            elif ln.startswith("OBS "):
                pending = None
                lines.append(ln)
        if rc == 0:
            break
        if pending is None:
            # died between cases (should not happen): give up on this shard
            lines.append("NOTE shard died between cases rc=%d" % rc)
            break
        cid = pending.split(" ")[1]
        kindsig = SIGNAMES.get(rc, "rc=%d" % rc)
        verdict = "!abort:" + kindsig
        deaths += 1
        if rc in (-14, -27) and deaths > 2:
            verdict = "!hang"
        elif rc in (-14, -27):
            # re-run alone with a 10x budget before calling it a hang
            rc2, out2 = sh(argv_for(int(cid), 1), env=dict(extra_env or {}, PVH_CASE_SECONDS=str(budget * 10)), timeout=None)
            obs2 = [l for l in out2.split("\n") if l.startswith("OBS ")]
            if rc2 == 0 and obs2:
                lines.append(obs2[0])
                start = int(cid) + 1
                continue
            verdict = "!hang"
        else:
            tail = [l for l in got if l and not l.startswith("CASE ") and not l.startswith("OBS ")]
            if tail:
                verdict += " " + tail[-1][:200].replace("\n", " ")
        lines.append("OBS %s %s" % (cid, verdict))
        start = int(cid) + 1
    return lines


def run_replay_file(exe, path, budget, extra_env=None):
    """replay mode restarts after the case in flight by skipping processed cases"""
    lines = []
    skip = 0
    total = sum(1 for l in open(path) if l.startswith("CASE "))
    env = {"PVH_CASE_SECONDS": str(budget)}
    env.update(extra_env or {})
    while skip < total:
        rc, out = sh([exe, "replay", path, str(skip)], env=env)
        got = out.split("\n")
        pending = None
        done = 0
        for ln in got:
            if ln.startswith("CASE "):
                pending = ln
                lines.append(ln)
            elif ln.startswith("OBS "):
                pending = None
                done += 1
                lines.append(ln)
        if rc == 0 or pending is None:
            break
        cid = pending.split(" ")[1]
        verdict = "!hang" if rc in (-14, -27) else "!abort:" + SIGNAMES.get(rc, "rc=%d" % rc)
        if rc not in (-14, -27):
            tail = [l for l in got if l and not l.startswith("CASE ") and not l.startswith("OBS ")]
            if tail:
                verdict += " " + tail[-1][:200].replace("\n", " ")
        lines.append("OBS %s %s" % (cid, verdict))
        skip += done + 1
    return lines


def run_driver(driver, lines):
    if isinstance(driver, str):
        driver = [driver]
    # the extracted code recurses on unary naturals (N.to_nat of a buffer length): give it the stack
    cmd = ["bash", "-c", "ulimit -s unlimited 2>/dev/null || ulimit -s 1000000; exec \"$@\"", "drv"] + list(driver)
    p = subprocess.run(cmd, input="\n".join(lines) + "\n", stdout=subprocess.PIPE, stderr=subprocess.STDOUT, text=True)
    return p.returncode, p.stdout.split("\n")


# ----------------------------------------------------------------------------- findings

def load_findings(pid):
    known, fixed = {}, []
    path = os.path.join(VERIF, "KNOWN_FINDINGS.txt")
    if os.path.exists(path):
        for line in open(path):
            line = line.strip()
            m = re.match(r"finding:\s+property=(\S+)\s+class=(\S+)\s+(.*)", line)
            if m and m.group(1) == pid:
                known[m.group(2)] = m.group(3)
            m = re.match(r"fixed:\s+property=(\S+)\s+(\S+)\s+(.*)", line)
            if m and m.group(1) == pid:
                fixed.append((m.group(2), m.group(3)))
    return known, fixed


# ----------------------------------------------------------------------------- main check

def analyse(lines, reslines):
    cases, obs, res, model = {}, {}, {}, {}
    for ln in lines:
        if ln.startswith("CASE "):
            p = ln.split(" ", 2)
            cases[p[1]] = p[2] if len(p) > 2 else ""
        elif ln.startswith("OBS "):
            p = ln.split(" ", 2)
            obs[p[1]] = p[2] if len(p) > 2 else ""
    for ln in reslines:
        if ln.startswith("RES "):
            p = ln.split(" ")
            d = {}
            for t in p[2:]:
                if "=" in t:
                    k, v = t.split("=", 1)
                    d[k] = v
            res[p[1]] = d
        elif ln.startswith("MODEL "):
            p = ln.split(" ", 2)
            model[p[1]] = p[2] if len(p) > 2 else ""
    return cases, obs, res, model


def shrink_case(pid, cfg, exe, driver, case, budget, still_fails):
    """Generic delta debugging over the fields of a case line: hex strings by bytes,
    comma lists by elements (lists of equal length are shrunk together)."""
    toks = case.split(" ")
    kind, fields = toks[0], [t.split("=", 1) for t in toks[1:]]

    def render(fs):
        return kind + " " + " ".join("%s=%s" % (k, v) for k, v in fs)

    def parts(v):
        if v == "-" or v == "":
            return ("empty", [])
        if "," in v:
            return ("list", v.split(","))
        if re.fullmatch(r"(?:[0-9a-f]{2})+", v) and len(v) >= 8:
            return ("hex", [v[i:i + 2] for i in range(0, len(v), 2)])
        return ("atom", [v])

    def unparts(kindp, ps):
        if not ps:
            return "-"
        return ",".join(ps) if kindp == "list" else "".join(ps)

    tries = 0
    changed = True
    while changed and tries < 400:
        changed = False
        for idx, (k, v) in enumerate(fields):
            kp, ps = parts(v)
            if kp not in ("list", "hex") or len(ps) <= 1:
                continue
            if cfg.get("shrink_fields") is not None and k not in cfg["shrink_fields"]:
                continue
            # fields of the same list length shrink together
            group = [idx]
            if kp == "list":
                for j, (k2, v2) in enumerate(fields):
                    if j != idx and parts(v2)[0] == "list" and len(parts(v2)[1]) == len(ps):
                        group.append(j)
            chunk = max(1, len(ps) // 2)
            while chunk >= 1 and tries < 400:
                pos = 0
                progress = False
                while pos < len(parts(fields[idx][1])[1]) and tries < 400:
                    cand = [list(f) for f in fields]
                    for j in group:
                        kj, pj = parts(fields[j][1])
                        cand[j][1] = unparts(kj, pj[:pos] + pj[pos + chunk:])
                    tries += 1
                    if still_fails(render(cand)):
                        fields = cand
                        changed = progress = True
                    else:
                        pos += chunk
                if chunk == 1:
                    break
                chunk = chunk // 2 if not progress else chunk
                if not progress and chunk < 1:
                    break
    return render(fields)


def check(pid, tier="quick", seed=0, replay=None):
    if replay and not any(l.startswith("CASE ") for l in open(replay)):
        # replay of a broken proof obligation / build / infrastructure report: there is no input to re-run, the
        # reproduction is the check itself
        mts = re.search(r"^# tier=(\w+) seed=(\d+)", open(replay).read(), re.M)
        if mts:
            tier, seed = mts.group(1), int(mts.group(2))
        print("replay file %s names no input (a proof, build or infrastructure report): re-running the %s check at seed %s" % (replay, tier, seed))
        replay = None
    t0 = time.time()
    cfg = PROPS[pid]
    if cfg.get("components"):
        from vmeta import check_meta
        return check_meta(pid, tier, seed, replay)
    log = []
    os.makedirs(os.path.join(VERIF, "evidence"), exist_ok=True)
    os.makedirs(os.path.join(VERIF, "replays"), exist_ok=True)
    budget = cfg.get("case_seconds", 5)

    proof = build_proofs(pid, cfg, log, tier)
    driver = build_driver(pid, cfg, log)
    if driver:
        driver = [driver] + cfg.get("driver_args", [])
    exe = build_harness(cfg, log)
    exe_rel = build_harness(cfg, log, release=True) if (tier == "thorough" and cfg.get("release", True)) else None

    violations = []   # (text, replay_path)
    known_lines = []
    stats = {}
    known, fixed = load_findings(pid)

    def fail_kind(exe_, case_text):
        """None if the oracle holds on this case; otherwise the kind of failure
        ('value' or the '!xxx' token of the implementation's observation)"""
        tmp = os.path.join(CACHE, "tmp", "%s-shrink-%d.case" % (pid, os.getpid()))
        os.makedirs(os.path.dirname(tmp), exist_ok=True)
        open(tmp, "w").write("CASE 0 %s\n" % case_text)
        ls = run_replay_file(exe_, tmp, budget)
        rc, rl = run_driver(driver, ls)
        _, ob, res, _ = analyse(ls, rl)
        r = res.get("0")
        if not (bool(r) and r.get("oracle") == "0" and r.get("class") is None and "outside-precondition" not in r.get("tags", "")):
            return None
        o = ob.get("0", "")
        return o.split(" ")[0].split(":")[0] if o.startswith("!") else "value"

    if replay:
        ls = run_replay_file(exe, replay, budget)
        rc, rl = run_driver(driver, ls)
        print("\n".join(ls))
        print("\n".join(rl))
        cases, obs, res, model = analyse(ls, rl)
        # a replay fails on an oracle failure outside the known classes, on a disagreement between model and
        # implementation (the replay file of a broken correspondence must reproduce) and on a case without a verdict
        bad = [c for c, r in res.items() if (r.get("oracle") == "0" and r.get("class") not in known) or r.get("agree") == "0"]
        bad += [c for c in cases if c not in res]
        if bad:
            print("VIOLATION property=%s replay=%s" % (pid, replay))
            return 1
        return 0

    all_lines, all_res = [], []
    streams = []
    infra = []
    scale, src_changed, src_hit = case_scale(pid, cfg, tier)
    if src_changed:
        log.append("source files changed since sources.lock: %s; quick case count x%d" % (", ".join(src_changed[:8]), scale))
    if tier == "thorough" and cfg.get("release", True) and exe and not exe_rel:
        infra.append("the release build of the harness failed")
    if exe and driver:
        # 1. corpus (minimised earlier failures and known-finding witnesses), always first
        for path in sorted(glob.glob(os.path.join(VERIF, "corpus", pid, "*.case"))):
            ls = run_replay_file(exe, path, budget)
            tag = "corpus:" + os.path.basename(path)
            ls = [re.sub(r"^(CASE|OBS) (\S+)", lambda m: "%s %s/%s" % (m.group(1), tag, m.group(2)), l) for l in ls]
            streams.append((tag, exe, ls))
        # 2. generated cases, sharded
        n = (cfg["quick_cases"] * scale) if tier == "quick" else cfg["thorough_cases"]
        for which, e in (("debug", exe), ("release", exe_rel)):
            if not e:
                continue
            per = (n + NPROC - 1) // NPROC
            from concurrent.futures import ThreadPoolExecutor
            with ThreadPoolExecutor(NPROC) as ex:
                futs = [ex.submit(run_isolated, (lambda s, c, e=e: [e, "gen", str(seed), str(s), str(c)]), k * per, per, budget)
                        for k in range(NPROC)]
                for k, f in enumerate(futs):
                    ls = f.result()
                    if which == "release":
                        ls = [re.sub(r"^(CASE|OBS) (\S+)", lambda m: "%s rel/%s" % (m.group(1), m.group(2)), l) for l in ls]
                    streams.append((which, e, ls))
        for tag, e, ls in streams:
            all_lines.extend(ls)
        # every requested case must have been generated: a harness that dies before its first case, or a shard that
        # is abandoned, must not shrink the run silently
        generated = sum(1 for tag, e, ls in streams if not tag.startswith("corpus:") for l in ls if l.startswith("CASE "))
        expected = sum((n + NPROC - 1) // NPROC * NPROC
                       for which, e in (("debug", exe), ("release", exe_rel)) if e)
        notes = [l for tag, e, ls in streams for l in ls if l.startswith("NOTE ")]
        if generated < expected:
            infra.append("the harness ran %d of the %d requested cases (%s)" % (generated, expected, "; ".join(notes[:3]) or "no note"))
        # driver in parallel chunks
        from concurrent.futures import ThreadPoolExecutor
        with ThreadPoolExecutor(NPROC) as ex:
            futs = [ex.submit(run_driver, driver, ls) for tag, e, ls in streams]
            for f in futs:
                rc, rl = f.result()
                all_res.extend(rl)
    cases, obs, res, model = analyse(all_lines, all_res)

    evaluations = len(res)
    disagreements = [c for c, r in res.items() if r.get("agree") == "0"]
    oracle_fail = [c for c, r in res.items() if r.get("oracle") == "0"]
    missing = [c for c in cases if c not in res]
    nontrivial = set()
    tagcount = {}
    for c, r in res.items():
        for t in r.get("tags", "").split(","):
            tagcount[t] = tagcount.get(t, 0) + 1
        if r.get("nontrivial") == "1":
            nontrivial.add(hashlib.sha1(cases.get(c, c).encode()).hexdigest())
    # a case the harness could not run (a sparse 4 GiB mapping the machine refused) checks nothing: the regression cases
    # of F38 / F39 live there, so this is an infrastructure problem and not a pass
    for t in cfg.get("required_tags", []):
        if exe and driver and not tagcount.get(t):
            infra.append("no case carried the tag %s: the oracle behind it did not run, so its half of the property was not examined" % t)
    if tagcount.get("skipped-nomem"):
        infra.append("%d case(s) were skipped because a large sparse mapping could not be created (tag skipped-nomem)" % tagcount["skipped-nomem"])
    implfaults = {}
    for c, o in obs.items():
        if o.startswith("!"):
            k = o.split(" ")[0]
            implfaults[k] = implfaults.get(k, 0) + 1

    def stable_hash(s):
        return hashlib.sha1(s.encode()).hexdigest()[:12]

    def exe_for(cid):
        return exe_rel if cid.startswith("rel/") and exe_rel else exe

    # ---- decide
    seen_known = set()
    unknown_fail = []
    for c in oracle_fail:
        cls = res[c].get("class")
        if cls and cls in known:
            if cls not in seen_known:
                seen_known.add(cls)
                known_lines.append("KNOWN-FINDING: property=%s class=%s %s (first seen on case %s)" % (pid, cls, known[cls], c))
        else:
            unknown_fail.append(c)

    def write_replay(cid, why, extra=""):
        case = cases.get(cid, "")
        try:
            if case and tier is not None and cfg.get("shrink", True):
                k0 = fail_kind(exe_for(cid), case)
                if k0:
                    case = shrink_case(pid, cfg, exe_for(cid), driver, case, budget, lambda t: fail_kind(exe_for(cid), t) == k0)
        except Exception as e:  # shrinking is best effort
            log.append("shrink failed: %r" % e)
        path = os.path.join(VERIF, "replays", "%s-%s.case" % (pid, stable_hash(case + why)))
        with open(path, "w") as f:
            f.write("# %s\n# property=%s tier=%s seed=%s original-case-id=%s\n" % (why, pid, tier, seed, cid))
            f.write("# implementation observed: %s\n" % obs.get(cid, "")[:2000])
            if cid in model:
                f.write("# model says:              %s\n" % model[cid][:2000])
            if extra:
                f.write("# %s\n" % extra.replace("\n", "\n# "))
            f.write("CASE 0 %s\n" % case)
        return path

    if unknown_fail:
        cid = sorted(unknown_fail, key=lambda c: len(cases.get(c, "")))[0]
        path = write_replay(cid, "oracle failure: the implementation's observation violates the property")
        violations.append("VIOLATION property=%s replay=%s" % (pid, path))
    elif not (exe and driver):
        path = os.path.join(VERIF, "replays", "%s-build.case" % pid)
        open(path, "w").write("# tier=%s seed=%s\n" % (tier, seed) + "# the harness or the model driver does not build against the current tree; correspondence for %s cannot be checked\n# %s\n" % (pid, "\n# ".join(log[-5:]).replace("\n", "\n# ")))
        violations.append("VIOLATION property=%s replay=%s no-failing-input-found" % (pid, path))
    elif disagreements or missing:
        cid = sorted(disagreements or missing, key=lambda c: len(cases.get(c, "")))[0]
        path = write_replay(cid, "correspondence broken: model and implementation disagree on the projected observation (%d cases); no input was found on which the property itself fails" % len(disagreements),
                            "correspondence that no longer checks: %s" % cfg.get("correspondence", pid))
        violations.append("VIOLATION property=%s replay=%s no-failing-input-found" % (pid, path))
    elif infra:
        path = os.path.join(VERIF, "replays", "%s-infra.case" % pid)
        open(path, "w").write("# tier=%s seed=%s\n" % (tier, seed) + "# the check could not run as configured; the correspondence for %s is not established on this run\n# %s\n" % (pid, "\n# ".join(infra)))
        violations.append("VIOLATION property=%s replay=%s no-failing-input-found" % (pid, path))
    elif not proof["proof_ok"]:
        path = os.path.join(VERIF, "replays", "%s-proof.case" % pid)
        with open(path, "w") as f:
            f.write("# tier=%s seed=%s\n" % (tier, seed))
            f.write("# proof obligations of %s no longer check; the search over %d cases found no failing input\n" % (pid, evaluations))
            for p in proof["problems"]:
                f.write("# " + p.replace("\n", "\n# ") + "\n")
        violations.append("VIOLATION property=%s replay=%s no-failing-input-found" % (pid, path))

    samples = []
    for c in list(cases)[:1] + [c for c in cases if res.get(c, {}).get("nontrivial") == "1"][:3]:
        samples.append({"case": cases[c][:600], "implementation": obs.get(c, "")[:600], "agree": res.get(c, {}).get("agree"), "oracle": res.get(c, {}).get("oracle")})
    for name in proof.get("theorems", [])[:3]:
        samples.append({"obligation": name, "assumptions": proof["assumptions"].get(name)})

    ev = {
        "property_id": pid,
        "tier": tier,
        "seed": int(seed),
        "level": cfg.get("level", "proof"),
        "coverage": {
            "obligations": proof["obligations"],
            "discharged": proof["discharged"],
            "checker_cmd": "make -C coq Properties/%s.vo && coqc -Q . PV Properties/%s.v  (Coq 8.16.1; Print Assumptions under every theorem)" % (pid, pid),
            "trusted_base": cfg.get("trusted_base", []) + [
                "Coq 8.16.1 kernel (vm_compute for witness lemmas; no native_compute)",
                "axioms per theorem (Print Assumptions): " + json.dumps(proof["assumptions"], sort_keys=True),
                "extraction with ExtrOcamlBasic only (no Extract Constant), OCaml 4.13.1, ocaml/conv.ml + ocaml/%s.ml glue" % cfg["driver"],
                "correspondence harness harness/src/bin/%s.rs (generator, isolation, canonical printer); x86_64, 64-bit usize" % cfg["bin"],
            ],
            "theorems": proof.get("theorems", []),
            "coqchk": proof.get("coqchk", "not run in the quick tier"),
            "open_statements": cfg.get("open_statements", []),
            "proof_problems": proof["problems"],
            "infrastructure_problems": infra,
            "evaluations": evaluations,
            "distinct_nontrivial": len(nontrivial),
            "rule": cfg.get("rule", ""),
            "samples": samples,
            "disagreements_checked": evaluations,
            "disagreements": len(disagreements),
            "oracle_failures": len(oracle_fail),
            "oracle_failures_known": len(oracle_fail) - len(unknown_fail),
            "input_distribution": tagcount,
            "implementation_faults": implfaults,
            "builds": ["debug"] + (["release"] if exe_rel else []),
            "corpus_files": len(glob.glob(os.path.join(VERIF, "corpus", pid, "*.case"))),
            "source_changed_since_lock": src_changed,
            "source_changed_in_anchors": src_hit,
            "case_count_factor": scale,
            "log": log[-12:],
        },
        "assumptions": cfg.get("assumptions", []),
        "wall_s": round(time.time() - t0, 2),
        "violations": len(violations),
    }
    with open(os.path.join(VERIF, "evidence", pid + ".json"), "w") as f:
        json.dump(ev, f, indent=1, sort_keys=True)

    for l in known_lines:
        print(l)
    print("%s %s: proofs %d/%d, cases %d (nontrivial distinct %d), disagreements %d, oracle failures %d (known %d), %.1fs" % (
        pid, tier, proof["discharged"], proof["obligations"], evaluations, len(nontrivial), len(disagreements),
        len(oracle_fail), len(oracle_fail) - len(unknown_fail), time.time() - t0))
    for p in proof["problems"]:
        print("proof problem: " + p[:500])
    for v in violations:
        print(v)
    return 1 if violations else 0


def main():
    import argparse
    ap = argparse.ArgumentParser()
    ap.add_argument("prop")
    ap.add_argument("--tier", default=os.environ.get("VERIF_TIER", "quick"))
    ap.add_argument("--replay")
    ap.add_argument("--seed", default=os.environ.get("VERIF_SEED", "0"))
    a = ap.parse_args()
    try:
        seed = int(a.seed)
    except ValueError:
        seed = int(hashlib.sha1(a.seed.encode()).hexdigest()[:8], 16)
    sys.exit(check(a.prop, a.tier if a.tier in ("quick", "thorough") else "quick", seed, a.replay))


if __name__ == "__main__":
    main()
