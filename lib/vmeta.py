#!/usr/bin/env python3
"""Checks of the cross-cutting properties (C01 memory safety, C02 totality, C03 termination).

Their theorems (coq/Properties/Cnn.v) are statements over the models of ALL modules; their tie to the code is
the union of the component correspondences, re-run under the placement / build / budget the property is about
(guard pages and alignment classes for C01, debug and release builds for C02, CPU budgets for C03), plus a
walker over the API that no component models (formatters, serializers).  A case fails the property when the
implementation's observation matches the property's failure predicate `fails(obs, case)` defined in
lib/props.d/Cnn.py (e.g. an abort by SIGSEGV on a guard page, a panic, a hang) and is not in a listed known class.
A component's *value* disagreement is that component's own property when the component IS a property's module
(`prop=`); it is recorded here as model_drift only.  A component that belongs to no property of its own (`name=` with
a real driver: util, cstrfmt) has its theorems restated in the cross-cutting Properties files, so a disagreement
with its model (agree=0) or a failure of its Spec oracle (oracle=0) breaks the correspondence those theorems rest
on: it is reported by every property that lists the component, with the input as the replay, and - when the
property's own failure predicate does not fire on that input - with the words no-failing-input-found.
"""
import glob, hashlib, json, os, re, time
from concurrent.futures import ThreadPoolExecutor
import vcheck
from vcheck import (VERIF, CACHE, NPROC, sh, build_proofs, build_driver, build_harness, run_isolated, run_replay_file,
                    run_driver, analyse, load_findings, shrink_case)
from props import PROPS


def comp_cfg(comp):
    return comp.get("cfg") or PROPS[comp["prop"]]


def comp_name(comp):
    return comp.get("name") or comp["prop"]


def build_component(comp, log, release):
    c = comp_cfg(comp)
    if c.get("driver_cmd"):
        driver = [os.path.join(VERIF, x) if x.startswith("lib/") else x for x in c["driver_cmd"]]
    else:
        d = build_driver(comp.get("prop", comp_name(comp)), c, log)
        driver = ([d] + c.get("driver_args", [])) if d else None
    exe = build_harness(c, log)
    exe_rel = build_harness(c, log, release=True) if release else None
    return driver, exe, exe_rel


def parse_env(text):
    env = {}
    for kv in text.split(","):
        if "=" in kv:
            k, v = kv.split("=", 1)
            env[k] = v
    return env


def check_meta(pid, tier, seed, replay):
    if replay and not any(l.startswith("CASE ") for l in open(replay)):
        # replay of a broken proof obligation / build / infrastructure report: there is no input to re-run, the
        # reproduction is the check itself
        mts = re.search(r"^# tier=(\w+) seed=(\d+)", open(replay).read(), re.M)
        if mts:
            tier, seed = mts.group(1), int(mts.group(2))
        print("replay file %s names no input (a proof, build or infrastructure report): re-running the %s check at seed %s" % (replay, tier, seed))
        replay = None
    t0 = time.time()
    cfg = PROPS[pid]
    log = []
    os.makedirs(os.path.join(VERIF, "evidence"), exist_ok=True)
    os.makedirs(os.path.join(VERIF, "replays"), exist_ok=True)
    fails = cfg["fails"]                       # (obs, case) -> reason token or None
    classify = cfg.get("classify", lambda case, obs: None)
    known, fixed = load_findings(pid)
    comps = cfg["components"]
    want_release = tier == "thorough" or cfg.get("release_in_quick", False)

    # the extraction targets of every component belong to this check's build: a component driver must never be
    # compiled from a stale extraction
    ext = list(cfg.get("extract", []))
    for comp in comps:
        for e in comp_cfg(comp).get("extract", [comp.get("prop")] if comp.get("prop") else []):
            if e and e not in ext:
                ext.append(e)
    proof = build_proofs(pid, dict(cfg, extract=ext), log, tier)

    built = {}
    for comp in comps:
        built[comp_name(comp)] = build_component(comp, log, want_release and comp.get("release", True))
    by_name = {comp_name(c): c for c in comps}

    def budget_of(comp):
        return comp.get("case_seconds", comp_cfg(comp).get("case_seconds", 5))

    def run_one(name, build, env, case_text):
        """observation of one case on one component"""
        comp = by_name[name]
        exe = built[name][2] if build == "release" and built[name][2] else built[name][1]
        tmp = os.path.join(CACHE, "tmp", "%s-meta-%d-%s.case" % (pid, os.getpid(), hashlib.sha1(case_text.encode()).hexdigest()[:8]))
        os.makedirs(os.path.dirname(tmp), exist_ok=True)
        open(tmp, "w").write("CASE 0 %s\n" % case_text)
        ls = run_replay_file(exe, tmp, budget_of(comp), extra_env=env)
        os.unlink(tmp)
        obs = [l.split(" ", 2)[2] if len(l.split(" ", 2)) > 2 else "" for l in ls if l.startswith("OBS ")]
        return obs[0] if obs else "!no-observation"

    if replay:
        head = open(replay).read()
        m = re.search(r"^# component=(\S+) build=(\S+) env=(\S*)", head, re.M)
        if not m:
            print("replay file lacks the '# component=.. build=.. env=..' line")
            return 2
        name, build, env = m.group(1), m.group(2), parse_env(m.group(3))
        bad = soft = 0
        for line in head.split("\n"):
            if line.startswith("CASE "):
                case_text = line.split(" ", 2)[2]
                obs = run_one(name, build, env, case_text)
                why = fails(obs, case_text)
                cls = classify(case_text, obs) if why else None
                print("CASE %s" % case_text[:300])
                print("OBS %s" % obs[:600])
                print("verdict: %s%s" % (why or "ok", " (known class %s)" % cls if cls in known else ""))
                if why and cls not in known:
                    bad += 1
                elif not why and not by_name[name].get("prop") and built[name][0] and not comp_cfg(by_name[name]).get("driver_cmd") and not obs.startswith("!"):
                    rc, rl = run_driver(built[name][0], ["CASE 0 " + case_text, "OBS 0 " + obs])
                    _, _, rres, rmodel = analyse([], rl)
                    r = rres.get("0", {})
                    print("MODEL %s" % rmodel.get("0", "")[:600])
                    print("correspondence: agree=%s oracle=%s" % (r.get("agree", "-"), r.get("oracle", "-")))
                    if r.get("agree") != "1" or r.get("oracle") == "0":
                        soft += 1
        if bad:
            print("VIOLATION property=%s replay=%s" % (pid, replay))
            return 1
        if soft:
            print("VIOLATION property=%s replay=%s no-failing-input-found" % (pid, replay))
            return 1
        return 0

    # ---- jobs: (component, build, envname, env, start, count) ; corpus first
    streams = []   # (tagprefix, name, build, env, lines)
    missing_build = [n for n, (d, e, r) in built.items() if not (d and e)]
    missing_build += [comp_name(c) + " (release)" for c in comps if want_release and c.get("release", True) and built[comp_name(c)][1] and not built[comp_name(c)][2]]
    infra = []
    for path in sorted(glob.glob(os.path.join(VERIF, "corpus", pid, "*.case"))):
        head = open(path).read()
        m = re.search(r"^# component=(\S+) build=(\S+) env=(\S*)", head, re.M)
        if not m or m.group(1) not in built or not built[m.group(1)][1]:
            infra.append("corpus file %s cannot be replayed (no '# component=.. build=.. env=..' line, or the component does not build)" % os.path.basename(path))
            continue
        name, build, env = m.group(1), m.group(2), parse_env(m.group(3))
        exe = built[name][2] if build == "release" and built[name][2] else built[name][1]
        ls = run_replay_file(exe, path, budget_of(by_name[name]), extra_env=env)
        tag = "corpus:%s/" % os.path.basename(path)
        ls = [re.sub(r"^(CASE|OBS) (\S+)", lambda mm: "%s %s%s" % (mm.group(1), tag, mm.group(2)), l) for l in ls]
        streams.append((tag, name, build, env, ls))

    scale, src_changed, src_hit = vcheck.case_scale(pid, cfg, tier)
    if src_changed:
        log.append("source files changed since sources.lock: %s; quick case count x%d" % (", ".join(src_changed[:8]), scale))
    jobs = []
    for comp in comps:
        name = comp_name(comp)
        d, exe, exe_rel = built[name]
        if not (d and exe):
            continue
        n = (comp.get("quick_cases", 300) * scale) if tier == "quick" else comp.get("thorough_cases", 20000)
        modes = comp.get("modes") or cfg.get("modes") or [("plain", {})]
        builds = [("debug", exe)] + ([("release", exe_rel)] if exe_rel else [])
        per_mode = max(1, n // (len(modes) * len(builds)))
        off = 0
        for bname, e in builds:
            for mname, env in modes:
                nchunks = max(1, min(4 * scale, per_mode // 50))
                per = (per_mode + nchunks - 1) // nchunks
                for k in range(nchunks):
                    jobs.append((name, bname, mname, env, e, off + k * per, per))
                off += per_mode   # different case indices per mode so that the union is broader

    def run_job(job):
        name, bname, mname, env, e, start, count = job
        ls = run_isolated((lambda s, c, e=e: [e, "gen", str(seed), str(s), str(c)]), start, count, budget_of(by_name[name]), extra_env=env)
        tag = "%s@%s@%s/" % (name, bname, mname)
        ls = [re.sub(r"^(CASE|OBS) (\S+)", lambda mm: "%s %s%s" % (mm.group(1), tag, mm.group(2)), l) for l in ls]
        return (tag, name, bname, env, ls)

    with ThreadPoolExecutor(NPROC) as ex:
        for job, r in zip(jobs, ex.map(run_job, jobs)):
            streams.append(r)
            got = sum(1 for l in r[4] if l.startswith("CASE "))
            if got < job[6]:
                notes = [l for l in r[4] if l.startswith("NOTE ")]
                infra.append("component %s (%s, %s) ran %d of %d requested cases (%s)" % (job[0], job[1], job[2], got, job[6], "; ".join(notes[:2]) or "harness died before its first case"))

    # drivers (for tags / nontrivial / drift)
    def drive(st):
        tag, name, bname, env, ls = st
        d = built[name][0]
        rc, rl = run_driver(d, ls)
        return rl
    all_lines, all_res = [], []
    with ThreadPoolExecutor(NPROC) as ex:
        for st, rl in zip(streams, ex.map(drive, streams)):
            all_lines.extend(st[4])
            all_res.extend(rl)
    cases, obs, res, model = analyse(all_lines, all_res)
    where = {}
    for tag, name, bname, env, ls in streams:
        for l in ls:
            if l.startswith("CASE "):
                where[l.split(" ", 2)[1]] = (name, bname, env)

    evaluations = len(obs)
    failing, known_lines, seen_known = [], [], set()
    reasons = {}
    for c, o in obs.items():
        why = fails(o, cases.get(c, ""))
        if not why:
            continue
        reasons[why] = reasons.get(why, 0) + 1
        cls = classify(cases.get(c, ""), o)
        if cls and cls in known:
            if cls not in seen_known:
                seen_known.add(cls)
                known_lines.append("KNOWN-FINDING: property=%s class=%s %s (first seen on case %s)" % (pid, cls, known[cls], c))
        else:
            failing.append(c)
    drift = [c for c, r in res.items() if r.get("agree") == "0"]
    unowned = {comp_name(c) for c in comps if not c.get("prop") and not comp_cfg(c).get("driver_cmd")}
    corr_broken = []   # cases of an un-owned component whose model or Spec oracle rejects the implementation's answer
    for c, r in res.items():
        if where.get(c, ("?",))[0] in unowned and c not in failing and not obs.get(c, "!").startswith("!") and (r.get("agree") == "0" or r.get("oracle") == "0"):
            if fails(obs.get(c, ""), cases.get(c, "")):
                continue       # a known class of this property
            corr_broken.append(c)
    for c in obs:
        if where.get(c, ("?",))[0] in unowned and c not in res and not obs[c].startswith("!"):
            corr_broken.append(c)   # the driver produced no verdict for an observation
    nontrivial = set()
    tagcount, percomp = {}, {}
    for c in obs:
        name = where.get(c, ("?",))[0]
        percomp[name] = percomp.get(name, 0) + 1
        r = res.get(c, {})
        for t in r.get("tags", "").split(","):
            if t:
                tagcount[name + ":" + t] = tagcount.get(name + ":" + t, 0) + 1
        if r.get("nontrivial") == "1":
            nontrivial.add(hashlib.sha1(cases.get(c, c).encode()).hexdigest())
    nomem = sum(v for k, v in tagcount.items() if k.endswith(":skipped-nomem"))
    if nomem:
        infra.append("%d case(s) were skipped because a large sparse mapping could not be created (tag skipped-nomem)" % nomem)
    implfaults = {}
    for c, o in obs.items():
        if o.startswith("!"):
            k = o.split(" ")[0]
            implfaults[k] = implfaults.get(k, 0) + 1

    violations = []

    def write_replay(cid, why):
        name, bname, env = where[cid]
        case = cases[cid]
        token = fails(obs[cid], case)
        try:
            if cfg.get("shrink", True) and token:
                scfg = dict(comp_cfg(by_name[name]))
                case = shrink_case(pid, scfg, None, None, case, 0, lambda t: fails(run_one(name, bname, env, t), t) == token)
        except Exception as e:
            log.append("shrink failed: %r" % e)
        path = os.path.join(VERIF, "replays", "%s-%s.case" % (pid, hashlib.sha1((case + why).encode()).hexdigest()[:12]))
        with open(path, "w") as f:
            f.write("# %s\n# property=%s tier=%s seed=%s original-case-id=%s\n" % (why, pid, tier, seed, cid))
            f.write("# component=%s build=%s env=%s\n" % (name, bname, ",".join("%s=%s" % kv for kv in sorted(env.items()))))
            f.write("# implementation observed: %s\n" % obs[cid][:1500])
            f.write("CASE 0 %s\n" % case)
        return path

    if failing:
        cid = sorted(failing, key=lambda c: len(cases.get(c, "")))[0]
        path = write_replay(cid, "the implementation's observation violates the property: %s" % fails(obs[cid], cases[cid]))
        violations.append("VIOLATION property=%s replay=%s" % (pid, path))
    elif corr_broken:
        cid = sorted(corr_broken, key=lambda c: len(cases.get(c, "")))[0]
        r = res.get(cid, {})
        path = write_replay(cid, "correspondence of component %s broken: the extracted model / Spec oracle rejects the implementation's answer (agree=%s oracle=%s; %d such cases); the property's own failure predicate does not fire on it, so no failing input of %s is exhibited" % (where[cid][0], r.get("agree", "-"), r.get("oracle", "-"), len(corr_broken), pid))
        violations.append("VIOLATION property=%s replay=%s no-failing-input-found" % (pid, path))
    elif infra:
        path = os.path.join(VERIF, "replays", "%s-infra.case" % pid)
        open(path, "w").write("# tier=%s seed=%s\n" % (tier, seed) + "# the check could not run as configured; the property is not shown to hold on this run\n# %s\n" % "\n# ".join(infra))
        violations.append("VIOLATION property=%s replay=%s no-failing-input-found" % (pid, path))
    elif missing_build:
        path = os.path.join(VERIF, "replays", "%s-build.case" % pid)
        open(path, "w").write("# tier=%s seed=%s\n" % (tier, seed) + "# components that do not build against the current tree: %s\n# %s\n" % (missing_build, "\n# ".join(log[-6:]).replace("\n", "\n# ")))
        violations.append("VIOLATION property=%s replay=%s no-failing-input-found" % (pid, path))
    elif not proof["proof_ok"]:
        path = os.path.join(VERIF, "replays", "%s-proof.case" % pid)
        with open(path, "w") as f:
            f.write("# tier=%s seed=%s\n" % (tier, seed))
            f.write("# proof obligations of %s no longer check; the search over %d cases found no failing input\n" % (pid, evaluations))
            for p in proof["problems"]:
                f.write("# " + p.replace("\n", "\n# ") + "\n")
        violations.append("VIOLATION property=%s replay=%s no-failing-input-found" % (pid, path))

    samples = []
    shown = set()
    for c in cases:
        name = where.get(c, ("?",))[0]
        if name in shown:
            continue
        shown.add(name)
        samples.append({"component": name, "case": cases[c][:400], "implementation": obs.get(c, "")[:400], "fails": fails(obs.get(c, ""), cases[c])})
    for name in proof.get("theorems", [])[:3]:
        samples.append({"obligation": name, "assumptions": proof["assumptions"].get(name)})
    ev = {
        "property_id": pid, "tier": tier, "seed": int(seed), "level": cfg.get("level", "proof"),
        "coverage": {
            "obligations": proof["obligations"], "discharged": proof["discharged"],
            "checker_cmd": "make -C coq Properties/%s.vo && coqc -Q . PV Properties/%s.v  (Coq 8.16.1; Print Assumptions under every theorem)" % (pid, pid),
            "trusted_base": cfg.get("trusted_base", []) + [
                "Coq 8.16.1 kernel (vm_compute for witness lemmas; no native_compute)",
                "axioms per theorem (Print Assumptions): " + json.dumps(proof["assumptions"], sort_keys=True),
                "extraction with ExtrOcamlBasic only, OCaml 4.13.1, the component drivers under ocaml/",
                "component harnesses under harness/src/bin (generators, isolation by process, guard-page placement in harness/src/lib.rs); x86_64, 64-bit usize",
            ],
            "theorems": proof.get("theorems", []),
            "coqchk": proof.get("coqchk", "not run in the quick tier"),
            "open_statements": cfg.get("open_statements", []),
            "proof_problems": proof["problems"],
            "infrastructure_problems": infra,
            "evaluations": evaluations,
            "distinct_nontrivial": len(nontrivial),
            "rule": cfg.get("rule", ""),
            "samples": samples,
            "disagreements_checked": evaluations,
            "failing_cases": len(failing) + sum(1 for _ in seen_known),
            "failure_reasons": reasons,
            "model_drift": len(drift),
            "unowned_component_correspondence_failures": len(corr_broken),
            "per_component": percomp,
            "input_distribution": tagcount,
            "implementation_faults": implfaults,
            "builds": sorted({w[1] for w in where.values()}),
            "modes": sorted({",".join("%s=%s" % kv for kv in sorted(w[2].items())) for w in where.values()}),
            "corpus_files": len(glob.glob(os.path.join(VERIF, "corpus", pid, "*.case"))),
            "source_changed_since_lock": src_changed,
            "source_changed_in_anchors": src_hit,
            "case_count_factor": scale,
            "log": log[-12:],
        },
        "assumptions": cfg.get("assumptions", []),
        "wall_s": round(time.time() - t0, 2),
        "violations": len(violations),
    }
    with open(os.path.join(VERIF, "evidence", pid + ".json"), "w") as f:
        json.dump(ev, f, indent=1, sort_keys=True)
    for l in known_lines:
        print(l)
    print("%s %s: proofs %d/%d, cases %d over %d components (nontrivial distinct %d), failing %d, known %d, model drift %d, %.1fs" % (
        pid, tier, proof["discharged"], proof["obligations"], evaluations, len(percomp), len(nontrivial), len(failing), len(seen_known), len(drift), time.time() - t0))
    for p in proof["problems"]:
        print("proof problem: " + p[:500])
    for v in violations:
        print(v)
    return 1 if violations else 0
