"""Per-property configuration of the check (see lib/vcheck.py)."""
PROPS = {
    "C14": dict(
        claim="Machine-checked proof (Coq 8.16.1) over an executable Gallina model of base_relocs.rs: for every directory the block iterator terminates, never faults and yields the partition the property describes (C14_blocks_partition, C14_chain_meaning); the internal fold equals the flattened non-padding entries of those blocks (C14_fold_is_flat); build followed by parse returns exactly the input pairs in page-aligned blocks of size multiple of four for every rva list and types 1..15 (C14_build_roundtrip). The model is tied to /repo on every run by a differential correspondence check (extracted OCaml model vs the real library on generated directories and rva lists) and by evaluating the extracted boolean form of the theorem statements on the implementation's own observations.",
        note="Trusted: Coq kernel; extraction (ExtrOcamlBasic only) and the OCaml/Rust glue; the hand-written model is tied to the code only by the correspondence check (differential testing, bounded by its generator). Theorems carry machine-range hypotheses (slice length < 2^64-3; build: 2*len+11 < 2^32). try_from (directory extraction from an image) is covered by the slicing theorems of C04/C05.",
        bin="c14", driver="c14_driver", extract=["C14"],
        quick_cases=4000, thorough_cases=400000, case_seconds=3,
        correspondence="Model/Relocs.v {blocks, fold_pairs, build} vs pelite::base_relocs::{BaseRelocs::parse/iter_blocks/for_each/fold, build}",
        rule="60% relocation directories (structured blocks with SizeOfBlock drawn from {0,1,7,9,true,true+-1,true+2,true+4k,2^31,2^32-4..2^32-1,random}, "
             "10% of them pure noise, optional truncation/trailing bytes, buffer placed at 0/4/8/12 mod 16), 40% build() inputs (ascending rvas stepping to page "
             "starts, to offset 0xFFF, near 2^32, duplicates, occasionally unsorted; types 1..15). A case is non-trivial when the directory has at least one "
             "block / the rva list is non-empty; distinct = distinct case text.",
        trusted_base=["Spec/RelocSpec.v as the reading of the property text"],
        assumptions=["slice lengths are below 2^64-3 (Rust: at most isize::MAX)", "build(): 2*len(rvas)+11 < 2^32, equal-length inputs (documented assert)"],
    ),
    "C04": dict(
        claim="Machine-checked proof over an executable model of the address-translation core of pe.rs: for every section table (any number of sections, any u32 field values including wrapping VirtualAddress+size and raw ranges) and every RVA / file offset / (min_size, align) request, the first-match section walk with its wrapping and checked arithmetic equals the loop-free PE mapping rule of Spec/MappingSpec.v (C04_rva_to_file_offset, C04_file_offset_to_rva, C04_slice_file), a successful slice starts at PRD+(rva-VA) of the first containing section and ends where its raw data ends inside the buffer (C04_slice_file_ok), a request for more never succeeds, and offset->rva inverts rva->offset on stored, mapped, unaliased bytes (with the impossibility lemma for aliased ones). Tied to /repo by the correspondence check on generated section tables with boundary-enumerated queries, and by evaluating the spec on the implementation's results.",
        note="Trusted: Coq kernel, extraction and glue, the generator's own header writer (the model takes the decoded section table from the generator, so pelite's header decoding is exercised too). The model is hand-written; the correspondence is differential testing bounded by its generator.",
        bin="views", driver="views_driver", model_ml="views_model", driver_includes=["image.ml"], driver_args=["C04"], extract=["Views"], shrink_fields=["q"],
        quick_cases=3000, thorough_cases=150000, case_seconds=5,
        correspondence="Model/Mapping.v {rva_to_file_offset, file_offset_to_rva, range_file, slice_file, get_section_bytes} vs pelite::pe32/pe64::Pe methods on PeFile",
        rule="PE32 and PE32+ images written by the harness's own header writer: 0..12 sections drawn from the shapes of the quantifier (aligned, unaligned raw pointer, "
             "VirtualSize <,=,> SizeOfRawData, empty raw data, overlapping virtual ranges, shared raw data, VA+size wrapping or ending at 2^32, raw data partly/wholly "
             "outside the file or wrapping, sections inside the header range, unsorted), SizeOfHeaders in {0, len, header end, random, 0x400}; 40 queries per image at "
             "section edges (VA, VA+VS, VA+SRD, VA+max, PRD, PRD+SRD, SizeOfHeaders, SizeOfImage, len, 2^32-1) + {-8..8}, min_size in {0,1,2,4,8,len,2^32,2^63,2^64-1,random}, "
             "align in {1,2,4,8}; buffer placed at 0/4/8/12 mod 16. Non-trivial: at least one query of this property's kinds was evaluated; distinct = distinct case text.",
        trusted_base=["Spec/MappingSpec.v as the reading of the property text (first containing section, stored / tail / outside)"],
        assumptions=["section header fields and RVAs are u32, file offsets are usize (64-bit)"],
    ),
    "C05": dict(
        claim="Machine-checked proof over an executable model of rva<->va conversion, mapped-view slicing, va-based reading and the typed read family: closed forms for rva_to_va / va_to_rva and the round trips on (0, SizeOfImage) (C05_rva_va_roundtrip, C05_va_rva_roundtrip), a mapped view slices the buffer at offset rva (C05_slice_section), reading at B+r equals slicing at r as a result value - same region, same error - for file and mapped views (C05_read_is_slice), zero addresses always give Null, fixed-size typed reads are exactly a prefix of the untyped slice, sentinel/predicate reads return the longest prefix before the first matching element or Bounds and never run out of fuel (C05_rd_slice_f), C strings end at the first NUL or fail with Encoding (C05_rd_c_str). Tied to /repo by the correspondence check (both views, both formats, by-rva and by-va paths, element sizes 1/2/4/8).",
        note="Trusted: Coq kernel, extraction and glue. derva_string::<WideStr> is not reachable through the public API and is not modelled. The model is hand-written; the correspondence is differential testing bounded by its generator.",
        bin="views", driver="views_driver", model_ml="views_model", driver_includes=["image.ml"], driver_args=["C05"], extract=["Views"], shrink_fields=["q"],
        quick_cases=3000, thorough_cases=150000, case_seconds=5,
        correspondence="Model/Views.v {rva_to_va, va_to_rva, slice_section, read_section, read_file, slice, read, rd, rd_copy, rd_slice, rd_slice_s, rd_c_str} vs pelite Pe::{rva_to_va, va_to_rva, slice, read, derva, derva_copy, derva_into, derva_slice, derva_slice_s, derva_c_str, deref, deref_slice_s, deref_c_str}",
        rule="same image generator as C04, file and mapped views, ImageBase in {0, 0x1000, typical, 2^32-0x1000, 2^64-0x1000}, overridden bases for mapped views; queries by rva and by va = base + rva "
             "(plus va 0, base-1, random); element sizes 1,2,4,8; array lengths {0, small, 2^61, 2^63-1}; sentinel 0 or random; NUL/zero runs planted in the pattern-filled content. "
             "Non-trivial: at least one query of this property's kinds was evaluated.",
        trusted_base=["Spec/ViewSpec.v as the reading of the property text"],
        assumptions=["Va is 32 or 64 bits wide, usize is 64 bits; derva_string::<WideStr> is not reachable through the public API (WideStr is crate-private) and is not exercised"],
    ),
    "C07": dict(
        claim="Machine-checked proof over an executable model of validate_headers, the header accessors, the section lookups, the format-agnostic constructors and Headers::check_sum: a buffer is accepted exactly when the conjunction the property lists holds, with offsets taken from the PE/COFF specification (C07_validate_accept_32/64; the struct layout is regenerated from src/image.rs on every run and proved equal to the specification constants, C07_layout_matches_format); a valid image of the other bitness gets PeMagic; the wrapper returns the variant matching the magic for every acceptable image (C07_wrapper); after acceptance every accessor returns the region the format prescribes, inside the buffer and aligned (C07_accessor_positions, C07_accessors_in_bounds_*); by_rva is the first containing section; and the dword-wise checksum fold equals the standard 16-bit one's-complement PE checksum for every buffer and length (C07_check_sum, a mod-65535 argument). Tied to /repo by the correspondence check on generated headers (every field mutated, lengths around every structure end, all placements) through both parsers and the wrapper.",
        note="Trusted: Coq kernel, extraction and glue, tools/gen_layout.py (repr(C)/packed layout rules on x86_64, cross-checked against the size assertions in image.rs), Spec/HeaderSpec.v as the reading of the PE/COFF document. by_name is modelled and compared by correspondence; its theorem is its definition (first section whose 8 name bytes equal the zero-padded query).",
        bin="headers", driver="headers_driver", model_ml="headers_model", driver_includes=["image.ml"], extract=["Headers"], ocaml_packages=["str"],
        quick_cases=3000, thorough_cases=200000, case_seconds=5, shrink_fields=["rvas", "names"],
        correspondence="Model/Headers.v {validate, wrap_from_bytes, accessors, data_dir, sections, by_name, by_rva, check_sum} vs pelite::{pe32,pe64}::{PeFile,PeView}::from_bytes, pelite::{PeFile,PeView}::from_bytes, Pe header accessors, SectionHeaders::{by_name,by_rva}, Headers::check_sum",
        rule="headers written by the harness's own writer: e_lfanew in {4,0xC,0x3C,0x40,0x41,0x42,0x44,0x80,0xF8, 2^24-4, 2^24, 2^24+4 (sparse 16 MiB buffers)}, SizeOfOptionalHeader in {standard, 0,1,2,3,4,6,0xE0,0xE2,0xF0,0xFFFC,0xFFFF, standard+1..8}, "
             "NumberOfRvaAndSizes in {0,1,10,15,16,17,2^31,2^32-1}, NumberOfSections field in {actual,0,1,3,96,97,65535}, magic in {0x10b,0x20b,0x107,0,0x20c}, corrupted MZ/PE signatures, SizeOfHeaders/SizeOfImage around each other and the length, "
             "buffer lengths at every structure end +-1 and not multiples of four, placements 0/1/2/4/6/8/12 mod 16; every buffer goes through pe32, pe64 (file and view) and both wrappers. Non-trivial: accepted, or rejected later than the first two checks.",
        trusted_base=["Spec/HeaderSpec.v (PE/COFF offsets, acceptance conjunction, standard PE checksum)", "tools/gen_layout.py"],
        assumptions=["x86_64, 64-bit usize"],
    ),
    "C20": dict(
        claim="Machine-checked proof over an executable model of strings.rs: for every byte string, configuration and base, iterating the enumerator to exhaustion terminates and yields exactly map found (filter qualifies (runs bytes)) - the qualifying maximal printable runs in order, with address base+start and the NUL flag (C20_enumerate); each call returns the first qualifying run at or after the resume offset and resumes right after its terminator (C20_next); runs consist of printable bytes only, are maximal, ordered and non-overlapping (C20_runs_sound, C20_runs_ordered); the implementation's byte test is the documented set TAB, LF, CR, 0x20..0x7E (C20_printable_set). Tied to /repo by the correspondence check on generated byte strings and configurations.",
        note="Trusted: Coq kernel, extraction and glue; Spec/Runs.v as the reading of the property (a run before every non-printable byte, possibly empty; the rest of the buffer is a run only if non-empty; NUL-terminated runs use min_length_nul, others need strict_nul off and min_length). Buffer lengths are assumed below 2^32 (the iterator keeps its offset in a u32).",
        bin="strings", driver="strings_driver", model_ml="strings_model", extract=["Strings"],
        quick_cases=6000, thorough_cases=1000000, case_seconds=3,
        correspondence="Model/Strings.v {is_printable, scan/next, enumerate} vs pelite::strings::{Config::enumerate, Enumerator::next}",
        rule="byte strings of length 0..125 built from printable runs of length 0,1,2,0..11 (TAB/LF/CR/space/tilde over-represented) separated by terminators drawn from {NUL x4, 0x7F, 0x1F, 0x80, 0xFF, 0x08, 0x0B}, doubled NULs, buffers ending inside a run, 10% pure noise; thresholds from {0,1,2,3,6,255,1..10}; strict on/off; bases {0, 2^32-1, 2^32-1-len, 2^32-16, page multiples}. Non-trivial: non-empty input.",
        trusted_base=["Spec/Runs.v as the reading of the property text"],
        assumptions=["buffer length < 2^32"],
    ),
}
