"""Per-property configuration of the check: one file per property in lib/props.d/ (see lib/vcheck.py)."""
import glob, os, runpy
PROPS = {}
for _p in sorted(glob.glob(os.path.join(os.path.dirname(os.path.abspath(__file__)), "props.d", "C*.py"))):
    PROPS[os.path.basename(_p)[:-3]] = runpy.run_path(_p)["CONFIG"]
NOT_CLAIMED = {}
