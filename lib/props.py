"""Per-property configuration of the check (see lib/vcheck.py)."""
PROPS = {
    "C14": dict(
        bin="c14", driver="c14_driver", extract=["C14"],
        quick_cases=4000, thorough_cases=400000, case_seconds=3,
        correspondence="Model/Relocs.v {blocks, fold_pairs, build} vs pelite::base_relocs::{BaseRelocs::parse/iter_blocks/for_each/fold, build}",
        rule="60% relocation directories (structured blocks with SizeOfBlock drawn from {0,1,7,9,true,true+-1,true+2,true+4k,2^31,2^32-4..2^32-1,random}, "
             "10% of them pure noise, optional truncation/trailing bytes, buffer placed at 0/4/8/12 mod 16), 40% build() inputs (ascending rvas stepping to page "
             "starts, to offset 0xFFF, near 2^32, duplicates, occasionally unsorted; types 1..15). A case is non-trivial when the directory has at least one "
             "block / the rva list is non-empty; distinct = distinct case text.",
        trusted_base=["Spec/RelocSpec.v as the reading of the property text"],
        assumptions=["slice lengths are below 2^64-3 (Rust: at most isize::MAX)", "build(): 2*len(rvas)+11 < 2^32, equal-length inputs (documented assert)"],
    ),
}
