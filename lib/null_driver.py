#!/usr/bin/env python3
"""Driver of components that have no model (the walker): the observation is only classified.
Protocol as ocaml/conv.ml: reads CASE/OBS lines, prints RES lines."""
import sys
cur = None
for line in sys.stdin:
    line = line.rstrip("\n")
    if line.startswith("CASE "):
        p = line.split(" ", 3)
        cur = (p[1], p[3] if len(p) > 3 else "")
    elif line.startswith("OBS ") and cur:
        p = line.split(" ", 2)
        if p[1] != cur[0]:
            continue
        obs = p[2] if len(p) > 2 else ""
        ok = not obs.startswith("!")
        nontrivial = ("steps=" in obs and "steps=0 " not in obs) or not ok
        tags = []
        case = cur[1]
        tags.append("view" if " view=1" in (" " + case) else "file")
        tags.append("pristine" if "pokes=-" in case and "trunc=-" in case else "corrupted")
        tags.append("accepted" if nontrivial else "rejected")
        print("RES %s agree=1 oracle=%d nontrivial=%d tags=%s" % (cur[0], 1 if ok else 0, 1 if nontrivial else 0, ",".join(tags)))
        cur = None
sys.stdout.flush()
