#!/bin/sh
# Build the whole framework from files on disk (offline).
set -e
cd "$(dirname "$0")"
export CARGO_NET_OFFLINE=true
mkdir -p .cache ocaml/gen ocaml/bin coq/gen evidence replays
for t in tools/gen_*.py; do [ -f "$t" ] && python3 "$t" /repo coq/gen; done
tools/mkcoqproject.sh
( cd coq && timeout 7000 make -j16 )
python3 - <<'PY'
import sys
sys.path.insert(0, "lib")
import vcheck
from props import PROPS
for pid, cfg in PROPS.items():
    todo = []
    if cfg.get("components"):
        # cross-cutting checks: build the drivers of their own (inline) components; the others belong to their properties
        for comp in cfg["components"]:
            c = comp.get("cfg")
            if c and not c.get("driver_cmd"):
                todo.append((comp.get("name"), c))
    else:
        todo.append((pid, cfg))
    for name, c in todo:
        log = []
        d = vcheck.build_driver(name, c, log)
        if not d:
            print("\n".join(log)); sys.exit(1)
PY
[ -f harness/Cargo.lock ] || cp /repo/Cargo.lock harness/Cargo.lock
( cd harness && cargo build --offline --bins && cargo build --offline --bins --release )
echo setup-ok
