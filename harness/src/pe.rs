//! Independent PE image writer (explicit offsets from the PE/COFF specification;
//! deliberately does not use pelite's structs) and the compact image encoding
//! used in CASE lines:  len=<n> fill=<seed> hdr=<hex> pokes=<off>:<hex>/<off>:<hex>
use crate::*;

#[derive(Clone, Debug)]
pub struct Sec {
	pub name: [u8; 8],
	pub va: u32,
	pub vs: u32,
	pub prd: u32,
	pub srd: u32,
	pub chars: u32,
}

#[derive(Clone, Debug)]
pub struct ImgSpec {
	pub pe64: bool,
	pub e_lfanew: u32,
	pub soh: u32,
	pub soi: u32,
	pub image_base: u64,
	pub nrva: u32,
	pub dirs: Vec<(u32, u32)>,
	pub opt_size: u16,
	pub nsec_field: u16,
	pub secs: Vec<Sec>,
	pub checksum: u32,
	pub magic: u16,
}
impl ImgSpec {
	pub fn nt_size(&self) -> u32 {
		if self.pe64 { 136 } else { 120 }
	}
	pub fn std_opt_size(&self) -> u16 {
		(if self.pe64 { 112 } else { 96 }) + 8 * self.dirs.len() as u16
	}
	pub fn sec_table_off(&self) -> u32 {
		self.e_lfanew + 24 + self.opt_size as u32
	}
	/// end of everything the header writer writes
	pub fn hdr_end(&self) -> usize {
		let a = self.e_lfanew as usize + self.nt_size() as usize + 8 * self.dirs.len();
		let b = self.sec_table_off() as usize + 40 * self.secs.len();
		a.max(b).max(64)
	}
	/// Writes the headers into a zeroed buffer of hdr_end() bytes.
	pub fn header_bytes(&self) -> Vec<u8> {
		let mut b = vec![0u8; self.hdr_end()];
		fn w16(b: &mut [u8], o: usize, v: u16) {
			b[o..o + 2].copy_from_slice(&v.to_le_bytes());
		}
		fn w32(b: &mut [u8], o: usize, v: u32) {
			b[o..o + 4].copy_from_slice(&v.to_le_bytes());
		}
		fn w64(b: &mut [u8], o: usize, v: u64) {
			b[o..o + 8].copy_from_slice(&v.to_le_bytes());
		}
		w16(&mut b, 0, 0x5A4D);
		w32(&mut b, 60, self.e_lfanew);
		let nt = self.e_lfanew as usize;
		w32(&mut b, nt, 0x0000_4550);
		// IMAGE_FILE_HEADER
		w16(&mut b, nt + 4, if self.pe64 { 0x8664 } else { 0x014c });
		w16(&mut b, nt + 6, self.nsec_field);
		w16(&mut b, nt + 20, self.opt_size);
		w16(&mut b, nt + 22, 0x2102);
		// IMAGE_OPTIONAL_HEADER
		let o = nt + 24;
		w16(&mut b, o, self.magic);
		if self.pe64 {
			w64(&mut b, o + 24, self.image_base);
		}
		else {
			w32(&mut b, o + 28, self.image_base as u32);
		}
		w32(&mut b, o + 32, 0x1000); // SectionAlignment
		w32(&mut b, o + 36, 0x200); // FileAlignment
		w32(&mut b, o + 56, self.soi);
		w32(&mut b, o + 60, self.soh);
		w32(&mut b, o + 64, self.checksum);
		w16(&mut b, o + 68, 3);
		let nrva_off = if self.pe64 { o + 108 } else { o + 92 };
		w32(&mut b, nrva_off, self.nrva);
		let dd = nrva_off + 4;
		for (i, (va, sz)) in self.dirs.iter().enumerate() {
			w32(&mut b, dd + 8 * i, *va);
			w32(&mut b, dd + 8 * i + 4, *sz);
		}
		// section table (may overlap the data directories when opt_size is small: last writer wins)
		let st = self.sec_table_off() as usize;
		for (i, s) in self.secs.iter().enumerate() {
			let p = st + 40 * i;
			b[p..p + 8].copy_from_slice(&s.name);
			w32(&mut b, p + 8, s.vs);
			w32(&mut b, p + 12, s.va);
			w32(&mut b, p + 16, s.srd);
			w32(&mut b, p + 20, s.prd);
			w32(&mut b, p + 36, s.chars);
		}
		b
	}
}

/// The header of `spec` with, in half of the calls, the fields the parser has no business looking at re-drawn:
/// FileHeader {Machine (rarely), TimeDateStamp, symbol table, Characteristics}, linker/OS/image/subsystem versions,
/// SizeOfCode.., AddressOfEntryPoint, BaseOfCode/BaseOfData, SectionAlignment / FileAlignment (equal, swapped, tiny,
/// zero), Win32VersionValue, Subsystem, DllCharacteristics, stack/heap sizes, LoaderFlags.  Everything the models
/// read (signatures, magic, e_lfanew, counts, SizeOfOptionalHeader, ImageBase, SizeOfImage, SizeOfHeaders, CheckSum,
/// data directories, section table) is left exactly as `header_bytes` wrote it.  A behaviour that depends on one of
/// the re-drawn fields (a "fast path" keyed on the alignment pair, say) is then visible to the correspondence.
pub fn scrambled_header(spec: &ImgSpec, rng: &mut Rng) -> Vec<u8> {
	let fresh = spec.header_bytes();
	if !rng.chance(1, 2) {
		return fresh;
	}
	let mut b = fresh.clone();
	let nt = spec.e_lfanew as usize;
	let o = nt + 24;
	let lim = (o + spec.opt_size as usize).min(b.len());
	let mut put = |b: &mut Vec<u8>, off: usize, v: &[u8], lim: usize| {
		if off + v.len() <= lim { b[off..off + v.len()].copy_from_slice(v); }
	};
	let r32v = |rng: &mut Rng| -> u32 { match rng.below(6) { 0 => 0, 1 => 0xFFFF_FFFF, 2 => 0x1000, 3 => rng.below(0x10000) as u32, _ => rng.next() as u32 } };
	let flim = b.len().min(nt + 24);
	if rng.chance(1, 8) { let m = *rng.pick(&[0u16, 0x014c, 0x8664, 0xaa64, 0x01c4, 0xFFFF]); put(&mut b, nt + 4, &m.to_le_bytes(), flim); }
	for off in [8usize, 12, 16] { let v = r32v(rng); put(&mut b, nt + off, &v.to_le_bytes(), flim); }
	{ let v = rng.next() as u16; put(&mut b, nt + 22, &v.to_le_bytes(), flim); }
	{ let v = rng.next() as u16; put(&mut b, o + 2, &v.to_le_bytes(), lim); }
	for off in [4usize, 8, 12, 16, 20] { let v = r32v(rng); put(&mut b, o + off, &v.to_le_bytes(), lim); }
	if !spec.pe64 { let v = r32v(rng); put(&mut b, o + 24, &v.to_le_bytes(), lim); }
	let (sa, fa): (u32, u32) = match rng.below(10) {
		0 => (0x200, 0x200), 1 => (0x1000, 0x1000), 2 => (4, 4), 3 => (0, 0), 4 => (1, 1), 5 => (0x200, 0x1000),
		6 => (0x1000, 4), 7 => (0x2000, 0x200), 8 => { let x = 1u32 << rng.below(17); (x, x) }, _ => (rng.next() as u32, rng.next() as u32),
	};
	put(&mut b, o + 32, &sa.to_le_bytes(), lim);
	put(&mut b, o + 36, &fa.to_le_bytes(), lim);
	for off in [40usize, 42, 44, 46, 48, 50, 68, 70] { let v = rng.next() as u16; put(&mut b, o + off, &v.to_le_bytes(), lim); }
	{ let v = r32v(rng); put(&mut b, o + 52, &v.to_le_bytes(), lim); }
	let tail_end = if spec.pe64 { 108 } else { 92 };
	let mut off = 72;
	while off + 4 <= tail_end { let v = r32v(rng); put(&mut b, o + off, &v.to_le_bytes(), lim); off += 4; }
	// the section table and the data directories may overlap the optional header when SizeOfOptionalHeader is small:
	// they win, exactly as in header_bytes
	let nrva_off = if spec.pe64 { o + 108 } else { o + 92 };
	let (d0, d1) = (nrva_off, (nrva_off + 4 + 8 * spec.dirs.len()).min(b.len()));
	if d0 < d1 { b[d0..d1].copy_from_slice(&fresh[d0..d1]); }
	let st = spec.sec_table_off() as usize;
	let (s0, s1) = (st.min(b.len()), (st + 40 * spec.secs.len()).min(b.len()));
	if s0 < s1 { b[s0..s1].copy_from_slice(&fresh[s0..s1]); }
	// the don't-care fields of the section headers (seed C10-16: a scanner that skips sections by their Characteristics):
	// Characteristics, PointerToRelocations, PointerToLinenumbers and the two counts are read by no parser of the library
	// (only reported verbatim); re-drawn when the table overlaps nothing else
	if st >= d1 && st + 40 * spec.secs.len() <= b.len() {
		for k in 0..spec.secs.len() {
			let p = st + 40 * k;
			if rng.chance(1, 2) {
				let c = match rng.below(8) { 0 => 0u32, 1 => 0x80, 2 => 0xE000_00C0, 3 => 0xFFFF_FFFF, 4 => 0x4200_0040, 5 => 0x6000_0020, _ => rng.next() as u32 };
				b[p + 36..p + 40].copy_from_slice(&c.to_le_bytes());
			}
			if rng.chance(1, 4) { for off in [24usize, 28, 32] { let v = r32v(rng); b[p + off..p + off + 4].copy_from_slice(&v.to_le_bytes()); } }
		}
	}
	// the fields every model reads, wherever the overlaps put them
	// (Machine at nt + 4 is a don't-care field: only the signature and NumberOfSections are put back)
	for (a, z) in [(0usize, 2usize), (60, 64), (nt, nt + 4), (nt + 6, nt + 8), (nt + 20, nt + 22), (o, o + 2), (o + 56, o + 68)] {
		let z = z.min(b.len());
		if a < z { b[a..z].copy_from_slice(&fresh[a..z]); }
	}
	let (ib0, ib1) = if spec.pe64 { (o + 24, o + 32) } else { (o + 28, o + 32) };
	if ib1 <= b.len() { b[ib0..ib1].copy_from_slice(&fresh[ib0..ib1]); }
	b
}

pub fn pattern(fill: u32, i: usize) -> u8 {
	if fill == 0 {
		return 0;
	}
	if fill == 0xFFFF_FFFF {
		return 0xFF; // all ones: every dword of the fill carries in a 32-bit end-around-carry sum
	}
	let x = ((i as u64 + fill as u64).wrapping_mul(0x9E37_79B1)) & 0xFFFF_FFFF;
	(x >> 24) as u8
}

pub struct Image {
	pub len: usize,
	pub fill: u32,
	pub hdr: Vec<u8>,
	pub pokes: Vec<(usize, Vec<u8>)>,
}
impl Image {
	pub fn encode(&self) -> String {
		let pokes: Vec<String> = self.pokes.iter().map(|(o, b)| format!("{}:{}", o, hex(b))).collect();
		format!("len={} fill={} hdr={} pokes={}", self.len, self.fill, hex(&self.hdr), join(&pokes, "/"))
	}
	pub fn decode(case: &str) -> Image {
		let pokes = split(field(case, "pokes"), '/')
			.iter()
			.map(|p| {
				let mut it = p.split(':');
				let o: usize = it.next().unwrap().parse().unwrap();
				(o, unhex(it.next().unwrap()))
			})
			.collect();
		Image { len: field(case, "len").parse().unwrap(), fill: field(case, "fill").parse().unwrap(), hdr: unhex(field(case, "hdr")), pokes }
	}
	pub fn bytes(&self) -> Vec<u8> {
		let mut b: Vec<u8> = (0..self.len).map(|i| pattern(self.fill, i)).collect();
		let n = self.hdr.len().min(self.len);
		b[..n].copy_from_slice(&self.hdr[..n]);
		for (o, p) in &self.pokes {
			for (k, x) in p.iter().enumerate() {
				if o + k < self.len {
					b[o + k] = *x;
				}
			}
		}
		b
	}
}

/// Section table shapes named in the property's quantifier.
pub fn gen_sections(rng: &mut Rng, file_len_hint: u32, first_prd: u32) -> Vec<Sec> {
	let n = match rng.below(10) {
		0 => 0,
		1 => 1,
		2 => rng.range(7, 12),
		_ => rng.range(2, 5),
	} as usize;
	let mut secs = Vec::new();
	let mut va: u32 = 0x1000;
	let mut prd: u32 = first_prd;
	for i in 0..n {
		let srd = match rng.below(8) {
			0 => 0,
			1 => 0x200,
			2 => rng.range(1, 0x30) as u32,
			_ => (rng.range(1, 4) * 0x100) as u32,
		};
		let vs = match rng.below(8) {
			0 => srd,
			1 => srd + rng.range(1, 0x400) as u32,
			2 => srd.saturating_sub(rng.range(1, 0x80) as u32),
			3 => 0,
			4 => srd + 0x1000,
			_ => srd + rng.below(0x40) as u32,
		};
		let mut s = Sec { name: [0; 8], va, vs, prd, srd, chars: 0x6000_0020 };
		let nm = format!(".s{}", i);
		s.name[..nm.len()].copy_from_slice(nm.as_bytes());
		// mutations
		match rng.below(24) {
			0 => s.prd = s.prd + rng.range(1, 3) as u32,                // unaligned raw pointer
			1 => s.prd = file_len_hint.saturating_sub(rng.below(0x40) as u32), // raw data partly outside the file
			2 => s.prd = file_len_hint + rng.below(0x100) as u32,        // wholly outside
			3 => s.va = 0xFFFF_F000,                                      // VA+size wraps or ends at 2^32
			4 => { s.va = 0xFFFF_FF00; s.vs = 0x100; },                   // ends exactly at 2^32
			5 => s.prd = 0xFFFF_FFF0,                                     // raw range wraps
			6 => s.srd = 0xFFFF_FFFF,
			7 => s.vs = 0xFFFF_FFFF,
			8 => if let Some(p) = secs.last() { let p: &Sec = p; s.va = p.va + rng.below(0x80) as u32; }, // overlapping virtual ranges
			9 => if let Some(p) = secs.last() { let p: &Sec = p; s.prd = p.prd; },                          // shared raw data
			10 => s.va = rng.below(0x800) as u32,                         // section inside the header range
			11 => s.prd = rng.below(0x100) as u32,                        // raw data inside the headers
			12 => s.va += rng.range(1, 7) as u32,                         // unaligned VA
			13 => s.prd = 0,                                              // null raw pointer with raw size left over
			14 => { s.prd = 0; s.srd = 0; },                              // .bss style: nothing stored
			15 => s.va = 0,                                               // null virtual address
			_ => {},
		}
		secs.push(s.clone());
		let ext = s.vs.max(s.srd).min(0x10_0000);
		va = (va.wrapping_add(ext).wrapping_add(0xfff)) & !0xfff;
		if va == 0 { va = 0x1000; }
		prd = prd.wrapping_add(srd.min(0x1000));
		if rng.chance(1, 5) { prd = (prd + 0x1ff) & !0x1ff; }
	}
	if rng.chance(1, 12) && secs.len() > 1 {
		let i = rng.below(secs.len() as u64) as usize;
		let j = rng.below(secs.len() as u64) as usize;
		secs.swap(i, j); // unsorted
	}
	secs
}

pub fn secs_field(secs: &[Sec]) -> String {
	let v: Vec<String> = secs.iter().map(|s| format!("{}:{}:{}:{}", s.va, s.vs, s.prd, s.srd)).collect();
	join(&v, ";")
}
