//! Shared plumbing of the implementation-side harness: deterministic PRNG,
//! hex helpers, aligned buffers, and the CASE/OBS line protocol with
//! per-case isolation (catch_unwind for panics, alarm() for hangs; aborts and
//! stack overflows kill the process and are attributed by the orchestrator to
//! the case in flight).
pub mod pe;
use std::io::Write;
use std::panic;

pub struct Rng(pub u64);
impl Rng {
	pub fn for_case(seed: u64, index: u64) -> Rng {
		let mut r = Rng(seed ^ index.wrapping_mul(0x9E3779B97F4A7C15) ^ 0xD1B54A32D192ED03);
		r.next();
		r.next();
		r
	}
	pub fn next(&mut self) -> u64 {
		self.0 = self.0.wrapping_add(0x9E3779B97F4A7C15);
		let mut z = self.0;
		z = (z ^ (z >> 30)).wrapping_mul(0xBF58476D1CE4E5B9);
		z = (z ^ (z >> 27)).wrapping_mul(0x94D049BB133111EB);
		z ^ (z >> 31)
	}
	pub fn below(&mut self, n: u64) -> u64 {
		if n == 0 { 0 } else { self.next() % n }
	}
	pub fn range(&mut self, lo: u64, hi: u64) -> u64 {
		lo + self.below(hi - lo + 1)
	}
	pub fn chance(&mut self, num: u64, den: u64) -> bool {
		self.below(den) < num
	}
	pub fn pick<'a, T>(&mut self, xs: &'a [T]) -> &'a T {
		&xs[self.below(xs.len() as u64) as usize]
	}
	pub fn byte(&mut self) -> u8 {
		self.next() as u8
	}
}

pub fn hex(bytes: &[u8]) -> String {
	if bytes.is_empty() {
		return "-".to_string();
	}
	let mut s = String::with_capacity(bytes.len() * 2);
	for b in bytes {
		s.push_str(&format!("{:02x}", b));
	}
	s
}
pub fn unhex(s: &str) -> Vec<u8> {
	if s == "-" {
		return Vec::new();
	}
	let b = s.as_bytes();
	(0..b.len() / 2).map(|i| u8::from_str_radix(std::str::from_utf8(&b[2 * i..2 * i + 2]).unwrap(), 16).unwrap()).collect()
}
pub fn join<T: ToString>(xs: &[T], sep: &str) -> String {
	if xs.is_empty() {
		return "-".to_string();
	}
	xs.iter().map(|x| x.to_string()).collect::<Vec<_>>().join(sep)
}
pub fn split<'a>(s: &'a str, sep: char) -> Vec<&'a str> {
	if s == "-" || s.is_empty() { Vec::new() } else { s.split(sep).collect() }
}
pub fn field<'a>(case: &'a str, key: &str) -> &'a str {
	for tok in case.split(' ') {
		if let Some(rest) = tok.strip_prefix(key) {
			if let Some(v) = rest.strip_prefix('=') {
				return v;
			}
		}
	}
	panic!("harness: missing field {}", key)
}

/// A byte buffer whose start address is `off` modulo 16.
pub struct Aligned {
	store: Vec<u128>,
	off: usize,
	len: usize,
}
impl Aligned {
	pub fn new(bytes: &[u8], off: usize) -> Aligned {
		let mut store = vec![0u128; (bytes.len() + off + 31) / 16 + 1];
		let p = store.as_mut_ptr() as *mut u8;
		unsafe { std::ptr::copy_nonoverlapping(bytes.as_ptr(), p.add(off), bytes.len()) };
		Aligned { store, off, len: bytes.len() }
	}
	pub fn bytes(&self) -> &[u8] {
		unsafe { std::slice::from_raw_parts((self.store.as_ptr() as *const u8).add(self.off), self.len) }
	}
}

/// Runs the harness protocol. `gen(rng, index)` yields "kind k=v ..."; `run(case)` yields the observation.
pub fn harness_main(gen: fn(&mut Rng, u64) -> String, run: fn(&str) -> String) {
	let args: Vec<String> = std::env::args().collect();
	panic::set_hook(Box::new(|_| {}));
	let out = std::io::stdout();
	let budget: u32 = std::env::var("PVH_CASE_SECONDS").ok().and_then(|s| s.parse().ok()).unwrap_or(10);
	let exec = |id: &str, case: &str| {
		{
			let mut o = out.lock();
			writeln!(o, "CASE {} {}", id, case).unwrap();
			o.flush().unwrap();
		}
		unsafe { libc::alarm(budget) };
		let case_owned = case.to_string();
		let r = panic::catch_unwind(move || run(&case_owned));
		unsafe { libc::alarm(0) };
		let obs = match r {
			Ok(s) => s,
			Err(e) => {
				let msg = if let Some(s) = e.downcast_ref::<String>() { s.clone() } else if let Some(s) = e.downcast_ref::<&str>() { s.to_string() } else { "?".to_string() };
				format!("!panic {}", msg.replace('\n', " "))
			},
		};
		let mut o = out.lock();
		writeln!(o, "OBS {} {}", id, obs).unwrap();
		o.flush().unwrap();
	};
	match args.get(1).map(|s| s.as_str()) {
		Some("gen") => {
			let seed: u64 = args[2].parse().unwrap();
			let start: u64 = args[3].parse().unwrap();
			let count: u64 = args[4].parse().unwrap();
			for i in start..start + count {
				let mut rng = Rng::for_case(seed, i);
				let case = gen(&mut rng, i);
				exec(&i.to_string(), &case);
			}
		},
		Some("replay") => {
			let text = std::fs::read_to_string(&args[2]).unwrap();
			let skip: usize = args.get(3).and_then(|s| s.parse().ok()).unwrap_or(0);
			let mut k = 0;
			for line in text.lines() {
				let mut it = line.splitn(3, ' ');
				if it.next() != Some("CASE") {
					continue;
				}
				let id = it.next().unwrap();
				let case = it.next().unwrap_or("");
				k += 1;
				if k <= skip {
					continue;
				}
				exec(id, case);
			}
		},
		_ => {
			eprintln!("usage: <bin> gen SEED START COUNT | replay FILE [SKIP]");
			std::process::exit(2);
		},
	}
}
