//! Shared plumbing of the implementation-side harness: deterministic PRNG,
//! hex helpers, aligned buffers, and the CASE/OBS line protocol with
//! per-case isolation (catch_unwind for panics, a CPU-time timer (SIGPROF) for hangs; aborts and
//! stack overflows kill the process and are attributed by the orchestrator to
//! the case in flight).
pub mod pe;
use std::io::Write;
use std::panic;

pub struct Rng(pub u64);
impl Rng {
	pub fn for_case(seed: u64, index: u64) -> Rng {
		let mut r = Rng(seed ^ index.wrapping_mul(0x9E3779B97F4A7C15) ^ 0xD1B54A32D192ED03);
		r.next();
		r.next();
		r
	}
	pub fn next(&mut self) -> u64 {
		self.0 = self.0.wrapping_add(0x9E3779B97F4A7C15);
		let mut z = self.0;
		z = (z ^ (z >> 30)).wrapping_mul(0xBF58476D1CE4E5B9);
		z = (z ^ (z >> 27)).wrapping_mul(0x94D049BB133111EB);
		z ^ (z >> 31)
	}
	pub fn below(&mut self, n: u64) -> u64 {
		if n == 0 { 0 } else { self.next() % n }
	}
	pub fn range(&mut self, lo: u64, hi: u64) -> u64 {
		lo + self.below(hi - lo + 1)
	}
	pub fn chance(&mut self, num: u64, den: u64) -> bool {
		self.below(den) < num
	}
	pub fn pick<'a, T>(&mut self, xs: &'a [T]) -> &'a T {
		&xs[self.below(xs.len() as u64) as usize]
	}
	pub fn byte(&mut self) -> u8 {
		self.next() as u8
	}
}

pub fn hex(bytes: &[u8]) -> String {
	if bytes.is_empty() {
		return "-".to_string();
	}
	let mut s = String::with_capacity(bytes.len() * 2);
	for b in bytes {
		s.push_str(&format!("{:02x}", b));
	}
	s
}
pub fn unhex(s: &str) -> Vec<u8> {
	if s == "-" {
		return Vec::new();
	}
	let b = s.as_bytes();
	(0..b.len() / 2).map(|i| u8::from_str_radix(std::str::from_utf8(&b[2 * i..2 * i + 2]).unwrap(), 16).unwrap()).collect()
}
pub fn join<T: ToString>(xs: &[T], sep: &str) -> String {
	if xs.is_empty() {
		return "-".to_string();
	}
	xs.iter().map(|x| x.to_string()).collect::<Vec<_>>().join(sep)
}
pub fn split<'a>(s: &'a str, sep: char) -> Vec<&'a str> {
	if s == "-" || s.is_empty() { Vec::new() } else { s.split(sep).collect() }
}
pub fn field<'a>(case: &'a str, key: &str) -> &'a str {
	for tok in case.split(' ') {
		if let Some(rest) = tok.strip_prefix(key) {
			if let Some(v) = rest.strip_prefix('=') {
				return v;
			}
		}
	}
	panic!("harness: missing field {}", key)
}

/// A byte buffer whose start address is `off` modulo 16.
///
/// Placement is chosen by the environment variable `PVH_GUARD` (read once):
///  * unset / `none`: heap storage;
///  * `end`:   an `mmap`ed region whose following page is `PROT_NONE`; the buffer ends as close to that
///             page as the requested alignment class allows (exactly flush when `(off + len) % 16 == 0`);
///  * `start`: the preceding page is `PROT_NONE` and the buffer starts `off` bytes after it.
/// A read outside the buffer then faults (SIGSEGV) instead of silently reading heap slack.
pub struct Aligned {
	store: Vec<u128>,
	map: *mut u8,
	map_len: usize,
	ptr: *const u8,
	len: usize,
}
pub fn guard_mode() -> u8 {
	static MODE: std::sync::atomic::AtomicU8 = std::sync::atomic::AtomicU8::new(255);
	let m = MODE.load(std::sync::atomic::Ordering::Relaxed);
	if m != 255 {
		return m;
	}
	let v = match std::env::var("PVH_GUARD").ok().as_deref() {
		Some("end") => 1,
		Some("start") => 2,
		_ => 0,
	};
	MODE.store(v, std::sync::atomic::Ordering::Relaxed);
	v
}
impl Aligned {
	pub fn new(bytes: &[u8], off: usize) -> Aligned {
		let off = off % 16;
		let mode = guard_mode();
		if mode == 0 {
			let mut store = vec![0u128; (bytes.len() + off + 31) / 16 + 1];
			let p = store.as_mut_ptr() as *mut u8;
			unsafe { std::ptr::copy_nonoverlapping(bytes.as_ptr(), p.add(off), bytes.len()) };
			let ptr = unsafe { (store.as_ptr() as *const u8).add(off) };
			return Aligned { store, map: std::ptr::null_mut(), map_len: 0, ptr, len: bytes.len() };
		}
		const PAGE: usize = 4096;
		let data_pages = (bytes.len() + 16 + PAGE - 1) / PAGE + 1;
		let map_len = (data_pages + 2) * PAGE;
		unsafe {
			let map = libc::mmap(std::ptr::null_mut(), map_len, libc::PROT_READ | libc::PROT_WRITE, libc::MAP_PRIVATE | libc::MAP_ANONYMOUS, -1, 0) as *mut u8;
			assert!(map as isize != -1, "harness: mmap failed");
			let data_start = map as usize + PAGE;
			let data_end = data_start + data_pages * PAGE;
			let start = if mode == 1 {
				let s = data_end - bytes.len();
				s - ((s + 16 - off) % 16)
			}
			else {
				data_start + off
			};
			std::ptr::copy_nonoverlapping(bytes.as_ptr(), start as *mut u8, bytes.len());
			libc::mprotect(map as *mut libc::c_void, PAGE, libc::PROT_NONE);
			libc::mprotect((data_end) as *mut libc::c_void, PAGE, libc::PROT_NONE);
			Aligned { store: Vec::new(), map, map_len, ptr: start as *const u8, len: bytes.len() }
		}
	}
	pub fn bytes(&self) -> &[u8] {
		let _ = &self.store;
		unsafe { std::slice::from_raw_parts(self.ptr, self.len) }
	}
}
impl Drop for Aligned {
	fn drop(&mut self) {
		if !self.map.is_null() {
			unsafe { libc::munmap(self.map as *mut libc::c_void, self.map_len) };
		}
	}
}

fn set_cpu_budget(seconds: u32) {
	let tv = libc::timeval { tv_sec: seconds as libc::time_t, tv_usec: 0 };
	let zero = libc::timeval { tv_sec: 0, tv_usec: 0 };
	let it = libc::itimerval { it_interval: zero, it_value: tv };
	unsafe {
		libc::setitimer(libc::ITIMER_PROF, &it, std::ptr::null_mut());
		libc::alarm(seconds.saturating_mul(10));
	}
}

/// message and location of a caught panic (the location is recorded by the hook installed in harness_main)
pub fn panic_text(e: Box<dyn std::any::Any + Send>) -> String {
	let msg = if let Some(s) = e.downcast_ref::<String>() { s.clone() } else if let Some(s) = e.downcast_ref::<&str>() { s.to_string() } else { "?".to_string() };
	let at = LAST_PANIC_AT.with(|c| c.borrow().clone());
	format!("{} @{}", msg.replace('\n', " "), at)
}
static IN_CASE: std::sync::atomic::AtomicBool = std::sync::atomic::AtomicBool::new(false);
thread_local! { static LAST_PANIC_AT: std::cell::RefCell<String> = std::cell::RefCell::new(String::new()); }

/// Runs the harness protocol. `gen(rng, index)` yields "kind k=v ..."; `run(case)` yields the observation.
pub fn harness_main(gen: fn(&mut Rng, u64) -> String, run: fn(&str) -> String) {
	let args: Vec<String> = std::env::args().collect();
	panic::set_hook(Box::new(|info| {
		// a panic outside a case (in the generator or the plumbing) is a bug of the harness itself: say so on stderr
		if !IN_CASE.load(std::sync::atomic::Ordering::Relaxed) {
			eprintln!("harness bug: panic outside a case: {}", info);
		}
		if let Some(l) = info.location() {
			LAST_PANIC_AT.with(|c| *c.borrow_mut() = format!("{}:{}", l.file().rsplit("/src/").next().unwrap_or(l.file()), l.line()));
		}
	}));
	let out = std::io::stdout();
	let budget: u32 = std::env::var("PVH_CASE_SECONDS").ok().and_then(|s| s.parse().ok()).unwrap_or(10);
	let exec = |id: &str, case: &str| {
		{
			let mut o = out.lock();
			writeln!(o, "CASE {} {}", id, case).unwrap();
			o.flush().unwrap();
		}
		// CPU-time budget (ITIMER_PROF -> SIGPROF), so that a loaded machine does not turn a slow case into a hang;
		// a wall-clock alarm at ten times the budget remains as a backstop for a case that blocks without using CPU
		set_cpu_budget(budget);
		let case_owned = case.to_string();
		IN_CASE.store(true, std::sync::atomic::Ordering::Relaxed);
		let r = panic::catch_unwind(move || run(&case_owned));
		IN_CASE.store(false, std::sync::atomic::Ordering::Relaxed);
		set_cpu_budget(0);
		let obs = match r {
			Ok(s) => s,
			Err(e) => {
				format!("!panic {}", panic_text(e))
			},
		};
		// an observation far larger than any input can justify (cases are at most a few hundred KiB, the largest legitimate
		// rows - JSON texts - are cut at 400 KB by their harness) is itself the finding: an iterator or a serializer produced
		// more items than its input bounds (seed C03-19 filled the checker's memory with 1 GB lines before this cap)
		let obs = if obs.len() > 32 << 20 { format!("!panic harness: more output than the input bounds: an observation of {} bytes for a case of {} bytes", obs.len(), case.len()) } else { obs };
		let mut o = out.lock();
		writeln!(o, "OBS {} {}", id, obs).unwrap();
		o.flush().unwrap();
	};
	match args.get(1).map(|s| s.as_str()) {
		Some("gen") => {
			let seed: u64 = args[2].parse().unwrap();
			let start: u64 = args[3].parse().unwrap();
			let count: u64 = args[4].parse().unwrap();
			for i in start..start + count {
				let mut rng = Rng::for_case(seed, i);
				let case = gen(&mut rng, i);
				exec(&i.to_string(), &case);
			}
		},
		Some("replay") => {
			let text = std::fs::read_to_string(&args[2]).unwrap();
			let skip: usize = args.get(3).and_then(|s| s.parse().ok()).unwrap_or(0);
			let mut k = 0;
			for line in text.lines() {
				let mut it = line.splitn(3, ' ');
				if it.next() != Some("CASE") {
					continue;
				}
				let id = it.next().unwrap();
				let case = it.next().unwrap_or("");
				k += 1;
				if k <= skip {
					continue;
				}
				exec(id, case);
			}
		},
		_ => {
			eprintln!("usage: <bin> gen SEED START COUNT | replay FILE [SKIP]");
			std::process::exit(2);
		},
	}
}


/// CPU time consumed by the calling thread, in milliseconds (CLOCK_THREAD_CPUTIME_ID: not affected by how busy the
/// machine is).  Used for work assertions: a traversal of an input of L bytes whose work is bounded by L/8 steps
/// cannot burn hundreds of milliseconds of CPU.
pub fn cpu_ms() -> u64 {
	let mut ts = libc::timespec { tv_sec: 0, tv_nsec: 0 };
	unsafe { libc::clock_gettime(libc::CLOCK_THREAD_CPUTIME_ID, &mut ts) };
	ts.tv_sec as u64 * 1000 + ts.tv_nsec as u64 / 1_000_000
}
/// Panics with a message the C03 predicate recognises ("harness: more ...") when the work done since `t0` is out of
/// all proportion to the input length.
pub fn assert_work(what: &str, t0: u64, input_len: usize) {
	let spent = cpu_ms().saturating_sub(t0);
	let bound = 400 + input_len as u64 / 500;
	assert!(spent <= bound, "harness: more work than the input bounds: {} took {} ms of CPU for {} bytes (bound {} ms)", what, spent, input_len, bound);
}
