//! C17: compile-time `pattern!` vs run-time `pattern::parse` — implementation side.
//!
//! Translation validation of the part of the macro that runs inside rustc.  The literals of a whole block of cases
//! are written into ONE generated crate (path dependency on the working tree the harness itself is built against),
//!     const Pn: &[Atom] = pelite::pattern!(<literal n>);      // the macro
//!     const Sn: &str    = <literal n>;                         // rustc's own reading of the same literal
//! which is compiled with `cargo build --offline --message-format=json`.  Diagnostics are attributed to the const
//! whose source lines they point at; consts that do not compile are left out and the crate is built again, then run:
//! it prints every Pn, the bytes of every Sn, `pelite::pattern::parse(Sn)` and the real `format!("{:?}", ..)` of that
//! parse result (`dbg=`: the text the derived Debug prints, compared byte for byte with Model/Codegen.v and read back by
//! the extracted Spec/RustTokens.v).
//! A second stream (`dbg atoms=..`) takes hand-built atom vectors covering every variant with boundary field values:
//! the harness prints their real Debug text, and the expansion text built from it with the macro's format string is
//! compiled in the same generated crate as `const Pn: &[Atom] = { use ::pelite::pattern::Atom::*; &[..] };` - what
//! rustc sees after expanding `pattern!` - and compared with the vector.
//! Protocol: the usual `gen SEED START COUNT` / `replay FILE [SKIP]` with CASE/OBS lines.
//!
//! One build per check: shards of the same check (same parent process) share the table of a block through
//! `.cache/c17crate/run-<ppid>-<start>/`; the first shard to need a block builds it under a file lock.
use pvh::*;
use pelite::pattern::Atom;
use std::collections::HashMap;
use std::fs;
use std::io::Write;
use std::os::unix::io::AsRawFd;
use std::path::{Path, PathBuf};
use std::process::Command;

const BLOCK: u64 = 256;

// ---------------------------------------------------------------- generator
fn hexbyte(rng: &mut Rng) -> String {
	// real patterns repeat bytes (00 00, CC CC, 90 90): adjacent equal atoms must survive the round trip
	let b = if rng.chance(1, 3) { *rng.pick(&[0u8, 0, 0xff, 0xcc, 0x90]) } else { rng.byte() };
	if rng.chance(1, 2) { format!("{:02x}", b) } else { format!("{:02X}", b) }
}
fn ws(rng: &mut Rng) -> &'static str {
	match rng.below(12) { 0 => "", 1 => "\t", 2 => "\n", 3 => "  ", 4 => "\r\n", 5 => " \t ", _ => " " }
}
fn quoted(rng: &mut Rng) -> String {
	let n = rng.range(1, 5);
	let mut s = String::from("\"");
	for _ in 0..n {
		match rng.below(16) {
			0 => s.push('\\'),
			1 => s.push('\''),
			2 => s.push('\t'),
			3 => s.push('\n'),
			4 => s.push('\r'),
			5 => s.push('\0'),
			6 => s.push('é'),
			7 => s.push('漢'),
			8 => s.push('😀'),
			9 => s.push(' '),
			10 => s.push('{'),
			_ => s.push(rng.range(0x41, 0x7a) as u8 as char),
		}
	}
	s.push('"');
	s
}
fn gen_items(rng: &mut Rng, depth: u32, out: &mut String) {
	let n = rng.range(1, 5);
	out.push_str(&hexbyte(rng));
	for _ in 0..n {
		out.push_str(ws(rng));
		match rng.below(16) {
			0 | 1 | 2 => out.push_str(&hexbyte(rng)),
			3 => out.push_str(&quoted(rng)),
			4 => { for _ in 0..rng.range(1, 4) { out.push('?'); } },
			5 => out.push_str(&format!("[{}]", rng.pick(&[1u32, 2, 7, 255, 256, 300, 1000]))),
			6 => { let a = rng.below(5) as u32; out.push_str(&format!("[{}-{}]", a, a + rng.range(1, 300) as u32)); },
			7 => out.push('\''),
			8 => out.push_str(&format!("{}{}", if rng.chance(1, 2) { 'i' } else { 'u' }, rng.pick(&[1u8, 2, 4]))),
			9 => out.push('z'),
			10 => out.push_str(&format!("@{}", rng.pick(&['0', '2', '4', 'a', 'F']))),
			11 | 12 if depth < 3 => {
				out.push(*rng.pick(&['%', '$', '*']));
				if rng.chance(2, 3) { out.push('{'); gen_items(rng, depth + 1, out); out.push('}'); }
			},
			13 if depth < 3 => {
				out.push('(');
				let k = rng.range(2, 3);
				for j in 0..k { if j > 0 { out.push('|'); } gen_items(rng, depth + 1, out); }
				out.push(')');
			},
			_ => out.push_str(&hexbyte(rng)),
		}
	}
}
/// the *value* of the literal: a pattern string from the grammar, or a damaged one
fn gen_value(rng: &mut Rng) -> String {
	let mut s = String::new();
	if rng.chance(1, 50) { return (*rng.pick(&["", " ", "\t\n", "\"\"", "'"])).to_string(); }
	gen_items(rng, 0, &mut s);
	if rng.chance(1, 12) { s.insert_str(0, ws(rng)); }
	if rng.chance(1, 12) { s.push_str(ws(rng)); }
	if rng.chance(1, 5) {
		// a string the run-time parser (probably) rejects
		let chars: Vec<char> = s.chars().collect();
		let at = rng.below(chars.len() as u64 + 1) as usize;
		let mut v: Vec<char> = chars.clone();
		match rng.below(7) {
			0 => { v.truncate(at); },
			1 => { v.insert(at, *rng.pick(&['g', '~', ',', '#', 'x', ')', '}', '|', '{', '"'])); },
			2 => { if at < v.len() { v.remove(at); } },
			3 => { v.extend(" [5-5]".chars()); },
			4 => { v.extend(" @!".chars()); },
			5 => { v.extend(" i3".chars()); },
			_ => { v.extend(" 4".chars()); },
		}
		s = v.into_iter().collect();
	}
	if rng.chance(1, 40) {
		// long patterns: sub-pattern offsets and save slots at their limits
		s = match rng.below(3) {
			0 => format!("({} | 00)", "11 ".repeat(rng.range(250, 258) as usize)),
			1 => "' ".repeat(rng.range(250, 258) as usize),
			_ => format!("00 {}", "? ".repeat(rng.range(250, 260) as usize)) + "11",
		};
	}
	s
}
fn unicode_escape(rng: &mut Rng, c: char) -> String {
	let mut digits = format!("{:x}", c as u32);
	if rng.chance(1, 2) { digits = digits.to_uppercase(); }
	while digits.len() < 6 && rng.chance(1, 3) { digits.insert(0, '0'); }
	let mut out = String::from("\\u{");
	for d in digits.chars() { out.push(d); if rng.chance(1, 6) { out.push('_'); } }
	out.push('}');
	out
}
/// one way of writing `value` as the body of a cooked Rust string literal.
/// `unsupported`: use at least one spelling the macro's unescaper does not read (\0 \xHH \u{..} continuation)
fn spell(rng: &mut Rng, value: &str, unsupported: bool) -> String {
	let chars: Vec<char> = value.chars().collect();
	let forced = if unsupported && !chars.is_empty() { rng.below(chars.len() as u64) as usize } else { usize::MAX };
	let mut out = String::new();
	let mut used = false;
	for (i, &c) in chars.iter().enumerate() {
		let odd = unsupported && (i == forced || rng.chance(1, 10));
		if odd && rng.chance(1, 4) {
			out.push_str("\\\n");
			for _ in 0..rng.below(4) { out.push_str(*rng.pick(&[" ", "\t", "\n", "  "])); }
			used = true;
		}
		if c == '\0' { out.push_str(if rng.chance(1, 2) { "\\0" } else { "\\x00" }); used = true; continue; }
		if odd || (c == '\r' && unsupported && rng.chance(1, 2)) {
			if (c as u32) < 0x80 && rng.chance(1, 2) { out.push_str(&format!("\\x{:02x}", c as u32)); } else { out.push_str(&unicode_escape(rng, c)); }
			used = true;
			continue;
		}
		match c {
			'"' => out.push_str("\\\""),
			'\\' => out.push_str("\\\\"),
			'\t' => out.push_str(if rng.chance(1, 2) { "\t" } else { "\\t" }),
			'\n' => out.push_str(match rng.below(5) { 0 | 1 => "\n", 2 | 3 => "\\n", _ => "\r\n" }),
			'\r' => out.push_str("\\r"),
			'\'' => out.push_str(if rng.chance(1, 2) { "'" } else { "\\'" }),
			c => out.push(c),
		}
	}
	if unsupported && !used { out.push_str("\\\n  "); }
	out
}
fn gen(rng: &mut Rng, i: u64) -> String {
	if i == 0 { return "shared".to_string(); }
	let value = gen_value(rng);
	let has_nul = value.contains('\0');
	let src = match rng.below(20) {
		// literals Rust reads and the macro refuses to read (known class)
		0 | 1 | 2 => format!("\"{}\"", spell(rng, &value, true)),
		// not Rust string literals: the lexer reports them
		3 | 4 => {
			let body = spell(rng, &value, has_nul);
			let bad = *rng.pick(&["\\q", "\\x80", "\\xff", "\\xZ1", "\\u{110000}", "\\u{D800}", "\\u{dfff}", "\\u{}", "\\u{_41}", "\\u{1234567}", "\\u41", "\\u{41", "\\ ", "\\a", "\\N", "\\U{41}", "\r", "\\X41", "\\8",
				// boundary probes (some of them ARE Rust escapes: the spec must agree with rustc on both sides of each limit)
				"\\x7f", "\\x7F", "\\x00", "\\u{10FFFF}", "\\u{10ffff}", "\\u{D7FF}", "\\u{E000}", "\\u{0_0_0_0_4_1_}", "\\u{0000041}", "\\u{41_}", "\\u{4_1}", "\\u{ 41}", "\\x4g", "\\u{g}"]);
			let chars: Vec<char> = body.chars().collect();
			// insert between two items of the body (never inside an escape)
			let mut cut = vec![0usize];
			let mut k = 0;
			while k < chars.len() {
				if chars[k] == '\\' { k += if chars.get(k + 1) == Some(&'x') { 4 } else { 2 }; } else { k += 1; }
				if k <= chars.len() { cut.push(k); }
			}
			let at = *rng.pick(&cut);
			let mut s: String = chars[..at].iter().collect();
			s.push_str(bad);
			s.extend(chars[at..].iter());
			if rng.chance(1, 8) { format!("\"{}\\x4\"", spell(rng, &value, has_nul)) } else { format!("\"{}\"", s) }
		},
		// a suffix after the closing quote
		5 => format!("\"{}\"{}", spell(rng, &value, has_nul), rng.pick(&["x", "abc", "u8", "_s", "r", "i1", "z9"])),
		// other literal tokens
		6 => {
			let t = match rng.below(7) {
				0 => format!("r\"{}\"", value.replace('"', "'").replace('\r', " ").replace('\0', " ")),
				1 => format!("r#\"{}\"#", value.replace('\r', " ").replace('\0', " ").replace("\"#", "\" #")),
				2 => "b\"4D 5A\"".to_string(),
				3 => "42".to_string(),
				4 => "'4'".to_string(),
				5 => "4.5".to_string(),
				_ => "b'4'".to_string(),
			};
			return format!("tok src={}", hex(t.as_bytes()));
		},
		// the main stream: only spellings the macro reads
		_ => format!("\"{}\"", spell(rng, &value, has_nul)),
	};
	format!("lit src={}", hex(src.as_bytes()))
}

/// the variants of `pelite::pattern::Atom` (name, has a u8 field) - harness glue; the Spec's table is compared with
/// the enum's source text in case 0
const VARIANTS: &[(&str, bool)] = &[("Byte", true), ("Save", true), ("Push", true), ("Pop", false), ("Fuzzy", true), ("Skip", true), ("Back", true),
	("Rangext", true), ("Many", true), ("Jump1", false), ("Jump4", false), ("Ptr", false), ("Pir", true), ("VTypeName", false), ("Check", true),
	("Aligned", true), ("ReadI8", true), ("ReadU8", true), ("ReadI16", true), ("ReadU16", true), ("ReadI32", true), ("ReadU32", true), ("Zero", true),
	("Case", true), ("Break", true), ("Nop", false)];
fn mk_atom(name: &str, v: u8) -> Atom {
	use pelite::pattern::Atom::*;
	match name {
		"Byte" => Byte(v), "Save" => Save(v), "Push" => Push(v), "Pop" => Pop, "Fuzzy" => Fuzzy(v), "Skip" => Skip(v), "Back" => Back(v),
		"Rangext" => Rangext(v), "Many" => Many(v), "Jump1" => Jump1, "Jump4" => Jump4, "Ptr" => Ptr, "Pir" => Pir(v), "VTypeName" => VTypeName,
		"Check" => Check(v), "Aligned" => Aligned(v), "ReadI8" => ReadI8(v), "ReadU8" => ReadU8(v), "ReadI16" => ReadI16(v), "ReadU16" => ReadU16(v),
		"ReadI32" => ReadI32(v), "ReadU32" => ReadU32(v), "Zero" => Zero(v), "Case" => Case(v), "Break" => Break(v), "Nop" => Nop,
		_ => panic!("atom name {}", name),
	}
}
fn atoms_of_text(t: &str) -> Vec<Atom> {
	split(t, ',').iter().map(|a| {
		let mut it = a.splitn(2, ':');
		let name = it.next().unwrap();
		let v: u8 = it.next().map(|x| x.parse().expect("u8 field")).unwrap_or(0);
		mk_atom(name, v)
	}).collect()
}
/// field values at the limits of the type and of the decimal notation (1, 2, 3 digits; 0; the maximum)
const FIELD_VALUES: &[u8] = &[0, 1, 9, 10, 11, 99, 100, 101, 127, 128, 199, 200, 254, 255];
/// hand-built atom vectors: every variant, boundary field values - vectors the parser never returns included
/// (the empty one, Nop/Fuzzy/Back/Check/Pir/VTypeName, fields the parser does not produce)
fn gen_dbg(rng: &mut Rng, i: u64) -> String {
	let mut out: Vec<String> = Vec::new();
	let item = |rng: &mut Rng, k: usize| -> String {
		let (name, has) = VARIANTS[k];
		if has { format!("{}:{}", name, if rng.chance(3, 4) { *rng.pick(FIELD_VALUES) } else { rng.byte() }) } else { name.to_string() }
	};
	match (i / 16) % 4 {
		// every variant once, in source order / in a random rotation
		0 => { let r = rng.below(VARIANTS.len() as u64) as usize; for k in 0..VARIANTS.len() { out.push(item(rng, (k + r) % VARIANTS.len())); } },
		// one variant with all boundary values (tuple variants) or repeated (unit variants: adjacent equal elements)
		1 => {
			let k = rng.below(VARIANTS.len() as u64) as usize;
			let (name, has) = VARIANTS[k];
			if has { for v in FIELD_VALUES { out.push(format!("{}:{}", name, v)); } } else { for _ in 0..rng.range(1, 4) { out.push(name.to_string()); } }
		},
		// short vectors, the empty one and singletons included
		2 => { for _ in 0..rng.below(4) { let k = rng.below(VARIANTS.len() as u64) as usize; out.push(item(rng, k)); } },
		// random vectors
		_ => { for _ in 0..rng.range(1, 60) { let k = rng.below(VARIANTS.len() as u64) as usize; out.push(item(rng, k)); } },
	}
	format!("dbg atoms={}", if out.is_empty() { "-".to_string() } else { out.join(",") })
}

/// Case twins: every eighth case repeats the pattern of the case before it with the letter case flipped INSIDE the
/// quoted text sections only (hex digits, operators and everything else unchanged).  Both literals are compiled in
/// the same generated crate, so an expansion that depends on anything but the literal itself (state kept between
/// two invocations of the macro, a cache keyed on a normalised string) shows up as a difference from parse().
fn gen_at(seed: u64, i: u64) -> String {
	if i % 16 == 3 { return gen_dbg(&mut Rng::for_case(seed, i), i); }
	if i % 8 == 5 && i >= 2 {
		let value = gen_value(&mut Rng::for_case(seed, i - 1));
		let mut inq = false;
		let flipped: String = value.chars().map(|c| {
			if c == '"' { inq = !inq; c }
			else if inq && c.is_ascii_lowercase() { c.to_ascii_uppercase() }
			else if inq && c.is_ascii_uppercase() { c.to_ascii_lowercase() }
			else { c }
		}).collect();
		if flipped != value {
			let mut rng = Rng::for_case(seed, i);
			let has_nul = flipped.contains('\0');
			let src = format!("\"{}\"", spell(&mut rng, &flipped, has_nul));
			return format!("lit src={}", hex(src.as_bytes()));
		}
	}
	gen(&mut Rng::for_case(seed, i), i)
}

// ---------------------------------------------------------------- the shared parser source
fn harness_dir() -> PathBuf { PathBuf::from(env!("CARGO_MANIFEST_DIR")) }
fn repo_dir() -> String {
	let toml = fs::read_to_string(harness_dir().join("Cargo.toml")).unwrap();
	let line = toml.lines().find(|l| l.trim_start().starts_with("pelite")).expect("pelite dependency");
	let p = line.split("path").nth(1).unwrap();
	p.split('"').nth(1).unwrap().to_string()
}
fn strip_ws(s: &str) -> String { s.chars().filter(|c| !c.is_whitespace()).collect() }
fn run_shared() -> String {
	let repo = PathBuf::from(repo_dir());
	let rd = |p: &str| fs::read_to_string(repo.join(p)).unwrap_or_default();
	let lib = strip_ws(&rd("src/lib.rs"));
	let mac = strip_ws(&rd("src/proc-macros/lib.rs"));
	let cargo = strip_ws(&rd("Cargo.toml"));
	let path_attr = lib.contains("#[path=\"proc-macros/pattern.rs\"]pubmodpattern;");
	// the macro crate's `mod pattern;` has no #[path]: it is src/proc-macros/pattern.rs, the very file lib.rs names
	let mod_decl = mac.contains("modpattern;") && !mac.contains("#[path") && repo.join("src/proc-macros/pattern.rs").is_file();
	let single = !repo.join("src/pattern.rs").exists() && !repo.join("src/pattern").exists() && !repo.join("src/proc-macros/pattern").exists();
	let dep = cargo.contains("pelite-macros={path=\"src/proc-macros\"");
	let reexport = lib.contains("pubusepelite_macros::pattern;");
	// no conditional compilation inside the parser other than the std error impl and the tests
	let pat = rd("src/proc-macros/pattern.rs");
	let cfgs: Vec<String> = pat.lines().filter(|l| l.contains("#[cfg")).map(|l| strip_ws(l)).collect();
	let cfg_ok = cfgs.iter().all(|c| c == "#[cfg(feature=\"std\")]" || c == "#[cfg(test)]");
	let base = format!("path_attr={} mod_decl={} single_copy={} dep_path={} reexport={} cfg_neutral={}", path_attr as u8, mod_decl as u8, single as u8, dep as u8, reexport as u8, cfg_ok as u8);
	// ---- the code generation step, as source text ----
	// the one format!(..) of the macro crate: its format string (the contents of the literal, byte for byte), and that it
	// is applied to the parser's result and is the value of the macro: format!(<lit>, pattern).parse().unwrap() }
	let mac_src = rd("src/proc-macros/lib.rs");
	let fmts: Vec<&str> = mac_src.match_indices("format!(\"").map(|(k, m)| { let r = &mac_src[k + m.len()..]; &r[..r.find('"').unwrap_or(0)] }).collect();
	let fmt = if fmts.len() == 1 { hex(fmts[0].as_bytes()) } else { format!("!{}-format-calls", fmts.len()) };
	let call = fmts.len() == 1 && mac.contains(&format!("letpattern=matchpattern::parse(&string){{Ok(pattern)=>pattern,"))
		&& mac.contains(&format!("format!(\"{}\",pattern).parse().unwrap()}}fnparse_str_literal", strip_ws(fmts[0])));
	// the enum: derived Debug (no hand-written impl), and its variants with their field types, in source order
	let enum_at = pat.find("pub enum Atom {");
	let (derive, variants) = match enum_at {
		None => (false, "!no-enum".to_string()),
		Some(at) => {
			let attr = pat[..at].trim_end().lines().last().unwrap_or("");
			let derive = attr.trim_start().starts_with("#[derive(") && attr.contains("Debug") && !strip_ws(&pat).contains("Debugfor");
			let body = &pat[at + "pub enum Atom {".len()..];
			let body = &body[..body.find("\n}").unwrap_or(0)];
			let vs: Vec<String> = body.lines().map(|l| l.trim()).filter(|l| !l.is_empty() && !l.starts_with("//")).map(|l| {
				let l = l.trim_end_matches(',');
				match l.find('(') { Some(k) => format!("{}:{}", &l[..k], l[k + 1..].trim_end_matches(')')), None => l.to_string() }
			}).collect();
			(derive, vs.join(","))
		},
	};
	format!("{} fmt={} codegen_call={} debug_derived={} variants={}", base, fmt, call as u8, derive as u8, variants)
}

// ---------------------------------------------------------------- the generated crate
#[derive(Clone, Debug, Default)]
struct LitObs { mac: String, st: String, parse: String, dbg: String, solo: String }
impl LitObs {
	fn text(&self) -> String { format!("macro={} str={} parse={} dbg={} solo={}", self.mac, self.st, self.parse, self.dbg, self.solo) }
}
/// `expr`: the text is not a literal handed to the macro but an expansion text put where the macro call would be
/// (`dbg` cases); `dbg` = the real Debug text it was built from
#[derive(Clone, Default)]
struct Lit { src: String, tok_only: bool, expr: bool, dbg: String }

fn cache_dir() -> PathBuf { harness_dir().parent().unwrap().join(".cache").join("c17crate") }
fn target_dir() -> PathBuf {
	let cfg = fs::read_to_string(harness_dir().join(".cargo/config.toml")).unwrap_or_default();
	for l in cfg.lines() {
		if l.trim_start().starts_with("target-dir") { return PathBuf::from(l.split('"').nth(1).unwrap()); }
	}
	harness_dir().join("target")
}
fn write_if_changed(p: &Path, text: &str) {
	if fs::read_to_string(p).ok().as_deref() != Some(text) { fs::write(p, text).unwrap(); }
}
fn setup_crate(dir: &Path, name: &str) {
	fs::create_dir_all(dir.join("src")).unwrap();
	fs::create_dir_all(dir.join(".cargo")).unwrap();
	let htoml = fs::read_to_string(harness_dir().join("Cargo.toml")).unwrap();
	let dep = htoml.lines().find(|l| l.trim_start().starts_with("pelite")).unwrap();
	let profile: String = match htoml.find("[profile.dev]") {
		Some(i) => { let rest = &htoml[i..]; let end = rest[1..].find("\n[").map(|e| e + 1).unwrap_or(rest.len()); rest[..end].to_string() },
		None => String::new(),
	};
	write_if_changed(&dir.join("Cargo.toml"), &format!("[package]\nname = \"{}\"\nversion = \"0.1.0\"\nedition = \"2018\"\n\n[workspace]\n\n[dependencies]\n{}\n\n{}\n", name, dep, profile));
	let cfg = fs::read_to_string(harness_dir().join(".cargo/config.toml")).unwrap_or_default();
	write_if_changed(&dir.join(".cargo/config.toml"), &cfg);
	if !dir.join("Cargo.lock").exists() {
		let _ = fs::copy(harness_dir().join("Cargo.lock"), dir.join("Cargo.lock"));
	}
}

const PRELUDE: &str = "#![allow(unused, dead_code, non_upper_case_globals)]\nuse pelite::pattern::Atom;\n";
const EPILOGUE: &str = r#"
fn atoms_text(a: &[Atom]) -> String {
	if a.is_empty() { return "-".to_string(); }
	a.iter().map(atom_text).collect::<Vec<_>>().join(",")
}
fn hex(b: &[u8]) -> String { if b.is_empty() { "-".to_string() } else { b.iter().map(|x| format!("{:02x}", x)).collect() } }
fn show_p(n: usize, a: &[Atom]) { println!("P {} ok:{}", n, atoms_text(a)); }
fn show_s(n: usize, s: &str) {
	println!("S {} {}", n, hex(s.as_bytes()));
	match pelite::pattern::parse(s) {
		Ok(a) => { println!("R {} ok:{}", n, atoms_text(&a)); println!("D {} {}", n, hex(format!("{:?}", a).as_bytes())); },
		Err(e) => {
			let d = format!("{:?}", e);
			let kind = d.split("kind: ").nth(1).unwrap().split(',').next().unwrap().to_string();
			let pos = d.split("position: ").nth(1).unwrap().trim_end_matches(" }").to_string();
			println!("R {} err:{}@{}", n, kind, pos);
		},
	}
}
"#;

/// the generated crate shows an atom by matching on it - not through its Debug impl, which is under test
fn epilogue() -> String {
	let arms: String = VARIANTS.iter().map(|&(n, has)| if has { format!("\t\tAtom::{}(x) => format!(\"{}:{{}}\", x),\n", n, n) } else { format!("\t\tAtom::{} => \"{}\".to_string(),\n", n, n) }).collect();
	format!("{}fn atom_text(a: &Atom) -> String {{\n\tmatch *a {{\n{}\t}}\n}}\n", EPILOGUE, arms)
}

struct Diag { line: usize, msg: String, help: String }

fn cargo_build(dir: &Path) -> (bool, Vec<Diag>, String) {
	let out = Command::new("timeout").args(&["900", "cargo", "build", "--offline", "--message-format=json"]).current_dir(dir)
		.env("CARGO_NET_OFFLINE", "true").env_remove("RUSTFLAGS").output().expect("cargo");
	let text = String::from_utf8_lossy(&out.stdout).to_string();
	let mut diags = Vec::new();
	for l in text.lines() {
		let v: serde_json::Value = match serde_json::from_str(l) { Ok(v) => v, Err(_) => continue };
		if v["reason"] != "compiler-message" { continue; }
		let m = &v["message"];
		if m["level"] != "error" { continue; }
		let msg = m["message"].as_str().unwrap_or("").to_string();
		if msg.starts_with("aborting due to") || msg.starts_with("could not compile") { continue; }
		let mut line = 0usize;
		if let Some(spans) = m["spans"].as_array() {
			for s in spans {
				if s["file_name"].as_str().map(|f| f.ends_with("main.rs")).unwrap_or(false) {
					let l0 = s["line_start"].as_u64().unwrap_or(0) as usize;
					if s["is_primary"].as_bool().unwrap_or(false) || line == 0 { line = l0; }
				}
			}
		}
		let mut help = String::new();
		if let Some(ch) = m["children"].as_array() {
			for c in ch {
				let t = c["message"].as_str().unwrap_or("");
				if let Some(r) = t.strip_prefix("message: ") { help = r.to_string(); }
			}
		}
		diags.push(Diag { line, msg, help });
	}
	(out.status.success(), diags, String::from_utf8_lossy(&out.stderr).to_string())
}

/// the panic message of the proc macro -> the canonical token the model prints
fn classify_panic(help: &str) -> String {
	const KINDS: &[(&str, &str)] = &[("unpaired hex digit", "UnpairedHexDigit"), ("unknown character", "UnknownChar"), ("many range exceeded", "ManyOverflow"),
		("many bounds nonsensical", "ManyRange"), ("many invalid syntax", "ManyInvalid"), ("save store overflow", "SaveOverflow"), ("stack unbalanced", "StackError"),
		("stack must follow jump", "StackInvalid"), ("string missing end quote", "UnclosedQuote"), ("aligned operand error", "AlignedOperand"),
		("read operand error", "ReadOperand"), ("sub pattern error", "SubPattern"), ("sub pattern too large", "SubOverflow")];
	if let Some(r) = help.strip_prefix("invalid pattern syntax: Syntax Error @") {
		let pos = r.split(':').next().unwrap_or("?");
		let text = r.splitn(2, ": ").nth(1).unwrap_or("").trim_end_matches('.');
		let kind = KINDS.iter().find(|(t, _)| *t == text).map(|(_, k)| *k).unwrap_or("?");
		return format!("nocompile:pattern:{}@{}", kind, pos);
	}
	if help.starts_with("expected string literal starting with") { return "nocompile:literal:noquote".to_string(); }
	if help.starts_with("unicode escape sequence not supported") { return "nocompile:literal:unicode".to_string(); }
	if let Some(r) = help.strip_prefix("unknown escape sequence: ") {
		return format!("nocompile:literal:unknown:{}", r.chars().next().map(|c| c as u32).unwrap_or(0));
	}
	if help.starts_with("unexpected end of string literal") { return "nocompile:literal:unterminated".to_string(); }
	if help.contains("after the closing") { return "nocompile:literal:suffix".to_string(); }
	if help.starts_with("expected a single string literal") { return "nocompile:tokens".to_string(); }
	if help.is_empty() { return "nocompile:literal:trailing-backslash".to_string(); }
	format!("nocompile:panic:{}", help.replace(' ', "_"))
}

/// Is the text one literal token that cannot swallow the lines after it?  (cooked string with optional suffix, or one of
/// the other literal shapes the generator emits.)  Anything else is compiled in a crate of its own.
fn line_safe(l: &Lit) -> bool {
	if l.expr { return !l.src.contains('\n') && !l.src.contains('"'); }
	let c: Vec<char> = l.src.chars().collect();
	let ident_tail = |k: usize| c[k..].iter().all(|x| x.is_ascii_alphanumeric() || *x == '_') && (k == c.len() || !c[k].is_ascii_digit());
	if l.tok_only {
		if c.iter().all(|x| x.is_ascii_digit() || *x == '.') && !c.is_empty() && c[0] != '.' && *c.last().unwrap() != '.' { return true; }
		if l.src.starts_with("r#\"") { return l.src.ends_with("\"#") && !l.src[3..l.src.len() - 2].contains("\"#") && l.src.len() >= 5; }
		if l.src.starts_with("r\"") { return l.src.ends_with('"') && l.src.len() >= 3 && !l.src[2..l.src.len() - 1].contains('"'); }
		if l.src.starts_with("b\"") { return l.src.ends_with('"') && l.src.len() >= 3 && !l.src[2..l.src.len() - 1].contains('"') && !l.src.contains('\\'); }
		return l.src == "'4'" || l.src == "b'4'";
	}
	if c.first() != Some(&'"') { return false; }
	let mut k = 1;
	while k < c.len() {
		if c[k] == '\\' { k += 2; continue; }
		if c[k] == '"' { return ident_tail(k + 1); }
		k += 1;
	}
	false
}

/// Builds one crate for `lits[idx]` for idx in `which`; fills `res`.
fn build_set(dir: &Path, name: &str, lits: &[Lit], which: &[usize], res: &mut Vec<LitObs>, log: &mut Vec<String>) {
	setup_crate(dir, name);
	// include[i] = (P included, S included)
	let mut inc: HashMap<usize, (bool, bool)> = which.iter().map(|&i| (i, (true, !lits[i].tok_only))).collect();
	for &i in which { res[i] = LitObs { mac: "?".into(), st: if lits[i].tok_only { "-".into() } else { "?".into() }, parse: "-".into(), dbg: "-".into(), solo: "-".into() }; }
	for pass in 0..5 {
		// write main.rs, remembering the line range of every const
		let mut text = String::from(PRELUDE);
		let mut line = text.matches('\n').count() + 1;
		let mut ranges: Vec<(usize, usize, usize, char)> = Vec::new(); // (first line, last line, idx, 'P'/'S')
		let mut calls = String::new();
		for &i in which {
			let (p, s) = inc[&i];
			if p {
				let t = if lits[i].expr { format!("const P{}: &[Atom] = {};\n", i, lits[i].src) } else { format!("const P{}: &[Atom] = pelite::pattern!({});\n", i, lits[i].src) };
				let n = t.matches('\n').count();
				ranges.push((line, line + n - 1, i, 'P'));
				line += n;
				text.push_str(&t);
				calls.push_str(&format!("\tshow_p({}, P{});\n", i, i));
			}
			if s {
				let t = format!("const S{}: &str = {};\n", i, lits[i].src);
				let n = t.matches('\n').count();
				ranges.push((line, line + n - 1, i, 'S'));
				line += n;
				text.push_str(&t);
				calls.push_str(&format!("\tshow_s({}, S{});\n", i, i));
			}
		}
		text.push_str(&epilogue());
		text.push_str(&format!("fn main() {{\n{}}}\n", calls));
		if ranges.is_empty() { return; }
		fs::write(dir.join("src/main.rs"), &text).unwrap();
		let t0 = std::time::Instant::now();
		let (ok, diags, stderr) = cargo_build(dir);
		log.push(format!("{} pass {}: {} consts, ok={} errors={} in {:.1}s", name, pass, ranges.len(), ok, diags.len(), t0.elapsed().as_secs_f32()));
		if ok {
			let exe = target_dir().join("debug").join(name);
			let out = Command::new(&exe).output().expect("run generated crate");
			for l in String::from_utf8_lossy(&out.stdout).lines() {
				let mut it = l.splitn(3, ' ');
				let (k, n, v) = (it.next().unwrap_or(""), it.next().unwrap_or(""), it.next().unwrap_or(""));
				let n: usize = match n.parse() { Ok(n) => n, Err(_) => continue };
				match k { "P" => res[n].mac = v.to_string(), "S" => res[n].st = v.to_string(), "R" => res[n].parse = v.to_string(), "D" => res[n].dbg = v.to_string(), _ => {} }
			}
			if !out.status.success() {
				for &i in which { if res[i].mac == "?" { res[i].mac = "!generated-crate-crashed".into(); } }
			}
			return;
		}
		let mut progress = false;
		let mut unattributed: Vec<String> = Vec::new();
		for d in &diags {
			match ranges.iter().find(|r| r.0 <= d.line && d.line <= r.1) {
				Some(&(_, _, i, 'P')) => {
					let e = inc.get_mut(&i).unwrap();
					e.0 = false;
					progress = true;
					let class = if d.msg == "proc macro panicked" { classify_panic(&d.help) } else { "nocompile:rustc".to_string() };
					// a proc macro panic is more specific than a lexer error on the same line
					if res[i].mac == "?" || (res[i].mac == "nocompile:rustc" && class != "nocompile:rustc") { res[i].mac = class; }
				},
				Some(&(_, _, i, _)) => {
					inc.get_mut(&i).unwrap().1 = false;
					progress = true;
					res[i].st = "nocompile".into();
				},
				None => unattributed.push(format!("{}:{}", d.line, d.msg)),
			}
		}
		if !progress {
			let why = if unattributed.is_empty() { stderr.lines().last().unwrap_or("?").to_string() } else { unattributed[0].clone() };
			for &i in which {
				if res[i].mac == "?" { res[i].mac = format!("!build-failed:{}", why.replace(' ', "_")); }
				if res[i].st == "?" { res[i].st = "!build-failed".into(); }
			}
			return;
		}
	}
	for &i in which { if res[i].mac == "?" { res[i].mac = "!build-did-not-converge".into(); } }
}

/// Observes all literals: one crate for the line-safe ones, one crate each for the others, and `solo` one-by-one
/// confirmations that a refused literal does not compile on its own.
fn observe(lits: &[Lit], solo: usize, log: &mut Vec<String>) -> Vec<LitObs> {
	let base = cache_dir();
	let mut res = vec![LitObs::default(); lits.len()];
	let safe: Vec<usize> = (0..lits.len()).filter(|&i| line_safe(&lits[i])).collect();
	if !safe.is_empty() { build_set(&base.join("batch"), "c17batch", lits, &safe, &mut res, log); }
	for i in 0..lits.len() {
		if !line_safe(&lits[i]) {
			build_set(&base.join("one"), "c17one", lits, &[i], &mut res, log);
			// a broken token swallows both consts: tell which of the two is to blame by building them apart
			if res[i].mac.starts_with("!build-failed") { res[i].mac = "nocompile:rustc".into(); res[i].st = "nocompile".into(); }
		}
	}
	// one by one: the first `solo` refused literals are compiled alone, macro call only
	let mut done = 0;
	for &i in &safe {
		if done >= solo { break; }
		if !res[i].mac.starts_with("nocompile") { continue; }
		if lits[i].expr { continue; }
		let one = [Lit { src: lits[i].src.clone(), tok_only: true, ..Default::default() }];
		let mut r1 = vec![LitObs::default(); 1];
		build_set(&base.join("one"), "c17one", &one, &[0], &mut r1, log);
		res[i].solo = if r1[0].mac == res[i].mac { "1".into() } else { format!("0:{}", r1[0].mac) };
		done += 1;
	}
	res
}

// ---------------------------------------------------------------- per-check cache
struct Flock(fs::File);
impl Flock {
	fn new(p: &Path) -> Flock {
		let f = fs::OpenOptions::new().create(true).write(true).open(p).unwrap();
		unsafe { libc::flock(f.as_raw_fd(), libc::LOCK_EX) };
		Flock(f)
	}
}
impl Drop for Flock { fn drop(&mut self) { unsafe { libc::flock(self.0.as_raw_fd(), libc::LOCK_UN) }; } }

fn run_dir() -> PathBuf {
	let ppid = unsafe { libc::getppid() };
	let stat = fs::read_to_string(format!("/proc/{}/stat", ppid)).unwrap_or_default();
	// field 22 (starttime) counted after the closing parenthesis of the command name
	let start = stat.rsplit(')').next().unwrap_or("").split_whitespace().nth(19).unwrap_or("0").to_string();
	let d = cache_dir().join(format!("run-{}-{}", ppid, start));
	fs::create_dir_all(&d).unwrap();
	d
}
fn sweep_old_runs() {
	if let Ok(rd) = fs::read_dir(cache_dir()) {
		for e in rd.flatten() {
			let n = e.file_name().to_string_lossy().to_string();
			if !n.starts_with("run-") { continue; }
			let pid = n.split('-').nth(1).unwrap_or("0");
			if !Path::new(&format!("/proc/{}", pid)).exists() { let _ = fs::remove_dir_all(e.path()); }
		}
	}
}
fn fnv(s: &str) -> u64 {
	let mut h: u64 = 0xcbf29ce484222325;
	for b in s.bytes() { h ^= b as u64; h = h.wrapping_mul(0x100000001b3); }
	h
}
fn parse_case(case: &str) -> Option<Lit> {
	let kind = case.split(' ').next().unwrap_or("");
	if kind == "dbg" {
		// the real Debug text of the vector, and the text the macro would return for it (the macro's format string)
		let atoms = std::panic::catch_unwind(|| atoms_of_text(field(case, "atoms"))).ok()?;
		let dbg = format!("{:?}", atoms);
		let src = format!("{{ use ::pelite::pattern::Atom::*; &{} }}", dbg);
		return Some(Lit { src, tok_only: true, expr: true, dbg });
	}
	if kind != "lit" && kind != "tok" { return None; }
	let bytes = unhex(field(case, "src"));
	let src = String::from_utf8(bytes).ok()?;
	Some(Lit { src, tok_only: kind == "tok", ..Default::default() })
}
fn solo_budget() -> usize { std::env::var("C17_SOLO").ok().and_then(|s| s.parse().ok()).unwrap_or(5) }

/// observations for a list of case texts, through the per-check cache (keyed by the case text)
fn observe_cases(cases: &[String], solo: usize) -> Vec<String> {
	fs::create_dir_all(cache_dir()).unwrap();
	let _g = Flock::new(&cache_dir().join("lock"));
	let rd = run_dir();
	let key = |c: &str| rd.join(format!("lit-{:016x}.obs", fnv(c)));
	let mut todo: Vec<usize> = Vec::new();
	let mut out: Vec<Option<String>> = cases.iter().map(|c| {
		if c.split(' ').next() == Some("shared") { return Some(run_shared()); }
		match parse_case(c) { None => Some("!bad-case".to_string()), Some(_) => fs::read_to_string(key(c)).ok() }
	}).collect();
	for (i, o) in out.iter().enumerate() { if o.is_none() { todo.push(i); } }
	if !todo.is_empty() {
		sweep_old_runs();
		let lits: Vec<Lit> = todo.iter().map(|&i| parse_case(&cases[i]).unwrap()).collect();
		let mut log = Vec::new();
		let res = observe(&lits, solo, &mut log);
		let mut lf = fs::OpenOptions::new().create(true).append(true).open(rd.join("build.log")).unwrap();
		for l in &log { let _ = writeln!(lf, "{}", l); }
		for (k, &i) in todo.iter().enumerate() {
			let t = if lits[k].expr { format!("dbg={} const={}", hex(lits[k].dbg.as_bytes()), res[k].mac) } else { res[k].text() };
			fs::write(key(&cases[i]), &t).unwrap();
			out[i] = Some(t);
		}
	}
	out.into_iter().map(|o| o.unwrap()).collect()
}

fn emit(id: &str, case: &str, obs: &str) {
	let o = std::io::stdout();
	let mut o = o.lock();
	writeln!(o, "CASE {} {}", id, case).unwrap();
	writeln!(o, "OBS {} {}", id, obs).unwrap();
	o.flush().unwrap();
}

fn main() {
	let args: Vec<String> = std::env::args().collect();
	match args.get(1).map(|s| s.as_str()) {
		Some("gen") => {
			let seed: u64 = args[2].parse().unwrap();
			let start: u64 = args[3].parse().unwrap();
			let count: u64 = args[4].parse().unwrap();
			if count == 0 { return; }
			// whole blocks are built at once so that all shards of a check share one build
			let (b0, b1) = (start / BLOCK, (start + count - 1) / BLOCK);
			let mut table: HashMap<u64, String> = HashMap::new();
			for b in b0..=b1 {
				let idx: Vec<u64> = (b * BLOCK..(b + 1) * BLOCK).collect();
				let cases: Vec<String> = idx.iter().map(|&i| gen_at(seed, i)).collect();
				let obs = observe_cases(&cases, solo_budget());
				for (k, &i) in idx.iter().enumerate() { if i >= start && i < start + count { table.insert(i, format!("{}\u{1}{}", cases[k], obs[k])); } }
			}
			for i in start..start + count {
				let t = &table[&i];
				let mut it = t.split('\u{1}');
				let (c, o) = (it.next().unwrap(), it.next().unwrap());
				emit(&i.to_string(), c, o);
			}
		},
		Some("replay") => {
			let text = fs::read_to_string(&args[2]).unwrap();
			let skip: usize = args.get(3).and_then(|s| s.parse().ok()).unwrap_or(0);
			let mut mine: Vec<(String, String)> = Vec::new();
			for line in text.lines() {
				let mut it = line.splitn(3, ' ');
				if it.next() != Some("CASE") { continue; }
				let id = it.next().unwrap().to_string();
				mine.push((id, it.next().unwrap_or("").to_string()));
			}
			let mine: Vec<(String, String)> = mine.into_iter().skip(skip).collect();
			// the other files of a corpus directory are built in the same crate (their results are cached for the check)
			let mut all: Vec<String> = mine.iter().map(|m| m.1.clone()).collect();
			let p = Path::new(&args[2]);
			if p.to_string_lossy().contains("/corpus/") {
				if let Some(dir) = p.parent() {
					if let Ok(rd) = fs::read_dir(dir) {
						for e in rd.flatten() {
							if e.path().extension().map(|x| x == "case").unwrap_or(false) && e.path() != p {
								for l in fs::read_to_string(e.path()).unwrap_or_default().lines() {
									let mut it = l.splitn(3, ' ');
									if it.next() == Some("CASE") { it.next(); if let Some(c) = it.next() { if all.len() < 400 { all.push(c.to_string()); } } }
								}
							}
						}
					}
				}
			}
			let obs = observe_cases(&all, solo_budget());
			for (k, (id, c)) in mine.iter().enumerate() { emit(id, c, &obs[k]); }
		},
		_ => {
			eprintln!("usage: macrogen gen SEED START COUNT | replay FILE [SKIP]");
			std::process::exit(2);
		},
	}
}
