//! C11 (and the exec part of C02/C03): pattern parser and interpreter — implementation side.
//! The generator is also the semantic reference: it synthesises a byte layout that satisfies the
//! documented meaning of the pattern it prints, together with the captures that meaning implies.
use pelite::pattern::{self, Atom};
use pelite::pe32;
use pelite::pe64;
use pvh::pe::*;
use pvh::*;

// ---------------------------------------------------------------- pattern AST of the documented syntax
#[derive(Clone, Debug)]
enum Item {
	Byte(u8),
	Str(Vec<u8>),
	Wild(u32),          // ? x n
	SkipN(u32),         // [n]
	Range(u32, u32),    // [a-b], a <= k < b
	Save,               // '
	Read(bool, u8),     // i/u 1,2,4
	Zero,               // z
	Align(u8),          // @k
	Jump(u8, Vec<Item>, bool), // % $ * with optional {sub}
	Alt(Vec<Vec<Item>>),
}

fn show(items: &[Item], out: &mut String, rng: &mut Rng) {
	for it in items {
		if rng.chance(2, 3) { out.push(if rng.chance(7, 8) { ' ' } else { *rng.pick(&['\t', '\n', '\r']) }); }
		match it {
			Item::Byte(b) => out.push_str(&match rng.below(4) { 0 => format!("{:02x}", b), 1 => format!("{:02X}", b),
				2 => format!("{:x}{:X}", b >> 4, b & 15), _ => format!("{:X}{:x}", b >> 4, b & 15) }),
			Item::Str(s) => { out.push('"'); out.push_str(std::str::from_utf8(s).unwrap()); out.push('"'); },
			Item::Wild(n) => for _ in 0..*n { out.push('?'); },
			Item::SkipN(n) => { let z = if rng.chance(1, 8) { "0".repeat(rng.range(1, 3) as usize) } else { String::new() }; out.push_str(&format!("[{}{}]", z, n)) },
			Item::Range(a, b) => { let z = if rng.chance(1, 8) { "0" } else { "" }; out.push_str(&format!("[{}{}-{}{}]", z, a, z, b)) },
			Item::Save => out.push('\''),
			Item::Read(s, n) => out.push_str(&format!("{}{}", if *s { 'i' } else { 'u' }, n)),
			Item::Zero => out.push('z'),
			Item::Align(k) => out.push_str(&format!("@{}", if *k < 10 { (b'0' + k) as char } else if rng.chance(1, 2) { (b'a' + k - 10) as char } else { (b'A' + k - 10) as char })),
			Item::Jump(k, sub, braces) => {
				out.push(match k { 1 => '%', 4 => '$', _ => '*' });
				if *braces {
					// reading decision R1 of Spec/PatRead.v: whitespace and items that denote nothing may stand between a jump symbol and its brace
					if rng.chance(1, 6) { out.push_str(*rng.pick(&[" ", "\"\"", "[0]", " \"\" ", "\t[00]\n", "\"\"[0]"])); }
					out.push('{'); show(sub, out, rng); out.push('}');
				} else { show(sub, out, rng); }
			},
			Item::Alt(alts) => {
				out.push('(');
				for (i, a) in alts.iter().enumerate() { if i > 0 { out.push('|'); } show(a, out, rng); }
				out.push(')');
			},
		}
	}
}

/// the canonical spelling of Spec/PatSyntax.v `show`: two-digit uppercase hex, decimal numbers, every item inside braces and
/// parentheses followed by one space, single spaces between top-level items
fn show_canon_item(it: &Item, out: &mut String) {
	match it {
		Item::Byte(b) => out.push_str(&format!("{:02X}", b)),
		Item::Str(s) => { out.push('"'); out.push_str(std::str::from_utf8(s).unwrap()); out.push('"'); },
		Item::Wild(n) => for _ in 0..*n { out.push('?'); },
		Item::SkipN(n) => out.push_str(&format!("[{}]", n)),
		Item::Range(a, b) => out.push_str(&format!("[{}-{}]", a, b)),
		Item::Save => out.push('\''),
		Item::Read(s, n) => out.push_str(&format!("{}{}", if *s { 'i' } else { 'u' }, n)),
		Item::Zero => out.push('z'),
		Item::Align(k) => out.push_str(&format!("@{}", if *k < 10 { (b'0' + k) as char } else { (b'A' + k - 10) as char })),
		Item::Jump(k, sub, braces) => {
			out.push(match k { 1 => '%', 4 => '$', _ => '*' });
			if *braces { out.push_str(" { "); for x in sub { show_canon_item(x, out); out.push(' '); } out.push('}'); }
			else { for x in sub { out.push(' '); show_canon_item(x, out); } }
		},
		Item::Alt(alts) => {
			out.push_str("( ");
			for (i, a) in alts.iter().enumerate() { if i > 0 { out.push_str("| "); } for x in a { show_canon_item(x, out); out.push(' '); } }
			out.push(')');
		},
	}
}
fn show_canon(items: &[Item]) -> String {
	let mut out = String::new();
	for (i, it) in items.iter().enumerate() { if i > 0 { out.push(' '); } show_canon_item(it, &mut out); }
	out
}
/// the AST as a token list for the driver (which rebuilds the Coq `item list` from it)
fn ast_tokens(items: &[Item], out: &mut Vec<String>) {
	for it in items {
		match it {
			Item::Byte(b) => out.push(format!("B:{}", b)),
			Item::Str(s) => out.push(format!("S:{}", hex(s))),
			Item::Wild(n) => out.push(format!("W:{}", n)),
			Item::SkipN(n) => out.push(format!("K:{}", n)),
			Item::Range(a, b) => out.push(format!("R:{}:{}", a, b)),
			Item::Save => out.push("Q".to_string()),
			Item::Read(s, n) => out.push(format!("I:{}", match (s, n) { (true, 1) => 0, (false, 1) => 1, (true, 2) => 2, (false, 2) => 3, (true, _) => 4, (false, _) => 5 })),
			Item::Zero => out.push("Z".to_string()),
			Item::Align(k) => out.push(format!("A:{}", k)),
			Item::Jump(k, sub, braces) => {
				let j = match k { 1 => 0, 4 => 1, _ => 2 };
				if *braces { out.push(format!("U:{}", j)); ast_tokens(sub, out); out.push("V".to_string()); }
				else { out.push(format!("J:{}", j)); ast_tokens(sub, out); }
			},
			Item::Alt(alts) => {
				out.push("P".to_string());
				for (i, a) in alts.iter().enumerate() { if i > 0 { out.push("O".to_string()); } ast_tokens(a, out); }
				out.push("C".to_string());
			},
		}
	}
}

fn gen_flat(rng: &mut Rng, n: usize, allow_range: bool) -> Vec<Item> {
	let mut v = Vec::new();
	for _ in 0..n {
		v.push(match rng.below(14) {
			0 | 1 | 2 | 3 => Item::Byte(rng.byte()),
			4 => Item::Str((0..rng.range(1, 4)).map(|_| rng.range(0x41, 0x5a) as u8).collect()),
			5 => Item::Wild(rng.range(1, 3) as u32),
			6 => Item::SkipN(*rng.pick(&[1u32, 2, 5, 255, 256, 300])),
			7 if allow_range => { let a = rng.below(4) as u32; Item::Range(a, a + rng.range(1, 6) as u32) },
			8 => Item::Save,
			9 => Item::Read(rng.chance(1, 2), *rng.pick(&[1u8, 2, 4])),
			10 => Item::Zero,
			11 => Item::Align(rng.below(3) as u8),
			_ => Item::Byte(rng.byte()),
		});
	}
	v
}
fn gen_items(rng: &mut Rng, depth: u32) -> Vec<Item> {
	let mut v = vec![Item::Byte(rng.byte())];
	let n = rng.range(1, 5);
	for _ in 0..n {
		match rng.below(8) {
			0 if depth < 3 => { let k = *rng.pick(&[1u8, 4, 0]); let sub = gen_items(rng, depth + 1); v.push(Item::Jump(k, sub, true)); },
			1 if depth < 3 => {
				let na = rng.range(2, 3) as usize;
				// alternatives: a literal byte first (so that the layout decides which one starts), then flat items - range skips
				// included in half of them (in the last alternative followed by a suffix this is the known class F34) - or,
				// one time in four, a nested sequence with braces and alternatives of its own
				let alts = (0..na).map(|_| {
					if depth < 2 && rng.chance(1, 4) { gen_items(rng, depth + 1) }
					else { let len = rng.range(1, 3) as usize; let allow = rng.chance(1, 2); let mut a = vec![Item::Byte(rng.byte())]; a.extend(gen_flat(rng, len, allow)); a }
				}).collect();
				// one time in three the alternatives share their first byte and differ in the second: an alternative then fails
				// after the cursor has moved (and after a capture, when there is one), and the next one must start over
				let mut alts: Vec<Vec<Item>> = alts;
				if rng.chance(1, 3) {
					let b0 = rng.byte();
					for a in alts.iter_mut() { a[0] = Item::Byte(b0); if rng.chance(1, 2) { a.insert(1, Item::Save); } a.insert(1, Item::Byte(rng.byte())); }
				}
				v.push(Item::Alt(alts));
			},
			_ => { let len = rng.range(1, 3) as usize; v.extend(gen_flat(rng, len, true)); },
		}
	}
	if rng.chance(1, 6) { let k = *rng.pick(&[1u8, 4, 0]); let sub = gen_items(rng, 3); v.push(Item::Jump(k, sub, false)); }
	v
}

// ---------------------------------------------------------------- layout synthesis
struct Synth { buf: Vec<u8>, owned: Vec<bool>, saves: Vec<u32>, va_bytes: u32, base_rva: u32, image_base: u64, constrained: Vec<usize>, ambiguous: bool }
impl Synth {
	fn reserve(&mut self, at: usize, n: usize, rng: &mut Rng) { while self.buf.len() < at + n { self.buf.push(rng.byte()); self.owned.push(false); } }
	/// writes a byte the pattern constrains; two constraints on one position that disagree make the layout unusable as a reference
	fn put(&mut self, at: usize, b: u8, rng: &mut Rng) {
		self.reserve(at, 1, rng);
		if self.owned[at] && self.buf[at] != b { self.ambiguous = true; }
		self.buf[at] = b; self.owned[at] = true; self.constrained.push(at);
	}
	/// lays out `items` starting at buffer offset `at`; returns the offset after them. `which` = chosen alternative indices
	fn lay(&mut self, items: &[Item], mut at: usize, rng: &mut Rng, tail: &mut usize) -> usize {
		for (idx, it) in items.iter().enumerate() {
			match it {
				Item::Byte(b) => { self.put(at, *b, rng); at += 1; },
				Item::Str(s) => { for (i, b) in s.iter().enumerate() { self.put(at + i, *b, rng); } at += s.len(); },
				Item::Wild(n) | Item::SkipN(n) => { self.reserve(at, *n as usize, rng); at += *n as usize; },
				Item::Range(a, b) => {
					let k = rng.range(*a as u64, *b as u64 - 1) as usize;
					self.reserve(at, k, rng);
					// false starts: the byte that follows the skip also occurs inside the skipped window (the retry loop must
					// come back to the right candidate with the program counter and the cursor restored)
					if let Some(Item::Byte(x)) = items.get(idx + 1) {
						if k >= 1 && rng.chance(1, 2) {
							for _ in 0..rng.range(1, 2) {
								let j = at + rng.below(k as u64) as usize;
								if !self.owned[j] { self.buf[j] = *x; }
							}
						}
					}
					at += k;
					self.ambiguous = true;
				},
				Item::Save => self.saves.push(self.base_rva + at as u32),
				Item::Read(signed, n) => {
					self.reserve(at, *n as usize, rng);
					for i in 0..*n as usize { self.owned[at + i] = true; }
					let mut v: u64 = 0;
					for i in 0..*n as usize { v |= (self.buf[at + i] as u64) << (8 * i); }
					let v = if *signed { match n { 1 => v as u8 as i8 as i32 as u32, 2 => v as u16 as i16 as i32 as u32, _ => v as u32 } } else { v as u32 };
					self.saves.push(v);
					at += *n as usize;
				},
				Item::Zero => self.saves.push(0),
				Item::Align(k) => { while (self.base_rva as usize + at) % (1usize << k) != 0 { self.reserve(at, 1, rng); at += 1; self.ambiguous = true; } },
				Item::Jump(k, sub, braces) => {
					let opsz = match k { 1 => 1usize, 4 => 4, _ => self.va_bytes as usize };
					self.reserve(at, opsz, rng);
					// the target lives in the tail area, after everything laid out so far
					let target = if *k == 1 { at + 1 + rng.range(40, 120) as usize } else { (*tail).max(self.buf.len()).max(0x300) + rng.below(8) as usize };
					if *k != 1 { *tail = target + 0x100; }
					let opb: Vec<u8> = match k {
						1 => vec![(target as i64 - (at as i64 + 1)) as i8 as u8],
						4 => ((target as i64 - (at as i64 + 4)) as i32).to_le_bytes().to_vec(),
						_ => self.image_base.wrapping_add(self.base_rva as u64 + target as u64).to_le_bytes()[..opsz].to_vec(),
					};
					for (i, x) in opb.iter().enumerate() { self.put(at + i, *x, rng); }
					let end = self.lay(sub, target, rng, tail);
					if *braces { at += opsz; } else { at = end; }
				},
				Item::Alt(alts) => {
					let which = rng.below(alts.len() as u64) as usize;
					// an earlier alternative that also matches would be taken instead: mark ambiguous unless first bytes differ
					for (i, a) in alts.iter().enumerate() { if i < which { if let (Item::Byte(x), Item::Byte(y)) = (&a[0], &alts[which][0]) { if x == y { self.ambiguous = true; } } } }
					// slots: every alternative starts numbering where the group started, and numbering continues from the maximum
					let s0 = self.saves.len();
					let mut maxs = s0;
					for (i, a) in alts.iter().enumerate() {
						if i == which { continue; }
						let mut tmp = Synth { buf: vec![], owned: vec![], saves: self.saves[..s0].to_vec(), va_bytes: self.va_bytes, base_rva: self.base_rva, image_base: self.image_base, constrained: vec![], ambiguous: false };
						let mut t2 = 0usize; let mut r2 = Rng(1);
						tmp.lay(a, 0, &mut r2, &mut t2);
						maxs = maxs.max(tmp.saves.len());
					}
					at = self.lay(&alts[which], at, rng, tail);
					while self.saves.len() < maxs { self.saves.push(0xDEAD_BEEF); } // slots only other alternatives write: unconstrained
				},
			}
		}
		at
	}
}

fn atoms_text(a: &[Atom]) -> String {
	let v: Vec<String> = a.iter().map(|x| format!("{:?}", x).replace('(', ":").replace(')', "")).collect();
	join(&v, ",")
}
fn parse_atoms(s: &str) -> Vec<Atom> {
	split(s, ',').iter().map(|t| {
		let mut it = t.split(':'); let name = it.next().unwrap(); let arg: u8 = it.next().map(|x| x.parse().unwrap()).unwrap_or(0);
		match name {
			"Byte" => Atom::Byte(arg), "Save" => Atom::Save(arg), "Push" => Atom::Push(arg), "Pop" => Atom::Pop, "Fuzzy" => Atom::Fuzzy(arg), "Skip" => Atom::Skip(arg),
			"Back" => Atom::Back(arg), "Rangext" => Atom::Rangext(arg), "Many" => Atom::Many(arg), "Jump1" => Atom::Jump1, "Jump4" => Atom::Jump4, "Ptr" => Atom::Ptr,
			"Pir" => Atom::Pir(arg), "VTypeName" => Atom::VTypeName, "Check" => Atom::Check(arg), "Aligned" => Atom::Aligned(arg), "ReadI8" => Atom::ReadI8(arg),
			"ReadU8" => Atom::ReadU8(arg), "ReadI16" => Atom::ReadI16(arg), "ReadU16" => Atom::ReadU16(arg), "ReadI32" => Atom::ReadI32(arg), "ReadU32" => Atom::ReadU32(arg),
			"Zero" => Atom::Zero(arg), "Case" => Atom::Case(arg), "Break" => Atom::Break(arg), _ => Atom::Nop,
		}
	}).collect()
}

fn random_text(rng: &mut Rng) -> Vec<u8> {
	let alphabet: &[u8] = b"0123456789abcdefABCDEF ?'%$*{}()|[]-\"@iuz\t\nxg,.~";
	let n = rng.below(24) as usize;
	let mut out: Vec<u8> = Vec::new();
	// third audit (F9): bytes outside 7-bit ASCII and the control characters next to the accepted white space (VT, FF, DEL,
	// NUL; NBSP, a line separator and multi-byte letters as valid UTF-8), also inside quoted strings
	const EXOTIC: [&[u8]; 10] = [b"\x0b", b"\x0c", b"\r", b"\x7f", b"\0", "\u{e9}".as_bytes(), "\u{20ac}".as_bytes(), "\u{a0}".as_bytes(), "\u{2028}".as_bytes(), "\u{1f600}".as_bytes()];
	let exotic = rng.chance(1, 4);
	for _ in 0..n {
		if exotic && rng.chance(1, 6) { out.extend(*rng.pick(&EXOTIC)); if rng.chance(1, 2) { out.extend(b"\"a"); out.extend(*rng.pick(&EXOTIC)); out.push(b'"'); } }
		else if rng.chance(1, 30) { out.push(rng.range(0x20, 0x7e) as u8); } else { out.push(*rng.pick(alphabet)); }
	}
	out
}

/// F40 shapes: braces that are not balanced inside an alternative (parse errors on both sides since the repair), and the two
/// neighbouring shapes the parser accepted until F42 / F43 (a '}' closing a brace opened before the group with a '{' reopening
/// it; a '{' right behind a ')') - the grammar oracle of the driver (Spec/PatRead.v) found them; parse errors on both sides
/// now.  Flat items are printed from the grammar so that the error position varies.
fn unbalanced_text(rng: &mut Rng) -> String {
	let mut part = |rng: &mut Rng| -> String { let n = rng.below(3) as usize; let mut t = String::new(); show(&gen_flat(rng, n, true), &mut t, rng); t };
	let j = *rng.pick(&["%", "$", "*"]);
	let (a, b, c, pre, post) = (part(rng), part(rng), part(rng), part(rng), part(rng));
	match rng.below(12) {
		// nested groups: the INNER group closes a brace that was opened inside the outer group (the floor of '}' is the depth at
		// the innermost '(' - not at the outermost one, not zero), in the first / a later alternative, with the outer group inside a brace
		9 => format!("{} ( {} {}{{ ( {} }} {}{{ | {} ) }} ) {}", pre, a, j, b, j, c, post),
		10 => format!("{} ( {} | {}{{ ( {} | {} }} {}{{ ) }} {} ) {}", pre, a, j, b, c, j, post, post),
		11 => format!("{}{{ ( {} {}{{ ( {} }} {}{{ ) }} | {} ) }} {}", j, pre, j, a, j, b, post),
		0 => format!("{} ( {} {}{{ {} | {} ) {} 01", pre, a, j, b, c, post),            // open at '|'
		1 => format!("{} ( {} | {} {}{{ {} ) {} 01", pre, a, b, j, c, post),            // open at ')'
		2 => format!("{} {}{{ ( {} }} | {} ) }} {}", pre, j, a, b, post),               // one too many closed at '|'
		3 => format!("{} ( {} {}{{ {} | {} }} ) {}", pre, a, j, b, c, post),            // opened in one alternative, closed in the next
		4 => format!("{} {}{{ ( {} | {} }} ) {}", pre, j, a, b, post),                  // one too many closed at ')'
		5 => format!("{} ( {} ( {} {}{{ | {} ) }} | {} ) {}", pre, a, b, j, c, b, post), // inner group unbalanced, outer balanced
		6 => format!("{} {}{{ ( {} }} {}{{ | {} ) }} {} 03", pre, j, a, j, b, post),    // F43 (was accepted: depth is back at '|')
		7 => format!("{} ( {} | {} {} ) {{ {} }} {} 03", pre, a, b, j, c, post),        // F42 (was accepted: '{' behind ')')
		_ => format!("{}01", "(%{|?)".repeat(rng.range(1, 40) as usize)),                 // the exponential family itself
	}
}

/// accepted-but-odd strings (and their rejected neighbours): a token soup over the whole operator alphabet in which every pair
/// of operators becomes adjacent - '{' behind ')', '}', '{', '?', a bookmark, a byte, a string; ')' right behind '('; '|' at the
/// edges of a group; null items between a jump and its brace - with brackets closed in the right order most of the time,
/// hex digits of both cases, and spaces / tabs / line ends / nothing between the tokens.  The grammar oracle of the driver
/// (Spec/PatRead.v) decides for each string whether the documented syntax contains it.
fn odd_text(rng: &mut Rng) -> String {
	const POOL: &[&str] = &["01", "ab", "AB", "aB", "7f", "?", "??", "'", "%", "$", "*", "{", "}", "(", "|", ")", "[2]", "[0]", "[00]", "[1-3]", "[0-2]", "[02]",
		"\"\"", "\"ab\"", "i1", "u4", "z", "@2", "@a", "@Z"];
	let mut out = String::new();
	let mut stack: Vec<char> = Vec::new();
	let n = rng.range(2, 12) as usize;
	let sep = rng.below(4);   // 0: nothing, 1: single spaces, 2: mixed whitespace, 3: random
	let mut push_sep = |out: &mut String, rng: &mut Rng| {
		match sep { 0 => {}, 1 => out.push(' '), 2 => out.push(*rng.pick(&[' ', '\t', '\n', '\r'])), _ => if rng.chance(1, 2) { out.push(*rng.pick(&[' ', ' ', '\t', '\n'])) } }
	};
	// one time in three the string is built around a chosen adjacent pair
	if rng.chance(1, 3) {
		let x = *rng.pick(POOL); let y = *rng.pick(POOL);
		let pre = *rng.pick(&["", "01", "%", "(", "%{", "(01|", "(%", "%{(", "$"]);
		for ch in pre.chars() { match ch { '{' => stack.push('}'), '(' => stack.push(')'), _ => {} } }
		out.push_str(pre); push_sep(&mut out, rng);
		for t in [x, y] {
			match t { "{" => stack.push('}'), "(" => stack.push(')'), "}" | ")" => { if stack.last() == t.chars().next().as_ref() { stack.pop(); } }, _ => {} }
			out.push_str(t); push_sep(&mut out, rng);
		}
		if rng.chance(1, 2) { out.push_str("02"); push_sep(&mut out, rng); }
	} else {
		for _ in 0..n {
			let t = *rng.pick(POOL);
			match t {
				"{" => { if rng.chance(3, 4) && !out.trim_end().ends_with(|c| c == '%' || c == '$' || c == '*') { out.push(*rng.pick(&['%', '$', '*'])); if rng.chance(1, 4) { push_sep(&mut out, rng); } } stack.push('}'); out.push('{'); },
				"(" => { stack.push(')'); out.push('('); },
				"}" | ")" => {
					let c = t.chars().next().unwrap();
					if stack.last() == Some(&c) { stack.pop(); out.push(c); }
					else if rng.chance(1, 6) { out.push(c); }       // a closer that closes nothing, or the wrong one
					else if let Some(top) = stack.pop() { out.push(top); }
				},
				"|" => { if stack.last() == Some(&')') || rng.chance(1, 6) { out.push('|'); } },
				_ => out.push_str(t),
			}
			push_sep(&mut out, rng);
		}
	}
	// close what is open, in the right order nine times in ten
	if rng.chance(9, 10) { while let Some(c) = stack.pop() { out.push(c); push_sep(&mut out, rng); } }
	if rng.chance(1, 2) { out.push_str("03"); }
	out
}

/// raw atom lists over ALL atom kinds (the parser never emits Back, Pir, VTypeName, Check, Fuzzy, Skip(0)/Back(0)/Push(0)
/// other than after '*', Many(0), Rangext before Push/Back): small operands plus boundary operands; byte operands follow
/// the buffer most of the time so that execution gets past the first atoms
fn gen_raw(rng: &mut Rng) -> String {
	let pe64 = rng.chance(1, 2);
	let file = rng.chance(1, 2);
	let image_base: u64 = if pe64 { 0x1_4000_0000 } else { 0x40_0000 };
	let va_bytes = if pe64 { 8usize } else { 4 };
	let sec_va = 0x1000u32; let sec_prd = if file { 0x400u32 } else { 0x1000 };
	let sec_size = 0x300usize;
	// buffer: zeros, small values (jump operands that stay close), random bytes; valid pointers / small rel32 at some aligned places
	let mut buf: Vec<u8> = (0..sec_size).map(|_| match rng.below(4) { 0 | 1 => 0, 2 => rng.range(1, 8) as u8, _ => rng.byte() }).collect();
	let mut k = 0usize;
	while k + 8 <= sec_size {
		match rng.below(6) {
			0 => { let t = image_base + sec_va as u64 + rng.below(sec_size as u64); buf[k..k + va_bytes].copy_from_slice(&t.to_le_bytes()[..va_bytes]); },
			1 => { let r = (rng.below(64) as i32 - 16).to_le_bytes(); buf[k..k + 4].copy_from_slice(&r); },
			_ => {},
		}
		k += 8;
	}
	let lay_off = 0x40 + rng.below(0x40) as usize;
	let slots = rng.below(7) as usize;
	let slot = |rng: &mut Rng| -> u8 { match rng.below(10) { 0 => 255, 1 => slots as u8, _ => rng.below(7) as u8 } };
	let small = |rng: &mut Rng| -> u8 { *rng.pick(&[0u8, 0, 1, 1, 2, 3, 4, 8, 16, 255]) };
	let n = rng.range(1, 14) as usize;
	let mut at = lay_off as i64;   // approximate cursor (offset into the section) if everything so far matched
	let mut atoms: Vec<Atom> = Vec::new();
	if rng.chance(2, 3) { atoms.push(Atom::Save(0)); }
	for _ in 0..n {
		let cur = |at: i64| -> u8 { if at >= 0 && (at as usize) < sec_size { buf[at as usize] } else { 0 } };
		let a = match rng.below(30) {
			0 | 1 | 2 | 3 | 4 => { let b = if rng.chance(4, 5) { cur(at) } else { rng.byte() }; at += 1; Atom::Byte(b) },
			5 => Atom::Save(slot(rng)),
			6 => Atom::Push(small(rng)),
			7 => Atom::Pop,
			8 => Atom::Fuzzy(*rng.pick(&[0xffu8, 0xf0, 0x0f, 0x00, 0x80, 0x7f, 0x55])),
			9 => { let k = small(rng); at += if k == 0 { va_bytes as i64 } else { k as i64 }; Atom::Skip(k) },
			10 | 11 => { let k = small(rng); at -= if k == 0 { va_bytes as i64 } else { k as i64 }; Atom::Back(k) },
			12 => Atom::Rangext(*rng.pick(&[0u8, 1, 1, 2, 255])),
			13 => Atom::Many(*rng.pick(&[0u8, 1, 2, 5, 40, 255])),
			14 => { let d = cur(at) as i8 as i64; at += d + 1; Atom::Jump1 },
			15 => { at = (at & !7) + 8; Atom::Jump4 },
			16 => { at = rng.below(sec_size as u64) as i64; Atom::Ptr },
			17 | 18 => Atom::Pir(slot(rng)),
			19 => Atom::VTypeName,
			20 | 21 => Atom::Check(slot(rng)),
			22 => Atom::Aligned(*rng.pick(&[0u8, 0, 1, 2, 3, 4, 31, 32, 255])),
			23 => { let s = slot(rng); match rng.below(6) { 0 => { at += 1; Atom::ReadI8(s) }, 1 => { at += 1; Atom::ReadU8(s) }, 2 => { at += 2; Atom::ReadI16(s) }, 3 => { at += 2; Atom::ReadU16(s) }, 4 => { at += 4; Atom::ReadI32(s) }, _ => { at += 4; Atom::ReadU32(s) } } },
			24 => Atom::Zero(slot(rng)),
			25 | 26 => Atom::Case(rng.below(5) as u8),
			27 => Atom::Break(rng.below(5) as u8),
			28 => Atom::Nop,
			_ => { let b = cur(at); at += 1; Atom::Byte(b ^ (1 << rng.below(8))) },
		};
		// a masked byte: Fuzzy directly before a byte that differs in the masked bits only
		if let Atom::Byte(b) = a { if rng.chance(1, 6) { atoms.push(Atom::Fuzzy(0xf0)); atoms.push(Atom::Byte(b ^ (rng.below(16) as u8))); continue; } }
		atoms.push(a);
	}
	let mut spec = ImgSpec { pe64, e_lfanew: 0x80, soh: 0x200, soi: 0x1000 + sec_size as u32 + 0x1000, image_base, nrva: 16, dirs: vec![(0, 0); 16], opt_size: 0, nsec_field: 1,
		secs: vec![Sec { name: *b".text\0\0\0", va: sec_va, vs: sec_size as u32, prd: sec_prd, srd: sec_size as u32, chars: 0x6000_0020 }], checksum: 0, magic: if pe64 { 0x20b } else { 0x10b } };
	spec.opt_size = spec.std_opt_size();
	let len = sec_prd as usize + sec_size;
	let img = Image { len, fill: rng.range(1, 999) as u32, hdr: scrambled_header(&spec, rng), pokes: vec![(sec_prd as usize, buf)] };
	// the cursor: inside the section, now and then at its last bytes or outside every section
	let cursor = match rng.below(12) { 0 => sec_va + sec_size as u32 - 1 - rng.below(4) as u32, 1 => sec_va + sec_size as u32 + rng.below(3) as u32, 2 => rng.below(0x1000) as u32, _ => sec_va + lay_off as u32 };
	format!("exec fmt={} file={} {} soh={} soi={} base={} secs={} text=00 atoms={} cursor={} slots={} expect=any saves=0",
		if pe64 { 64 } else { 32 }, file as u8, img.encode(), spec.soh, spec.soi, image_base, secs_field(&spec.secs), atoms_text(&atoms), cursor, slots)
}

fn gen(rng: &mut Rng, _i: u64) -> String {
	// one case in ten: a raw atom list (kind exec with an explicit atoms= field); decided first so that the other streams keep their proportions
	if rng.below(10) == 0 { return gen_raw(rng); }
	if rng.below(8) == 0 { return format!("parse text={}", hex(odd_text(rng).as_bytes())); }
	match rng.below(10) {
		0 | 1 => format!("parse text={}", hex(&random_text(rng))),
		3 => {
			// the printer and the intended compiler of Spec/PatSyntax.v against the real parser: an AST, its canonical spelling
			let mut items = gen_items(rng, 0);
			if rng.chance(1, 3) { items.extend(gen_flat(rng, 3, true)); }
			if rng.chance(1, 4) { items.insert(0, Item::Align(rng.below(36) as u8)); }
			if rng.chance(1, 4) { items.push(Item::Wild(rng.range(250, 600) as u32)); items.push(Item::SkipN(rng.below(16384) as u32)); items.push(Item::Wild(2)); }
			// range skips of every magnitude: lower bounds and widths on both sides of 256 (the Skip / Rangext / Many encoding)
			if rng.chance(1, 3) {
				let a = *rng.pick(&[0u32, 1, 255, 256, 257, 300, 511, 512, 4095, 8192]) + rng.below(3) as u32;
				let w = *rng.pick(&[1u32, 2, 255, 256, 257, 300, 600, 1024, 4000]) + rng.below(3) as u32;
				let b = (a + w).min(16383);
				if a < b {
					let at = rng.below(items.len() as u64 + 1) as usize;
					items.insert(at, Item::Range(a, b));
					items.insert(at + 1, Item::Byte(rng.byte()));
				}
			}
			let mut toks = Vec::new();
			ast_tokens(&items, &mut toks);
			format!("syn text={} ast={}", hex(show_canon(&items).as_bytes()), join(&toks, ","))
		},
		2 => {
			// stress shapes: deep nesting, long skips, many saves, adjacent operators
			let s: String = match rng.below(13) {
				8 | 9 => unbalanced_text(rng),
				// the limits of the other save-allocating operators and of the alternative offsets (each has its own check in the parser)
				10 => format!("{}", (*rng.pick(&["i1 ", "u2 ", "z ", "i4 ", "u1 ", "' i1 z "])).repeat(rng.range(84, 258) as usize)),
				11 => match rng.below(3) {
					0 => format!("( {}| 01 ) 02", "00 ".repeat(rng.range(250, 260) as usize)),
					1 => format!("( 01 | {}| 03 ) 02", "? 00 ".repeat(rng.range(125, 130) as usize)),
					_ => format!("( {}| 01 ) 02", "' ".repeat(rng.range(250, 260) as usize)),
				},
				12 => (*rng.pick(&["00 [5-x] 01", "00 [5-6x] 01", "00 [5-", "00 [5", "00 [", "00 [x] 01", "00 [5-6", "00 [-5] 01", "00 [5--6] 01", "(00", "(00|01", "((00)", "(00))", "00)", "(", "|", "00|01", "(|", "()", "%(", "${(00}", "${(00})", "i", "u", "i3", "u8", "@", "@!", "\"ab", "'\"", "0", "0g", "g0"])).to_string(),
				0 => "${".repeat(rng.range(250, 260) as usize),
				1 => "'".repeat(rng.range(250, 258) as usize),
				2 => {
					// numeric operands of every magnitude: around the 16384 limit, around 2^16 / 2^32 / 2^64, and very long digit strings
					let mut num = |rng: &mut Rng| -> String {
						match rng.below(8) {
							0 => rng.below(17000).to_string(),
							1 => (16383 + rng.below(3)).to_string(),
							2 => ((1u64 << 32) - 2 + rng.below(4)).to_string(),
							3 => (u64::MAX - rng.below(2)).to_string(),
							4 => "18446744073709551616".to_string(),
							5 => (0..rng.range(1, 24)).map(|_| char::from(b'0' + rng.below(10) as u8)).collect(),
							6 => format!("{}{}", "0".repeat(rng.range(1, 12) as usize), rng.below(300)),
							_ => rng.below(300).to_string(),
						}
					};
					match rng.below(3) {
						0 => format!("00 [{}-{}] 01", num(rng), num(rng)),
						1 => format!("00 [{}] 01", num(rng)),
						_ => format!("00 [{}-{}] 01", rng.below(17000), rng.below(17000)),
					}
				},
				3 => format!("({})", (0..rng.range(120, 135)).map(|_| "00").collect::<Vec<_>>().join(" ")) ,
				4 => format!("( 00 | {} ) 01", "? 01 ".repeat(rng.range(120, 130) as usize)),
				5 => "( 6a ? | 68 ? ) ? e8".to_string(),
				6 => format!("00 @{} 01", *rng.pick(&['0', '5', 'v', 'w', 'z', 'Z'])),
				_ => format!("{} 00", "? ".repeat(rng.range(250, 260) as usize)),
			};
			format!("parse text={}", hex(s.as_bytes()))
		},
		_ => {
			let pe64 = rng.chance(1, 2);
			let file = rng.chance(1, 2);
			let mut items = gen_items(rng, 0);
			// the semantic oracle (extracted den_top) needs a pattern the parser does not trim: end on a literal byte most of the time
			if rng.chance(2, 3) { items.push(Item::Byte(rng.byte())); }
			let mut text = String::new();
			// half of the cases in the canonical spelling (the one theorem 2 speaks about), half with random spacing and case
			if rng.chance(1, 2) { text = show_canon(&items); } else { show(&items, &mut text, rng); }
			// seed C11-15: one image in six ends exactly at the top of its address space (base + SizeOfImage = 2^32 / 2^64):
			// every pointer of the layout is still a valid VA, an end address computed with wrapping arithmetic is 0
			let top = rng.chance(1, 6);
			let image_base: u64 = if top { if pe64 { 0xFFFF_FFFF_FFFF_0000 } else { 0xFFFF_0000 } } else if pe64 { 0x1_4000_0000 } else { 0x40_0000 };
			let lay_off = 0x40 + rng.below(0x20) as usize;   // offset of the layout inside the section
			let sec_va = 0x1000u32; let sec_prd = if file { 0x400u32 } else { 0x1000 };
			let mut syn = Synth { buf: vec![], owned: vec![], saves: vec![sec_va + lay_off as u32], va_bytes: if pe64 { 8 } else { 4 }, base_rva: sec_va + lay_off as u32, image_base, constrained: vec![], ambiguous: false };
			let mut tail = 0usize;
			syn.lay(&items, 0, rng, &mut tail);
			let sec_size = (lay_off + syn.buf.len() + 0x40 + 0xff) & !0xff;
			// a third of the mapped views are REBASED: the header keeps another ImageBase, the view is moved to `image_base`
			// with set_base_address, and every absolute pointer of the layout is relative to `image_base`
			let rebased = !file && rng.chance(1, 3);
			let hdr_base: u64 = if rebased { if pe64 { 0x1_8000_0000 } else { 0x1000_0000 } } else { image_base };
			let mut spec = ImgSpec { pe64, e_lfanew: 0x80, soh: 0x200, soi: 0x1000 + sec_size as u32 + 0x1000, image_base: hdr_base, nrva: 16, dirs: vec![(0, 0); 16], opt_size: 0, nsec_field: 1,
				secs: vec![Sec { name: *b".text\0\0\0", va: sec_va, vs: sec_size as u32, prd: sec_prd, srd: sec_size as u32, chars: 0x6000_0020 }], checksum: 0, magic: if pe64 { 0x20b } else { 0x10b } };
			spec.opt_size = spec.std_opt_size();
			if top && spec.soi <= 0x10000 { spec.soi = 0x10000; }
			let len = sec_prd as usize + sec_size;
			let mut poke = syn.buf.clone();
			let mut expect = if syn.ambiguous { "any" } else { "match" };
			if rng.chance(1, 4) && !syn.constrained.is_empty() {
				let k = *rng.pick(&syn.constrained);
				poke[k] ^= 1 << rng.below(8);
				expect = "any"; // a flipped constrained byte normally prevents the match; jumps/alternatives may still find one
				if !text.contains('(') && !text.contains('[') && !text.contains('%') && !text.contains('$') && !text.contains('*') { expect = "nomatch"; }
			}
			let img = Image { len, fill: rng.range(1, 999) as u32, hdr: scrambled_header(&spec, rng), pokes: vec![(sec_prd as usize + lay_off, poke)] };
			let slots = match rng.below(5) { 0 => 0, 1 => 1, 2 => syn.saves.len().saturating_sub(1), _ => syn.saves.len() + rng.below(3) as usize };
			let mut toks = Vec::new();
			ast_tokens(&items, &mut toks);
			// one case in eight goes without the generator's AST: the semantic oracle then runs on the AST the independent reader
			// of Spec/PatRead.v finds in the text
			let ast_field = if rng.chance(1, 8) { String::new() } else { format!(" ast={}", join(&toks, ",")) };
			format!("exec fmt={} file={} {} soh={} soi={} base={} secs={} text={} atoms=- cursor={} slots={} expect={} saves={}{}{}",
				if pe64 { 64 } else { 32 }, file as u8, img.encode(), spec.soh, spec.soi, image_base, secs_field(&spec.secs), hex(text.as_bytes()),
				sec_va + lay_off as u32, slots, expect, join(&syn.saves, ","), ast_field, if rebased { " rebase=1" } else { "" })
		},
	}
}

fn run(case: &str) -> String {
	let kind = case.split(' ').next().unwrap();
	if kind == "parse" || kind == "syn" {
		let bytes = unhex(field(case, "text"));
		let text = match std::str::from_utf8(&bytes) { Ok(t) => t, Err(_) => return "!notutf8".to_string() };
		return match pattern::parse(text) {
			Ok(atoms) => format!("ok atoms={} save_len={}", atoms_text(&atoms), pattern::save_len(&atoms)),
			Err(e) => {
				let d = format!("{:?}", e); // ParsePatError { kind: X, position: N }
				let kind = d.split("kind: ").nth(1).unwrap().split(',').next().unwrap().to_string();
				let pos = d.split("position: ").nth(1).unwrap().trim_end_matches(" }").to_string();
				format!("err kind={} pos={}", kind, pos)
			},
		};
	}
	let img = Image::decode(case);
	let bytes = img.bytes();
	let buf = Aligned::new(&bytes, 0);
	let b = buf.bytes();
	let text = unhex(field(case, "text"));
	let atoms = if field(case, "atoms") != "-" { parse_atoms(field(case, "atoms")) } else {
		match pattern::parse(std::str::from_utf8(&text).unwrap()) { Ok(a) => a, Err(e) => return format!("parse-error {:?}", e).replace(' ', "_") }
	};
	let cursor: u32 = field(case, "cursor").parse().unwrap();
	let slots: usize = field(case, "slots").parse().unwrap();
	let mut save = vec![0x5555_5555u32; slots];
	let file = field(case, "file") == "1";
	let rebase = case.contains(" rebase=1");
	let vbase: u64 = if rebase { field(case, "base").parse().unwrap() } else { 0 };
	let ok = match (field(case, "fmt"), file) {
		("32", true) => { use pe32::Pe; pe32::PeFile::from_bytes(b).map(|f| f.scanner().exec(cursor, &atoms, &mut save)) },
		("32", false) => { use pe32::Pe; pe32::PeView::from_bytes(b).map(|f| { let f = if rebase { f.set_base_address(vbase as u32) } else { f }; f.scanner().exec(cursor, &atoms, &mut save) }) },
		("64", true) => { use pe64::Pe; pe64::PeFile::from_bytes(b).map(|f| f.scanner().exec(cursor, &atoms, &mut save)) },
		_ => { use pe64::Pe; pe64::PeView::from_bytes(b).map(|f| { let f = if rebase { f.set_base_address(vbase) } else { f }; f.scanner().exec(cursor, &atoms, &mut save) }) },
	};
	match ok {
		Ok(m) => format!("atoms={} match={} save={}", atoms_text(&atoms), m as u8, join(&save, ",")),
		Err(e) => format!("!ctor {:?}", e),
	}
}

fn main() {
	harness_main(gen, run);
}
