//! C01: what rustc says about the #[repr(C)] structs the models take their sizes, alignments and field offsets
//! from (coq/gen/Layout.v, coq/gen/LayoutExtra.v).  The list of names is generated (harness/src/layout_gen.rs,
//! tools/gen_layout_rs.py); the numbers are the compiler's.  lib/props.d/C01.py compares them with the .v files.
use pvh::*;

#[path = "../layout_gen.rs"]
mod layout_gen;

fn gen(_rng: &mut Rng, i: u64) -> String {
	format!("layout k={}", i)
}

fn run(_case: &str) -> String {
	format!("layout {}", layout_gen::layout_lines().join(" "))
}

fn main() {
	harness_main(gen, run);
}
