//! C19: format-agnostic wrappers and JSON serialization — implementation side.
//!
//! A case is an image (synthetic headers + section table over pattern fill, or one of the
//! demo DLLs with field corruptions, as a file or mapped), a placement and a list of queries.
//! The observation is
//!   sel=<T32|T64|error> f32=<ok|error> f64=<ok|error>
//!   W:<method>=<through the wrapper>~<through pe32/pe64 chosen by the magic> ...
//!   json=<ok|!...>  J:<field>=<serialized value>~<accessor value> ...
//! Every call runs under its own catch_unwind so that a panic inside a directory walker
//! (other properties' findings) is seen as the value `!panic:..` on both sides instead of
//! hiding the rest of the table; a panic of the serializer itself is `json=!panic:..`.
use pelite::image::*;
use pelite::{pe32, pe64, Wrap};
use pvh::pe::*;
use pvh::*;
use std::cell::Cell;
use std::panic::{catch_unwind, AssertUnwindSafe};

#[path = "../wrapjson_res.rs"]
mod wrapjson_res;

// ------------------------------------------------------------------ canonical printing

thread_local! { static BASE: Cell<(usize, usize)> = Cell::new((0, 0)); }

fn fnv(s: &[u8]) -> u64 {
	let mut h: u64 = 0xcbf29ce484222325;
	for b in s {
		h ^= *b as u64;
		h = h.wrapping_mul(0x100000001b3);
	}
	h
}
fn shorten(s: String) -> String {
	// a caught panic inside a long row must stay visible to C02's failure predicate
	let mark = if s.contains("!panic:") { "!panic:inside" } else { "" };
	if s.len() > 96 && std::env::var("WJ_LONG").is_err() { format!("{}..#{:x}+{}{}", &s[..48], fnv(s.as_bytes()), s.len(), mark) } else { s }
}
fn clean(s: &str) -> String {
	s.chars().map(|c| if c == ' ' || c == '~' || c == '\n' || c == '\r' || c == '\t' { '_' } else { c }).collect()
}
fn at(p: *const u8, n: usize) -> String {
	let (base, len) = BASE.with(|b| b.get());
	let off = (p as usize).wrapping_sub(base);
	if n == 0 && off > len {
		// an empty slice may dangle
		return "@-+0".to_string();
	}
	assert!(off <= len && n <= len - off, "harness: returned region outside the buffer: off={} len={}", off as isize, n);
	format!("@{}+{}", off, n)
}

trait Canon {
	fn canon(&self) -> String;
}
macro_rules! canon_int { ($($t:ty),*) => { $(impl Canon for $t { fn canon(&self) -> String { self.to_string() } })* } }
canon_int!(u8, u16, u32, u64, usize, bool, i32);
impl Canon for () {
	fn canon(&self) -> String { "unit".to_string() }
}
impl Canon for String {
	fn canon(&self) -> String { self.clone() }
}
macro_rules! canon_ref_int { ($($t:ty),*) => { $(
	impl<'a> Canon for &'a $t { fn canon(&self) -> String { assert!(*self as *const $t as usize % std::mem::align_of::<$t>() == 0, "harness: misaligned reference"); format!("{}:{}", at(*self as *const $t as *const u8, std::mem::size_of::<$t>()), **self) } }
	impl<'a> Canon for &'a [$t] { fn canon(&self) -> String {
		assert!(self.as_ptr() as usize % std::mem::align_of::<$t>() == 0, "harness: misaligned slice");
		at(self.as_ptr() as *const u8, std::mem::size_of_val(*self)) } }
)* } }
canon_ref_int!(u8, u16, u32, u64);
macro_rules! canon_struct { ($($t:ty),*) => { $(
	impl<'a> Canon for &'a $t { fn canon(&self) -> String { assert!(*self as *const $t as usize % std::mem::align_of::<$t>() == 0, "harness: misaligned struct reference"); at(*self as *const $t as *const u8, std::mem::size_of::<$t>()) } }
	impl<'a> Canon for &'a [$t] { fn canon(&self) -> String { assert!(self.as_ptr() as usize % std::mem::align_of::<$t>() == 0, "harness: misaligned struct slice"); at(self.as_ptr() as *const u8, std::mem::size_of_val(*self)) } }
)* } }
canon_struct!(IMAGE_DOS_HEADER, IMAGE_NT_HEADERS32, IMAGE_NT_HEADERS64, IMAGE_FILE_HEADER, IMAGE_OPTIONAL_HEADER32, IMAGE_OPTIONAL_HEADER64,
	IMAGE_DATA_DIRECTORY, IMAGE_SECTION_HEADER, IMAGE_EXPORT_DIRECTORY, IMAGE_IMPORT_DESCRIPTOR, IMAGE_DEBUG_DIRECTORY, IMAGE_TLS_DIRECTORY32,
	IMAGE_TLS_DIRECTORY64, IMAGE_LOAD_CONFIG_DIRECTORY32, IMAGE_LOAD_CONFIG_DIRECTORY64, IMAGE_DEBUG_MISC, WIN_CERTIFICATE, RUNTIME_FUNCTION);
impl<'a> Canon for &'a pelite::util::CStr {
	fn canon(&self) -> String {
		let b = self.c_str();
		at(b.as_ptr(), b.len())
	}
}
impl<'a> Canon for &'a str {
	fn canon(&self) -> String { format!("s:{}", shorten(hex(self.as_bytes()))) }
}
impl<T: Canon> Canon for pelite::Result<T> {
	fn canon(&self) -> String {
		match self { Ok(v) => format!("ok({})", v.canon()), Err(e) => format!("e:{:?}", e) }
	}
}
impl<T: Canon> Canon for Option<T> {
	fn canon(&self) -> String {
		match self { Some(v) => format!("some({})", v.canon()), None => "none".to_string() }
	}
}
impl<A: Canon, B: Canon> Canon for Wrap<A, B> {
	fn canon(&self) -> String {
		match self { Wrap::T32(a) => a.canon(), Wrap::T64(b) => b.canon() }
	}
}
impl<A: Canon, B: Canon> Canon for (A, B) {
	fn canon(&self) -> String { format!("({};{})", self.0.canon(), self.1.canon()) }
}
impl<T: Canon> Canon for Vec<T> {
	fn canon(&self) -> String {
		let v: Vec<String> = self.iter().map(|x| x.canon()).collect();
		format!("[{}]{}", self.len(), shorten(v.join(",")))
	}
}
impl Canon for std::ops::Range<u32> {
	fn canon(&self) -> String { format!("{}..{}", self.start, self.end) }
}
impl<'a> Canon for pe32::exports::Export<'a> {
	fn canon(&self) -> String {
		match self { pe32::exports::Export::Symbol(r) => format!("sym({})", r.canon()), pe32::exports::Export::Forward(s) => format!("fwd({})", s.canon()) }
	}
}
impl<'a> Canon for pe32::imports::Import<'a> {
	fn canon(&self) -> String {
		match self { pe32::imports::Import::ByName { hint, name } => format!("byname({};{})", hint, name.canon()), pe32::imports::Import::ByOrdinal { ord } => format!("byord({})", ord) }
	}
}
impl<'a> Canon for pe32::debug::Entry<'a> {
	fn canon(&self) -> String {
		use pe32::debug::Entry;
		match self {
			Entry::CodeView(cv) => format!("cv({};{};{})", cv.format().canon(), cv.age(), cv.pdb_file_name().canon()),
			Entry::Dbg(d) => format!("dbg({})", d.image().canon()),
			Entry::Pgo(p) => format!("pgo({};{})", p.image().canon(), p.iter().map(|i| (i.rva, (i.size, i.name))).collect::<Vec<_>>().canon()),
			Entry::Unknown(d) => format!("unk({})", d.canon()),
		}
	}
}


// ------------------------------------------------------------------ value-only forms (rows `m.*`, recomputed by the extracted wrapper model)

/// long values are replaced by their hash and length (the driver does the same)
fn hl(s: String) -> String {
	if s.len() > 160 && std::env::var("WJ_LONG").is_err() { format!("#{:x}+{}", fnv(s.as_bytes()), s.len()) } else { s }
}
fn ve(e: &pelite::Error) -> String { format!("e.{:?}", e) }
fn vx(r: &pelite::Result<pe32::exports::Export>) -> String {
	match r { Ok(pe32::exports::Export::Symbol(r)) => format!("sym.{}", r), Ok(pe32::exports::Export::Forward(s)) => format!("fwd.{}", hex(s.as_ref())), Err(e) => ve(e) }
}
fn vn(r: &pelite::Result<&pelite::util::CStr>) -> String {
	match r { Ok(s) => format!("n.{}", hex(s.as_ref())), Err(e) => ve(e) }
}
fn vi(r: &pelite::Result<pe32::imports::Import>) -> String {
	match r { Ok(pe32::imports::Import::ByName { hint, name }) => format!("n.{}.{}", hint, hex(name.as_ref())), Ok(pe32::imports::Import::ByOrdinal { ord }) => format!("o.{}", ord), Err(e) => ve(e) }
}
trait Val { fn val(&self) -> String; }
impl<'a> Val for &'a u32 { fn val(&self) -> String { self.to_string() } }
impl<'a> Val for &'a u64 { fn val(&self) -> String { self.to_string() } }
impl<A: Val, B: Val> Val for Wrap<A, B> { fn val(&self) -> String { match self { Wrap::T32(a) => a.val(), Wrap::T64(b) => b.val() } } }
fn vr<T, F: FnOnce(T) -> String>(r: pelite::Result<T>, f: F) -> String { match r { Ok(v) => f(v), Err(e) => ve(&e) } }
fn jn(v: Vec<String>, sep: &str) -> String { if v.is_empty() { "-".to_string() } else { v.join(sep) } }
/// the JSON text as one token: bytes outside 0x21..0x7E and '%' as %XX
fn pct(s: &str) -> String {
	let mut o = String::with_capacity(s.len() + 16);
	for &b in s.as_bytes() {
		if b <= 0x20 || b >= 0x7f || b == b'%' { o.push_str(&format!("%{:02X}", b)); } else { o.push(b as char); }
	}
	o
}

/// runs one call; a panic becomes the value
fn guard<F: FnOnce() -> String>(f: F) -> String {
	match catch_unwind(AssertUnwindSafe(f)) {
		Ok(s) => s,
		Err(e) => {
			let msg = if let Some(s) = e.downcast_ref::<String>() { s.clone() } else if let Some(s) = e.downcast_ref::<&str>() { s.to_string() } else { "?".to_string() };
			if msg.starts_with("harness:") {
				std::panic::resume_unwind(Box::new(msg));
			}
			format!("!panic:{}", shorten(clean(&msg)))
		},
	}
}
macro_rules! row { ($rows:ident, $name:expr, $e:expr) => { $rows.push(($name.to_string(), guard(|| clean(&shorten(($e).canon()))))) } }
/// rows the model reproduces: never shortened
macro_rules! rowm { ($rows:ident, $name:expr, $e:expr) => { $rows.push(($name.to_string(), guard(|| clean(&($e).canon())))) } }

// ------------------------------------------------------------------ patterns for the scanner group

const PATS: [&str; 5] = ["4D 5A", "00 00 00 00", "? ? 00 '", "e8 ${'}", "48 8B ? ? [1-4] 'c3"];
/// The pattern of a scanner query: the parsed strings above, and two hand-built ones with atoms that READ the save
/// array (Check / Pir; the parser never emits them).  `00 ' <rel8> Check(1)` matches `00 FF` only (the jump must land on
/// the bookmark), but every `00 xx` passes when the save array has no slot 1 - which is how the format-specific
/// `finds` probes for a second match; a wrapper that probes differently answers differently.
fn scan_pat(k: u64) -> Vec<pelite::pattern::Atom> {
	use pelite::pattern::Atom::*;
	match k % 8 {
		5 => vec![Save(0), Byte(0x00), Save(1), Jump1, Check(1)],
		6 => vec![Save(0), Byte(0xFF), Save(1), Jump1, Check(1)],
		7 => vec![Save(0), Byte(0x00), Save(1), Skip(1), Back(1), Check(1), Byte(0x00)],
		j => pelite::pattern::parse(PATS[j as usize % PATS.len()]).unwrap(),
	}
}

// ------------------------------------------------------------------ the walk: identical source text for the wrapper and for pe32 / pe64

macro_rules! gx {
	(wrap, ord, $pe:expr, $a:expr) => { $pe.get_export_by_ordinal($a) };
	(wrap, name, $pe:expr, $a:expr) => { $pe.get_export_by_name($a) };
	(wrap, imp, $pe:expr, $a:expr) => { $pe.get_export_by_import($a) };
	(spec, $k:ident, $pe:expr, $a:expr) => { $pe.get_export($a) };
}
macro_rules! walk {
	($pe:expr, $qs:expr, $kind:ident) => {{
		let pe = $pe;
		let mut rows: Vec<(String, String)> = Vec::new();
		rowm!(rows, "image", pe.image());
		rowm!(rows, "align", format!("{:?}", pe.align()));
		// header accessors, in the order of Model/Headers.v [accessors]
		rowm!(rows, "acc", vec![pe.dos_header().canon(), pe.dos_image().canon(), pe.nt_headers().canon(), pe.file_header().canon(), pe.optional_header().canon(),
			pe.data_directory().canon(), pe.section_headers().image().canon(), pe.headers().image().canon()].join(","));
		rowm!(rows, "dirs", pe.data_directory().iter().map(|d| format!("{}:{}", d.VirtualAddress, d.Size)).collect::<Vec<_>>().join(";"));
		rowm!(rows, "secs", pe.section_headers().image().iter().map(|s| format!("{}:{}:{}:{}", s.VirtualAddress, s.VirtualSize, s.PointerToRawData, s.SizeOfRawData)).collect::<Vec<_>>().join(";"));
		rowm!(rows, "csum", if pe.image().len() > (1 << 20) { 0 } else { pe.headers().check_sum() });
		rowm!(rows, "code_range", pe.headers().code_range());
		rowm!(rows, "image_range", pe.headers().image_range());
		rowm!(rows, "hpe", pe.headers().pe().image());
		// queries
		for q in $qs.iter() {
			let p: Vec<&str> = q.split(':').collect();
			let n = |i: usize| -> u64 { p[i].parse::<u64>().unwrap() };
			let first = pe.section_headers().image().as_ptr() as usize;
			match p[0] {
				"sl" => rowm!(rows, q, pe.slice(n(1) as u32, n(2) as usize, n(3) as usize)),
				"sb" => rowm!(rows, q, pe.slice_bytes(n(1) as u32)),
				"gsb" => rowm!(rows, q, pe.section_headers().image().get(n(1) as usize).map(|sh| pe.get_section_bytes(sh))),
				"byrva" => rowm!(rows, q, pe.section_headers().by_rva(n(1) as u32).map(|s| (&**s as *const IMAGE_SECTION_HEADER as usize - first) / 40)),
				"byname" => rowm!(rows, q, pe.section_headers().by_name(&unhex(p[1])[..]).map(|s| (&**s as *const IMAGE_SECTION_HEADER as usize - first) / 40)),
				"derva" => match n(2) { 1 => rowm!(rows, q, pe.derva::<u8>(n(1) as u32)), 2 => rowm!(rows, q, pe.derva::<u16>(n(1) as u32)), 4 => rowm!(rows, q, pe.derva::<u32>(n(1) as u32)), _ => rowm!(rows, q, pe.derva::<u64>(n(1) as u32)) },
				"copy" => match n(2) {
					1 => rowm!(rows, q, (pe.derva_copy::<u8>(n(1) as u32), { let mut d = [0u8; 3]; pe.derva_into(n(1) as u32, &mut d).map(|_| format!("{}:{}:{}", d[0], d[1], d[2])) })),
					2 => rowm!(rows, q, (pe.derva_copy::<u16>(n(1) as u32), { let mut d = [0u16; 3]; pe.derva_into(n(1) as u32, &mut d).map(|_| format!("{}:{}:{}", d[0], d[1], d[2])) })),
					4 => rowm!(rows, q, (pe.derva_copy::<u32>(n(1) as u32), { let mut d = [0u32; 3]; pe.derva_into(n(1) as u32, &mut d).map(|_| format!("{}:{}:{}", d[0], d[1], d[2])) })),
					_ => rowm!(rows, q, (pe.derva_copy::<u64>(n(1) as u32), { let mut d = [0u64; 3]; pe.derva_into(n(1) as u32, &mut d).map(|_| format!("{}:{}:{}", d[0], d[1], d[2])) })),
				},
				"arr" => match n(2) { 1 => rowm!(rows, q, pe.derva_slice::<u8>(n(1) as u32, n(3) as usize)), 2 => rowm!(rows, q, pe.derva_slice::<u16>(n(1) as u32, n(3) as usize)), 4 => rowm!(rows, q, pe.derva_slice::<u32>(n(1) as u32, n(3) as usize)), _ => rowm!(rows, q, pe.derva_slice::<u64>(n(1) as u32, n(3) as usize)) },
				"sent" => match n(2) { 1 => rowm!(rows, q, pe.derva_slice_s::<u8>(n(1) as u32, n(3) as u8)), 2 => rowm!(rows, q, pe.derva_slice_s::<u16>(n(1) as u32, n(3) as u16)), 4 => rowm!(rows, q, pe.derva_slice_s::<u32>(n(1) as u32, n(3) as u32)), _ => rowm!(rows, q, pe.derva_slice_s::<u64>(n(1) as u32, n(3))) },
				"sentf" => rowm!(rows, q, pe.derva_slice_f::<u16, _>(n(1) as u32, |x| *x & 0xff == n(3) as u16)),
				"cstr" => rowm!(rows, q, (pe.derva_c_str(n(1) as u32), pe.derva_string::<pelite::util::CStr>(n(1) as u32))),
				"ord" => row!(rows, q, gx!($kind, ord, pe, n(1) as u16)),
				"name" => { let nm = unhex(p[1]); row!(rows, q, gx!($kind, name, pe, &nm[..])) },
				"imp" => { let nm = unhex(p[2]); let c = pelite::util::CStr::from_bytes(&nm[..]); row!(rows, q, c.map(|c| gx!($kind, imp, pe, if n(1) == 0xFFFF_FFFF { pe32::imports::Import::ByOrdinal { ord: n(3) as u16 } } else { pe32::imports::Import::ByName { hint: n(1) as usize, name: c } }))) },
				"by" => {
					let nm = unhex(p[2]);
					let k = n(1) as usize;
					row!(rows, q, pe.exports().and_then(|e| e.by()).map(|by| vec![
						guard(|| by.ordinal(k as u16).canon()), guard(|| by.index(k).canon()), guard(|| by.hint(k).canon()), guard(|| by.name_of_hint(k).canon()),
						guard(|| by.name_lookup(k).canon()), guard(|| by.name(&nm[..]).canon()), guard(|| by.name_linear(&nm[..]).canon()), guard(|| by.hint_name(k, &nm[..]).canon()),
						guard(|| by.import(pe32::imports::Import::ByOrdinal { ord: k as u16 }).canon())]))
				},
				"scan" => {
					let pat = scan_pat(n(1));
					let range = n(2) as u32..n(3) as u32;
					row!(rows, q, {
						let sc = pe.scanner();
						let mut save = [0u32; 4];
						let f = sc.finds(&pat, range.clone(), &mut save);
						let mut m = sc.matches(&pat, range.clone());
						let mut hits: Vec<String> = Vec::new();
						let mut s2 = [0u32; 4];
						while hits.len() < 6 && m.next(&mut s2) { hits.push(format!("{}:{}:{}", s2[0], s2[1], m.hits())); }
						format!("finds({};{:?})matches({};{:?};{})", f, save, m.range().canon(), hits, m.pattern().len())
					})
				},
				"scanc" => {
					let pat = scan_pat(n(1));
					row!(rows, q, {
						let sc = pe.scanner();
						let mut save = [0u32; 4];
						let f = sc.finds_code(&pat, &mut save);
						let mut m = sc.matches_code(&pat);
						let mut hits: Vec<String> = Vec::new();
						let mut s2 = [0u32; 4];
						while hits.len() < 6 && m.next(&mut s2) { hits.push(format!("{}:{}", s2[0], s2[1])); }
						let inner = m.scanner().exec(n(2) as u32, &pat, &mut s2);
						format!("finds_code({};{:?})matches_code({};{:?};{})", f, save, m.range().canon(), hits, inner)
					})
				},
				"exec" => {
					let pat = scan_pat(n(1));
					row!(rows, q, { let mut save = [0u32; 4]; let r = pe.scanner().exec(n(2) as u32, &pat, &mut save); format!("{};{:?}", r, save) })
				},
				_ => rows.push((q.to_string(), "?".to_string())),
			}
		}
		// directories
		row!(rows, "rich", pe.rich_structure().map(|r| (r.image(), (r.xor_key(), r.records().count()))));
		row!(rows, "base_relocs", pe.base_relocs().map(|r| r.image()));
		row!(rows, "security", pe.security().map(|s| (s.image(), (s.certificate_type(), s.certificate_data()))));
		row!(rows, "exception", pe.exception().map(|_| ()));
		row!(rows, "resources", pe.resources().map(|r| r.root().map(|d| (d.image() as *const _ as usize - BASE.with(|b| b.get()).0, d.entries().count()))));
		row!(rows, "exports", pe.exports().map(|e| (e.image(), (e.dll_name(), (e.ordinal_base(), (e.functions(), (e.names(), e.name_indices())))))));
		row!(rows, "exports.pe", pe.exports().map(|e| e.pe().image()));
		row!(rows, "exports.by", pe.exports().and_then(|e| e.by()).map(|by| (by.image(), (by.dll_name(), (by.ordinal_base(), (by.functions(), (by.names(), (by.name_indices(), by.pe().image()))))))));
		row!(rows, "exports.by.sorted", pe.exports().and_then(|e| e.by()).map(|by| by.check_sorted()));
		row!(rows, "exports.by.iter", pe.exports().and_then(|e| e.by()).map(|by| by.iter().take(40).collect::<Vec<_>>()));
		row!(rows, "exports.by.iter_names", pe.exports().and_then(|e| e.by()).map(|by| by.iter_names().take(40).collect::<Vec<_>>()));
		row!(rows, "exports.by.iter_name_indices", pe.exports().and_then(|e| e.by()).map(|by| by.iter_name_indices().take(40).collect::<Vec<_>>()));
		row!(rows, "imports", pe.imports().map(|i| (i.image(), i.pe().image())));
		row!(rows, "imports.iter", pe.imports().map(|i| i.iter().take(12).map(|d| (d.image(), (d.dll_name(), d.pe().image()))).collect::<Vec<_>>()));
		row!(rows, "imports.into_iter.iat", pe.imports().map(|i| i.into_iter().take(12).map(|d| d.iat().map(|it| it.take(40).collect::<Vec<_>>())).collect::<Vec<_>>()));
		row!(rows, "imports.int", pe.imports().map(|i| i.iter().take(12).map(|d| d.int().map(|it| it.take(40).collect::<Vec<_>>())).collect::<Vec<_>>()));
		row!(rows, "iat", pe.iat().map(|i| (i.image(), i.pe().image())));
		row!(rows, "iat.iter", pe.iat().map(|i| i.iter().take(60).collect::<Vec<_>>()));
		row!(rows, "debug", pe.debug().map(|d| (d.image(), (d.pdb_file_name(), d.pe().image()))));
		row!(rows, "debug.iter", pe.debug().map(|d| d.iter().take(12).map(|dir| (dir.image(), (dir.data(), (dir.entry(), dir.pe().image())))).collect::<Vec<_>>()));
		row!(rows, "debug.into_iter", pe.debug().map(|d| d.into_iter().take(12).map(|dir| dir.image()).collect::<Vec<_>>()));
		row!(rows, "tls", pe.tls().map(|t| (t.image(), (t.raw_data(), (t.slot(), (t.callbacks(), t.pe().image()))))));
		row!(rows, "load_config", pe.load_config().map(|l| (l.image(), (l.security_cookie(), (l.se_handler_table(), l.pe().image())))));
		// rows recomputed by the extracted wrapper model (value-only forms, at most 64 items each)
		rowm!(rows, "m.by.iter", hl(vr(pe.exports().and_then(|e| e.by()), |by| jn(by.iter().take(64).map(|x| vx(&x)).collect(), ","))));
		rowm!(rows, "m.by.iter_names", hl(vr(pe.exports().and_then(|e| e.by()), |by| jn(by.iter_names().take(64).map(|(n, x)| format!("({};{})", vn(&n), vx(&x))).collect(), ","))));
		rowm!(rows, "m.by.iter_name_indices", hl(vr(pe.exports().and_then(|e| e.by()), |by| jn(by.iter_name_indices().take(64).map(|(n, i)| format!("({};{})", vn(&n), i)).collect(), ","))));
		rowm!(rows, "m.imp.int", hl(vr(pe.imports(), |i| jn(i.into_iter().take(8).map(|d| vr(d.int(), |it| format!("[{}]", jn(it.take(64).map(|x| vi(&x)).collect(), ",")))).collect(), "|"))));
		rowm!(rows, "m.imp.iat", hl(vr(pe.imports(), |i| jn(i.iter().take(8).map(|d| vr(d.iat(), |it| format!("[{}]", jn(it.take(64).map(|x| x.val()).collect(), ",")))).collect(), "|"))));
		rowm!(rows, "m.dbg.into_iter", vr(pe.debug(), |d| format!("{}", d.into_iter().count())));
		rows
	}};
}

// ------------------------------------------------------------------ JSON field table

use serde_json::Value;
fn vj(v: &Value) -> String {
	match v {
		Value::Null => "null".to_string(),
		Value::Bool(b) => b.to_string(),
		Value::Number(n) => n.to_string(),
		Value::String(s) => format!("s:{}", shorten(hex(s.as_bytes()))),
		Value::Array(a) => format!("[{}]{}", a.len(), shorten(a.iter().map(vj).collect::<Vec<_>>().join(","))),
		Value::Object(o) => format!("{{{}}}{}", o.len(), shorten(o.iter().map(|(k, v)| format!("{}:{}", hex(k.as_bytes()), vj(v))).collect::<Vec<_>>().join(","))),
	}
}
fn path<'v>(v: &'v Value, p: &[&str]) -> &'v Value {
	static NULL: Value = Value::Null;
	let mut cur = v;
	for k in p {
		cur = match cur {
			Value::Object(o) => o.get(*k).unwrap_or(&NULL),
			Value::Array(a) => k.parse::<usize>().ok().and_then(|i| a.get(i)).unwrap_or(&NULL),
			_ => &NULL,
		};
	}
	cur
}
/// accessor-side renderings in the same syntax as [vj]
fn a_str(b: &[u8]) -> String { format!("s:{}", shorten(hex(b))) }
fn a_list(v: Vec<String>) -> String { format!("[{}]{}", v.len(), shorten(v.join(","))) }
fn a_opt<T, F: FnOnce(T) -> String>(r: pelite::Result<T>, f: F) -> String { match r { Ok(v) => f(v), Err(_) => "null".to_string() } }
fn isnull(v: &Value) -> String { if v.is_null() { "null".to_string() } else { "some".to_string() } }
fn okerr<T>(r: &pelite::Result<T>) -> String { match r { Ok(_) => "ok".to_string(), Err(e) => format!("e:{:?}", e) } }

macro_rules! json_table {
	($m:ident, $pe:expr, $j:expr) => {{
		use $m::Pe;
		let pe = $pe;
		let j: &Value = $j;
		let mut rows: Vec<(String, String, String)> = Vec::new();
		macro_rules! jr { ($name:expr, $jv:expr, $av:expr) => { rows.push(($name.to_string(), clean(&guard(|| $jv)), clean(&guard(|| $av)))) } }
		// headers
		let dh = pe.dos_header(); let fh = pe.file_header(); let oh = pe.optional_header();
		jr!("dos.e_magic", vj(path(j, &["headers", "DosHeader", "e_magic"])), dh.e_magic.to_string());
		jr!("dos.e_lfanew", vj(path(j, &["headers", "DosHeader", "e_lfanew"])), dh.e_lfanew.to_string());
		jr!("nt.Signature", vj(path(j, &["headers", "NtHeaders", "Signature"])), pe.nt_headers().Signature.to_string());
		jr!("fh", ["Machine", "NumberOfSections", "TimeDateStamp", "PointerToSymbolTable", "NumberOfSymbols", "SizeOfOptionalHeader", "Characteristics"].iter().map(|k| vj(path(j, &["headers", "NtHeaders", "FileHeader", k]))).collect::<Vec<_>>().join(","),
			vec![fh.Machine as u64, fh.NumberOfSections as u64, fh.TimeDateStamp as u64, fh.PointerToSymbolTable as u64, fh.NumberOfSymbols as u64, fh.SizeOfOptionalHeader as u64, fh.Characteristics as u64].iter().map(|x| x.to_string()).collect::<Vec<_>>().join(","));
		jr!("oh", ["Magic", "SizeOfCode", "SizeOfInitializedData", "SizeOfUninitializedData", "AddressOfEntryPoint", "BaseOfCode", "ImageBase", "SectionAlignment", "FileAlignment", "Win32VersionValue", "SizeOfImage", "SizeOfHeaders", "CheckSum", "Subsystem", "DllCharacteristics", "SizeOfStackReserve", "SizeOfStackCommit", "SizeOfHeapReserve", "SizeOfHeapCommit", "LoaderFlags", "NumberOfRvaAndSizes"].iter().map(|k| vj(path(j, &["headers", "NtHeaders", "OptionalHeader", k]))).collect::<Vec<_>>().join(","),
			vec![oh.Magic as u64, oh.SizeOfCode as u64, oh.SizeOfInitializedData as u64, oh.SizeOfUninitializedData as u64, oh.AddressOfEntryPoint as u64, oh.BaseOfCode as u64, oh.ImageBase as u64, oh.SectionAlignment as u64, oh.FileAlignment as u64, oh.Win32VersionValue as u64, oh.SizeOfImage as u64, oh.SizeOfHeaders as u64, oh.CheckSum as u64, oh.Subsystem as u64, oh.DllCharacteristics as u64, oh.SizeOfStackReserve as u64, oh.SizeOfStackCommit as u64, oh.SizeOfHeapReserve as u64, oh.SizeOfHeapCommit as u64, oh.LoaderFlags as u64, oh.NumberOfRvaAndSizes as u64].iter().map(|x| x.to_string()).collect::<Vec<_>>().join(","));
		jr!("dirs", match path(j, &["headers", "DataDirectory"]) { Value::Array(a) => a.iter().map(|d| format!("{}:{}", vj(path(d, &["VirtualAddress"])), vj(path(d, &["Size"])))).collect::<Vec<_>>().join(";"), o => vj(o) },
			pe.data_directory().iter().map(|d| format!("{}:{}", d.VirtualAddress, d.Size)).collect::<Vec<_>>().join(";"));
		jr!("secs", match path(j, &["headers", "SectionHeaders"]) { Value::Array(a) => a.iter().map(|d| ["VirtualAddress", "VirtualSize", "PointerToRawData", "SizeOfRawData", "PointerToRelocations", "PointerToLinenumbers", "NumberOfRelocations", "NumberOfLinenumbers", "Characteristics"].iter().map(|k| vj(path(d, &[k]))).collect::<Vec<_>>().join(":")).collect::<Vec<_>>().join(";"), o => vj(o) },
			pe.section_headers().image().iter().map(|s| format!("{}:{}:{}:{}:{}:{}:{}:{}:{}", s.VirtualAddress, s.VirtualSize, s.PointerToRawData, s.SizeOfRawData, s.PointerToRelocations, s.PointerToLinenumbers, s.NumberOfRelocations, s.NumberOfLinenumbers, s.Characteristics)).collect::<Vec<_>>().join(";"));
		jr!("secs.Name", match path(j, &["headers", "SectionHeaders"]) { Value::Array(a) => a_list(a.iter().map(|d| match path(d, &["Name"]) { Value::String(s) => hex(s.as_bytes()), Value::Array(b) => b.iter().map(|x| format!("{:02x}", x.as_u64().unwrap_or(999))).collect::<Vec<_>>().join(""), o => vj(o) }).collect()), o => vj(o) },
			a_list(pe.section_headers().image().iter().map(|s| { let n: &[u8] = &s.Name[..]; let mut e = 8; while e > 0 && n[e - 1] == 0 { e -= 1; } if std::str::from_utf8(&n[..e]).is_ok() { hex(&n[..e]) } else { hex(n) } }).collect()));
		jr!("details.CheckSum", vj(path(j, &["headers", "details", "OptionalHeader.CheckSum"])), pe.headers().check_sum().to_string());
		jr!("details.dd_sections", match path(j, &["headers", "details", "DataDirectory.Sections"]) { Value::Array(a) => a.iter().map(|x| match x { Value::Null => "n".to_string(), o => vj(o) }).collect::<Vec<_>>().join(","), o => vj(o) }, {
			let first = pe.section_headers().image().as_ptr() as usize;
			pe.data_directory().iter().map(|d| match pe.section_headers().by_rva(d.VirtualAddress) { Some(s) => ((&**s as *const IMAGE_SECTION_HEADER as usize - first) / 40).to_string(), None => "n".to_string() }).collect::<Vec<_>>().join(",") });
		jr!("details.lens", format!("{}:{}", match path(j, &["headers", "details", "DataDirectory.Names"]) { Value::Array(a) => a.len().to_string(), o => vj(o) }, match path(j, &["headers", "details", "SectionHeaders.Characteristics"]) { Value::Array(a) => a.len().to_string(), o => vj(o) }),
			format!("{}:{}", pe.data_directory().len(), pe.section_headers().image().len()));
		jr!("details.magic", vj(path(j, &["headers", "details", "OptionalHeader.Magic"])), a_str(if stringify!($m) == "pe64" { b"IMAGE_NT_OPTIONAL_HDR64_MAGIC" } else { b"IMAGE_NT_OPTIONAL_HDR32_MAGIC" }));
		// `.ok()` fields: null exactly when the accessor errs  (the accessor's verdict is printed so that the model can compare it)
		jr!("null.rich_structure", isnull(path(j, &["rich_structure"])), if pe.rich_structure().is_ok() { "some" } else { "null" }.to_string());
		jr!("null.exports", format!("{}", isnull(path(j, &["exports"]))), if pe.exports().and_then(|e| e.by()).is_ok() { "some" } else { "null" }.to_string());
		jr!("null.imports", isnull(path(j, &["imports"])), if pe.imports().is_ok() { "some" } else { "null" }.to_string());
		jr!("null.base_relocs", isnull(path(j, &["base_relocs"])), if pe.base_relocs().is_ok() { "some" } else { "null" }.to_string());
		jr!("null.debug", isnull(path(j, &["debug"])), if pe.debug().is_ok() { "some" } else { "null" }.to_string());
		jr!("null.tls", isnull(path(j, &["tls"])), if pe.tls().is_ok() { "some" } else { "null" }.to_string());
		jr!("null.load_config", isnull(path(j, &["load_config"])), if pe.load_config().is_ok() { "some" } else { "null" }.to_string());
		jr!("null.security", isnull(path(j, &["security"])), if pe.security().is_ok() { "some" } else { "null" }.to_string());
		jr!("null.resources", isnull(path(j, &["resources"])), if pe.resources().and_then(|r| r.root()).is_ok() { "some" } else { "null" }.to_string());
		// the accessors' own verdicts (modelled ones are recomputed by the driver)
		rows.push(("acc.verdicts".to_string(), guard(|| format!("exports:{},tls:{},load_config:{},debug:{},base_relocs:{},security:{}", okerr(&pe.exports()), okerr(&pe.tls()), okerr(&pe.load_config()), okerr(&pe.debug()), okerr(&pe.base_relocs()), okerr(&pe.security()))), "-".to_string()));
		// rich structure
		jr!("rich", format!("{}:{}:{}", vj(path(j, &["rich_structure", "xor_key"])), vj(path(j, &["rich_structure", "checksum"])), match path(j, &["rich_structure", "records"]) { Value::Array(a) => a_list(a.iter().map(|r| format!("{}.{}.{}", vj(path(r, &["product"])), vj(path(r, &["build"])), vj(path(r, &["count"])))).collect()), o => vj(o) }),
			a_opt(pe.rich_structure(), |r| format!("{}:{}:{}", r.xor_key(), r.checksum(), a_list(r.records().map(|x| format!("{}.{}.{}", x.product, x.build, x.count)).collect()))).replace("null", "null:null:null"));
		// exports
		jr!("exports", { let e = path(j, &["exports"]); if e.is_null() { "null".to_string() } else { format!("{}|{}|{}|{}|{}", vj(path(e, &["dll_name"])), vj(path(e, &["time_date_stamp"])), vj(path(e, &["ordinal_base"])), vj(path(e, &["functions"])), match path(e, &["names"]) { Value::Object(o) => { let mut v: Vec<String> = o.iter().map(|(k, x)| format!("{}>{}", hex(k.as_bytes()), vj(x))).collect(); v.sort(); a_list(v) }, o => vj(o) }) } },
			a_opt(pe.exports().and_then(|e| e.by()), |by| format!("{}|{}|{}|{}|{}", a_opt(by.dll_name(), |n| cstr_json(n)), by.image().TimeDateStamp, by.ordinal_base(), a_list(by.functions().iter().map(|x| x.to_string()).collect()),
				{ let mut m: std::collections::BTreeMap<Vec<u8>, usize> = std::collections::BTreeMap::new(); for (n, i) in by.iter_name_indices() { if let Ok(n) = n { if let Ok(s) = n.to_str() { m.insert(s.as_bytes().to_vec(), i); } } } let mut v: Vec<String> = m.iter().map(|(k, i)| format!("{}>{}", hex(k), i)).collect(); v.sort(); a_list(v) })));
		// imports
		jr!("imports", match path(j, &["imports"]) { Value::Array(a) => a_list(a.iter().map(|d| format!("{}|{}", vj(path(d, &["dll_name"])), match path(d, &["int"]) { Value::Array(i) => a_list(i.iter().map(|x| if let Some(b) = x.get("ByName") { format!("n.{}.{}", vj(path(b, &["hint"])), vj(path(b, &["name"]))) } else if let Some(b) = x.get("ByOrdinal") { format!("o.{}", vj(path(b, &["ord"]))) } else { vj(x) }).collect()), o => vj(o) })).collect()), o => vj(o) },
			a_opt(pe.imports(), |imps| a_list(imps.iter().map(|d| format!("{}|{}", a_opt(d.dll_name(), |n| cstr_json(n)), a_opt(d.int(), |it| a_list(it.filter_map(|x| x.ok()).map(|x| match x { $m::imports::Import::ByName { hint, name } => format!("n.{}.{}", hint, cstr_json(name)), $m::imports::Import::ByOrdinal { ord } => format!("o.{}", ord) }).collect())))).collect())));
		// base relocs
		jr!("base_relocs", format!("{}|{}", vj(path(j, &["base_relocs", "rvas"])), vj(path(j, &["base_relocs", "types"]))),
			a_opt(pe.base_relocs(), |r| { let mut rv = Vec::new(); let mut ty = Vec::new(); for b in r.iter_blocks() { for w in b.words() { if b.type_of(w) != 0 { rv.push(b.rva_of(w).to_string()); ty.push(b.type_of(w).to_string()); } } } format!("{}|{}", a_list(rv), a_list(ty)) }).replace("null", "null|null"));
		// debug
		jr!("debug", match path(j, &["debug"]) { Value::Array(a) => a_list(a.iter().map(|d| format!("{}|{}|{}|{}", vj(path(d, &["type"])), vj(path(d, &["time_date_stamp"])), isnull(path(d, &["entry"])), vj(path(d, &["entry", "pdb_file_name"])))).collect()), o => vj(o) },
			a_opt(pe.debug(), |dbg| a_list(dbg.iter().map(|d| format!("{}|{}|{}|{}", match pelite::stringify::DebugType(d.image().Type).to_str() { Some(s) => a_str(s.as_bytes()), None => "null".to_string() }, d.image().TimeDateStamp,
				match d.entry() { Ok($m::debug::Entry::Unknown(None)) => "null", Ok(_) => "some", Err(_) => "null" }, match d.entry() { Ok($m::debug::Entry::CodeView(cv)) => cstr_json(cv.pdb_file_name()), _ => "null".to_string() })).collect())));
		// tls
		jr!("tls", format!("{}|{}", vj(path(j, &["tls", "raw_data"])), vj(path(j, &["tls", "callbacks"]))),
			a_opt(pe.tls(), |t| format!("{}|{}", a_opt(t.raw_data(), |d| a_str(b64(d).as_bytes())), a_opt(t.callbacks(), |c| a_list(c.iter().map(|x| x.to_string()).collect())))).replace("null", "null|null").replace("null|null|null|null", "null|null").replace("null|null|", "null|").replace("|null|null", "|null"));
		// load config
		jr!("load_config", format!("{}|{}", vj(path(j, &["load_config", "security_cookie"])), vj(path(j, &["load_config", "se_handler_table"]))),
			match pe.load_config() { Ok(l) => format!("{}|{}", a_opt(l.security_cookie(), |c| c.to_string()), a_opt(l.se_handler_table(), |c| a_list(c.iter().map(|x| x.to_string()).collect()))), Err(_) => "null|null".to_string() });
		// security
		jr!("security", format!("{}|{}", vj(path(j, &["security", "certificate_type"])), vj(path(j, &["security", "certificate_data"]))),
			match pe.security() { Ok(s) => format!("{}|{}", s.certificate_type(), a_str(b64(s.certificate_data()).as_bytes())), Err(_) => "null|null".to_string() });
		// resources: top level entries (name after renaming the well-known type ids, directory or data)
		jr!("resources", match path(j, &["resources"]) { Value::Array(a) => a_list(a.iter().map(|e| format!("{}|{}", isnull(path(e, &["name"])), if e.get("directory").is_some() { "dir" } else { "data" })).collect()), o => vj(o) },
			// (the serializer stops when the entry budget of the section is used up: the entries it did write are a prefix of the directory;
			//  the exact cut is the business of the model of the member, Model/WrapJsonRes.v, compared through the JT row)
			a_opt(pe.resources().and_then(|r| r.root()), |root| a_list(root.entries().take(match path(j, &["resources"]) { Value::Array(a) => a.len(), _ => 0 }).map(|e| format!("{}|{}", if e.name().is_ok() { "some" } else { "null" }, if e.is_dir() { "dir" } else { "data" })).collect())));
		rows
	}};
}
/// the documented display form of a C string: ASCII as is, every other byte as \xHH
fn cstr_json(n: &pelite::util::CStr) -> String {
	let mut v: Vec<u8> = Vec::new();
	for &b in n.as_ref() {
		if b < 0x80 { v.push(b) } else { v.extend_from_slice(format!("\\x{:02X}", b).as_bytes()) }
	}
	a_str(&v)
}
fn b64(d: &[u8]) -> String {
	const T: &[u8; 64] = b"ABCDEFGHIJKLMNOPQRSTUVWXYZabcdefghijklmnopqrstuvwxyz0123456789+/";
	let mut s = String::new();
	for c in d.chunks(3) {
		let n = (c[0] as u32) << 16 | (*c.get(1).unwrap_or(&0) as u32) << 8 | *c.get(2).unwrap_or(&0) as u32;
		s.push(T[(n >> 18) as usize & 63] as char);
		s.push(T[(n >> 12) as usize & 63] as char);
		s.push(if c.len() > 1 { T[(n >> 6) as usize & 63] as char } else { '=' });
		s.push(if c.len() > 2 { T[n as usize & 63] as char } else { '=' });
	}
	s
}

// ------------------------------------------------------------------ images

fn repo_dir() -> String { std::env::var("PELITE_REPO").unwrap_or_else(|_| "/repo".to_string()) }
fn r16(b: &[u8], o: usize) -> u32 { if o + 2 <= b.len() { u16::from_le_bytes([b[o], b[o + 1]]) as u32 } else { 0 } }
fn r32(b: &[u8], o: usize) -> u32 { if o + 4 <= b.len() { u32::from_le_bytes([b[o], b[o + 1], b[o + 2], b[o + 3]]) } else { 0 } }

/// own loader for the demo DLLs: headers, then every section's raw data (at most VirtualSize bytes when that is non-zero) at its VirtualAddress
fn map_image(b: &[u8]) -> Vec<u8> {
	let e = r32(b, 0x3c) as usize;
	let nsec = r16(b, e + 6) as usize;
	let optsz = r16(b, e + 20) as usize;
	let soi = r32(b, e + 24 + 56) as usize;
	let soh = r32(b, e + 24 + 60) as usize;
	let mut out = vec![0u8; soi];
	let n = soh.min(b.len()).min(soi);
	out[..n].copy_from_slice(&b[..n]);
	for i in 0..nsec {
		let p = e + 24 + optsz + 40 * i;
		let (vs, va, srd, prd) = (r32(b, p + 8) as usize, r32(b, p + 12) as usize, r32(b, p + 16) as usize, r32(b, p + 20) as usize);
		let n = if vs > 0 { srd.min(vs) } else { srd };
		if prd + n <= b.len() && va + n <= soi {
			out[va..va + n].copy_from_slice(&b[prd..prd + n]);
		}
	}
	out
}
fn build_image(case: &str) -> Vec<u8> {
	let src = field(case, "src");
	let img = Image::decode(case);
	if src == "synth" {
		return img.bytes();
	}
	let mut b = std::fs::read(format!("{}/demo/{}", repo_dir(), src)).expect("harness: demo dll not found (PELITE_REPO)");
	if field(case, "view") == "1" {
		b = map_image(&b);
	}
	for (o, p) in &img.pokes {
		for (k, x) in p.iter().enumerate() {
			if o + k < b.len() { b[o + k] = *x; }
		}
	}
	b
}

const BOUNDARY: [u32; 12] = [0, 1, 2, 8, 0xFFFF, 0x10000, 0x7FFF_FFFF, 0x8000_0000, 0xFFFF_FFF8, 0xFFFF_FFFF, 0xFFFF_F000, 0x1000];

fn gen_queries(rng: &mut Rng, edges: &[u64], nsec: usize, names: &[&[u8]], nq: usize) -> Vec<String> {
	let deltas: [i64; 9] = [-8, -4, -2, -1, 0, 1, 2, 4, 8];
	let mut qs: Vec<String> = Vec::new();
	let addr = |rng: &mut Rng| -> u32 {
		let e = *rng.pick(edges) as i64 + *rng.pick(&deltas);
		if rng.chance(1, 20) { rng.next() as u32 } else { (e.max(0) as u64 & 0xFFFF_FFFF) as u32 }
	};
	for _ in 0..nq {
		let a = addr(rng);
		let al = *rng.pick(&[1u64, 1, 2, 4, 8]);
		let sz = *rng.pick(&[1u64, 2, 4, 8]);
		let mins = match rng.below(10) { 0 => 1, 1 => 2, 2 => 4, 3 => 8, 4 => 0x200, 5 => 1 << 32, 6 => 1 << 63, 7 => rng.below(0x400), 8 => u64::MAX, _ => 0 };
		let name = hex(*rng.pick(names));
		let k = match rng.below(8) { 0 => 0, 1 => 1, 2 => 0xFFFF, 3 => 0xFFFF_FFFF, 4 => u64::MAX / 2, _ => rng.below(24) };
		match rng.below(22) {
			0 | 1 => qs.push(format!("sl:{}:{}:{}", a, mins, al)),
			2 => qs.push(format!("sb:{}", a)),
			3 => qs.push(format!("gsb:{}", rng.below(nsec as u64 + 1))),
			4 => qs.push(format!("byrva:{}", a)),
			5 => qs.push(format!("derva:{}:{}", a, sz)),
			6 => qs.push(format!("copy:{}:{}", a, sz)),
			7 => qs.push(format!("arr:{}:{}:{}", a, sz, match rng.below(6) { 0 => 0, 1 => u64::MAX / 2, 2 => 1 << 61, _ => rng.below(40) })),
			8 => qs.push(format!("sent:{}:{}:{}", a, sz, if rng.chance(2, 3) { 0 } else { rng.below(256) })),
			9 => qs.push(format!("cstr:{}", a)),
			10 => qs.push(format!("sentf:{}:2:{}", a, rng.below(4))),
			11 => qs.push(format!("byname:{}", hex(*rng.pick(&[&b".text"[..], b".s0", b".rdata", b".s1\0", b"123456789", b""])))),
			12 => qs.push(format!("ord:{}", k & 0xFFFF)),
			13 => qs.push(format!("name:{}", name)),
			14 => qs.push(format!("imp:{}:{}:{}", if rng.chance(1, 3) { 0xFFFF_FFFFu64 } else { rng.below(24) }, hex(&[*rng.pick(names), &b"\0"[..]].concat()), rng.below(24))),
			15 | 16 => qs.push(format!("by:{}:{}", k, name)),
			17 | 18 => { let b = addr(rng); qs.push(format!("scan:{}:{}:{}", rng.below(8), a.min(b), a.max(b))) },
			19 => qs.push(format!("scanc:{}:{}", rng.below(8), a)),
			_ => qs.push(format!("exec:{}:{}", rng.below(8), a)),
		}
	}
	qs
}

fn gen_synth(rng: &mut Rng) -> String {
	let pe64 = rng.chance(1, 2);
	let view = rng.chance(2, 5);
	let e_lfanew = *rng.pick(&[0x40u32, 0x40, 0x80, 0x44, 0xF8]);
	let ndirs = *rng.pick(&[16usize, 16, 16, 16, 0, 1, 5, 10, 15]);
	let mut spec = ImgSpec { pe64, e_lfanew, soh: 0, soi: 0, image_base: 0, nrva: ndirs as u32, dirs: vec![(0u32, 0u32); ndirs], opt_size: 0, nsec_field: 0, secs: Vec::new(), checksum: rng.next() as u32, magic: if pe64 { 0x20b } else { 0x10b } };
	spec.opt_size = spec.std_opt_size();
	let len: usize = match rng.below(6) { 0 => 0x600, 1 => 0x1000, 2 => 0x2345, _ => (0x800 + rng.below(0x1800)) as usize };
	spec.secs = gen_sections(rng, len as u32, 0x400);
	if rng.chance(1, 6) {
		// a dedicated shape: a section whose virtual range reaches or wraps 2^32
		let mut name = [0u8; 8];
		name[..5].copy_from_slice(b".high");
		let vs = *rng.pick(&[0x1000u32, 0x2000, 0xFFF, 0x1001, 0xFFFF_FFFF]);
		let s = Sec { name, va: *rng.pick(&[0xFFFF_F000u32, 0xFFFF_FF00, 0xFFFF_E000]), vs, prd: 0x400, srd: *rng.pick(&[0u32, 0x200, 0x2000]), chars: 0x4000_0040 };
		let k = rng.below(spec.secs.len() as u64 + 1) as usize;
		spec.secs.insert(k, s);
	}
	spec.nsec_field = spec.secs.len() as u16;
	let hdr_end = spec.hdr_end();
	let len = len.max(hdr_end);
	spec.soh = match rng.below(8) { 0 => 0, 1 => len as u32, 2 => hdr_end as u32, 3 => rng.below(len as u64 + 1) as u32, _ => 0x400.min(len as u32) };
	spec.soi = match rng.below(8) {
		0 => spec.soh,
		1 => 0xFFFF_FFFF,
		2 => len as u32,
		3 => spec.soh + rng.below(0x4000) as u32,
		_ => spec.secs.iter().map(|s| s.va.wrapping_add(s.vs.max(s.srd))).filter(|e| *e < 0x100_0000).max().unwrap_or(0x1000).max(spec.soh),
	};
	if spec.soi < spec.soh { spec.soi = spec.soh; }
	spec.image_base = match rng.below(6) { 0 => 0, 1 => 0xFFFF_F000, 2 => if pe64 { 0xFFFF_FFFF_FFFF_F000 } else { 0xFFFF_0000 }, 3 => if pe64 { 0x1_4000_0000 } else { 0x40_0000 }, _ => 0x1000_0000 };
	// boundary addresses
	let mut edges: Vec<u64> = vec![0, 1, spec.soh as u64, spec.soi as u64, 0xFFFF_FFFF, len as u64, hdr_end as u64, 0x40, 0x100];
	for s in &spec.secs {
		for e in &[s.va as u64, s.va as u64 + s.vs as u64, s.va as u64 + s.srd as u64, s.va as u64 + s.vs.max(s.srd) as u64, s.prd as u64, s.prd as u64 + s.srd as u64, s.va as u64 + 0x10, s.va as u64 + 0x40] {
			edges.push(*e & 0xFFFF_FFFF);
		}
	}
	// data directories: addresses at section edges and inside sections, sizes from small and boundary values
	for k in 0..ndirs {
		if rng.chance(3, 5) {
			let va = if rng.chance(1, 8) { *rng.pick(&BOUNDARY) } else { let e = *rng.pick(&edges) as u32; if rng.chance(1, 2) { e & !7 } else { e } };
			let size = match rng.below(8) { 0 => *rng.pick(&BOUNDARY), 1 => 28, 2 => 56, 3 => 40, 4 => 8, 5 => 0xFFFF_FFF8u32.wrapping_sub(va & !7).wrapping_add(8 * rng.below(3) as u32), _ => (rng.below(0x80) as u32) & !3 };
			spec.dirs[k] = (va, size);
		}
	}
	let fill = if rng.chance(1, 6) { 0 } else { rng.range(1, 1000) as u32 };
	let mut pokes = Vec::new();
	for _ in 0..rng.below(8) {
		let o = hdr_end + rng.below((len - hdr_end) as u64 + 1) as usize;
		pokes.push((o, vec![0u8; rng.range(1, 24) as usize]));
	}
	// selection stream: images at the edge of acceptance (the constructor must pick by the magic or fail)
	let mut len = len;
	let mut place = *rng.pick(&[0usize, 4, 8, 12]);
	let mut hdr_override: Option<Vec<u8>> = None;
	if rng.chance(1, 7) {
		match rng.below(9) {
			0 => spec.magic = *rng.pick(&[0x10bu16, 0x20b, 0x107, 0, 0x20c]),       // magic of the other format / no format
			1 => { spec.magic = if pe64 { 0x10b } else { 0x20b }; },               // layout of one format, magic of the other
			2 => { spec.secs.truncate(0); spec.nsec_field = 0; spec.dirs.truncate(0); spec.nrva = 0; spec.opt_size = if pe64 { 112 } else { 96 };
				len = e_lfanew as usize + *rng.pick(&[119usize, 120, 121, 124, 128, 135, 136, 137, 144]); spec.soh = spec.soh.min(len as u32); },   // around the two NT header sizes (F22)
			3 => spec.nsec_field = *rng.pick(&[96u16, 97, 65535]),
			4 => place = *rng.pick(&[1usize, 2, 6]),
			5 => spec.soh = len as u32 + 1,
			6 => spec.opt_size = spec.opt_size.wrapping_add(*rng.pick(&[1u16, 2, 3, 4])),
			7 => { let mut h = spec.header_bytes(); let o = *rng.pick(&[0usize, 1, e_lfanew as usize, e_lfanew as usize + 2]); h[o] ^= 0x20; hdr_override = Some(h); },
			_ => spec.nrva = *rng.pick(&[0u32, 17, 0x8000_0000, 0xFFFF_FFFF]),
		}
		if spec.soi < spec.soh { spec.soi = spec.soh; }
	}
	let img = Image { len, fill, hdr: hdr_override.unwrap_or_else(|| scrambled_header(&spec, rng)), pokes: pokes.into_iter().filter(|(o, _)| *o < len).collect() };
	let names: [&[u8]; 4] = [b"CallA1", b"x", b"", b"?nPasswds@@3HA"];
	let qs = gen_queries(rng, &edges, spec.secs.len(), &names, 24);
	format!("wj src=synth view={} place={} {} q={}", view as u8, place, img.encode(), join(&qs, ","))
}

fn gen_demo(rng: &mut Rng) -> String {
	let pe64 = rng.chance(1, 2);
	let view = rng.chance(2, 5);
	let src = if pe64 { "Demo64.dll" } else { "Demo.dll" };
	let file = std::fs::read(format!("{}/demo/{}", repo_dir(), src)).expect("harness: demo dll not found (PELITE_REPO)");
	let b = if view { map_image(&file) } else { file };
	let e = r32(&b, 0x3c) as usize;
	let nsec = r16(&b, e + 6) as usize;
	let optsz = r16(&b, e + 20) as usize;
	let dd = e + 24 + if pe64 { 112 } else { 96 };
	let st = e + 24 + optsz;
	let secs: Vec<(u32, u32, u32, u32)> = (0..nsec).map(|i| { let p = st + 40 * i; (r32(&b, p + 12), r32(&b, p + 8), r32(&b, p + 20), r32(&b, p + 16)) }).collect();
	let to_off = |rva: u32| -> Option<usize> {
		if view { return if (rva as usize) < b.len() { Some(rva as usize) } else { None }; }
		for (va, vs, prd, srd) in &secs {
			if rva >= *va && rva < va + vs.max(srd) && rva - va < *srd { return Some((rva - va + prd) as usize); }
		}
		None
	};
	let mut edges: Vec<u64> = vec![0, 1, 0x400, b.len() as u64, 0xFFFF_FFFF, r32(&b, e + 24 + 56) as u64];
	for (va, vs, prd, srd) in &secs {
		for x in &[*va as u64, *va as u64 + *vs as u64, *va as u64 + *srd as u64, *prd as u64, *prd as u64 + *srd as u64] { edges.push(*x); }
	}
	let mut dir_offs: Vec<(usize, usize)> = Vec::new(); // (offset of the structure, bytes worth corrupting)
	for k in 0..16 {
		let (va, sz) = (r32(&b, dd + 8 * k), r32(&b, dd + 8 * k + 4));
		if va != 0 {
			edges.push(va as u64);
			edges.push(va as u64 + sz as u64);
			let o = if k == 4 { Some(va as usize) } else { to_off(va) };
			if let Some(o) = o {
				let span = match k { 0 => 40, 1 => 60, 2 => 0x60, 3 => 48, 5 => 24, 6 => 56, 9 => if pe64 { 40 } else { 24 }, 10 => if pe64 { 112 } else { 72 }, 12 => 32, _ => 16 };
				dir_offs.push((o, span));
				// one level of indirection: u32 fields of the export / import / debug structures that are themselves rvas
				if k == 0 { for f in [12usize, 28, 32, 36] { if let Some(o2) = to_off(r32(&b, o + f)) { dir_offs.push((o2, 32)); } } }
				if k == 1 { for f in [0usize, 12, 16] { if let Some(o2) = to_off(r32(&b, o + f)) { dir_offs.push((o2, 32)); } } }
				if k == 6 { if view { if let Some(o2) = to_off(r32(&b, o + 20)) { dir_offs.push((o2, 32)); } } else { dir_offs.push((r32(&b, o + 24) as usize, 32)); } }
			}
		}
	}
	// the export ordinal table (hint -> index): permuting it separates lookups by hint from lookups by index
	let ord_tab: Option<(usize, usize)> = { let va = r32(&b, dd); if va != 0 { to_off(va).and_then(|o| to_off(r32(&b, o + 36)).map(|t| (t, r32(&b, o + 24) as usize))) } else { None } };
	let mut pokes: Vec<(usize, Vec<u8>)> = Vec::new();
	if let Some((t, n)) = ord_tab {
		if n > 1 && rng.chance(1, 3) {
			for _ in 0..rng.range(1, 3) {
				let i = rng.below(n as u64) as usize;
				let v = rng.below(n as u64 + 2) as u16;
				pokes.push((t + 2 * i, v.to_le_bytes().to_vec()));
			}
		}
	}
	// JSON shapes (one case in four, second round): bytes that exercise the string escapes of the printer (quote, backslash,
	// control characters, DEL), the \\xHH form of C strings, valid multi-byte UTF-8 and invalid UTF-8 (section names fall
	// back to the byte array, export names are dropped from the map), and the untagged Entry variants of the debug directory
	if rng.chance(1, 4) {
		const NASTY: [&[u8]; 12] = [b"\"", b"\\", b"\x01", b"\x1f", b"\x7f", b"\x80", b"\xc3\xa9", b"\xff\xfe", b"\n\t", b"\xe2\x82\xac", b"\x08\x0c\r", b"\xf0\x9f\x98\x80"];
		let exp = { let va = r32(&b, dd); if va != 0 { to_off(va) } else { None } };
		let dbg = { let (va, sz) = (r32(&b, dd + 48), r32(&b, dd + 52)); if va != 0 { to_off(va).map(|o| (o, sz as usize / 28)) } else { None } };
		let imp = { let va = r32(&b, dd + 8); if va != 0 { to_off(va) } else { None } };
		for _ in 0..rng.range(1, 3) {
			let nasty = rng.pick(&NASTY).to_vec();
			match rng.below(6) {
				0 => {
					// inside a section name (never beyond its 8 bytes)
					let pos = rng.below(8) as usize;
					let o = st + 40 * rng.below(nsec as u64) as usize + pos;
					pokes.push((o, nasty[..nasty.len().min(8 - pos)].to_vec()));
				},
				1 => if let Some(o) = exp {
					// inside an export name or the dll name
					let nnames = r32(&b, o + 24) as u64;
					let target = if rng.chance(1, 4) || nnames == 0 { to_off(r32(&b, o + 12)) } else { to_off(r32(&b, o + 32)).and_then(|t| to_off(r32(&b, t + 4 * rng.below(nnames.min(64)) as usize))) };
					if let Some(t) = target { pokes.push((t + rng.below(4) as usize, nasty)); }
				},
				2 => if let Some((o, n)) = dbg {
					// the type of a debug directory entry: POGO, MISC, unknown types, CodeView
					if n > 0 { pokes.push((o + 28 * rng.below(n as u64) as usize + 12, (*rng.pick(&[13u32, 4, 0, 9, 16, 17, 2, 0xFFFF_FFFF])).to_le_bytes().to_vec())); }
				},
				3 => if let Some((o, n)) = dbg {
					// inside the pdb path of a CodeView record, or its signature / age
					if n > 0 {
						let e = o + 28 * rng.below(n as u64) as usize;
						let p2 = if view { r32(&b, e + 20) as usize } else { r32(&b, e + 24) as usize };
						if p2 != 0 && p2 + 64 < b.len() { pokes.push((p2 + *rng.pick(&[4usize, 20, 24, 25, 30, 40]), nasty)); }
					}
				},
				4 => if let Some(o) = imp {
					// inside the dll name of an import descriptor or the name of an imported symbol
					let k = 20 * rng.below(2) as usize;
					let target = if rng.chance(1, 2) { to_off(r32(&b, o + k + 12)) } else { to_off(r32(&b, o + k)).and_then(|t| to_off(r32(&b, t) & 0x7FFF_FFFF)).map(|t| t + 2) };
					if let Some(t) = target { pokes.push((t + rng.below(4) as usize, nasty)); }
				},
				_ => if let Some((o, n)) = dbg {
					// SizeOfData of a debug entry: small sizes make the Unknown / POGO variants carry short data
					if n > 0 { pokes.push((o + 28 * rng.below(n as u64) as usize + 16, (*rng.pick(&[0u32, 3, 4, 8, 12, 13, 16, 40])).to_le_bytes().to_vec())); }
				},
			}
		}
	}
	// third audit (F6b): the CodeView NB10 (Cv20) arm of the serializer and every key of the stringify tables (Machine,
	// Subsystem, debug entry type, incl. one value outside each table) - never produced by the pokes above
	if rng.chance(1, 6) {
		let dbg = { let (va, sz) = (r32(&b, dd + 48), r32(&b, dd + 52)); if va != 0 { to_off(va).map(|o| (o, sz as usize / 28)) } else { None } };
		match rng.below(4) {
			0 | 1 => if let Some((o, n)) = dbg {
				for k in 0..n.min(8) {
					let e = o + 28 * k;
					if e + 28 > b.len() || r32(&b, e + 12) != 2 { continue; }
					let p2 = if view { r32(&b, e + 20) as usize } else { r32(&b, e + 24) as usize };
					if p2 != 0 && p2 + 64 < b.len() {
						// NB10: signature, Offset, TimeDateStamp, Age, then the path (a short ASCII name, nul terminated)
						let mut rec = b"NB10".to_vec();
						for _ in 0..3 { rec.extend(&(rng.next() as u32).to_le_bytes()); }
						if rng.chance(2, 3) { rec.extend(*rng.pick(&[&b"a.pdb\0"[..], b"C:\\x\\y.pdb\0", b"\0", b"\xc3\xa9.pdb\0", b"q\"uote.pdb\0"])); }
						pokes.push((p2, rec));
					}
				}
			},
			2 => {
				// FileHeader.Machine: every key of the table and one unknown value
				pokes.push((e + 4, (*rng.pick(&[0x14cu16, 0x8664, 0x200, 0x1c0, 0])).to_le_bytes().to_vec()));
			},
			_ => {
				// OptionalHeader.Subsystem (offset 68 in both formats): 0..=16 covers the table and its gaps
				pokes.push((e + 24 + 68, (rng.below(18) as u16).to_le_bytes().to_vec()));
				if let Some((o, n)) = dbg { if n > 0 { pokes.push((o + 28 * rng.below(n as u64) as usize + 12, (rng.below(19) as u32).to_le_bytes().to_vec())); } }
			},
		}
	}
	// targeted shapes (one case in five): table combinations the random field pokes almost never produce
	if rng.chance(1, 5) {
		let exp = { let va = r32(&b, dd); if va != 0 { to_off(va) } else { None } };
		let dbg = { let (va, sz) = (r32(&b, dd + 48), r32(&b, dd + 52)); if va != 0 { to_off(va).map(|o| (o, sz as usize / 28)) } else { None } };
		match rng.below(6) {
			// exactly one of the three export tables null (or two), counts kept: the wrapper iterators must mirror the Null-as-empty rule
			0 | 1 | 2 => if let Some(o) = exp {
				for f in [28usize, 32, 36] { if rng.chance(2, 5) { pokes.push((o + f, 0u32.to_le_bytes().to_vec())); } }
				if rng.chance(1, 3) { let n = r32(&b, o + 24); pokes.push((o + 24, (*rng.pick(&[0u32, 1, n.wrapping_add(1), n.wrapping_sub(1), 0xFFFF_FFFF])).to_le_bytes().to_vec())); }
				if rng.chance(1, 4) { let n = r32(&b, o + 20); pokes.push((o + 20, (*rng.pick(&[0u32, 1, n.wrapping_add(1), n.wrapping_sub(1)])).to_le_bytes().to_vec())); }
			},
			// two CodeView entries: the valid one moved to slot 1 (or the last slot), slot 0 keeps the type but is damaged
			_ => if let Some((o, n)) = dbg {
				if n >= 2 && o + 28 * n <= b.len() {
					let dst = if rng.chance(1, 2) { 1 } else { n - 1 };
					pokes.push((o + 28 * dst, b[o..o + 28].to_vec()));
					match rng.below(4) {
						0 => pokes.push((o + 16, (*rng.pick(&[0u32, 4, 8, 15])).to_le_bytes().to_vec())),          // SizeOfData too small
						1 => { pokes.push((o + 20, 0xFFFF_FFF0u32.to_le_bytes().to_vec())); pokes.push((o + 24, 0xFFFF_FFF0u32.to_le_bytes().to_vec())); }, // data out of bounds
						2 => { let a = r32(&b, o + 20); let p2 = r32(&b, o + 24); pokes.push((o + 20, (a + 1).to_le_bytes().to_vec())); pokes.push((o + 24, (p2 + 1).to_le_bytes().to_vec())); }, // misaligned
						_ => { let p2 = if view { r32(&b, o + 20) as usize } else { r32(&b, o + 24) as usize }; if p2 + 4 <= b.len() { pokes.push((p2, b"XXXX".to_vec())); } }, // signature destroyed (shared by both entries)
					}
				}
			},
		}
	}
	// third round: a generated resource tree written over the demo's own resource section (when it fits)
	if rng.chance(1, 6) {
		let (va, sz) = (r32(&b, dd + 16), r32(&b, dd + 20));
		if va != 0 {
			if let Some(o) = to_off(va) {
				let (bytes, size) = wrapjson_res::gen_res_section(rng, va);
				if bytes.len() <= sz as usize && o + bytes.len() <= b.len() {
					pokes.push((o, bytes));
					if size <= sz || rng.chance(1, 4) { pokes.push((dd + 20, size.to_le_bytes().to_vec())); }
				}
			}
		}
	}
	let npokes = match rng.below(10) { 0 | 1 | 2 => 0, 3 | 4 | 5 | 6 => 1, 7 | 8 => 2, _ => rng.range(3, 6) };
	for _ in 0..npokes {
		let val = |rng: &mut Rng, old: u32| -> u32 {
			match rng.below(6) { 0 => old.wrapping_add(*rng.pick(&[1u32, 8, 0x1000])), 1 => old.wrapping_sub(*rng.pick(&[1u32, 8, 0x1000])), 2 => rng.next() as u32 & 0xFFFF, _ => *rng.pick(&BOUNDARY) }
		};
		match rng.below(10) {
			0 | 1 => {
				// a data directory entry (address or size)
				let o = dd + 8 * (*rng.pick(&[0usize, 1, 2, 3, 4, 5, 6, 9, 10, 12, 4, 4])) + 4 * rng.below(2) as usize;
				let mut v = val(rng, r32(&b, o));
				if rng.chance(1, 2) { v &= !7; }
				pokes.push((o, v.to_le_bytes().to_vec()));
			},
			2 => {
				// a section header field: VirtualSize, VirtualAddress, SizeOfRawData, PointerToRawData
				let o = st + 40 * rng.below(nsec as u64) as usize + *rng.pick(&[8usize, 12, 16, 20]);
				pokes.push((o, val(rng, r32(&b, o)).to_le_bytes().to_vec()));
			},
			3 => {
				// an optional header field that keeps the image acceptable: SizeOfImage up, ImageBase, CheckSum, SizeOfCode, BaseOfCode
				let o = e + 24 + *rng.pick(&[4usize, 20, 64, 56, if pe64 { 24 } else { 28 }]);
				let v = if o == e + 24 + 56 { *rng.pick(&[0xFFFF_FFFFu32, 0x10_0000, 0x400]) } else { val(rng, r32(&b, o)) };
				pokes.push((o, v.to_le_bytes().to_vec()));
			},
			_ => {
				if dir_offs.is_empty() { continue; }
				let (o, span) = *rng.pick(&dir_offs);
				let fo = o + 4 * rng.below((span / 4) as u64) as usize;
				if rng.chance(1, 6) {
					let w = *rng.pick(&[0u16, 1, 0xFFFF, 0x8000]);
					pokes.push((fo + 2 * rng.below(2) as usize, w.to_le_bytes().to_vec()));
				}
				else {
					pokes.push((fo, val(rng, r32(&b, fo)).to_le_bytes().to_vec()));
				}
			},
		}
	}
	let place = *rng.pick(&[0usize, 4, 8, 12]);
	let names: [&[u8]; 5] = [b"CallA1", b"ThrowException", b"?nPasswds@@3HA", b"CallZ9", b""];
	let qs = gen_queries(rng, &edges, nsec, &names, 16);
	let pk: Vec<String> = pokes.iter().map(|(o, b)| format!("{}:{}", o, hex(b))).collect();
	format!("wj src={} view={} place={} len=0 fill=0 hdr=- pokes={} q={}", src, view as u8, place, join(&pk, "/"), join(&qs, ","))
}

/// third round: a synthetic image whose data directory 2 names a generated resource section (harness/src/wrapjson_res.rs)
fn gen_res(rng: &mut Rng) -> String {
	let (view, place, img, edges, nsec) = wrapjson_res::gen_res_image(rng);
	let names: [&[u8]; 2] = [b"x", b""];
	let qs = gen_queries(rng, &edges, nsec, &names, 4);
	format!("wj src=synth view={} place={} {} q={}", view as u8, place, img.encode(), join(&qs, ","))
}

fn gen(rng: &mut Rng, _i: u64) -> String {
	if rng.chance(1, 4) { gen_res(rng) } else if rng.chance(2, 5) { gen_demo(rng) } else { gen_synth(rng) }
}

// ------------------------------------------------------------------ run

fn ename<T>(r: &pelite::Result<T>) -> String { match r { Ok(_) => "ok".to_string(), Err(e) => format!("{:?}", e) } }

macro_rules! run_kind {
	($File:ident, $b:expr, $qs:expr) => {{
		let b: &[u8] = $b;
		let qs: &Vec<&str> = $qs;
		let w = pelite::$File::from_bytes(b);
		let f32 = pe32::$File::from_bytes(b);
		let f64 = pe64::$File::from_bytes(b);
		let sel = match &w { Ok(Wrap::T32(_)) => "T32".to_string(), Ok(Wrap::T64(_)) => "T64".to_string(), Err(e) => format!("{:?}", e) };
		let mut out = format!("sel={} f32={} f64={}", sel, ename(&f32), ename(&f64));
		if let Ok(w) = w {
			// the format-specific value is chosen by the optional-header magic, independently of the wrapper
			let e = r32(b, 0x3c) as usize;
			let magic = r16(b, e + 24);
			let wrows = walk!(w, qs, wrap);
			let srows = if magic == 0x20b {
				match f64 { Ok(p) => { use pe64::{Pe, PeObject}; use pe64::exports::GetProcAddress; walk!(p, qs, spec) }, Err(_) => Vec::new() }
			} else {
				match f32 { Ok(p) => { use pe32::{Pe, PeObject}; use pe32::exports::GetProcAddress; walk!(p, qs, spec) }, Err(_) => Vec::new() }
			};
			out.push_str(&format!(" magic={}", magic));
			for (i, (k, v)) in wrows.iter().enumerate() {
				let s = srows.get(i).map(|(k2, v2)| if k2 == k { v2.clone() } else { format!("!row:{}", k2) }).unwrap_or("!missing".to_string());
				out.push_str(&format!(" W:{}={}~{}", k, v, s));
			}
			// serialization: through the wrapper and through the format-specific value; both must succeed and agree
			let js = catch_unwind(AssertUnwindSafe(|| serde_json::to_string(&w)));
			let js2 = if magic == 0x20b { catch_unwind(AssertUnwindSafe(|| serde_json::to_string(&f64.unwrap()))) } else { catch_unwind(AssertUnwindSafe(|| serde_json::to_string(&f32.unwrap()))) };
			let pmsg = |e: Box<dyn std::any::Any + Send>| -> String { let msg = if let Some(s) = e.downcast_ref::<String>() { s.clone() } else if let Some(s) = e.downcast_ref::<&str>() { s.to_string() } else { "?".to_string() }; format!("!panic:{}", shorten(clean(&msg))) };
			match js {
				Err(e) => out.push_str(&format!(" json={}", pmsg(e))),
				Ok(Err(e)) => out.push_str(&format!(" json=!error:{}", shorten(clean(&e.to_string())))),
				Ok(Ok(text)) => match serde_json::from_str::<Value>(&text) {
					Err(e) => out.push_str(&format!(" json=!malformed:{}", shorten(clean(&e.to_string())))),
					Ok(val) => {
						out.push_str(" json=ok");
						let other = match js2 { Ok(Ok(t)) => format!("{:x}+{}", fnv(t.as_bytes()), t.len()), Ok(Err(e)) => format!("!error:{}", clean(&e.to_string())), Err(e) => pmsg(e) };
						out.push_str(&format!(" J:text={:x}+{}~{}", fnv(text.as_bytes()), text.len(), other));
						// the text itself, for the extracted parser / validator and the comparison with the model's tree
						if std::env::var("WJ_DUMP").is_ok() { eprintln!("{}", text); }
						if text.len() <= 400_000 { out.push_str(&format!(" JT:{}", pct(&text))); } else { out.push_str(" JT:!big"); }
						// fourth audit (M7): the public Serialize impls of Directory and DirectoryEntry start a walk of their own (fresh
						// budget, depth 0, no renaming of type ids): the root directory and its first three entries, text for text
						if let Ok(res) = w.resources() {
							if let Ok(root) = res.root() {
								match catch_unwind(AssertUnwindSafe(|| serde_json::to_string(&root))) {
									Ok(Ok(t)) => if t.len() <= 200_000 { out.push_str(&format!(" JD:{}", pct(&t))); } else { out.push_str(" JD:!big"); },
									Ok(Err(e)) => out.push_str(&format!(" JD:!error:{}", shorten(clean(&e.to_string())))),
									Err(e) => out.push_str(&format!(" JD:{}", pmsg(e))),
								}
								for (k, e) in root.entries().take(3).enumerate() {
									match catch_unwind(AssertUnwindSafe(|| serde_json::to_string(&e))) {
										Ok(Ok(t)) => if t.len() <= 200_000 { out.push_str(&format!(" JE{}:{}", k, pct(&t))); } else { out.push_str(&format!(" JE{}:!big", k)); },
										Ok(Err(e)) => out.push_str(&format!(" JE{}:!error:{}", k, shorten(clean(&e.to_string())))),
										Err(e) => out.push_str(&format!(" JE{}:{}", k, pmsg(e))),
									}
								}
							}
						}
						let rows = if magic == 0x20b { json_table!(pe64, pe64::$File::from_bytes(b).unwrap(), &val) } else { json_table!(pe32, pe32::$File::from_bytes(b).unwrap(), &val) };
						for (k, jv, av) in rows {
							out.push_str(&format!(" J:{}={}~{}", k, jv, av));
						}
					},
				},
			}
		}
		out
	}};
}

fn run(case: &str) -> String {
	if std::env::var("WJ_DEBUG").is_ok() {
		std::panic::set_hook(Box::new(|i| eprintln!("PANIC {}", i)));
	}
	let bytes = build_image(case);
	let place: usize = field(case, "place").parse().unwrap();
	let buf = Aligned::new(&bytes, place);
	let b = buf.bytes();
	BASE.with(|c| c.set((b.as_ptr() as usize, b.len())));
	let qs: Vec<&str> = split(field(case, "q"), ',');
	if field(case, "view") == "1" { run_kind!(PeView, b, &qs) } else { run_kind!(PeFile, b, &qs) }
}

fn main() {
	harness_main(gen, run);
}
