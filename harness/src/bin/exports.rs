//! C08: export lookups — implementation side.
//!
//! `gen` writes a PE32 / PE32+ image (file layout or mapped layout) with the independent writer of
//! `pvh::pe` and an export directory assembled here byte by byte from generated tables;
//! `run` parses it with pelite and prints every table, iterator and lookup result.
use pelite::pe32;
use pelite::pe64;
use pelite::pe64::imports::Import;
use pelite::util::CStr;
use pvh::pe::*;
use pvh::*;

const TEXT_VA: u32 = 0x1000;
const TEXT_SIZE: u32 = 0x200;
const EDATA_VA: u32 = 0x2000;

fn w16(b: &mut Vec<u8>, o: usize, v: u16) {
	b[o..o + 2].copy_from_slice(&v.to_le_bytes());
}
fn w32(b: &mut Vec<u8>, o: usize, v: u32) {
	b[o..o + 4].copy_from_slice(&v.to_le_bytes());
}

fn name_pool(rng: &mut Rng) -> Vec<u8> {
	match rng.below(14) {
		0 => b"a".to_vec(),
		1 => b"ab".to_vec(),
		2 => b"abc".to_vec(),
		3 => b"b".to_vec(),
		4 => b"ba".to_vec(),
		5 => b"A".to_vec(),
		6 => Vec::new(),
		7 => vec![0x80, b'x'],
		8 => vec![0xff],
		9 => b"z".to_vec(),
		10 => format!("Func{}", rng.below(12)).into_bytes(),
		_ => {
			let n = rng.range(1, 5);
			(0..n).map(|_| *rng.pick(&[b'a', b'b', b'c', b'a', b'b', 0x7f, 0x80])).collect()
		},
	}
}

fn gen(rng: &mut Rng, _i: u64) -> String {
	let pe64 = rng.chance(1, 2);
	let file = rng.chance(1, 2);
	let malformed = rng.chance(1, 8); // separate stream: many fields mutated at once
	let mut_p = if malformed { 3 } else { 24 }; // one in mut_p chance for each structural mutation

	// ---- the tables
	let nf = match rng.below(10) { 0 => 0, 1 => 1, 2 => 12, _ => rng.range(2, 8) } as usize;
	let nn = match rng.below(10) { 0 => 0, 1 => nf + rng.below(3) as usize, 2 => nf, _ => rng.below(nf as u64 + 1) as usize };
	let nfw = if nf == 0 { 0 } else { rng.below(3) as usize };
	let f_off = 40usize;
	let n_off = f_off + 4 * nf;
	let o_off = n_off + 4 * nn;
	let s_off = o_off + 2 * nn;
	let mut data: Vec<u8> = vec![0u8; s_off];
	// dll name and forwarder strings inside the directory extent
	let dll_rva = EDATA_VA + data.len() as u32;
	data.extend_from_slice(b"t.dll\0");
	let mut fwd_rvas: Vec<u32> = Vec::new();
	for k in 0..nfw {
		fwd_rvas.push(EDATA_VA + data.len() as u32);
		match rng.below(4) {
			0 => data.extend_from_slice(b"\0"),
			1 => data.extend_from_slice(format!("K.F{}\0", k).as_bytes()),
			_ => data.extend_from_slice(format!("NTDLL.Rtl{}\0", rng.below(100)).as_bytes()),
		}
	}
	let ext_end = data.len();
	// name strings (outside the extent unless the directory size says otherwise)
	let mut names: Vec<Vec<u8>> = (0..nn).map(|_| name_pool(rng)).collect();
	match rng.below(10) {
		0 | 1 => {},                                   // unsorted as drawn
		2 => { names.sort(); if nn >= 2 { let i = rng.below(nn as u64) as usize; let j = rng.below(nn as u64) as usize; names.swap(i, j); } }, // one swap
		3 => { names.sort(); if nn >= 2 { let i = rng.below(nn as u64 - 1) as usize; names[i + 1] = names[i].clone(); names.sort(); } }, // duplicate
		4 => { names.sort(); names.reverse(); },
		_ => { names.sort(); names.dedup(); while names.len() < nn { let mut x = names.last().cloned().unwrap_or_default(); x.push(b'a' + names.len() as u8 % 26); names.push(x); } names.sort(); }, // strictly sorted
	}
	let mut name_rvas: Vec<u32> = Vec::new();
	for nm in &names {
		name_rvas.push(EDATA_VA + data.len() as u32);
		data.extend_from_slice(nm);
		data.push(0);
	}
	// an unterminated string at the very end of the section
	let unterminated = rng.chance(1, 3);
	let tail_rva = EDATA_VA + data.len() as u32;
	if unterminated {
		data.extend_from_slice(b"tail");
	}
	let total = data.len();

	// ---- data directory entry
	let mut dva: u32 = EDATA_VA;
	let mut dsize: u32 = match rng.below(16) {
		0 => 40,
		1 => 0,
		2 => total as u32,
		3 => 0xFFFF_FFFF,
		4 => 0u32.wrapping_sub(EDATA_VA),          // extent ends exactly at 2^32
		5 => 0u32.wrapping_sub(EDATA_VA) + 1,      // VirtualAddress + Size = 2^32 + 1
		6 => 0xFFFF_F000,
		7 => 1,
		8 => s_off as u32,
		_ => ext_end as u32,
	};
	let mut have_dd = true;
	if rng.chance(1, mut_p * 2) {
		match rng.below(5) {
			0 => dva = 0,
			1 => dva = 0x9000,
			2 => dva = EDATA_VA + 2,
			3 => have_dd = false,
			_ => dva = EDATA_VA + total as u32 - 8,
		}
	}
	if rng.chance(1, 40) { dsize = rng.next() as u32; }
	let ext_hi: u64 = dva as u64 + dsize as u64;

	// ---- function entries
	let mut funcs: Vec<u32> = Vec::new();
	for _ in 0..nf {
		let v: u32 = match rng.below(20) {
			0 | 1 => 0,
			2 | 3 | 4 => if fwd_rvas.is_empty() { TEXT_VA + rng.below(TEXT_SIZE as u64) as u32 } else { *rng.pick(&fwd_rvas) },
			5 => dva,
			6 => (ext_hi.wrapping_sub(1) & 0xFFFF_FFFF) as u32,
			7 => (ext_hi & 0xFFFF_FFFF) as u32,
			8 => dva.wrapping_sub(1),
			9 => *rng.pick(&[0xFFFF_FFFFu32, 1, 0x9000, 0x2FFF, 0x8000_0000]),
			10 => dll_rva + rng.below(4) as u32,
			_ => TEXT_VA + rng.below(TEXT_SIZE as u64) as u32,
		};
		funcs.push(v);
	}
	// ---- name index entries
	let mut idxs: Vec<u16> = Vec::new();
	let mut perm: Vec<u16> = (0..nf as u16).collect();
	for k in (1..perm.len()).rev() { let j = rng.below(k as u64 + 1) as usize; perm.swap(k, j); }
	for h in 0..nn {
		let v: u16 = match rng.below(16) {
			0 => nf as u16,
			1 => 0xFFFF,
			2 => rng.below(nf as u64 + 2) as u16,
			3 => nf as u16 + rng.below(4) as u16,
			_ => if h < perm.len() { perm[h] } else { rng.below(nf as u64 + 1) as u16 },
		};
		idxs.push(v);
	}
	// per-entry corruption of name rvas
	for r in name_rvas.iter_mut() {
		if rng.chance(1, if malformed { 4 } else { 40 }) {
			*r = match rng.below(4) { 0 => 0, 1 => 0x9000, 2 => if unterminated { tail_rva } else { 0xFFFF_FFFF }, _ => TEXT_VA + rng.below(0x20) as u32 };
		}
	}

	// ---- the IMAGE_EXPORT_DIRECTORY
	let base: u32 = match rng.below(12) {
		0 => 0,
		1 => 1,
		2 => 65535,
		3 => 65536,
		4 => 0xFFFF_FFFF,
		5 => 0x7FFF_FFFF,
		6 => 65535 - rng.below(nf as u64 + 1) as u32,
		7 => 0xFFFF_FFFF - rng.below(nf as u64 + 1) as u32,
		_ => rng.below(65536) as u32,
	};
	let mut nfuncs_field = nf as u32;
	let mut nnames_field = nn as u32;
	let mut af = EDATA_VA + f_off as u32;
	let mut an = EDATA_VA + n_off as u32;
	let mut ao = EDATA_VA + o_off as u32;
	let bad_addr = |rng: &mut Rng, good: u32| -> u32 {
		match rng.below(7) { 0 | 1 => 0, 2 => 0x9000, 3 => good + 1, 4 => EDATA_VA + total as u32 - 2, 5 => TEXT_VA + 4 * rng.below(8) as u32, _ => 0xFFFF_FFFC }
	};
	if rng.chance(1, mut_p) { af = bad_addr(rng, af); }
	if rng.chance(1, mut_p) { an = bad_addr(rng, an); }
	if rng.chance(1, mut_p) { ao = bad_addr(rng, ao); }
	if rng.chance(1, mut_p) { nfuncs_field = match rng.below(5) { 0 => 0, 1 => 0xFFFF_FFFF, 2 => 0x4000_0000, 3 => nf as u32 + rng.range(1, 3) as u32, _ => (nf as u32).saturating_sub(1) }; }
	if rng.chance(1, mut_p) { nnames_field = match rng.below(5) { 0 => 0, 1 => 0xFFFF_FFFF, 2 => 0x8000_0000, 3 => nn as u32 + rng.range(1, 3) as u32, _ => (nn as u32).saturating_sub(1) }; }
	// seed C03-19: NULL tables with a huge declared count - an iterator bounded by the raw header field instead of the
	// (empty) validated table runs for 2^32 steps over a file of a few KiB
	if rng.chance(1, 40) {
		match rng.below(3) {
			0 => { an = 0; ao = 0; nnames_field = *rng.pick(&[0xFFFF_FFFFu32, 0x7FFF_FFFF, 0x0400_0000]); },
			1 => { af = 0; nfuncs_field = *rng.pick(&[0xFFFF_FFFFu32, 0x7FFF_FFFF, 0x0400_0000]); },
			_ => { af = 0; an = 0; ao = 0; nfuncs_field = 0xFFFF_FFFF; nnames_field = 0xFFFF_FFFF; },
		}
	}
	w32(&mut data, 12, dll_rva);
	w32(&mut data, 16, base);
	w32(&mut data, 20, nfuncs_field);
	w32(&mut data, 24, nnames_field);
	w32(&mut data, 28, af);
	w32(&mut data, 32, an);
	w32(&mut data, 36, ao);
	if rng.chance(1, 8) { w32(&mut data, 0, 0x4141_4141); } // Characteristics: makes the string at the directory start non-empty
	for (k, v) in funcs.iter().enumerate() { w32(&mut data, f_off + 4 * k, *v); }
	for (k, v) in name_rvas.iter().enumerate() { w32(&mut data, n_off + 4 * k, *v); }
	for (k, v) in idxs.iter().enumerate() { w16(&mut data, o_off + 2 * k, *v); }

	// ---- the image
	let nrva = if have_dd { *rng.pick(&[16u32, 16, 16, 1, 2]) } else { 0 };
	let mut dirs = vec![(0u32, 0u32); nrva as usize];
	if have_dd { dirs[0] = (dva, dsize); }
	let edata_prd: u32 = 0x600;
	let secs = vec![
		Sec { name: *b".text\0\0\0", va: TEXT_VA, vs: TEXT_SIZE, prd: 0x400, srd: TEXT_SIZE, chars: 0x6000_0020 },
		// VirtualSize below the stored size (0 as old linkers write it, 1, half): a file view serves max(VirtualSize, SizeOfRawData)
		Sec { name: *b".edata\0\0", va: EDATA_VA, vs: match rng.below(6) { 0 => 0, 1 => 1, 2 => total as u32 / 2, 3 => total as u32 + 0x100, _ => total as u32 }, prd: edata_prd, srd: total as u32, chars: 0x4000_0040 },
	];
	let soi: u32 = match rng.below(10) { 0 => 0x1100, 1 => EDATA_VA + total as u32, _ => 0x3000 };
	let image_base: u64 = match rng.below(8) {
		0 => 0,
		1 => if pe64 { 0xFFFF_FFFF_FFFF_F000 } else { 0xFFFF_F000 },
		2 => if pe64 { 0xFFFF_FFFF_FFFF_E000 } else { 0xFFFF_EF00 },
		3 => if pe64 { 0x1_4000_0000 } else { 0x40_0000 },
		_ => 0x1000_0000,
	};
	let mut spec = ImgSpec { pe64, e_lfanew: 0x80, soh: 0x400, soi, image_base, nrva, dirs, opt_size: 0, nsec_field: 2, secs, checksum: 0, magic: if pe64 { 0x20b } else { 0x10b } };
	spec.opt_size = spec.std_opt_size();
	let (len, at) = if file { (edata_prd as usize + total, edata_prd as usize) } else { (EDATA_VA as usize + total, EDATA_VA as usize) };
	let img = Image { len, fill: rng.range(1, 1000) as u32, hdr: scrambled_header(&spec, rng), pokes: vec![(at, data.clone())] };
	let place = *rng.pick(&[0usize, 0, 4, 8, 12]);

	// ---- queries
	let mut qs: Vec<String> = Vec::new();
	let nfq = nf as u64;
	let ord_q = |rng: &mut Rng| -> u64 {
		(match rng.below(10) {
			0 => base as u64,
			1 => base as u64 + nfq,
			2 => (base as u64 + nfq).wrapping_sub(1),
			3 => (base as u64).wrapping_sub(1),
			4 => 0,
			5 => 65535,
			6 => rng.below(65536),
			_ => base as u64 + rng.below(nfq + 1),
		}) & 0xFFFF
	};
	let idx_q = |rng: &mut Rng| -> u64 {
		match rng.below(12) { 0 => nfq, 1 => nfq + 1, 2 => 0xFFFF, 3 => 0x1_0000, 4 => 0xFFFF_FFFF, 5 => 0x1_0000_0000, 6 => u64::MAX, 7 => 0x1_0000_0000 + rng.below(nfq + 1), 8 => 0xFFFF_FFFF - (base as u64 & 0xFFFF_FFFF) + rng.below(3), _ => rng.below(nfq + 1) }
	};
	let hint_q = |rng: &mut Rng| -> u64 {
		match rng.below(10) { 0 => nn as u64, 1 => nn as u64 + 1, 2 => u64::MAX, 3 => 0x1_0000_0000, _ => rng.below(nn as u64 + 1) }
	};
	let name_q = |rng: &mut Rng| -> Vec<u8> {
		let mut n = if !names.is_empty() && rng.chance(3, 4) { rng.pick(&names).clone() } else { name_pool(rng) };
		match rng.below(12) {
			0 => n.push(b'a'),
			1 => { n.pop(); },
			2 => if let Some(l) = n.last_mut() { *l = l.wrapping_add(1); },
			3 => if let Some(l) = n.last_mut() { *l = l.wrapping_sub(1); },
			4 => n.push(0),
			_ => {},
		}
		n
	};
	for _ in 0..rng.range(20, 36) {
		let q = match rng.below(16) {
			0 => format!("ord:{}", ord_q(rng)),
			1 => format!("idx:{}", idx_q(rng)),
			2 => format!("hint:{}", hint_q(rng)),
			3 => format!("lin:{}", hex(&name_q(rng))),
			4 | 5 => format!("name:{}", hex(&name_q(rng))),
			6 => format!("noh:{}", hint_q(rng)),
			7 | 8 => {
				// right hint for the name most of the time
				let n = name_q(rng);
				let h = match names.iter().position(|x| *x == n) { Some(p) if rng.chance(2, 3) => p as u64, _ => hint_q(rng) };
				format!("{}:{}:{}", if rng.chance(1, 2) { "hn" } else { "impn" }, h, hex(&n))
			},
			9 => format!("impo:{}", ord_q(rng)),
			10 | 11 => format!("nl:{}", idx_q(rng)),
			12 => format!("gpo:{}", ord_q(rng)),
			13 => format!("gpn:{}", hex(&name_q(rng))),
			14 => { let n = name_q(rng); format!("gpi:{}:{}", hint_q(rng), hex(&n)) },
			_ => format!("gpio:{}", ord_q(rng)),
		};
		qs.push(q);
	}
	// a mapped view loaded at another address than the preferred one: get_proc_address must use the actual base
	let setbase: Option<u64> = if !file && rng.chance(1, 3) {
		Some(match rng.below(4) { 0 => 0, 1 => if pe64 { 0xFFFF_FFFF_FFFF_0000 } else { 0xFFFF_8000 }, 2 => if pe64 { 0x7ff6_1234_0000 } else { 0x0123_0000 }, _ => 0x7000_0000 })
	} else { None };
	format!(
		"exports fmt={} file={} place={} {} soh={} soi={} base={} setbase={} secs={} dd={} q={}",
		if pe64 { 64 } else { 32 }, file as u8, place, img.encode(), spec.soh, spec.soi, spec.image_base, setbase.map(|b| b.to_string()).unwrap_or("-".to_string()), secs_field(&spec.secs),
		if have_dd { format!("{}:{}", dva, dsize) } else { "-".to_string() }, join(&qs, ",")
	)
}

fn hx(b: &[u8]) -> String {
	hex(b)
}

fn rexp(r: pelite::Result<pelite::pe64::exports::Export>) -> String {
	use pelite::pe64::exports::Export;
	match r { Ok(Export::Symbol(rva)) => format!("S{}", *rva), Ok(Export::Forward(s)) => format!("F{}", hx(s.as_ref())), Err(e) => format!("e{:?}", e) }
}
fn rname(r: pelite::Result<&CStr>) -> String {
	match r { Ok(s) => format!("N{}", hx(s.as_ref())), Err(e) => format!("e{:?}", e) }
}
fn rva<T: std::fmt::Display>(r: pelite::Result<T>) -> String {
	match r { Ok(v) => format!("V{}", v), Err(e) => format!("e{:?}", e) }
}

/// tables, check_sorted and the three iterators of a By value (pe32, pe64 or the format-agnostic wrapper)
macro_rules! by_tables {
	($by:expr, $out:expr) => {{
		let by = $by;
		$out.push(format!("base={}/{}", by.image().Base, by.ordinal_base()));
		$out.push(format!("f={}", join(by.functions(), ",")));
		$out.push(format!("n={}", join(by.names(), ",")));
		$out.push(format!("i={}", join(by.name_indices(), ",")));
		$out.push(format!("sorted={}", match by.check_sorted() { Ok(true) => "b1".to_string(), Ok(false) => "b0".to_string(), Err(e) => format!("e{:?}", e) }));
		// no iterator of the export tables yields more items than the validated tables hold (the image is a few KiB: 65536 is
		// far beyond any table that fits) - seed C03-19
		const CAP: usize = 65536;
		let it: Vec<String> = by.iter().take(CAP + 1).map(|r| rexp(r)).collect();
		assert!(it.len() <= CAP, "harness: more exported functions than the image holds");
		$out.push(format!("it={}", join(&it, ",")));
		let itn: Vec<String> = by.iter_names().take(CAP + 1).map(|(n, e)| format!("{}/{}", rname(n), rexp(e))).collect();
		assert!(itn.len() <= CAP, "harness: more export names than the image holds");
		$out.push(format!("itn={}", join(&itn, ",")));
		let itni: Vec<String> = by.iter_name_indices().take(CAP + 1).map(|(n, i)| format!("{}/{}", rname(n), i)).collect();
		assert!(itni.len() <= CAP, "harness: more export name indices than the image holds");
		$out.push(format!("itni={}", join(&itni, ",")));
	}};
}
/// one By-level query
macro_rules! by_query {
	($by:expr, $p:expr) => {{
		let by = $by;
		let p: &Vec<&str> = $p;
		let n = |i: usize| -> u64 { p[i].parse::<u64>().unwrap() };
		let nm = |i: usize| -> Vec<u8> { unhex(p[i]) };
		match p[0] {
			"ord" => rexp(by.ordinal(n(1) as u16)),
			"idx" => rexp(by.index(n(1) as usize)),
			"hint" => rexp(by.hint(n(1) as usize)),
			"lin" => rexp(by.name_linear(&nm(1)[..])),
			"name" => rexp(by.name(&nm(1)[..])),
			"noh" => rname(by.name_of_hint(n(1) as usize)),
			"hn" => rexp(by.hint_name(n(1) as usize, &nm(2)[..])),
			"impn" => {
				let mut s = nm(2); s.push(0);
				let c = CStr::from_bytes(&s).unwrap();
				rexp(by.import(Import::ByName { hint: n(1) as usize, name: c }))
			},
			"impo" => rexp(by.import(Import::ByOrdinal { ord: n(1) as u16 })),
			"nl" => match by.name_lookup(n(1) as usize) {
				Ok(Import::ByName { hint, name }) => format!("B{}.{}", hint, hx(name.as_ref())),
				Ok(Import::ByOrdinal { ord }) => format!("O{}", ord),
				Err(e) => format!("e{:?}", e),
			},
			_ => "?".to_string(),
		}
	}};
}

macro_rules! run_exports {
	($m:ident, $view:expr, $wrap:expr, $qs:expr) => {{
		use $m::exports::GetProcAddress;
		use $m::Pe;
		let view = $view;
		let mut out: Vec<String> = Vec::new();
		let by = match view.exports() {
			Ok(ex) => match ex.by() {
				Ok(by) => { out.push("ex=ok by=ok".to_string()); Some(by) },
				Err(e) => { out.push(format!("ex=ok by=e{:?}", e)); None },
			},
			Err(e) => { out.push(format!("ex=e{:?} by=-", e)); None },
		};
		if let Some(by) = &by {
			by_tables!(by, out);
		}
		// the format-agnostic wrapper (src/wrap/exports.rs) must say the same thing
		let wrap = $wrap;
		let mut wout: Vec<String> = Vec::new();
		let wby = match wrap.exports() {
			Ok(ex) => match ex.by() {
				Ok(by) => { wout.push("ex=ok by=ok".to_string()); Some(by) },
				Err(e) => { wout.push(format!("ex=ok by=e{:?}", e)); None },
			},
			Err(e) => { wout.push(format!("ex=e{:?} by=-", e)); None },
		};
		if let Some(wby) = &wby {
			by_tables!(wby, wout);
		}
		let mut wrap_diff: Vec<String> = Vec::new();
		if wout != out { wrap_diff.push("tables".to_string()); }
		let mut rs: Vec<String> = Vec::new();
		for (k, q) in $qs.enumerate() {
			let p: Vec<&str> = q.split(':').collect();
			let n = |i: usize| -> u64 { p[i].parse::<u64>().unwrap() };
			let nm = |i: usize| -> Vec<u8> { unhex(p[i]) };
			let (r, w) = match (p[0], &by) {
				("gpo", _) => { let e = view.get_export(n(1) as u16); (format!("{}/{}", rexp(e), rva(view.get_proc_address(n(1) as u16))), rexp(e) == rexp(wrap.get_export_by_ordinal(n(1) as u16))) },
				("gpn", _) => { let s = nm(1); let e = view.get_export(&s[..]); (format!("{}/{}", rexp(e), rva(view.get_proc_address(&s[..]))), rexp(e) == rexp(wrap.get_export_by_name(&s[..]))) },
				("gpi", _) => {
					let mut s = nm(2); s.push(0);
					let c = CStr::from_bytes(&s).unwrap();
					let i = Import::ByName { hint: n(1) as usize, name: c };
					let e = view.get_export(i);
					(format!("{}/{}", rexp(e), rva(view.get_proc_address(i))), rexp(e) == rexp(wrap.get_export_by_import(i)))
				},
				("gpio", _) => { let i = Import::ByOrdinal { ord: n(1) as u16 }; let e = view.get_export(i); (format!("{}/{}", rexp(e), rva(view.get_proc_address(i))), rexp(e) == rexp(wrap.get_export_by_import(i))) },
				(_, None) => ("x".to_string(), wby.is_none()),
				(_, Some(by)) => { let r = by_query!(by, &p); let w = match &wby { Some(wby) => by_query!(wby, &p) == r, None => false }; (r, w) },
			};
			if !w { wrap_diff.push(k.to_string()); }
			rs.push(r);
		}
		out.push(format!("wrap={}", if wrap_diff.is_empty() { "same".to_string() } else { format!("differs:{}", wrap_diff.join(":")) }));
		out.push(format!("r={}", join(&rs, ",")));
		out.join(" ")
	}};
}

fn run(case: &str) -> String {
	let img = Image::decode(case);
	let bytes = img.bytes();
	let place: usize = field(case, "place").parse().unwrap();
	let buf = Aligned::new(&bytes, place);
	let b = buf.bytes();
	let file = field(case, "file") == "1";
	let setbase: Option<u64> = if case.contains(" setbase=") && field(case, "setbase") != "-" { Some(field(case, "setbase").parse().unwrap()) } else { None };
	let qs: Vec<&str> = split(field(case, "q"), ',');
	if file {
		let w = match pelite::PeFile::from_bytes(b) { Ok(w) => w, Err(e) => return format!("!ctor-wrap {:?}", e) };
		match field(case, "fmt") {
			"32" => match pe32::PeFile::from_bytes(b) { Ok(v) => run_exports!(pe32, v, w, qs.iter()), Err(e) => format!("!ctor {:?}", e) },
			_ => match pe64::PeFile::from_bytes(b) { Ok(v) => run_exports!(pe64, v, w, qs.iter()), Err(e) => format!("!ctor {:?}", e) },
		}
	}
	else {
		let w = match pelite::PeView::from_bytes(b) { Ok(w) => w, Err(e) => return format!("!ctor-wrap {:?}", e) };
		match field(case, "fmt") {
			"32" => match pe32::PeView::from_bytes(b) { Ok(v) => { let v = match setbase { Some(x) => v.set_base_address(x as u32), None => v }; run_exports!(pe32, v, w, qs.iter()) }, Err(e) => format!("!ctor {:?}", e) },
			_ => match pe64::PeView::from_bytes(b) { Ok(v) => { let v = match setbase { Some(x) => v.set_base_address(x), None => v }; run_exports!(pe64, v, w, qs.iter()) }, Err(e) => format!("!ctor {:?}", e) },
		}
	}
}

fn main() {
	harness_main(gen, run);
}
