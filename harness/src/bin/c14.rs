//! C14: base relocations — implementation side.
use pelite::base_relocs::{self, BaseRelocs};
use pvh::*;

fn gen_dir(rng: &mut Rng) -> Vec<u8> {
	let mut data: Vec<u8> = Vec::new();
	if rng.chance(1, 10) {
		// malformed stream: noise
		let n = rng.below(64) as usize;
		for _ in 0..n {
			data.push(rng.byte());
		}
		return data;
	}
	let nblocks = rng.below(6);
	for _ in 0..nblocks {
		let nwords = rng.below(7) as u32;
		let va = match rng.below(5) {
			0 => 0,
			1 => 0xFFFF_F000,
			2 => 0xFFFF_FFFF,
			_ => (rng.below(64) as u32) << 12,
		};
		let true_size = 8 + 2 * nwords;
		let sob: u32 = match rng.below(16) {
			0 => 0,
			1 => 1,
			2 => 7,
			3 => 9,
			4 => true_size + 1,
			5 => true_size.wrapping_sub(1),
			6 => true_size + 2,
			7 => 0xFFFF_FFFC + rng.below(4) as u32,
			8 => 0x8000_0000,
			9 => rng.next() as u32,
			10 => true_size + 4 * rng.below(4) as u32,
			_ => true_size,
		};
		data.extend_from_slice(&va.to_le_bytes());
		data.extend_from_slice(&sob.to_le_bytes());
		for _ in 0..nwords {
			let ty = if rng.chance(1, 4) { 0 } else { rng.below(16) as u16 };
			let off = match rng.below(4) {
				0 => 0,
				1 => 0xfff,
				_ => rng.below(0x1000) as u16,
			};
			data.extend_from_slice(&((ty << 12) | off).to_le_bytes());
		}
		if rng.chance(1, 3) && data.len() % 4 != 0 {
			data.extend_from_slice(&[0, 0]);
		}
	}
	// optional truncation / trailing bytes
	match rng.below(6) {
		0 => {
			let cut = rng.below(data.len() as u64 + 1) as usize;
			data.truncate(cut);
		},
		1 => {
			let n = rng.below(9);
			for _ in 0..n {
				data.push(rng.byte());
			}
		},
		_ => {},
	}
	data
}

fn gen_build(rng: &mut Rng) -> (Vec<u32>, Vec<u8>) {
	let n = rng.below(12) as usize;
	let mut rvas: Vec<u32> = Vec::new();
	let mut cur: u64 = match rng.below(4) {
		0 => 0,
		1 => 0xFFFF_E000,
		_ => rng.below(0x10_0000),
	};
	for _ in 0..n {
		let step = match rng.below(8) {
			0 => 0,
			1 => 0x1000 - (cur & 0xfff),            // next page start
			2 => 0xfff - (cur & 0xfff),             // last byte of this page
			3 => rng.below(0x3000),
			_ => rng.below(64),
		};
		cur = (cur + step).min(0xFFFF_FFFF);
		rvas.push(cur as u32);
	}
	if rng.chance(1, 8) && rvas.len() > 1 {
		// not ascending: the round trip must hold all the same
		let i = rng.below(rvas.len() as u64) as usize;
		let j = rng.below(rvas.len() as u64) as usize;
		rvas.swap(i, j);
	}
	let types: Vec<u8> = (0..rvas.len()).map(|_| rng.range(1, 15) as u8).collect();
	(rvas, types)
}

fn gen(rng: &mut Rng, _i: u64) -> String {
	if rng.chance(3, 5) {
		let data = gen_dir(rng);
		// one directory in six sits at an address that is not a multiple of 4: BaseRelocs::parse must refuse it
		let place = if rng.chance(1, 6) { *rng.pick(&[1usize, 2, 3, 5, 6, 7, 10, 14, 15]) } else { *rng.pick(&[0usize, 4, 8, 12]) };
		format!("parse data={} place={}", hex(&data), place)
	}
	else {
		let (rvas, types) = gen_build(rng);
		format!("build rvas={} types={}", join(&rvas, ","), join(&types, ","))
	}
}

fn observe_parse(relocs: &BaseRelocs<'_>, base: usize) -> (String, String, String) {
	let mut blocks = Vec::new();
	let mut iter = Vec::new();
	for block in relocs.iter_blocks() {
		let off = block.image() as *const _ as usize - base;
		let words: Vec<u16> = block.words().to_vec();
		// the words must start right after the header
		let woff = block.words().as_ptr() as usize - base;
		assert!(words.is_empty() || woff == off + 8, "harness: words not adjacent to header");
		blocks.push(format!("{}:{}:{}:{}", off, block.image().VirtualAddress, block.image().SizeOfBlock, join(&words, ",")));
		for w in block.words() {
			let ty = block.type_of(w);
			if ty != 0 {
				iter.push(format!("{}:{}", block.rva_of(w), ty));
			}
		}
	}
	let mut fold = Vec::new();
	relocs.for_each(|rva, ty| fold.push(format!("{}:{}", rva, ty)));
	let fold2: Vec<String> = relocs.fold(Vec::new(), |mut v, rva, ty| {
		v.push(format!("{}:{}", rva, ty));
		v
	});
	assert!(fold == fold2, "harness: for_each and fold differ");
	(join(&blocks, ";"), join(&iter, ","), join(&fold, ","))
}

fn through_image(data: &[u8], b: &str, i: &str, f: &str) {
	use pvh::pe::*;
	for (pe64, file) in [(false, true), (true, true), (false, false), (true, false)] {
		let va = 0x2000u32;
		let sz = ((data.len() as u32 + 0x1FF) & !0x1FF).max(0x200);
		let mut dirs = vec![(0u32, 0u32); 16];
		dirs[5] = (va, data.len() as u32);
		let mut spec = ImgSpec { pe64, e_lfanew: 0x80, soh: 0x400, soi: va + sz, image_base: if pe64 { 0x1_4000_0000 } else { 0x40_0000 }, nrva: 16, dirs, opt_size: 0, nsec_field: 1, secs: Vec::new(), checksum: 0, magic: if pe64 { 0x20b } else { 0x10b } };
		spec.opt_size = spec.std_opt_size();
		let mut s = Sec { name: [0; 8], va, vs: sz, prd: 0x400, srd: sz, chars: 0x4200_0040 };
		s.name[..6].copy_from_slice(b".reloc");
		spec.secs.push(s);
		let (len, at) = if file { (0x400 + sz as usize, 0x400usize) } else { ((va + sz) as usize, va as usize) };
		let img = Image { len, fill: 0, hdr: spec.header_bytes(), pokes: vec![(at, data.to_vec())] };
		let bytes = img.bytes();
		let buf = Aligned::new(&bytes, 0);
		let bb = buf.bytes();
		macro_rules! go { ($m:ident, $t:ident) => {{
			use pelite::$m::{Pe, $t};
			let pe = $t::from_bytes(bb).expect("harness: the relocation test image is not accepted");
			let r = pe.base_relocs().expect("harness: Pe::base_relocs fails on a directory BaseRelocs::parse accepts");
			assert!(r.image() == data, "harness: Pe::base_relocs does not hand out the Size bytes at the directory RVA ({} bytes of {})", r.image().len(), data.len());
			let (b2, i2, f2) = observe_parse(&r, r.image().as_ptr() as usize);
			assert!(b2 == b && i2 == i && f2 == f, "harness: Pe::base_relocs decodes differently from BaseRelocs::parse on the same bytes");
		}}}
		match (pe64, file) { (false, true) => go!(pe32, PeFile), (true, true) => go!(pe64, PeFile), (false, false) => go!(pe32, PeView), _ => go!(pe64, PeView) }
	}
}

fn run(case: &str) -> String {
	let kind = case.split(' ').next().unwrap();
	match kind {
		"parse" => {
			let data = unhex(field(case, "data"));
			let place: usize = field(case, "place").parse().unwrap();
			let buf = Aligned::new(&data, place);
			let bytes = buf.bytes();
			match BaseRelocs::parse(bytes) {
				Ok(relocs) => {
					let (b, i, f) = observe_parse(&relocs, bytes.as_ptr() as usize);
					// the same directory reached through an image (Pe::base_relocs, file and mapped view, PE32 and PE32+):
					// exactly the Size bytes at the directory RVA, decoded to the same blocks and pairs
					if !data.is_empty() { through_image(&data, &b, &i, &f); }
					format!("blocks={} iter={} fold={}", b, i, f)
				},
				Err(e) => format!("!err {:?}", e),
			}
		},
		"build" => {
			let rvas: Vec<u32> = split(field(case, "rvas"), ',').iter().map(|s| s.parse().unwrap()).collect();
			let types: Vec<u8> = split(field(case, "types"), ',').iter().map(|s| s.parse().unwrap()).collect();
			let out = base_relocs::build(&rvas, &types);
			let buf = Aligned::new(&out, 0);
			let bytes = buf.bytes();
			match BaseRelocs::parse(bytes) {
				Ok(relocs) => {
					let (b, _i, f) = observe_parse(&relocs, bytes.as_ptr() as usize);
					format!("out={} blocks={} flat={}", hex(&out), b, f)
				},
				Err(e) => format!("!err {:?}", e),
			}
		},
		_ => "!unknown-kind".to_string(),
	}
}

fn main() {
	harness_main(gen, run);
}
