//! C03 component: the escape loops of <CStr as Debug> and <CStr as Display> — implementation side.
use pelite::util::CStr;
use pvh::*;

fn gen(rng: &mut Rng, _i: u64) -> String {
	let n = match rng.below(8) { 0 => 0, 1 => 1, 2 => 2, _ => rng.below(40) };
	let mut b: Vec<u8> = Vec::new();
	for _ in 0..n {
		let x = match rng.below(10) {
			0 => 0x7F, 1 => 0x1F, 2 => 0x80, 3 => *rng.pick(&[9u8, 10, 13, 34, 92]), 4 => 0xFF, 5 => 0x7E, 6 => 0x20,
			7 => rng.range(1, 255) as u8, _ => rng.range(0x21, 0x7D) as u8,
		};
		b.push(if x == 0 { 1 } else { x });
	}
	format!("cstr data={}", hex(&b))
}

fn run(case: &str) -> String {
	let mut b = unhex(field(case, "data"));
	b.push(0);
	let s = CStr::from_bytes(&b).expect("harness: no nul");
	let dbg = format!("{:?}", s);
	let disp = format!("{}", s);
	format!("dbg={} disp={}", hex(dbg.as_bytes()), hex(disp.as_bytes()))
}

fn main() {
	harness_main(gen, run);
}
