//! C15: debug, TLS, load-config, exception and security directories — implementation side.
//! Images are written by the independent writer (pvh::pe) plus the directory writers below
//! (explicit offsets from the PE/COFF specification; pelite's structs are not used for writing).
use pelite::pe32;
use pelite::pe64;
use pvh::pe::*;
use pvh::*;

const TEXT_VA: u32 = 0x1000;
const TEXT_SZ: u32 = 0x600;
const TEXT_PRD: u32 = 0x400;
const RDATA_VA: u32 = 0x2000;
const RDATA_SZ: u32 = 0x2000;
const RDATA_PRD: u32 = 0xA00;
const DATA_VA: u32 = 0x4000;
const DATA_SZ: u32 = 0x200;
const DATA_PRD: u32 = 0x2A00;
const FILE_END: u32 = 0x2C00;
const SOI: u32 = 0x5000;

struct B {
	pe64: bool,
	file: bool,
	base: u64,
	pokes: Vec<(u32, Vec<u8>)>, // (rva, bytes)
	rcur: u32,                  // bump pointer in .rdata
	dcur: u32,                  // bump pointer in .data
}
impl B {
	fn ralloc(&mut self, size: u32, align: u32) -> u32 {
		let a = (self.rcur + align - 1) & !(align - 1);
		self.rcur = a + size;
		a
	}
	fn dalloc(&mut self, size: u32, align: u32) -> u32 {
		let a = (self.dcur + align - 1) & !(align - 1);
		self.dcur = a + size;
		a
	}
	fn poke(&mut self, rva: u32, bytes: Vec<u8>) {
		self.pokes.push((rva, bytes));
	}
	fn va(&self, rva: u32) -> u64 {
		let v = self.base.wrapping_add(rva as u64);
		if self.pe64 { v } else { v & 0xFFFF_FFFF }
	}
	fn vabytes(&self, v: u64) -> Vec<u8> {
		if self.pe64 { v.to_le_bytes().to_vec() } else { (v as u32).to_le_bytes().to_vec() }
	}
	fn vs(&self) -> u32 {
		if self.pe64 { 8 } else { 4 }
	}
	/// buffer offset of an rva (file: through the three sections; view: identity)
	fn off(&self, rva: u32) -> Option<usize> {
		if !self.file {
			return Some(rva as usize);
		}
		for (va, sz, prd) in [(TEXT_VA, TEXT_SZ, TEXT_PRD), (RDATA_VA, RDATA_SZ, RDATA_PRD), (DATA_VA, DATA_SZ, DATA_PRD)] {
			if rva >= va && rva < va + sz {
				return Some((prd + (rva - va)) as usize);
			}
		}
		if rva < 0x400 { Some(rva as usize) } else { None }
	}
}

fn w32(v: u32) -> Vec<u8> {
	v.to_le_bytes().to_vec()
}

/// The shipped demo images as cases 0 and 1: headers parsed here with explicit offsets (not by pelite),
/// the whole file travels in the CASE line, index_of is queried for every pc of every function.
fn real_case(path: &str) -> Option<String> {
	let root = std::env::var("PELITE_REPO").unwrap_or("/repo".to_string());
	let f = std::fs::read(format!("{}/{}", root, path)).ok()?;
	let r16 = |o: usize| u16::from_le_bytes([f[o], f[o + 1]]) as usize;
	let r32 = |o: usize| u32::from_le_bytes([f[o], f[o + 1], f[o + 2], f[o + 3]]);
	let r64 = |o: usize| u64::from_le_bytes([f[o], f[o + 1], f[o + 2], f[o + 3], f[o + 4], f[o + 5], f[o + 6], f[o + 7]]);
	let nt = r32(60) as usize;
	let nsec = r16(nt + 6);
	let optsz = r16(nt + 20);
	let opt = nt + 24;
	let pe64 = r16(opt) == 0x20b;
	let base = if pe64 { r64(opt + 24) } else { r32(opt + 28) as u64 };
	let (soi, soh) = (r32(opt + 56), r32(opt + 60));
	let nrva_off = if pe64 { opt + 108 } else { opt + 92 };
	let nrva = r32(nrva_off);
	let mut dirs = vec![(0u32, 0u32); 16];
	for i in 0..(nrva.min(16) as usize) {
		dirs[i] = (r32(nrva_off + 4 + 8 * i), r32(nrva_off + 8 + 8 * i));
	}
	let st = opt + optsz;
	let mut secs: Vec<Sec> = Vec::new();
	for i in 0..nsec {
		let p = st + 40 * i;
		secs.push(Sec { name: [0; 8], vs: r32(p + 8), va: r32(p + 12), srd: r32(p + 16), prd: r32(p + 20), chars: r32(p + 36) });
	}
	let off = |rva: u32| -> Option<usize> {
		secs.iter().find(|s| rva >= s.va && rva < s.va + s.srd).map(|s| (s.prd + (rva - s.va)) as usize)
	};
	let mut qs: Vec<String> = vec!["exc".to_string()];
	if let Some(t) = off(dirs[3].0) {
		let n = (dirs[3].1 / 12) as usize;
		let (mut lo, mut hi) = (u32::MAX, 0u32);
		for i in 0..n {
			qs.push(format!("fn:{}", i));
			lo = lo.min(r32(t + 12 * i));
			hi = hi.max(r32(t + 12 * i + 4));
		}
		if n > 0 && hi > lo && hi - lo < 0x4000 {
			qs.push(format!("idx:{}:{}", lo.saturating_sub(4), hi + 4));
		}
	}
	qs.push("dbg".to_string());
	for i in 0..(dirs[6].1 / 28).min(8) {
		qs.push(format!("dir:{}", i));
	}
	qs.push("tls".to_string());
	qs.push("lc".to_string());
	qs.push("sec".to_string());
	let img = Image { len: f.len(), fill: 0, hdr: f.clone(), pokes: Vec::new() };
	Some(format!(
		"dirs fmt={} file=1 place=0 {} soh={} soi={} base={} secs={} nrva={} dd={} q={} x=-",
		if pe64 { 64 } else { 32 }, img.encode(), soh, soi, base, secs_field(&secs), nrva,
		join(&dirs.iter().map(|(a, s)| format!("{}:{}", a, s)).collect::<Vec<_>>(), ";"), join(&qs, ",")
	))
}

fn gen(rng: &mut Rng, i: u64) -> String {
	if i < 2 {
		if let Some(c) = real_case(if i == 0 { "demo/Demo64.dll" } else { "demo/Demo.dll" }) {
			return c;
		}
	}
	let pe64 = rng.chance(1, 2);
	let file = rng.chance(1, 2);
	let malformed = rng.chance(1, 4);
	let place = *rng.pick(&[0usize, 4, 8, 12]);
	let al8 = !pe64 || place % 8 == 0; // can an 8-aligned offset be 8-aligned in memory
	let base: u64 = match rng.below(6) {
		0 => 0x10000,
		1 => if pe64 { 0x7FF6_0000_0000 } else { 0x1000_0000 },
		_ => if pe64 { 0x1_4000_0000 } else { 0x40_0000 },
	};
	let mut b = B { pe64, file, base, pokes: Vec::new(), rcur: RDATA_VA + 0x10, dcur: DATA_VA + 8 };
	let mut dirs = vec![(0u32, 0u32); 16];
	let mut qs: Vec<String> = Vec::new();
	// expectations of the generator (what it wrote), parallel to qs; "_" = none
	let mut xs: Vec<String> = Vec::new();
	let none = || "_".to_string();

	// ---------------------------------------------------------------- exception directory (index 3)
	let nfn: usize = match rng.below(10) {
		0 => 0,
		1 => 1,
		2 => rng.range(13, 64) as usize,
		_ => rng.range(2, 12) as usize,
	};
	let mut fns: Vec<(u32, u32, u32)> = Vec::new();
	let mut cur = TEXT_VA + rng.below(0x20) as u32;
	for _ in 0..nfn {
		cur += match rng.below(3) { 0 => 0, 1 => 1, _ => rng.range(2, 9) as u32 }; // adjacency and gaps
		let size = match rng.below(8) { 0 => 0, 1 => 1, _ => rng.range(2, 12) as u32 };
		// unwind info: 4 + 2*count bytes in .rdata
		let big = rng.chance(1, 10);
		let count = if big { *rng.pick(&[128u32, 129, 130, 160, 200, 254, 255]) } else { match rng.below(8) { 0 => 0, 1 => 255, _ => rng.below(7) as u32 } };
		let uw = if big {
			// CountOfCodes >= 128 with fewer than 4 + 2*count bytes left in the section, but more than 4 + (2*count mod 256):
			// a size computation narrower than usize accepts it and hands out a code array that runs past the section
			let lower = (4 + (2 * count) % 256 + 3) & !3;
			let upper = 4 + 2 * count;
			// half of them flush against the end of the BUFFER (file: end of the last section's raw data; view: SizeOfImage),
			// where the over-long array leaves the buffer (C01), the rest against the end of .rdata (C15: Bounds on a file)
			let end = if rng.chance(1, 2) { RDATA_VA + RDATA_SZ } else if file { DATA_VA + DATA_SZ } else { SOI };
			end - (lower + 4 * rng.below(((upper - lower) / 4) as u64) as u32)
		} else if rng.chance(1, 16) {
			RDATA_VA + RDATA_SZ - rng.range(1, 12) as u32 // close to the end of the section: Bounds
		} else {
			b.ralloc(4 + 2 * count.min(8), if rng.chance(1, 4) { 1 } else { 4 })
		};
		let mut ub = vec![(1 | (rng.below(4) << 3)) as u8, rng.byte(), count as u8, rng.byte()];
		for _ in 0..2 * count.min(8) {
			ub.push(rng.byte());
		}
		b.poke(uw, ub);
		fns.push((cur, cur + size, uw));
		cur += size;
	}
	let mut unsorted = false;
	if nfn >= 2 && rng.chance(1, 5) {
		unsorted = true;
		match rng.below(3) {
			0 => { let i = rng.below(nfn as u64) as usize; let j = rng.below(nfn as u64) as usize; fns.swap(i, j); },
			1 => { let i = rng.below(nfn as u64) as usize; let f = fns[i]; fns[i] = (f.1 + 1, f.0, f.2); }, // Begin > End
			_ => { let i = rng.below(nfn as u64 - 1) as usize; fns[i].1 = fns[i + 1].0 + rng.range(1, 3) as u32; }, // overlap
		}
	}
	if nfn == 1 && rng.chance(1, 4) {
		let f = fns[0];
		fns[0] = (f.1 + 2, f.0, f.2);
		unsorted = true;
	}
	let _ = unsorted;
	if nfn > 0 || rng.chance(1, 2) {
		let t = b.ralloc(12 * nfn as u32, 4);
		let mut tb = Vec::new();
		for f in &fns {
			tb.extend(w32(f.0));
			tb.extend(w32(f.1));
			tb.extend(w32(f.2));
		}
		b.poke(t, tb);
		dirs[3] = (t, 12 * nfn as u32);
	}
	qs.push("exc".to_string());
	xs.push(if !malformed && dirs[3].0 != 0 { format!("{}", nfn) } else { none() });
	for i in 0..nfn.min(14) {
		qs.push(format!("fn:{}", i));
		xs.push(if !malformed { format!("{}:{}:{}", fns[i].0, fns[i].1, fns[i].2) } else { none() });
	}
	if nfn > 0 {
		let lo = fns.iter().map(|f| f.0.min(f.1)).min().unwrap().saturating_sub(3);
		let hi = fns.iter().map(|f| f.0.max(f.1)).max().unwrap() + 3;
		if hi - lo <= 400 {
			qs.push(format!("idx:{}:{}", lo, hi));
			xs.push(none());
		}
		else {
			qs.push(format!("idx:{}:{}", lo, lo + 200));
			qs.push(format!("idx:{}:{}", hi - 200, hi));
			xs.push(none());
			xs.push(none());
		}
	}
	qs.push("idx:0:1".to_string());
	qs.push(format!("idx:{}:{}", 0xFFFF_FFFEu32, 0xFFFF_FFFFu32));
	xs.push(none());
	xs.push(none());

	// ---------------------------------------------------------------- debug directory (index 6)
	let ndbg = match rng.below(8) { 0 => 0, 1 => 1, _ => rng.range(2, 5) } as usize;
	let mut dbytes: Vec<u8> = Vec::new();
	let mut dx: Vec<String> = Vec::new();
	for _ in 0..ndbg {
		let kind = rng.below(8);
		let mut ex = none();
		let mut data: Vec<u8> = Vec::new();
		let ty: u32;
		match kind {
			0 | 1 => {
				// CodeView RSDS
				ty = 2;
				data.extend(b"RSDS");
				for _ in 0..16 { data.push(rng.byte()); }
				data.extend(w32(rng.below(100) as u32));
				let n = match rng.below(7) { 0 => 0, 1 => 1, 2 => rng.range(60, 260), 3 => rng.range(261, 900), _ => rng.range(2, 40) };
				for _ in 0..n { data.push(rng.range(0x20, 0x7e) as u8); }
				if !rng.chance(1, 10) {
					data.push(0);
					ex = format!("cv70:{}:{}:{}", hex(&data[4..20]), u32::from_le_bytes([data[20], data[21], data[22], data[23]]), n + 1);
				}
				if rng.chance(1, 4) { for _ in 0..rng.below(5) { data.push(rng.byte()); } }
			},
			2 => {
				// CodeView NB10
				ty = 2;
				data.extend(b"NB10");
				data.extend(w32(if rng.chance(1, 2) { 0 } else { rng.next() as u32 })); // Offset (observed through image.Offset)
				data.extend(w32(rng.next() as u32));
				data.extend(w32(rng.below(100) as u32));
				let n = match rng.below(5) { 0 => 0, 1 => 1, _ => rng.range(2, 40) };
				for _ in 0..n { data.push(rng.range(0x20, 0x7e) as u8); }
				if !rng.chance(1, 10) {
					data.push(0);
					ex = format!("cv20:{}:{}:{}", u32::from_le_bytes([data[8], data[9], data[10], data[11]]), u32::from_le_bytes([data[12], data[13], data[14], data[15]]), n + 1);
				}
			},
			3 => {
				// CodeView with an unknown signature or too short
				ty = 2;
				match rng.below(3) {
					0 => { data.extend(b"NB11"); for _ in 0..20 { data.push(rng.byte()); } },
					1 => { data.extend(b"RSDS"); for _ in 0..rng.range(12, 19) { data.push(rng.byte()); } },
					_ => { data.extend(if rng.chance(1, 2) { b"NB10" } else { b"RSDS" }); for _ in 0..rng.below(12) { data.push(rng.byte()); } },
				}
			},
			4 => {
				// MISC
				ty = 4;
				data.extend(w32(1));
				let n = rng.below(24) as u32;
				data.extend(w32(12 + n));
				data.push(rng.below(2) as u8);
				data.extend([0u8; 3]);
				for _ in 0..n { data.push(rng.byte()); }
				ex = format!("misc:1:{}:{}", 12 + n, data[8]);
				if rng.chance(1, 6) { data.truncate(rng.below(12) as usize); ex = none(); }
			},
			5 | 6 => {
				// POGO: signature dword then records (rva, size, name NUL padded to a dword)
				ty = 13;
				data.extend(if rng.chance(1, 2) { b"LTCG" } else { b"PGU\0" });
				let nrec = rng.below(6);
				let mut recs: Vec<String> = Vec::new();
				for _ in 0..nrec {
					let (rva, sz) = (0x1000 + rng.below(0x3000) as u32, rng.below(0x800) as u32);
					data.extend(w32(rva));
					data.extend(w32(sz));
					let n = match rng.below(6) { 0 => 0, 1 => 3, 2 => 4, 3 => 7, _ => rng.range(1, 14) };
					recs.push(format!("{}.{}.{}", rva, sz, n + 1));
					for _ in 0..n { data.push(rng.range(0x21, 0x7e) as u8); }
					data.push(0);
					while data.len() % 4 != 0 { data.push(if rng.chance(1, 8) { rng.byte() } else { 0 }); }
				}
				match rng.below(8) {
					0 => { let k = rng.below(data.len() as u64 + 1) as usize; data.truncate(k); }, // cut anywhere
					1 => { data.extend(w32(7)); data.extend(w32(8)); for _ in 0..rng.range(1, 9) { data.push(0x41); } }, // last name without NUL
					2 => { data.extend(w32(7)); },                         // one trailing dword
					3 => { data.extend(w32(7)); data.extend(w32(8)); },    // two trailing dwords
					_ => { ex = format!("pgo:{}", join(&recs, ";")); },
				}
			},
			_ => {
				ty = *rng.pick(&[0u32, 1, 3, 5, 6, 7, 8, 9, 10, 11, 12, 14, 15, 16, 17, 19, 20, 0xFFFF_FFFF]);
				for _ in 0..rng.below(24) { data.push(rng.byte()); }
			},
		}
		let misalign = rng.chance(1, 12);
		let at = b.ralloc(data.len() as u32 + 3, 4) + if misalign { rng.range(1, 3) as u32 } else { 0 };
		let size = data.len() as u32;
		b.poke(at, data);
		let (mut addr, mut ptr) = (at, b.off(at).unwrap_or(0) as u32);
		let mut size = size;
		if malformed || misalign { ex = none(); }
		dx.push(ex);
		if malformed {
			match rng.below(12) {
				0 => size = 0xFFFF_FFFF,
				1 => size = 0x8000_0000,
				2 => { addr = 0xFFFF_FFF0; ptr = 0xFFFF_FFF0; },
				3 => { addr = 0; ptr = 0; },
				4 => size += 0x4000,
				5 => size = size.saturating_sub(rng.range(1, 8) as u32),
				_ => {},
			}
		}
		dbytes.extend(w32(0));
		dbytes.extend(w32(rng.next() as u32));
		dbytes.extend(w32(0));
		dbytes.extend(w32(ty));
		dbytes.extend(w32(size));
		dbytes.extend(w32(addr));
		dbytes.extend(w32(ptr));
	}
	if ndbg > 0 || rng.chance(1, 2) {
		let t = b.ralloc(dbytes.len() as u32, 4);
		b.poke(t, dbytes.clone());
		dirs[6] = (t, dbytes.len() as u32);
	}
	qs.push("dbg".to_string());
	xs.push(if !malformed && dirs[6].0 != 0 { format!("{}", ndbg) } else { none() });
	for i in 0..ndbg {
		qs.push(format!("dir:{}", i));
		xs.push(dx[i].clone());
	}

	// ---------------------------------------------------------------- TLS directory (index 9)
	let mut tx = none();
	if !rng.chance(1, 6) {
		let vs = b.vs();
		let rawlen = match rng.below(5) { 0 => 0, 1 => 1, _ => rng.range(2, 64) as u32 };
		let raw = b.dalloc(rawlen, 1);
		let mut rb = Vec::new();
		for _ in 0..rawlen { rb.push(rng.byte()); }
		b.poke(raw, rb);
		let slot_al = if rng.chance(1, 10) { 1 } else { 4 };
		let slot = b.dalloc(4, slot_al);
		let slot_val = rng.next() as u32;
		b.poke(slot, w32(slot_val));
		let ncb = match rng.below(6) { 0 => 0, 1 => 1, 2 => rng.range(7, 16) as u32, _ => rng.range(2, 6) as u32 };
		let cb_al = if rng.chance(1, 10) { 4 } else { 8 };
		// one TLS directory in six keeps its callback array FLUSH against the end of .rdata: the zero terminator is the last
		// pointer-sized word of the section's stored bytes (file) - a sentinel scan must still see it
		let flush = rng.chance(1, 6);
		let cbs = if flush { RDATA_VA + RDATA_SZ - vs * (ncb + 1) } else { b.ralloc(vs * (ncb + 1), cb_al) };
		let mut cb = Vec::new();
		for k in 0..ncb { let v = b.va(TEXT_VA + 0x10 * (k + 1)); cb.extend(b.vabytes(v)); }
		let term = flush || rng.chance(7, 8);
		if term { cb.extend(b.vabytes(0)); } else { let v = b.va(TEXT_VA); cb.extend(b.vabytes(v)); }
		b.poke(cbs, cb);
		let t_al = if rng.chance(1, 12) { 4 } else { 8 };
		let t = b.ralloc(if pe64 { 40 } else { 24 }, t_al);
		if !malformed && slot_al == 4 && cb_al == 8 && t_al == 8 && term && al8 && !flush { // (a flush array may be overwritten by a late unwind record: no expectation then, the model comparison stands)
			tx = format!("{}:{}:{}", rawlen, slot_val, ncb);
		}
		let (mut s, mut e, mut ix, mut c) = (b.va(raw), b.va(raw + rawlen), b.va(slot), b.va(cbs));
		if malformed {
			match rng.below(12) {
				0 => std::mem::swap(&mut s, &mut e),
				1 => e = e.wrapping_add(0x10000),
				2 => s = 0,
				3 => ix = 0,
				4 => c = 0,
				5 => c = b.base,
				6 => ix = b.base.wrapping_sub(4),
				7 => e = if pe64 { u64::MAX } else { 0xFFFF_FFFF },
				8 => c = b.va(RDATA_VA + RDATA_SZ - vs * rng.range(1, 3) as u32),
				_ => {},
			}
		}
		let mut tb = Vec::new();
		tb.extend(b.vabytes(s));
		tb.extend(b.vabytes(e));
		tb.extend(b.vabytes(ix));
		tb.extend(b.vabytes(c));
		tb.extend(w32(0));
		tb.extend(w32(0));
		b.poke(t, tb);
		dirs[9] = (t, if pe64 { 40 } else { 24 });
	}
	qs.push("tls".to_string());
	xs.push(tx);

	// ---------------------------------------------------------------- load config (index 10)
	let mut lx = none();
	if !rng.chance(1, 6) {
		let vs = b.vs();
		let ck_al = if rng.chance(1, 10) { 2 } else { 4 };
		let cookie = b.dalloc(4, ck_al);
		let ck_val = rng.next() as u32;
		b.poke(cookie, w32(ck_val));
		let nh = match rng.below(5) { 0 => 0, 1 => 1, _ => rng.range(2, 8) as u32 };
		let tab_al = if rng.chance(1, 10) { 4 } else { 8 };
		let tab = b.ralloc(vs * nh, tab_al);
		let mut hb = Vec::new();
		for k in 0..nh { let v = b.va(TEXT_VA + 0x20 * k); hb.extend(b.vabytes(v)); }
		b.poke(tab, hb);
		let size = if pe64 { 112 } else { 72 };
		let lt_al = if rng.chance(1, 12) { 4 } else { 8 };
		let t = b.ralloc(size, lt_al);
		if !malformed && ck_al == 4 && tab_al == 8 && lt_al == 8 && al8 {
			lx = format!("{}:{}", ck_val, nh);
		}
		let (mut ck, mut tp, mut cnt) = (b.va(cookie), b.va(tab), nh as u64);
		if malformed {
			match rng.below(10) {
				0 => ck = 0,
				1 => tp = 0,
				2 => cnt = 1 << 61,
				3 => cnt = if pe64 { u64::MAX / 8 + 1 } else { 0xFFFF_FFFF },
				4 => cnt += 0x1000,
				5 => tp = b.va(SOI),
				6 => ck = b.va(SOI - 2),
				_ => {},
			}
		}
		let mut lb = vec![0u8; size as usize];
		lb[0..4].copy_from_slice(&size.to_le_bytes());
		let (co, to, no) = if pe64 { (88, 96, 104) } else { (60, 64, 68) };
		let v = b.vabytes(ck); lb[co..co + v.len()].copy_from_slice(&v);
		let v = b.vabytes(tp); lb[to..to + v.len()].copy_from_slice(&v);
		let v = b.vabytes(cnt); lb[no..no + v.len()].copy_from_slice(&v);
		b.poke(t, lb);
		dirs[10] = (t, size);
	}
	qs.push("lc".to_string());
	xs.push(lx);

	// ---------------------------------------------------------------- security (index 4): a file offset, after the sections
	let mut len: usize = if file { FILE_END as usize } else { SOI as usize };
	let mut cert: Option<(u32, Vec<u8>)> = None;
	let mut sx = if malformed { none() } else if file { "null".to_string() } else { "unmapped".to_string() };
	if !rng.chance(1, 5) {
		let n = 8 * match rng.below(6) { 0 => 1, 1 => 2, _ => rng.range(3, 40) as u32 };
		let at = if file { FILE_END } else { 0x4800 };
		let mut cb = Vec::new();
		cb.extend(w32(n));
		cb.extend((0x0200u16).to_le_bytes());
		let cty = *rng.pick(&[1u16, 2, 9, 0x0EF0]);
		cb.extend(cty.to_le_bytes());
		if !malformed && file { sx = format!("{}:{}", cty, n - 8); }
		for _ in 8..n { cb.push(rng.byte()); }
		if file { len += n as usize; }
		dirs[4] = (at, n);
		cert = Some((at, cb));
	}
	qs.push("sec".to_string());
	xs.push(sx);

	// ---------------------------------------------------------------- malformed stream: directory entries
	let mut nrva = 16u32;
	if malformed {
		for _ in 0..rng.range(1, 3) {
			let i = *rng.pick(&[3usize, 4, 6, 9, 10]);
			let (va, sz) = dirs[i];
			dirs[i] = match rng.below(14) {
				0 => (va, sz.wrapping_add(1)),
				1 => (va, sz.wrapping_add(rng.range(1, 27) as u32)),
				2 => (va.wrapping_add(*rng.pick(&[1u32, 2, 4])), sz),
				3 => (0, sz),
				4 => (va, 0),
				5 => (0xFFFF_FFF8, 8),
				6 => (va, 0xFFFF_FFF8),
				7 => (0xFFFF_FFF8, 0xFFFF_FFF8),
				8 => (va, sz.wrapping_add(0x8000_0000)),
				9 => (RDATA_VA + RDATA_SZ - 8, sz),
				10 => (len as u32 - 8, 16),
				11 => (va, sz.wrapping_add(if i == 3 { 12 * 400 } else if i == 6 { 28 * 200 } else { 8 })),
				12 => (SOI + 0x1000, sz),
				_ => (va.wrapping_sub(8), sz),
			};
		}
		if rng.chance(1, 6) {
			nrva = *rng.pick(&[0u32, 3, 4, 5, 7, 10, 0xFFFF_FFFF]);
		}
	}

	// ---------------------------------------------------------------- the image
	let rebased = !file && rng.chance(1, 3);
	let hdr_base: u64 = if pe64 { *rng.pick(&[0x1_8000_0000u64, 0x10000, 0x7FF7_0000_0000]) } else { *rng.pick(&[0x1000_0000u64, 0x10000, 0x6000_0000]) };
	let mut spec = ImgSpec {
		// a third of the mapped views are REBASED: the header keeps another ImageBase, the view is moved to `base` with
		// set_base_address, and every VA the directories hold (TLS, load config) is relative to `base`
		pe64, e_lfanew: *rng.pick(&[0x80u32, 0x40, 0xF8]), soh: 0x400, soi: SOI, image_base: if rebased { hdr_base } else { base }, nrva, dirs: dirs.clone(),
		opt_size: 0, nsec_field: 3, secs: Vec::new(), checksum: 0, magic: if pe64 { 0x20b } else { 0x10b },
	};
	spec.opt_size = spec.std_opt_size();
	let mk = |name: &str, va: u32, sz: u32, prd: u32| -> Sec {
		let mut s = Sec { name: [0; 8], va, vs: sz, prd, srd: sz, chars: 0x4000_0040 };
		s.name[..name.len()].copy_from_slice(name.as_bytes());
		s
	};
	spec.secs = vec![mk(".text", TEXT_VA, TEXT_SZ, TEXT_PRD), mk(".rdata", RDATA_VA, RDATA_SZ, RDATA_PRD), mk(".data", DATA_VA, DATA_SZ, DATA_PRD)];
	// VirtualSize below the stored size (0 as old linkers write it, small, half) in a third of the images: a file view
	// serves max(VirtualSize, SizeOfRawData) bytes of a section, a mapped view does not look at the table at all
	if rng.chance(1, 3) {
		for s in spec.secs.iter_mut() {
			if rng.chance(1, 2) { s.vs = match rng.below(4) { 0 => 0, 1 => 0x40, 2 => s.srd / 2, _ => s.srd - 1 }; }
		}
	}
	let fill = if rng.chance(1, 3) { 0 } else { rng.range(1, 1000) as u32 };
	let mut pokes: Vec<(usize, Vec<u8>)> = Vec::new();
	for (rva, bytes) in &b.pokes {
		if let Some(o) = b.off(*rva) {
			if !bytes.is_empty() { pokes.push((o, bytes.clone())); }
		}
	}
	if let Some((at, cb)) = cert {
		pokes.push((at as usize, cb));
	}
	if malformed && rng.chance(1, 3) {
		// byte flips inside .rdata
		for _ in 0..rng.range(1, 6) {
			let rva = RDATA_VA + rng.below((b.rcur - RDATA_VA) as u64 + 1) as u32;
			if let Some(o) = b.off(rva) { pokes.push((o, vec![rng.byte()])); }
		}
	}
	if malformed && rng.chance(1, 8) {
		len -= rng.range(1, 0x300) as usize; // truncated buffer
	}
	let img = Image { len, fill, hdr: scrambled_header(&spec, rng), pokes };
	if b.rcur > RDATA_VA + RDATA_SZ || b.dcur > DATA_VA + DATA_SZ {
		for x in xs.iter_mut() { *x = none(); } // something did not fit: no expectations
	}
	assert!(xs.len() == qs.len());
	format!(
		"dirs fmt={} file={} place={} {} soh={} soi={} base={} secs={} nrva={} dd={} q={} x={} rebase={}",
		if pe64 { 64 } else { 32 }, file as u8, place, img.encode(), spec.soh, spec.soi, base, secs_field(&spec.secs), nrva,
		join(&dirs.iter().map(|(a, s)| format!("{}:{}", a, s)).collect::<Vec<_>>(), ";"), join(&qs, ","), join(&xs, ","), (rebased && hdr_base != base) as u8
	)
}

macro_rules! run_queries {
	($m:ident, $view:expr, $qs:expr, $base:expr, $blen:expr) => {{
		use $m::debug::{CodeView, Entry};
		use $m::Pe;
		let view = $view;
		let reg = |p: *const u8, n: usize| -> String {
			let off = (p as usize).wrapping_sub($base);
			assert!(off <= $blen && n <= $blen - off, "harness: returned region outside the buffer: off={} len={}", off as isize, n);
			format!("ok:{}:{}", off, n)
		};
		let offof = |p: *const u8| -> usize {
			let off = (p as usize).wrapping_sub($base);
			assert!(off <= $blen, "harness: returned pointer outside the buffer: off={}", off as isize);
			off
		};
		let rs = |r: pelite::Result<&[u8]>| -> String {
			match r { Ok(s) => reg(s.as_ptr(), s.len()), Err(e) => format!("e:{:?}", e) }
		};
		let mut out: Vec<String> = Vec::new();
		for q in $qs {
			let p: Vec<&str> = q.split(':').collect();
			let n = |i: usize| -> u64 { p[i].parse::<u64>().unwrap() };
			let o = match p[0] {
				"exc" => match view.exception() {
					Ok(ex) => {
						let im = ex.image();
						assert!(im.as_ptr() as usize % 4 == 0, "harness: misaligned slice returned");
						assert!(ex.functions().count() == im.len());
						format!("{}:{}", reg(im.as_ptr() as *const u8, im.len() * 12), ex.check_sorted() as u8)
					},
					Err(e) => format!("e:{:?}", e),
				},
				"fn" => match view.exception() {
					Ok(ex) => match ex.functions().nth(n(1) as usize) {
						Some(f) => {
							let im = f.image();
							let by = rs(f.bytes());
							let uw = match f.unwind_info() {
								Ok(u) => {
									let ui = u.image() as *const _ as *const u8;
									let codes = u.unwind_codes();
									format!("ok:{}:{}:{}:{}:{}:{}:{}:{}", offof(ui), u.version(), u.flags(), u.size_of_prolog(), codes.len(), u.frame_register(), u.frame_offset(),
										reg(codes.as_ptr() as *const u8, codes.len() * 2))
								},
								Err(e) => format!("e:{:?}", e),
							};
							format!("{}:{}:{}|{}|{}", im.BeginAddress, im.EndAddress, im.UnwindData, by, uw)
						},
						None => "none".to_string(),
					},
					Err(_) => "none".to_string(),
				},
				"idx" => match view.exception() {
					Ok(ex) => {
						let im = ex.image();
						let mut v: Vec<String> = Vec::new();
						let (lo, hi) = (n(1), n(2));
						let mut pc = lo;
						loop {
							let r = ex.index_of(pc as u32);
							let l = ex.lookup_function_entry(pc as u32).map(|f| ((f.image() as *const _ as usize) - (im.as_ptr() as usize)) / 12);
							let s = match (r, l) {
								(Ok(i), Some(j)) if i == j => format!("o{}", i),
								(Err(k), None) => format!("e{}", k),
								(Ok(i), Some(j)) => format!("o{}!{}", i, j),
								(Ok(i), None) => format!("o{}!none", i),
								(Err(k), Some(j)) => format!("e{}!{}", k, j),
							};
							v.push(s);
							if pc >= hi { break; }
							pc += 1;
						}
						v.join(";")
					},
					Err(_) => "none".to_string(),
				},
				"sec" => match view.security() {
					Ok(s) => {
						let im = s.image() as *const _ as *const u8;
						let d = s.certificate_data();
						format!("ok:{}:{}:{}:{}:{}", offof(im), s.certificate_type(), reg(d.as_ptr(), d.len()), s.image().dwLength, s.image().wRevision)
					},
					Err(e) => format!("e:{:?}", e),
				},
				"dbg" => match view.debug() {
					Ok(d) => {
						let im = d.image();
						assert!(im.as_ptr() as usize % 4 == 0, "harness: misaligned slice returned");
						assert!(d.iter().count() == im.len());
						let pdb = match d.pdb_file_name() { Some(s) => format!("some:{}:{}", offof(s.c_str().as_ptr()), s.c_str().len()), None => "none".to_string() };
						format!("{}|{}", reg(im.as_ptr() as *const u8, im.len() * 28), pdb)
					},
					Err(e) => format!("e:{:?}", e),
				},
				"dir" => match view.debug() {
					Ok(d) => match d.iter().nth(n(1) as usize) {
						Some(dir) => {
							let im = dir.image();
							let ds = |x: Option<&[u8]>| -> String { match x { Some(s) => format!("some:{}:{}", offof(s.as_ptr()), s.len()), None => "none".to_string() } };
							let data = ds(dir.data());
							let ent = match dir.entry() {
								Ok(Entry::CodeView(cv)) => {
									let name = cv.pdb_file_name();
									let fmt = cv.format().to_string();
									let age = cv.age();
									match cv {
										CodeView::Cv20 { image, pdb_file_name } => {
											assert!(pdb_file_name.c_str().as_ptr() == name.c_str().as_ptr());
											assert!(image as *const _ as usize % 4 == 0, "harness: misaligned reference returned");
											format!("cv20:{}:{}:{}:{}:{}:{}:{}", offof(image as *const _ as *const u8), fmt, image.TimeDateStamp, age, offof(name.c_str().as_ptr()), name.c_str().len(), image.Offset)
										},
										CodeView::Cv70 { image, pdb_file_name } => {
											assert!(pdb_file_name.c_str().as_ptr() == name.c_str().as_ptr());
											assert!(image as *const _ as usize % 4 == 0, "harness: misaligned reference returned");
											let g = &image.Signature;
											let mut gb: Vec<u8> = Vec::new();
											gb.extend(&g.Data1.to_le_bytes()); gb.extend(&g.Data2.to_le_bytes()); gb.extend(&g.Data3.to_le_bytes()); gb.extend(&g.Data4);
											format!("cv70:{}:{}:{}:{}:{}:{}", offof(image as *const _ as *const u8), fmt, hex(&gb), age, offof(name.c_str().as_ptr()), name.c_str().len())
										},
									}
								},
								Ok(Entry::Dbg(m)) => {
									let mi = m.image();
									assert!(mi as *const _ as usize % 4 == 0, "harness: misaligned reference returned");
									format!("dbg:{}:{}:{}:{}", offof(mi as *const _ as *const u8), mi.DataType, mi.Length, mi.Unicode)
								},
								Ok(Entry::Pgo(pg)) => {
									let pi = pg.image();
									assert!(pi.as_ptr() as usize % 4 == 0, "harness: misaligned slice returned");
									let items: Vec<String> = pg.iter().map(|it| format!("{}.{}.{}.{}", it.rva, it.size, offof(it.name.c_str().as_ptr()), it.name.c_str().len())).collect();
									format!("pgo:{}:{}:{}", offof(pi.as_ptr() as *const u8), pi.len(), join(&items, ";"))
								},
								Ok(Entry::Unknown(x)) => format!("unk:{}", ds(x)),
								Err(e) => format!("e:{:?}", e),
							};
							format!("{}:{}|{}|{}", im.Type, im.TimeDateStamp, data, ent)
						},
						None => "none".to_string(),
					},
					Err(_) => "none".to_string(),
				},
				"tls" => match view.tls() {
					Ok(t) => {
						let im = t.image();
						let slot = match t.slot() { Ok(x) => format!("{}:{}", reg(x as *const u32 as *const u8, 4), *x), Err(e) => format!("e:{:?}", e) };
						let cbs = match t.callbacks() { Ok(x) => reg(x.as_ptr() as *const u8, std::mem::size_of_val(x)), Err(e) => format!("e:{:?}", e) };
						format!("ok:{}:{}:{}:{}:{}|{}|{}|{}", offof(im as *const _ as *const u8), im.StartAddressOfRawData as u64, im.EndAddressOfRawData as u64,
							im.AddressOfIndex as u64, im.AddressOfCallBacks as u64, rs(t.raw_data()), slot, cbs)
					},
					Err(e) => format!("e:{:?}", e),
				},
				"lc" => match view.load_config() {
					Ok(t) => {
						let im = t.image();
						let ck = match t.security_cookie() { Ok(x) => format!("{}:{}", reg(x as *const u32 as *const u8, 4), *x), Err(e) => format!("e:{:?}", e) };
						let tab = match t.se_handler_table() { Ok(x) => reg(x.as_ptr() as *const u8, std::mem::size_of_val(x)), Err(e) => format!("e:{:?}", e) };
						format!("ok:{}:{}:{}:{}|{}|{}", offof(im as *const _ as *const u8), im.SecurityCookie as u64, im.SEHandlerTable as u64, im.SEHandlerCount as u64, ck, tab)
					},
					Err(e) => format!("e:{:?}", e),
				},
				_ => "?".to_string(),
			};
			out.push(o);
		}
		out
	}};
}

fn run(case: &str) -> String {
	let img = Image::decode(case);
	let bytes = img.bytes();
	let place: usize = field(case, "place").parse().unwrap();
	let buf = Aligned::new(&bytes, place);
	let b = buf.bytes();
	let base = b.as_ptr() as usize;
	let blen = b.len();
	let file = field(case, "file") == "1";
	let qs: Vec<&str> = split(field(case, "q"), ',');
	let rebase = case.contains(" rebase=1");
	let vbase: u64 = field(case, "base").parse().unwrap();
	let out: Vec<String> = match (field(case, "fmt"), file) {
		("32", true) => match pe32::PeFile::from_bytes(b) { Ok(v) => run_queries!(pe32, v, qs.iter(), base, blen), Err(e) => return format!("!ctor {:?}", e) },
		("64", true) => match pe64::PeFile::from_bytes(b) { Ok(v) => run_queries!(pe64, v, qs.iter(), base, blen), Err(e) => return format!("!ctor {:?}", e) },
		("32", false) => match pe32::PeView::from_bytes(b) { Ok(v) => { let v = if rebase { v.set_base_address(vbase as u32) } else { v }; run_queries!(pe32, v, qs.iter(), base, blen) }, Err(e) => return format!("!ctor {:?}", e) },
		_ => match pe64::PeView::from_bytes(b) { Ok(v) => { let v = if rebase { v.set_base_address(vbase) } else { v }; run_queries!(pe64, v, qs.iter(), base, blen) }, Err(e) => return format!("!ctor {:?}", e) },
	};
	format!("r={}", out.join(","))
}

fn main() {
	harness_main(gen, run);
}
