//! C09: import descriptors, name tables, thunk decoding and the IAT — implementation side.
//!
//! A case is a PE32 / PE32+ image (file or mapped layout) written by the independent writer of
//! `pe.rs`, plus `ip=` — the generated import data as a comma list of `offset:hex` pokes (kept apart
//! from the image so that the shrinker can drop them one by one).
use pelite::pe32;
use pelite::pe64;
use pvh::pe::*;
use pvh::*;

const DESC_CAP: usize = 12; // descriptors reported in detail
const THUNK_CAP: usize = 24; // thunks reported in detail per table

struct Lay {
	file: bool,
	secs: Vec<Sec>,
}
impl Lay {
	/// buffer offset of an rva inside section `si` (file: raw data; mapped: the rva itself)
	fn off(&self, rva: u32) -> Option<usize> {
		if !self.file {
			return Some(rva as usize);
		}
		for s in &self.secs {
			if rva >= s.va && rva - s.va < s.srd {
				return Some(s.prd as usize + (rva - s.va) as usize);
			}
		}
		None
	}
}

fn gen(rng: &mut Rng, i: u64) -> String {
	if i % 997 == 996 {
		return gen_big(rng);
	}
	let pe64 = rng.chance(1, 2);
	let file = rng.chance(1, 2);
	let vb: u32 = if pe64 { 8 } else { 4 };
	let e_lfanew = *rng.pick(&[0x40u32, 0x80, 0x48]);
	let malformed = rng.chance(1, 7);
	let nrva = match rng.below(14) {
		0 => 0,
		1 => 1,
		2 => 2,
		3 => 12,
		4 => 13,
		5 => 17,
		6 => 0xFFFF_FFFF,
		_ => 16,
	};
	let mut spec = ImgSpec { pe64, e_lfanew, soh: 0x400, soi: 0, image_base: if pe64 { 0x1_4000_0000 } else { 0x40_0000 }, nrva, dirs: vec![(0u32, 0u32); 16], opt_size: 0, nsec_field: 0, secs: Vec::new(), checksum: 0, magic: if pe64 { 0x20b } else { 0x10b } };
	spec.opt_size = spec.std_opt_size();
	// ---- sections
	if malformed {
		spec.secs = gen_sections(rng, 0x1800, 0x400);
	}
	else {
		let n = rng.range(1, 3) as usize;
		let mut prd = 0x400u32;
		for k in 0..n {
			let srd = *rng.pick(&[0x200u32, 0x200, 0x300, 0x400, 0x120]);
			let vs = match rng.below(4) { 0 => srd, 1 => srd + rng.range(1, 0x200) as u32, 2 => srd - rng.range(1, 0x40) as u32, _ => srd + 0x20 };
			let mut s = Sec { name: [0; 8], va: 0x1000 * (k as u32 + 1), vs, prd, srd, chars: 0xC000_0040 };
			s.name[..3].copy_from_slice(b".id");
			spec.secs.push(s);
			prd += srd;
		}
	}
	spec.nsec_field = spec.secs.len() as u16;
	let hdr_end = spec.hdr_end();
	let raw_end = spec.secs.iter().map(|s| s.prd as u64 + s.srd as u64).filter(|e| *e < 0x10000).max().unwrap_or(0x400) as usize;
	let map_end = spec.secs.iter().map(|s| s.va as u64 + s.vs.max(s.srd) as u64).filter(|e| *e < 0x10000).max().unwrap_or(0x1000) as usize;
	let mut len = if file { raw_end } else { map_end };
	if rng.chance(1, 12) {
		len = len.saturating_sub(rng.range(1, 0x30) as usize); // truncated
	}
	if rng.chance(1, 12) {
		len += rng.range(1, 0x40) as usize; // overlay
	}
	let len = len.max(hdr_end).max(0x400);
	spec.soh = 0x400.min(len as u32);
	spec.soi = (map_end as u32).max(spec.soh);
	let lay = Lay { file, secs: spec.secs.clone() };

	// ---- import data, allocated inside one section (or anywhere for the malformed stream)
	let fill: u32 = if rng.chance(1, 4) { 0 } else { rng.range(1, 1000) as u32 };
	let mut ip: Vec<(usize, Vec<u8>)> = Vec::new();
	let host = if spec.secs.is_empty() { None } else { Some(spec.secs[rng.below(spec.secs.len() as u64) as usize].clone()) };
	let (lo, hi) = match &host {
		Some(s) if !malformed => (s.va, s.va.wrapping_add(if file { s.srd } else { s.vs.max(s.srd).min(len.saturating_sub(s.va as usize) as u32) })),
		Some(s) => (s.va, s.va.wrapping_add(s.srd.min(0x400))),
		None => (0x400, len as u32),
	};
	let mut cur = lo; // bump allocator from the start of the host range
	let mut top = hi; // and one from its end, for tables that must end flush with the available bytes
	let alloc = |cur: &mut u32, size: u32, align: u32, rng: &mut Rng| -> u32 {
		let mut a = cur.wrapping_add(align - 1) & !(align - 1);
		if rng.chance(1, 40) {
			a = a.wrapping_add(align / 2); // misaligned on purpose
		}
		*cur = a.wrapping_add(size);
		a
	};
	let put = |ip: &mut Vec<(usize, Vec<u8>)>, rva: u32, bytes: Vec<u8>| {
		if let Some(o) = lay.off(rva) {
			ip.push((o, bytes));
		}
	};
	let thunk_bytes = |t: u64| -> Vec<u8> { if pe64 { t.to_le_bytes().to_vec() } else { (t as u32).to_le_bytes().to_vec() } };
	let ndll = match rng.below(8) { 0 => 0, 1 => 1, 2 => 4, _ => rng.range(1, 3) } as usize;
	let flag: u64 = if pe64 { 1 << 63 } else { 1 << 31 };
	let mut descs: Vec<[u32; 5]> = Vec::new();
	let mut first_iat: u32 = 0;
	let mut iat_total: u32 = 0;
	for _ in 0..ndll {
		let nth = match rng.below(8) { 0 => 0, 1 => 1, 2 => 6, _ => rng.range(1, 4) } as usize;
		// name
		let nm: Vec<u8> = { let k = rng.range(0, 9) as usize; let mut v: Vec<u8> = (0..k).map(|_| rng.range(0x41, 0x7a) as u8).collect(); v.extend_from_slice(b".dll"); if !rng.chance(1, 30) { v.push(0); } v };
		let name_rva = alloc(&mut cur, nm.len() as u32, 1, rng);
		put(&mut ip, name_rva, nm);
		// thunk values
		let mut ths: Vec<u64> = Vec::new();
		for _ in 0..nth {
			let t: u64 = match rng.below(14) {
				0 | 1 | 2 => flag | rng.below(0x10000), // by ordinal
				3 => flag | (rng.next() & (flag - 1)), // by ordinal with garbage above 16 bits
				4 => (rng.next() & 0xFFFF_FFFF).max(1) & (flag - 1), // anywhere
				5 => *rng.pick(&[1u64, 2, 0x3ff, 0x400, 0xFFFF_FFFE, 0xFFFF_FFFF, 0x7FFF_FFFE, 0x7FFF_FFFF]) & (flag - 1),
				6 => (hi as u64).wrapping_sub(rng.range(0, 6)), // hint/name at the very end of the available bytes
				7 if top as u64 >= cur as u64 + 16 => {
					// hint/name entry ending exactly where the available bytes end, with or without its NUL
					let k = rng.range(0, 5) as usize;
					let mut e: Vec<u8> = (rng.below(0x10000) as u16).to_le_bytes().to_vec();
					e.extend((0..k).map(|_| rng.range(0x41, 0x7a) as u8));
					if !rng.chance(1, 3) { e.push(0); }
					let r = (top - e.len() as u32) & !1;
					while e.len() < (top - r) as usize { e.insert(2, 0x5a); }
					top = r;
					put(&mut ip, r, e);
					r as u64
				},
				_ => {
					// hint/name entry
					let k = rng.range(0, 12) as usize;
					let mut e: Vec<u8> = (rng.below(0x10000) as u16).to_le_bytes().to_vec();
					e.extend((0..k).map(|_| rng.range(0x41, 0x7a) as u8));
					if !rng.chance(1, 30) { e.push(0); }
					let r = alloc(&mut cur, e.len() as u32, 2, rng);
					put(&mut ip, r, e);
					let mut t = r as u64;
					if pe64 && rng.chance(1, 10) { t |= (rng.below(0x7FFF_FFFF) + 1) << 32; } // bits 32..62 are dropped by `as Rva`
					t
				},
			};
			ths.push(if t == 0 { flag | 1 } else { t });
		}
		let table = |ths: &[u64], term: bool| -> Vec<u8> {
			let mut b = Vec::new();
			for t in ths { b.extend(thunk_bytes(*t)); }
			if term { b.extend(thunk_bytes(0)); }
			b
		};
		// the two tables; either may lack its terminator, in which case it is placed flush with the end
		let mut place_table = |cur: &mut u32, top: &mut u32, ip: &mut Vec<(usize, Vec<u8>)>, rng: &mut Rng| -> u32 {
			let term = !rng.chance(1, 10);
			let b = table(&ths, term);
			// flush with the end of the available bytes: unterminated tables mostly, terminated ones sometimes
			// (then the terminator is the last whole element)
			let flush = if term { rng.chance(1, 6) } else { rng.chance(2, 3) };
			if flush && *top as u64 >= b.len() as u64 + *cur as u64 {
				let r = (*top - b.len() as u32) & !(vb - 1);
				// what follows the table up to the end of the bytes must not look like a terminator
				let tail = (*top - r) as usize;
				let mut bb = b.clone();
				while bb.len() < tail { bb.push(0xCC); }
				*top = r;
				put(ip, r, bb);
				r
			}
			else {
				let r = alloc(cur, b.len() as u32, vb, rng);
				put(ip, r, b);
				r
			}
		};
		let ft = place_table(&mut cur, &mut top, &mut ip, rng);
		let oft = match rng.below(8) { 0 => 0, 1 => ft, _ => place_table(&mut cur, &mut top, &mut ip, rng) };
		if first_iat == 0 { first_iat = ft; }
		iat_total = iat_total.wrapping_add((nth as u32 + 1) * vb);
		let mut d = [oft, if rng.chance(1, 4) { rng.next() as u32 } else { 0 }, if rng.chance(1, 4) { 0xFFFF_FFFF } else { 0 }, name_rva, ft];
		match rng.below(40) {
			0 => d[3] = 0,
			1 => d[3] = rng.next() as u32,
			2 => d[0] = rng.next() as u32,
			3 => d[4] = rng.next() as u32 | 1,
			4 => d[3] = hi.wrapping_sub(rng.range(0, 4) as u32),
			_ => {},
		}
		descs.push(d);
	}
	// the descriptor array
	let term = !rng.chance(1, 8);
	let mut db: Vec<u8> = Vec::new();
	for d in &descs { for x in d { db.extend(x.to_le_bytes()); } }
	if term {
		// all-zero terminator, or one that only has FirstThunk = 0
		let z: [u32; 5] = if rng.chance(1, 5) { [rng.next() as u32, 1, 2, rng.next() as u32, 0] } else { [0; 5] };
		for x in &z { db.extend(x.to_le_bytes()); }
	}
	let flush = if term { rng.chance(1, 6) } else { rng.chance(2, 3) };
	let imp_rva = if flush && top as u64 >= db.len() as u64 + cur as u64 {
		let r = (top - db.len() as u32) & !3;
		let tail = (top - r) as usize;
		while db.len() < tail { db.push(0xCC); }
		put(&mut ip, r, db);
		r
	}
	else {
		let r = alloc(&mut cur, db.len() as u32, 4, rng);
		put(&mut ip, r, db);
		r
	};
	spec.dirs[1] = match rng.below(24) {
		0 => (0, 0),
		1 => (rng.next() as u32, 0),
		2 => (imp_rva.wrapping_add(20), 0),
		3 => (imp_rva | 2, 0),
		4 => (rng.below(0x400) as u32, 0),
		_ => (imp_rva, 20 * (descs.len() as u32 + 1)),
	};
	spec.dirs[12] = match rng.below(16) {
		0 => (0, 0),
		1 => (first_iat, 0),
		2 => (first_iat, iat_total.wrapping_add(*rng.pick(&[1u32, 2, 3, 5, 7]))),
		3 => (first_iat, 0x10_0000),
		4 => (first_iat, 0xFFFF_FFFF),
		5 => (rng.next() as u32, vb * 2),
		6 => (first_iat | (vb / 2), vb * 2),
		7 => (hi.wrapping_sub(vb * 2), vb * *rng.pick(&[1u32, 2, 3])),
		_ => (first_iat, iat_total),
	};
	let img = Image { len, fill, hdr: scrambled_header(&spec, rng), pokes: Vec::new() };
	let place = *rng.pick(&[0usize, 4, 8, 12]);
	let ipf: Vec<String> = ip.iter().filter(|(o, _)| *o < len + 64).map(|(o, b)| format!("{}:{}", o, hex(b))).collect();
	format!(
		"imp fmt={} file={} place={} {} soh={} soi={} base={} secs={} ip={}",
		if pe64 { 64 } else { 32 }, file as u8, place, img.encode(), spec.soh, spec.soi, spec.image_base, secs_field(&spec.secs), join(&ipf, ",")
	)
}

/// A PE32+ mapped view of 4 GiB + 4 KiB (sparse), whose IAT holds thunks that refer to the very end of the
/// 32-bit rva space: rva + 2 does not fit an Rva although the hint can be read.
fn gen_big(rng: &mut Rng) -> String {
	let mut spec = ImgSpec { pe64: true, e_lfanew: 0x40, soh: 0x400, soi: 0xFFFF_FFFF, image_base: 0x1_4000_0000, nrva: 16, dirs: vec![(0u32, 0u32); 16], opt_size: 0, nsec_field: 0, secs: Vec::new(), checksum: 0, magic: 0x20b };
	spec.opt_size = spec.std_opt_size();
	let ths: Vec<u64> = (0..rng.range(1, 4)).map(|_| *rng.pick(&[0xFFFF_FFFEu64, 0xFFFF_FFFF, 0xFFFF_FFFC, 0x8000_0000_0000_0007, 0xFFFF_FFFD, 0x7_FFFF_FFFE])).collect();
	let mut b = Vec::new();
	for t in &ths { b.extend(t.to_le_bytes()); }
	spec.dirs[12] = (0x1000, b.len() as u32);
	let extra = *rng.pick(&[0u64, 2, 0x1000]);
	format!("big fmt=64 file=0 place=0 len={} fill=0 hdr={} pokes=- soh={} soi={} base={} secs=- ip={}:{}", (1u64 << 32) + extra, hex(&spec.header_bytes()), spec.soh, spec.soi, spec.image_base, 0x1000, hex(&b))
}

fn ip_pokes(case: &str) -> Vec<(usize, Vec<u8>)> {
	split(field(case, "ip"), ',')
		.iter()
		.map(|p| {
			let mut it = p.split(':');
			let o: usize = it.next().unwrap().parse().unwrap();
			(o, unhex(it.next().unwrap()))
		})
		.collect()
}

macro_rules! run_imp {
	($m:ident, $view:expr, $base:expr, $blen:expr, $full:expr) => {{
		use pelite::$m::imports::Import;
		use pelite::$m::Pe;
		let view = $view;
		let reg = |p: *const u8, n: usize| -> (usize, usize) {
			let off = (p as usize).wrapping_sub($base);
			assert!(off <= $blen && n <= $blen - off, "harness: returned region outside the buffer: off={} len={}", off as isize, n);
			(off, n)
		};
		let imp_s = |r: pelite::Result<Import<'_>>| -> String {
			match r {
				Ok(Import::ByName { hint, name }) => { let (o, n) = reg(name.c_str().as_ptr(), name.c_str().len()); format!("n.{}.{}.{}", hint, o, n) },
				Ok(Import::ByOrdinal { ord }) => format!("o.{}", ord),
				Err(e) => format!("e.{:?}", e),
			}
		};
		let mut out: Vec<String> = Vec::new();
		if $full {
			match view.imports() {
				Ok(imps) => {
					let img = imps.image();
					let (o, n) = reg(img.as_ptr() as *const u8, std::mem::size_of_val(img));
					assert!(img.as_ptr() as usize % 4 == 0, "harness: misaligned descriptor array");
					out.push(format!("imports=ok:{}:{}", o, n));
					assert!(imps.iter().count() == img.len(), "harness: iterator length differs from the image array");
					let mut ds: Vec<String> = Vec::new();
					for (k, desc) in imps.into_iter().enumerate() {
						if k >= DESC_CAP { break; }
						let d = desc.image();
						assert!(d as *const _ as usize == &img[k] as *const _ as usize, "harness: iterator out of order");
						let name = match desc.dll_name() { Ok(s) => { let (o, n) = reg(s.c_str().as_ptr(), s.c_str().len()); format!("ok:{}:{}", o, n) }, Err(e) => format!("e:{:?}", e) };
						let (iat_r, iat_v) = match desc.iat() {
							Ok(it) => {
								let s = it.as_slice();
								assert!(s.as_ptr() as usize % std::mem::align_of_val(&s[..0]).max(1) == 0);
								let (o, n) = reg(s.as_ptr() as *const u8, std::mem::size_of_val(s));
								let vals: Vec<String> = it.take(THUNK_CAP).map(|v| format!("{}", *v as u64)).collect();
								(format!("ok:{}:{}", o, n), join(&vals, ";"))
							},
							Err(e) => (format!("e:{:?}", e), "-".to_string()),
						};
						let (int_r, int_v) = match desc.int() {
							Ok(it) => {
								let cnt = it.clone().count();
								let vals: Vec<String> = it.take(THUNK_CAP).map(|r| imp_s(r)).collect();
								(format!("ok:{}", cnt), join(&vals, ";"))
							},
							Err(e) => (format!("e:{:?}", e), "-".to_string()),
						};
						ds.push(format!("{}.{}.{}.{}.{}|{}|{}|{}|{}|{}", d.OriginalFirstThunk, d.TimeDateStamp, d.ForwarderChain, d.Name, d.FirstThunk, name, iat_r, iat_v, int_r, int_v));
					}
					out.push(format!("descs={}", join(&ds, "/")));
				},
				Err(e) => { out.push(format!("imports=e:{:?}", e)); out.push("descs=-".to_string()); },
			}
		}
		match view.iat() {
			Ok(iat) => {
				let img = iat.image();
				let (o, n) = reg(img.as_ptr() as *const u8, std::mem::size_of_val(img));
				out.push(format!("iat=ok:{}:{}", o, n));
				let vals: Vec<String> = iat.iter().take(THUNK_CAP).map(|(va, r)| format!("{}~{}", *va as u64, imp_s(r))).collect();
				out.push(format!("iatv={}", join(&vals, ",")));
			},
			Err(e) => { out.push(format!("iat=e:{:?}", e)); out.push("iatv=-".to_string()); },
		}
		out.join(" ")
	}};
}

/// The same observation through the format-agnostic wrappers of src/wrap/imports.rs.
fn run_wrap<'a, P32: pe32::Pe<'a>, P64: pe64::Pe<'a>>(w: pelite::Wrap<P32, P64>, base: usize, blen: usize) -> String {
	use pelite::pe64::imports::Import;
	use pelite::Wrap;
	let reg = |p: *const u8, n: usize| -> (usize, usize) {
		let off = (p as usize).wrapping_sub(base);
		assert!(off <= blen && n <= blen - off, "harness: returned region outside the buffer (wrap): off={} len={}", off as isize, n);
		(off, n)
	};
	let imp_s = |r: pelite::Result<Import<'_>>| -> String {
		match r {
			Ok(Import::ByName { hint, name }) => { let (o, n) = reg(name.c_str().as_ptr(), name.c_str().len()); format!("n.{}.{}.{}", hint, o, n) },
			Ok(Import::ByOrdinal { ord }) => format!("o.{}", ord),
			Err(e) => format!("e.{:?}", e),
		}
	};
	let mut out: Vec<String> = Vec::new();
	match w.imports() {
		Ok(imps) => {
			let img = imps.image();
			let (o, n) = reg(img.as_ptr() as *const u8, std::mem::size_of_val(img));
			out.push(format!("imports=ok:{}:{}", o, n));
			let mut ds: Vec<String> = Vec::new();
			for (k, desc) in imps.into_iter().enumerate() {
				if k >= DESC_CAP { break; }
				let d = desc.image();
				let name = match desc.dll_name() { Ok(s) => { let (o, n) = reg(s.c_str().as_ptr(), s.c_str().len()); format!("ok:{}:{}", o, n) }, Err(e) => format!("e:{:?}", e) };
				let (iat_r, iat_v) = match desc.iat() {
					Ok(it) => {
						let (o, n) = match &it { Wrap::T32(i) => reg(i.as_slice().as_ptr() as *const u8, 4 * i.as_slice().len()), Wrap::T64(i) => reg(i.as_slice().as_ptr() as *const u8, 8 * i.as_slice().len()) };
						let vals: Vec<String> = it.take(THUNK_CAP).map(|v| match v { Wrap::T32(x) => format!("{}", *x as u64), Wrap::T64(x) => format!("{}", *x) }).collect();
						(format!("ok:{}:{}", o, n), join(&vals, ";"))
					},
					Err(e) => (format!("e:{:?}", e), "-".to_string()),
				};
				let (int_r, int_v) = match desc.int() {
					Ok(it) => {
						let cnt = it.clone().count();
						let vals: Vec<String> = it.take(THUNK_CAP).map(|r| imp_s(r)).collect();
						(format!("ok:{}", cnt), join(&vals, ";"))
					},
					Err(e) => (format!("e:{:?}", e), "-".to_string()),
				};
				ds.push(format!("{}.{}.{}.{}.{}|{}|{}|{}|{}|{}", d.OriginalFirstThunk, d.TimeDateStamp, d.ForwarderChain, d.Name, d.FirstThunk, name, iat_r, iat_v, int_r, int_v));
			}
			out.push(format!("descs={}", join(&ds, "/")));
		},
		Err(e) => { out.push(format!("imports=e:{:?}", e)); out.push("descs=-".to_string()); },
	}
	match w.iat() {
		Ok(iat) => {
			let (o, n) = match iat.image() { Wrap::T32(s) => reg(s.as_ptr() as *const u8, 4 * s.len()), Wrap::T64(s) => reg(s.as_ptr() as *const u8, 8 * s.len()) };
			out.push(format!("iat=ok:{}:{}", o, n));
			let vals: Vec<String> = iat.iter().take(THUNK_CAP).map(|e| match e { Wrap::T32((va, r)) => format!("{}~{}", *va as u64, imp_s(r)), Wrap::T64((va, r)) => format!("{}~{}", *va, imp_s(r)) }).collect();
			out.push(format!("iatv={}", join(&vals, ",")));
		},
		Err(e) => { out.push(format!("iat=e:{:?}", e)); out.push("iatv=-".to_string()); },
	}
	out.join(" ")
}

fn run_big(case: &str) -> String {
	let len: usize = field(case, "len").parse().unwrap();
	let hdr = unhex(field(case, "hdr"));
	let p = unsafe { libc::mmap(std::ptr::null_mut(), len, libc::PROT_READ | libc::PROT_WRITE, libc::MAP_PRIVATE | libc::MAP_ANONYMOUS | libc::MAP_NORESERVE, -1, 0) };
	if p == libc::MAP_FAILED {
		return "!nomem".to_string();
	}
	let buf: &mut [u8] = unsafe { std::slice::from_raw_parts_mut(p as *mut u8, len) };
	buf[..hdr.len()].copy_from_slice(&hdr);
	for (o, b) in ip_pokes(case) {
		buf[o..o + b.len()].copy_from_slice(&b);
	}
	let b: &[u8] = buf;
	let base = b.as_ptr() as usize;
	let r = std::panic::catch_unwind(|| match pe64::PeView::from_bytes(b) {
		Ok(v) => run_imp!(pe64, v, base, len, false),
		Err(e) => format!("!ctor {:?}", e),
	});
	unsafe { libc::munmap(p, len) };
	match r {
		Ok(s) => s,
		Err(e) => std::panic::resume_unwind(e),
	}
}

fn run(case: &str) -> String {
	if case.starts_with("big ") {
		return run_big(case);
	}
	let img = Image::decode(case);
	let mut bytes = img.bytes();
	for (o, b) in ip_pokes(case) {
		for (k, x) in b.iter().enumerate() {
			if o + k < bytes.len() { bytes[o + k] = *x; }
		}
	}
	let place: usize = field(case, "place").parse().unwrap();
	let buf = Aligned::new(&bytes, place);
	let b = buf.bytes();
	let base = b.as_ptr() as usize;
	let blen = b.len();
	let file = field(case, "file") == "1";
	let direct = match (field(case, "fmt"), file) {
		("32", true) => match pe32::PeFile::from_bytes(b) { Ok(v) => run_imp!(pe32, v, base, blen, true), Err(e) => return format!("!ctor {:?}", e) },
		("64", true) => match pe64::PeFile::from_bytes(b) { Ok(v) => run_imp!(pe64, v, base, blen, true), Err(e) => return format!("!ctor {:?}", e) },
		("32", false) => match pe32::PeView::from_bytes(b) { Ok(v) => run_imp!(pe32, v, base, blen, true), Err(e) => return format!("!ctor {:?}", e) },
		_ => match pe64::PeView::from_bytes(b) { Ok(v) => run_imp!(pe64, v, base, blen, true), Err(e) => return format!("!ctor {:?}", e) },
	};
	// the format-agnostic wrappers must report exactly the same thing
	let wrapped = if file {
		match pelite::PeFile::from_bytes(b) { Ok(w) => run_wrap(w, base, blen), Err(e) => format!("!wrap-ctor {:?}", e) }
	}
	else {
		match pelite::PeView::from_bytes(b) { Ok(w) => run_wrap(w, base, blen), Err(e) => format!("!wrap-ctor {:?}", e) }
	};
	format!("{} wrap={}", direct, if wrapped == direct { "same" } else { "differs" })
}

fn main() {
	harness_main(gen, run);
}
