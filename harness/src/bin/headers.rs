//! C07: header acceptance, accessors, section lookup, checksum, wrapper — implementation side.
use pelite::pe32;
use pelite::pe64;
use pvh::pe::*;
use pvh::*;

fn gen(rng: &mut Rng, _i: u64) -> String {
	let pe64 = rng.chance(1, 2);
	let huge = rng.chance(1, 500);
	let e_lfanew: u32 = if huge { *rng.pick(&[0x0100_0000u32, 0x0100_0004, 0x00FF_FFFC]) } else {
		match rng.below(12) { 0 => 0x80, 1 => 4, 2 => 0x44, 3 => 0x3C, 4 => 0x42, 5 => 0x41, 6 => 0xF8, 7 => 0x0C, _ => 0x40 }
	};
	let ndirs = *rng.pick(&[16usize, 16, 16, 0, 1, 15, 10]);
	let mut spec = ImgSpec {
		pe64, e_lfanew, soh: 0, soi: 0, image_base: if pe64 { 0x1_4000_0000 } else { 0x40_0000 },
		nrva: ndirs as u32, dirs: (0..ndirs).map(|k| (0x1000 + 0x10 * k as u32, 8 * k as u32)).collect(),
		opt_size: 0, nsec_field: 0, secs: Vec::new(), checksum: rng.next() as u32, magic: if pe64 { 0x20b } else { 0x10b },
	};
	spec.opt_size = spec.std_opt_size();
	spec.secs = gen_sections(rng, 0x1000, 0x400);
	if rng.chance(1, 4) && !spec.secs.is_empty() {
		// duplicate / unusual names
		let k = rng.below(spec.secs.len() as u64) as usize;
		spec.secs[k].name = *b".text\0\0\0";
		if rng.chance(1, 2) { let j = rng.below(spec.secs.len() as u64) as usize; spec.secs[j].name = *b"12345678"; }
		// names with an interior NUL (the field is NUL padded, not NUL terminated), placed BEFORE the plain name they
		// would shadow under a prefix / NUL-terminated comparison
		if rng.chance(1, 2) && spec.secs.len() >= 2 {
			let j = rng.below(spec.secs.len() as u64 - 1) as usize;
			spec.secs[j].name = *rng.pick(&[*b".s\0x\0\0\0\0", *b".text\0\0x", *b"\0hidden\0", *b".s0\0\0\0\0z", *b"ab\0cd\0\0\0"]);
			if rng.chance(1, 2) { spec.secs[j + 1].name = *rng.pick(&[*b".s\0\0\0\0\0\0", *b"ab\0\0\0\0\0\0", *b".s0\0\0\0\0\0"]); }
		}
	}
	spec.nsec_field = spec.secs.len() as u16;
	// header field mutations
	match rng.below(14) {
		0 => spec.opt_size = *rng.pick(&[0u16, 2, 4, 6, 0xE0, 0xF0, 0xFFFF, 0xFFFC, 1, 3, 0xE2]),
		1 | 5 => spec.nrva = *rng.pick(&[0u32, 1, 15, 16, 17, 0xFFFF_FFFF, 0x8000_0000, 0x2000_0000, 0x2000_0001, 0x4000_0000, 0x1000_0000, 0x1000_0002, 0x6000_000F, 0x2000_0010, 18, 0x1F]),
		2 => spec.nsec_field = *rng.pick(&[0u16, 1, 3, 96, 97, 65535]),
		3 => spec.magic = *rng.pick(&[0x10bu16, 0x20b, 0x107, 0, 0x20c]),
		4 => spec.opt_size = spec.opt_size.wrapping_add(*rng.pick(&[1u16, 2, 3, 4, 8])),
		_ => {},
	}
	// dedicated shape: a huge NumberOfRvaAndSizes with a buffer that ends inside the 16 entries the accessor hands out
	let short_dirs = rng.chance(1, 12);
	if short_dirs {
		spec.nrva = *rng.pick(&[0x2000_0000u32, 0x2000_0001, 0x4000_0000, 0x8000_0000, 0x8000_0003, 0xFFFF_FFFF, 0x1000_0000, 16, 17, 0x2000_000F]);
		spec.dirs.truncate(0);
		spec.secs.truncate(0);
		spec.nsec_field = 0;
		spec.opt_size = if pe64 { 112 } else { 96 };
		spec.magic = if pe64 { 0x20b } else { 0x10b };
	}
	let mut nt = {
		// header bytes relative to e_lfanew, written through a spec with e_lfanew = 0x40 and then cut
		let mut s2 = spec.clone();
		s2.e_lfanew = 0x40;
		let hb = s2.header_bytes();
		hb[0x40..].to_vec()
	};
	let struct_end = e_lfanew as usize + nt.len();
	let len: usize = match rng.below(10) {
		0 => struct_end,
		1 => struct_end.saturating_sub(1),
		2 | 7 => e_lfanew as usize + spec.nt_size() as usize + *rng.pick(&[0usize, 1, 8, 16, 64, 120, 127, 128, 129, 8 * ndirs, 8 * ndirs + 1]) - if rng.chance(1, 2) { 1 } else { 0 },
		3 => if rng.chance(1, 3) { *rng.pick(&[0usize, 1, 63, 64, 65, 96, 97, 128]) } else { struct_end + 4 * rng.below(64) as usize },
		4 => e_lfanew as usize + *rng.pick(&[4usize, 24, 119, 120, 121, 135, 136, 137]),
		5 => struct_end + 1 + rng.below(7) as usize,      // lengths that are not multiples of four
		_ => struct_end + rng.below(0x600) as usize,
	};
	let len = if short_dirs { e_lfanew as usize + spec.nt_size() as usize + *rng.pick(&[0usize, 8, 16, 64, 120, 127, 128, 129, 136]) } else { len };
	spec.soh = match rng.below(8) { 0 => 0, 1 => len as u32, 2 => len as u32 + 1, 3 => struct_end as u32, _ => (len as u32).min(0x400) };
	spec.soi = match rng.below(8) { 0 => spec.soh, 1 => spec.soh.wrapping_sub(1), 2 => 0xFFFF_FFFF, _ => spec.soh.max(0x3000) };
	// re-render NT part with the final soh / soi
	{
		let mut s2 = spec.clone();
		s2.e_lfanew = 0x40;
		// the don't-care fields of the file / optional / section headers are re-drawn in half the cases (fourth audit, H3:
		// C07 owns validate_headers, by_rva and by_name, and every case carried canonical Characteristics, alignments, Machine)
		nt = scrambled_header(&s2, rng)[0x40..].to_vec();
	}
	let mut dos = vec![0u8; 64];
	dos[0] = b'M'; dos[1] = b'Z';
	dos[60..64].copy_from_slice(&e_lfanew.to_le_bytes());
	match rng.below(30) { 0 => dos[0] = b'N', 1 => dos[1] = 0, 2 => nt[0] = b'Q', 3 => nt[2] = 1, _ => {} }
	let fill = if rng.chance(1, 3) { 0 } else { rng.range(1, 999) as u32 };
	// the NT part may overlap the DOS header when e_lfanew < 64: write DOS first, then NT, then e_lfanew again only if it was not overwritten on purpose
	let img = Image { len, fill: if huge { 0 } else { fill }, hdr: dos, pokes: vec![(e_lfanew as usize, nt)] };
	let mut img = img;
	if !huge && rng.chance(1, 6) && len >= 0x30 && e_lfanew >= 0x40 {
		// make the one's-complement word sum of the file (CheckSum field skipped) a multiple of 0xFFFF:
		// the folded 16-bit sum is then exactly 0xFFFF, the one value where a fold written as a plain modulo differs
		let bytes = img.bytes();
		let skip = e_lfanew as usize + 24 + 64;
		let mut sum: u64 = 0;
		let mut k = 0;
		while k < bytes.len() {
			let w = bytes[k] as u64 | ((if k + 1 < bytes.len() { bytes[k + 1] } else { 0 }) as u64) << 8;
			if !(k == skip || k == skip + 2 || k == 0x28) { sum += w; }
			k += 2;
		}
		let r = sum % 0xFFFF;
		let w = (0xFFFF - r) as u16; // in 1..=0xFFFF
		img.pokes.push((0x28, w.to_le_bytes().to_vec()));
	}
	if !huge && !short_dirs && rng.chance(1, 300) && e_lfanew >= 0x40 {
		// carry storm: more than 65535 dwords of 0xFFFFFFFF behind the headers, and one adjusting dword chosen so that
		// (low 32 bits of the unbounded dword sum) + (number of carries) = 2^32 + 0xFFFF.  A sum that adds the carries
		// back once at the end instead of at every step (or folds them in a different order) differs from the
		// standard checksum on exactly such images; below 2^16 carries the two cannot be told apart.
		let k = 65537 + rng.below(200) as usize;
		let start = (struct_end.max(64) + 3) & !3;
		img.len = start + 4 * (k + 1);
		img.fill = 0xFFFF_FFFF;
		let bytes = img.bytes();
		let skip = (e_lfanew as usize + 24 + 64) / 4;
		let nd = bytes.len() / 4;
		let mut s0: u64 = 0;
		for i in 0..nd - 1 { if i != skip { s0 += u32::from_le_bytes([bytes[4 * i], bytes[4 * i + 1], bytes[4 * i + 2], bytes[4 * i + 3]]) as u64; } }
		let (lo0, hi0) = (s0 & 0xFFFF_FFFF, s0 >> 32);
		let want = (1u64 << 32) + 0xFFFF;
		if hi0 > 0xFFFF && lo0 + hi0 <= want && want - lo0 - hi0 < (1u64 << 32) - lo0 {
			let x = (want - lo0 - hi0) as u32;
			img.pokes.push((4 * (nd - 1), x.to_le_bytes().to_vec()));
		}
	}
	let place = *rng.pick(&[0usize, 0, 0, 4, 8, 12, 4, 8, 12, 0, 4, 8, 1, 2, 6]);
	// lookups
	let mut rvas: Vec<u32> = vec![0, 0x1000, 0xFFF, 0xFFFF_FFFF];
	for s in &spec.secs {
		rvas.push(s.va); rvas.push(s.va.wrapping_add(s.vs)); rvas.push(s.va.wrapping_add(s.vs).wrapping_sub(1)); rvas.push(s.va.wrapping_sub(1));
	}
	let mut names: Vec<String> = vec![hex(b".text"), hex(b".text\0"), hex(b".s0"), hex(b".s"), hex(b"12345678"), hex(b"123456789"), hex(b".s1\0\0\0\0\0"), "-".to_string(), hex(b".s0\0\0\0\0\0\0")];
	names.truncate(rng.range(3, 9) as usize);
	for n in [&b"ab"[..], b".s\0x", b"", b"\0hidden", b".text\0\0x", b".s0\0\0\0\0z", b"ab\0cd"] { if rng.chance(1, 3) { names.push(if n.is_empty() { "-".to_string() } else { hex(n) }); } }
	format!("hdr fmt={} place={} {} rvas={} names={}", if pe64 { 64 } else { 32 }, place, img.encode(), join(&rvas, ","), names.join(","))
}

fn ename(e: pelite::Error) -> String { format!("{:?}", e) }

macro_rules! observe {
	($m:ident, $file:expr, $base:expr, $blen:expr, $rvas:expr, $names:expr) => {{
		use $m::Pe;
		let v = $file;
		let reg = |p: *const u8, n: usize, al: usize| -> String {
			let off = (p as usize).wrapping_sub($base);
			assert!(off <= $blen && n <= $blen - off, "harness: header accessor region outside the buffer off={} len={}", off as isize, n);
			assert!(p as usize % al == 0, "harness: header accessor returned a misaligned reference");
			format!("{}:{}", off, n)
		};
		let mut acc = Vec::new();
		let dh = v.dos_header(); acc.push(reg(dh as *const _ as *const u8, std::mem::size_of_val(dh), std::mem::align_of_val(dh)));
		let di = v.dos_image(); acc.push(reg(di.as_ptr(), di.len(), 1));
		let nt = v.nt_headers(); acc.push(reg(nt as *const _ as *const u8, std::mem::size_of_val(nt), std::mem::align_of_val(nt)));
		let fh = v.file_header(); acc.push(reg(fh as *const _ as *const u8, std::mem::size_of_val(fh), std::mem::align_of_val(fh)));
		let oh = v.optional_header(); acc.push(reg(oh as *const _ as *const u8, std::mem::size_of_val(oh), std::mem::align_of_val(oh)));
		let dd = v.data_directory(); acc.push(reg(dd.as_ptr() as *const u8, std::mem::size_of_val(dd), 4));
		let sh = v.section_headers().image(); acc.push(reg(sh.as_ptr() as *const u8, std::mem::size_of_val(sh), 4));
		let hi = v.headers().image(); acc.push(reg(hi.as_ptr(), hi.len(), 1));
		let dirs: Vec<String> = dd.iter().map(|d| format!("{}:{}", d.VirtualAddress, d.Size)).collect();
		let secs: Vec<String> = sh.iter().map(|s| format!("{}:{}:{}:{}", s.VirtualAddress, s.VirtualSize, s.PointerToRawData, s.SizeOfRawData)).collect();
		let soi = oh.SizeOfImage; let soh = oh.SizeOfHeaders; let ib = oh.ImageBase as u64; let cs = oh.CheckSum;
		let first = v.section_headers().image().as_ptr() as usize;
		let idx = |s: Option<&pelite::image::IMAGE_SECTION_HEADER>| -> String { match s { Some(s) => ((s as *const _ as usize - first) / 40).to_string(), None => "n".to_string() } };
		let byrva: Vec<String> = $rvas.iter().map(|r| idx(v.section_headers().by_rva(*r).map(|s| &**s))).collect();
		let byname: Vec<String> = $names.iter().map(|n| idx(v.section_headers().by_name(&n[..]).map(|s| &**s))).collect();
		format!("acc={} soi={} soh={} base={} stored_csum={} dirs={} secs={} csum={} byrva={} byname={}",
			acc.join(","), soi, soh, ib, cs, join(&dirs, ";"), join(&secs, ";"), if $blen > (1 << 20) { "skip".to_string() } else { v.headers().check_sum().to_string() }, join(&byrva, ","), join(&byname, ","))
	}};
}

fn run(case: &str) -> String {
	let img = Image::decode(case);
	let bytes = img.bytes();
	let place: usize = field(case, "place").parse().unwrap();
	let buf = Aligned::new(&bytes, place);
	let b = buf.bytes();
	let base = b.as_ptr() as usize;
	let blen = b.len();
	let rvas: Vec<u32> = split(field(case, "rvas"), ',').iter().map(|s| s.parse().unwrap()).collect();
	let names: Vec<Vec<u8>> = field(case, "names").split(',').map(|s| unhex(s)).collect();
	let r = |x: Result<(), pelite::Error>| match x { Ok(()) => "ok".to_string(), Err(e) => ename(e) };
	let f32 = pe32::PeFile::from_bytes(b);
	let f64 = pe64::PeFile::from_bytes(b);
	let v32 = pe32::PeView::from_bytes(b);
	let v64 = pe64::PeView::from_bytes(b);
	let wf = match pelite::PeFile::from_bytes(b) { Ok(pelite::Wrap::T32(_)) => "T32".to_string(), Ok(pelite::Wrap::T64(_)) => "T64".to_string(), Err(e) => ename(e) };
	let wv = match pelite::PeView::from_bytes(b) { Ok(pelite::Wrap::T32(_)) => "T32".to_string(), Ok(pelite::Wrap::T64(_)) => "T64".to_string(), Err(e) => ename(e) };
	let mut out = format!("f32={} f64={} v32={} v64={} wf={} wv={}", r(f32.map(|_| ())), r(f64.map(|_| ())), r(v32.map(|_| ())), r(v64.map(|_| ())), wf, wv);
	// header accessors, lookups and the checksum do not depend on how the buffer is interpreted: a PeView over the
	// same bytes must report exactly what the PeFile reports (in particular it borrows the WHOLE buffer)
	let v32 = pe32::PeView::from_bytes(b);
	let v64 = pe64::PeView::from_bytes(b);
	if let Ok(f) = f32 {
		out.push_str(" | ");
		let fo = observe!(pe32, f, base, blen, rvas, names);
		if let Ok(v) = v32 {
			use pe32::{Pe, PeObject};
			assert!(v.image().as_ptr() as usize == base && v.image().len() == blen, "harness: returned region outside the buffer: PeView::image() is not the buffer it was given ({} bytes of {})", v.image().len(), blen);
			let vo = observe!(pe32, v, base, blen, rvas, names);
			assert!(vo == fo, "harness: PeView reports headers differently from PeFile on the same bytes: view {} file {}", vo, fo);
		}
		out.push_str(&fo);
	}
	if let Ok(f) = f64 {
		out.push_str(" | ");
		let fo = observe!(pe64, f, base, blen, rvas, names);
		if let Ok(v) = v64 {
			use pe64::{Pe, PeObject};
			assert!(v.image().as_ptr() as usize == base && v.image().len() == blen, "harness: returned region outside the buffer: PeView::image() is not the buffer it was given ({} bytes of {})", v.image().len(), blen);
			let vo = observe!(pe64, v, base, blen, rvas, names);
			assert!(vo == fo, "harness: PeView reports headers differently from PeFile on the same bytes: view {} file {}", vo, fo);
		}
		out.push_str(&fo);
	}
	out
}

fn main() {
	harness_main(gen, run);
}
