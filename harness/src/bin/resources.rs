//! C12: resource tree traversal, lookup, fsck and icon- / cursor-group reassembly — implementation side.
//!
//! Cases:  res place=<0..15> va=<u32> depth=<d> budget=<b> sec=<hex> q=<queries> exp=<items|-> expfsck=<ok|err|-> ico=<hex|-> cur=<hex|->
//!         pe  (one smoke path through Pe::resources() on a mapped PE32+ view) len= fill= hdr= pokes= place= rva= size= depth= budget=
//! The section writer below is independent of pelite: explicit offsets from the PE/COFF specification.
use pelite::image::IMAGE_DATA_DIRECTORY;
use pelite::resources::group::GroupResource;
use pelite::resources::{DataEntry, Directory, Entry, FindError, Name, Resources};
use pvh::pe::*;
use pvh::*;

// ---------------------------------------------------------------------------------------------
// independent writer

#[derive(Clone, Debug)]
enum NameSpec {
	Id(u32),
	Str(Vec<u16>),
	RawName(u32), // explicit Name field (dangling / odd string offsets)
}
#[derive(Clone, Debug)]
enum Tgt {
	Dir(usize),
	Data(usize),
	Raw(u32), // explicit Offset field
}
#[derive(Clone, Debug)]
struct Ent {
	name: NameSpec,
	tgt: Tgt,
}
#[derive(Clone, Debug, Default)]
struct DirN {
	ents: Vec<Ent>,
	named_override: Option<(u16, u16)>,
}
#[derive(Clone, Debug)]
struct DataN {
	bytes: Vec<u8>,
	cp: u32,
	size_override: Option<u32>,
	otd_delta: i64, // added to OffsetToData
	odd: bool,      // place the blob at an odd offset
	half: bool,     // place the blob at an offset that is 2 mod 4 (valid for everything built from u16 halves, e.g. icon groups)
}
#[derive(Default)]
struct Tree {
	dirs: Vec<DirN>,
	datas: Vec<DataN>,
}
struct Layout {
	bytes: Vec<u8>,
	dir_off: Vec<u32>,
	data_off: Vec<u32>,  // offset of the IMAGE_RESOURCE_DATA_ENTRY
	blob_off: Vec<u32>,  // offset of the data itself
}

fn w16(b: &mut Vec<u8>, o: usize, v: u16) {
	b[o..o + 2].copy_from_slice(&v.to_le_bytes());
}
fn w32(b: &mut Vec<u8>, o: usize, v: u32) {
	b[o..o + 4].copy_from_slice(&v.to_le_bytes());
}

impl Tree {
	fn data(&mut self, bytes: Vec<u8>, cp: u32) -> usize {
		self.datas.push(DataN { bytes, cp, size_override: None, otd_delta: 0, odd: false, half: false });
		self.datas.len() - 1
	}
	fn dir(&mut self) -> usize {
		self.dirs.push(DirN::default());
		self.dirs.len() - 1
	}
	fn layout(&self, va: u32, pad: u8) -> Layout {
		let mut dir_off = Vec::new();
		let mut p = 0u32;
		for d in &self.dirs {
			dir_off.push(p);
			p += 16 + 8 * d.ents.len() as u32;
		}
		// name strings, in entry order, 2-aligned
		let mut name_off: Vec<Vec<u32>> = Vec::new();
		for d in &self.dirs {
			let mut v = Vec::new();
			for e in &d.ents {
				if let NameSpec::Str(ws) = &e.name {
					v.push(p);
					p += 2 + 2 * ws.len() as u32;
				}
				else {
					v.push(0);
				}
			}
			name_off.push(v);
		}
		p = (p + 3) & !3;
		let mut data_off = Vec::new();
		for _ in &self.datas {
			data_off.push(p);
			p += 16;
		}
		let mut blob_off = Vec::new();
		for d in &self.datas {
			if d.odd {
				p |= 1;
			}
			else if d.half {
				p = ((p + 3) & !3) + 2;
			}
			blob_off.push(p);
			p += d.bytes.len() as u32;
			p = (p + 3) & !3;
		}
		let mut b = vec![pad; p as usize];
		for (i, d) in self.dirs.iter().enumerate() {
			let o = dir_off[i] as usize;
			for k in 0..12 {
				b[o + k] = 0;
			}
			let named = d.ents.iter().filter(|e| !matches!(e.name, NameSpec::Id(_))).count() as u16;
			let (nn, ni) = d.named_override.unwrap_or((named, d.ents.len() as u16 - named));
			w16(&mut b, o + 12, nn);
			w16(&mut b, o + 14, ni);
			for (k, e) in d.ents.iter().enumerate() {
				let eo = o + 16 + 8 * k;
				let nv = match &e.name {
					NameSpec::Id(id) => *id,
					NameSpec::Str(ws) => {
						let no = name_off[i][k] as usize;
						w16(&mut b, no, ws.len() as u16);
						for (j, w) in ws.iter().enumerate() {
							w16(&mut b, no + 2 + 2 * j, *w);
						}
						0x8000_0000 | no as u32
					},
					NameSpec::RawName(v) => *v,
				};
				w32(&mut b, eo, nv);
				let ov = match e.tgt {
					Tgt::Dir(j) => 0x8000_0000 | dir_off[j],
					Tgt::Data(j) => data_off[j],
					Tgt::Raw(v) => v,
				};
				w32(&mut b, eo + 4, ov);
			}
		}
		for (i, d) in self.datas.iter().enumerate() {
			let o = data_off[i] as usize;
			w32(&mut b, o, (va as i64 + blob_off[i] as i64 + d.otd_delta) as u32);
			w32(&mut b, o + 4, d.size_override.unwrap_or(d.bytes.len() as u32));
			w32(&mut b, o + 8, d.cp);
			w32(&mut b, o + 12, 0);
			let bo = blob_off[i] as usize;
			b[bo..bo + d.bytes.len()].copy_from_slice(&d.bytes);
		}
		Layout { bytes: b, dir_off, data_off, blob_off }
	}
	/// The writer's own account of what a traversal must report (depth-first, named flag by position).
	fn expect(&self, lay: &Layout, di: usize, lvl: u32, depth: u32, budget: &mut u64, out: &mut Vec<String>) {
		if depth == 0 {
			out.push("cut".into());
			return;
		}
		let d = &self.dirs[di];
		let named = d.ents.iter().filter(|e| !matches!(e.name, NameSpec::Id(_))).count();
		for (k, e) in d.ents.iter().enumerate() {
			if *budget == 0 {
				out.push("stop".into());
				break;
			}
			*budget -= 1;
			let eo = lay.dir_off[di] + 16 + 8 * k as u32;
			let nm = match &e.name {
				NameSpec::Id(id) => format!("i{}", id),
				NameSpec::Str(ws) => format!("w{}", ws.iter().map(|w| format!("{:04x}", w)).collect::<Vec<_>>().join(".")),
				NameSpec::RawName(_) => unreachable!(),
			};
			let flag = if k < named { "n" } else { "i" };
			match e.tgt {
				Tgt::Dir(j) => {
					out.push(format!("{}:{}:{}:{}:1:D/{}", lvl, eo, flag, nm, lay.dir_off[j]));
					self.expect(lay, j, lvl + 1, depth - 1, budget, out);
				},
				Tgt::Data(j) => {
					let dn = &self.datas[j];
					out.push(format!("{}:{}:{}:{}:0:F/{}/{}/{}/{}/{}", lvl, eo, flag, nm, lay.data_off[j], lay.blob_off[j], dn.bytes.len(), dn.bytes.len(), dn.cp));
				},
				Tgt::Raw(_) => unreachable!(),
			}
		}
	}
}

fn gen_words(rng: &mut Rng) -> Vec<u16> {
	let n = match rng.below(8) { 0 => 0, 1 => 1, _ => rng.range(1, 7) } as usize;
	let mut v = Vec::new();
	for _ in 0..n {
		match rng.below(12) {
			0 => {
				// a non-BMP character as a surrogate pair
				let c = 0x10000 + rng.below(0x100000) as u32 - 0x10000;
				let c = if c > 0xFFFFF { 0x345 } else { c };
				v.push(0xD800 + (c >> 10) as u16);
				v.push(0xDC00 + (c & 0x3ff) as u16);
			},
			1 => v.push(*rng.pick(&[0xE9u16, 0x4E2D, 0xFFFD, 0x20AC, 0x7FF, 0x800, 0xFFFF, 0xD7FF, 0xE000])),
			2 => v.push(*rng.pick(&[b'#' as u16, b'0' as u16, b'7' as u16, b'/' as u16, b'.' as u16])),
			3 if rng.chance(1, 3) => v.push(*rng.pick(&[0xD800u16, 0xDBFF, 0xDC00, 0xDFFF])), // unpaired surrogate
			_ => v.push(rng.range(0x41, 0x5a) as u16),
		}
	}
	v
}
fn gen_blob(rng: &mut Rng) -> Vec<u8> {
	let n = match rng.below(6) { 0 => 0, 1 => 1, _ => rng.below(24) } as usize;
	(0..n).map(|_| rng.byte()).collect()
}

/// a free-form tree of depth 1..4
fn gen_free(rng: &mut Rng, t: &mut Tree, depth: u32) -> usize {
	let di = t.dir();
	let n = match rng.below(8) { 0 => 0, 1 => 1, _ => rng.range(1, 4) } as usize;
	let named = rng.below(n as u64 + 1) as usize;
	let mut ents = Vec::new();
	for k in 0..n {
		let name = if k < named { NameSpec::Str(gen_words(rng)) } else { NameSpec::Id(match rng.below(8) { 0 => 0, 1 => 0xFFFF, 2 => 0x7FFF_FFFF, 3 => rng.range(1, 24) as u32, _ => rng.below(2000) as u32 }) };
		let tgt = if depth > 1 && rng.chance(1, 2) { Tgt::Dir(gen_free(rng, t, depth - 1)) } else { Tgt::Data(t.data(gen_blob(rng), *rng.pick(&[0u32, 1252, 65001, 0xFFFF_FFFF]))) };
		ents.push(Ent { name, tgt });
	}
	t.dirs[di].ents = ents;
	di
}

struct IconSet {
	ty: u16,                 // 1 icon, 2 cursor
	images: Vec<(u16, Vec<u8>)>, // (id, data)
	heads: Vec<[u8; 12]>,
	ico: Option<Vec<u8>>,    // the original file (.ico, or .cur for a real cursor set) when the group is consistent
	group: Vec<u8>,          // GRPICONDIR bytes
}
fn gen_iconset(rng: &mut Rng, ty: u16, first_id: u16) -> IconSet {
	let n = match rng.below(6) { 0 => 0, 1 => 1, _ => rng.range(1, 4) } as usize;
	let mut images = Vec::new();
	let mut heads = Vec::new();
	for k in 0..n {
		let len = match rng.below(5) { 0 => 0, _ => rng.range(1, 40) } as usize;
		let data: Vec<u8> = (0..len).map(|_| rng.byte()).collect();
		images.push((first_id + k as u16, data));
		let mut h = [0u8; 12];
		for x in h.iter_mut().take(8) {
			*x = rng.byte();
		}
		heads.push(h);
	}
	// the original .ico/.cur file
	let mut ico = Vec::new();
	ico.extend_from_slice(&0u16.to_le_bytes());
	ico.extend_from_slice(&ty.to_le_bytes());
	ico.extend_from_slice(&(n as u16).to_le_bytes());
	let mut off = 6 + 16 * n as u32;
	for k in 0..n {
		let mut h = heads[k];
		h[8..12].copy_from_slice(&(images[k].1.len() as u32).to_le_bytes());
		heads[k] = h;
		ico.extend_from_slice(&h);
		ico.extend_from_slice(&off.to_le_bytes());
		off += images[k].1.len() as u32;
	}
	for k in 0..n {
		ico.extend_from_slice(&images[k].1);
	}
	let mut group = Vec::new();
	group.extend_from_slice(&ico[0..6]);
	for k in 0..n {
		group.extend_from_slice(&heads[k]);
		group.extend_from_slice(&images[k].0.to_le_bytes());
	}
	IconSet { ty, images, heads, ico: Some(ico), group }
}

// ---------------------------------------------------------------------------------------------
// real cursors.  Written from the format descriptions only (MSDN "Icons in Win32", Raymond Chen "The format of icon
// resources", the NIco wiki; see the references at the top of src/resources/group.rs), independent of pelite and of the
// icon writer above:
//   .cur file        ICONDIR { 0, 2, n }, then n CURSORDIRENTRY { bWidth, bHeight, bColorCount, bReserved, wXHotspot: u16,
//                    wYHotspot: u16, dwBytesInRes: u32, dwImageOffset: u32 }, then the n DIBs back to back
//   RT_GROUP_CURSOR  { 0, 2, n }, then n entries { wWidth: u16, wHeight: u16 (XOR + AND mask: twice the height), wPlanes: u16,
//                    wBitCount: u16, dwBytesInRes: u32 (counts the hotspot), nId: u16 }
//   RT_CURSOR nId    { wXHotspot: u16, wYHotspot: u16 } followed by the DIB

/// one image of a .cur file, as a cursor editor sees it
#[derive(Clone, Debug)]
struct CurImage {
	w: u32, // 1..=256
	h: u32, // 1..=256
	hx: u16,
	hy: u16,
	dib: Vec<u8>,
}
/// the .cur file
fn write_cur_file(images: &[CurImage]) -> Vec<u8> {
	let n = images.len();
	let mut f = Vec::new();
	f.extend_from_slice(&[0, 0, 2, 0]);
	f.extend_from_slice(&(n as u16).to_le_bytes());
	let mut off = 6 + 16 * n as u32;
	for im in images {
		f.push((im.w & 0xff) as u8); // 256 is stored as 0
		f.push((im.h & 0xff) as u8);
		f.push(0); // bColorCount
		f.push(0); // bReserved
		f.extend_from_slice(&im.hx.to_le_bytes());
		f.extend_from_slice(&im.hy.to_le_bytes());
		f.extend_from_slice(&(im.dib.len() as u32).to_le_bytes());
		f.extend_from_slice(&off.to_le_bytes());
		off += im.dib.len() as u32;
	}
	for im in images {
		f.extend_from_slice(&im.dib);
	}
	f
}
/// what a resource compiler stores for that file: the RT_GROUP_CURSOR bytes and the RT_CURSOR resources (id, payload)
fn compile_cur(images: &[CurImage], first_id: u16) -> (Vec<u8>, Vec<(u16, Vec<u8>)>) {
	let word = |d: &[u8], o: usize| -> u16 { d.get(o).copied().unwrap_or(0) as u16 | (d.get(o + 1).copied().unwrap_or(0) as u16) << 8 };
	let mut group = vec![0u8, 0, 2, 0];
	group.extend_from_slice(&(images.len() as u16).to_le_bytes());
	let mut res = Vec::new();
	for (k, im) in images.iter().enumerate() {
		let id = first_id + k as u16;
		group.extend_from_slice(&(im.w as u16).to_le_bytes());
		group.extend_from_slice(&((2 * im.h) as u16).to_le_bytes());
		group.extend_from_slice(&word(&im.dib, 12).to_le_bytes()); // biPlanes
		group.extend_from_slice(&word(&im.dib, 14).to_le_bytes()); // biBitCount
		group.extend_from_slice(&(4 + im.dib.len() as u32).to_le_bytes());
		group.extend_from_slice(&id.to_le_bytes());
		let mut payload = Vec::new();
		payload.extend_from_slice(&im.hx.to_le_bytes());
		payload.extend_from_slice(&im.hy.to_le_bytes());
		payload.extend_from_slice(&im.dib);
		res.push((id, payload));
	}
	(group, res)
}
fn gen_cursorset(rng: &mut Rng, first_id: u16) -> IconSet {
	let n = match rng.below(8) { 0 => 0, 1 | 2 => 1, _ => rng.range(1, 4) } as usize;
	let mut images = Vec::new();
	for _ in 0..n {
		let (w, h) = match rng.below(10) {
			0 | 1 => (32, 32),
			2 => (48, 48),
			3 => (256, 256),
			4 => (16, 16),
			5 => (64, 64),
			6 => *rng.pick(&[(1u32, 1u32), (255, 255), (128, 128), (32, 64), (256, 1), (1, 256)]),
			_ => (rng.range(1, 256) as u32, rng.range(1, 256) as u32),
		};
		let hot = |rng: &mut Rng, m: u32| -> u16 {
			match rng.below(5) { 0 => 0, 1 => (m - 1) as u16, 2 => 0xFFFF, 3 => (m / 2) as u16, _ => rng.below(m as u64) as u16 }
		};
		let (hx, hy) = (hot(rng, w), hot(rng, h));
		let dib: Vec<u8> = match rng.below(8) {
			0 => Vec::new(),
			1 => (0..rng.range(1, 17)).map(|_| rng.byte()).collect(), // shorter than a header, odd sizes
			2 => {
				let mut d = b"\x89PNG\r\n\x1a\n".to_vec();
				d.extend((0..rng.below(20)).map(|_| rng.byte()));
				d
			},
			_ => {
				// BITMAPINFOHEADER + some bits (not a full bitmap: the reassembly does not look inside)
				let mut d = Vec::new();
				d.extend_from_slice(&40u32.to_le_bytes());
				d.extend_from_slice(&w.to_le_bytes());
				d.extend_from_slice(&(2 * h).to_le_bytes());
				d.extend_from_slice(&1u16.to_le_bytes());
				d.extend_from_slice(&(*rng.pick(&[1u16, 4, 8, 24, 32])).to_le_bytes());
				d.extend_from_slice(&[0u8; 24]);
				d.extend((0..rng.below(38)).map(|_| rng.byte()));
				d
			},
		};
		images.push(CurImage { w, h, hx, hy, dib });
	}
	let cur = write_cur_file(&images);
	let (group, res) = compile_cur(&images, first_id);
	IconSet { ty: 2, images: res, heads: Vec::new(), ico: Some(cur), group }
}

/// a tree shaped like a real resource section: type / name / language
fn gen_typed(rng: &mut Rng, t: &mut Tree, ico_out: &mut Option<Vec<u8>>, cur_out: &mut Option<Vec<u8>>) -> usize {
	let root = t.dir();
	let mut root_ents: Vec<Ent> = Vec::new();
	let lang = |t: &mut Tree, rng: &mut Rng, bytes: Vec<u8>| -> usize {
		let d = t.dir();
		let da = t.data(bytes, 1252);
		let id = *rng.pick(&[1033u32, 0, 1031]);
		t.dirs[d].ents = vec![Ent { name: NameSpec::Id(id), tgt: Tgt::Data(da) }];
		d
	};
	for (ty, gty, rt) in [(1u16, 14u32, 3u32), (2, 12, 1)] {
		if !rng.chance(2, 3) {
			continue;
		}
		let first_id = rng.range(1, 5) as u16;
		// cursors: three in four are real cursor sets (the .cur file is kept as the expectation), the rest are arbitrary
		// bytes in a group of type 2 (compared through the decoded pieces only)
		let real_cur = ty == 2 && rng.chance(3, 4);
		let mut set = if real_cur { gen_cursorset(rng, first_id) } else { gen_iconset(rng, ty, first_id) };
		// image directory
		let idir = t.dir();
		let mut ients = Vec::new();
		let missing = if !set.images.is_empty() && rng.chance(1, 6) { Some(rng.below(set.images.len() as u64) as usize) } else { None };
		for (k, (id, data)) in set.images.clone().iter().enumerate() {
			if Some(k) == missing {
				set.ico = None;
				continue;
			}
			let l = lang(t, rng, data.clone());
			ients.push(Ent { name: NameSpec::Id(*id as u32), tgt: Tgt::Dir(l) });
		}
		t.dirs[idir].ents = ients;
		// corruptions of the group header / entries
		match rng.below(14) {
			0 => { set.group[0] = 1; set.ico = None; },
			1 => { set.group[2] = *rng.pick(&[0u8, 0, 3, 4, 255]); if rng.chance(1, 4) { set.group[3] = 1; } set.ico = None; },   // idType outside {1, 2}: 0 is as invalid as 3
			2 => { set.group.push(0); set.ico = None; },
			3 => { if set.group.len() > 6 { set.group.pop(); set.ico = None; } },
			4 => { if set.group.len() >= 20 { set.group[14..18].copy_from_slice(&rng.range(0, 60).to_le_bytes()[..4]); set.ico = None; } },
			5 => {
				// F26 shape: sizes that add up beyond u32
				let n = (set.group.len() - 6) / 14;
				for k in 0..n {
					let v: u32 = *rng.pick(&[0x8000_0000u32, 0xFFFF_FFFF, 0x7FFF_FFFF, 0xFFFF_FFD0]);
					set.group[6 + 14 * k + 8..6 + 14 * k + 12].copy_from_slice(&v.to_le_bytes());
				}
				if n > 0 { set.ico = None; }
			},
			_ => {},
		}
		let gdir = t.dir();
		let gl = lang(t, rng, set.group.clone());
		let gname = if rng.chance(1, 3) { NameSpec::Str(gen_words(rng)) } else { NameSpec::Id(rng.range(1, 200) as u32) };
		let mut gents = vec![Ent { name: gname, tgt: Tgt::Dir(gl) }];
		if rng.chance(1, 4) {
			// a second group entry that is a data entry, not a directory
			let da = t.data(set.group.clone(), 0);
			gents.push(Ent { name: NameSpec::Id(300), tgt: Tgt::Data(da) });
		}
		gents.sort_by_key(|e| matches!(e.name, NameSpec::Id(_)));
		t.dirs[gdir].ents = gents;
		root_ents.push(Ent { name: NameSpec::Id(rt), tgt: Tgt::Dir(idir) });
		root_ents.push(Ent { name: NameSpec::Id(gty), tgt: Tgt::Dir(gdir) });
		if ty == 1 {
			*ico_out = set.ico.clone();
		}
		else if real_cur {
			*cur_out = set.ico.clone();
		}
		let _ = &set.heads;
	}
	if rng.chance(1, 2) {
		let text: Vec<u8> = match rng.below(5) {
			0 => b"<assembly>\xc3\xa9\xe4\xb8\xad\xf0\x9f\x98\x80</assembly>".to_vec(),
			1 => b"<a>\xff</a>".to_vec(),
			2 => vec![0xC0, 0x80],
			3 => vec![0xED, 0xA0, 0x80],
			_ => b"<assembly/>".to_vec(),
		};
		let l = lang(t, rng, text);
		let d = t.dir();
		t.dirs[d].ents = vec![Ent { name: NameSpec::Id(*rng.pick(&[1u32, 2])), tgt: Tgt::Dir(l) }];
		root_ents.push(Ent { name: NameSpec::Id(24), tgt: Tgt::Dir(d) });
	}
	if rng.chance(1, 2) {
		let l = lang(t, rng, vec![0x34, 0, 0, 0, 0x56, 0, 0x53, 0]);
		let d = t.dir();
		t.dirs[d].ents = vec![Ent { name: NameSpec::Id(1), tgt: Tgt::Dir(l) }];
		root_ents.push(Ent { name: NameSpec::Id(16), tgt: Tgt::Dir(d) });
	}
	if rng.chance(1, 3) {
		let blob = gen_blob(rng);
		let l = lang(t, rng, blob);
		let d = t.dir();
		t.dirs[d].ents = vec![Ent { name: NameSpec::Str(gen_words(rng)), tgt: Tgt::Dir(l) }];
		root_ents.push(Ent { name: NameSpec::Str(gen_words(rng)), tgt: Tgt::Dir(d) });
	}
	root_ents.sort_by_key(|e| match &e.name { NameSpec::Id(id) => (1, *id), _ => (0, 0) });
	t.dirs[root].ents = root_ents;
	root
}

fn name_q(rng: &mut Rng, n: &NameSpec, toplevel: bool) -> String {
	match n {
		NameSpec::Id(id) => match rng.below(6) {
			0 => format!("s{}", hex(format!("#{}", id).as_bytes())),
			1 => format!("s{}", hex(format!("#0{}", id).as_bytes())),
			2 if toplevel || rng.chance(1, 2) => {
				let names = ["", "#CURSOR", "#BITMAP", "#ICON", "#MENU", "#DIALOG", "#STRING", "#FONTDIR", "#FONT", "#ACCELERATOR", "#RCDATA", "#MESSAGETABLE", "#GROUP_CURSOR", "", "#GROUP_ICON", "", "#VERSION", "#DLGINCLUDE", "", "#PLUGPLAY", "#VXD", "#ANICURSOR", "#ANIICON", "#HTML", "#MANIFEST"];
				match names.get(*id as usize) {
					Some(s) if !s.is_empty() => format!("s{}", hex(s.as_bytes())),
					_ => format!("i{}", id),
				}
			},
			_ => format!("i{}", id),
		},
		NameSpec::Str(ws) => {
			let s = String::from_utf16_lossy(ws);
			if rng.chance(1, 2) && !s.is_empty() { format!("s{}", hex(s.as_bytes())) } else { format!("w{}", ws.iter().map(|w| format!("{:04x}", w)).collect::<Vec<_>>().join(".")) }
		},
		NameSpec::RawName(v) => format!("i{}", v & 0x7fff_ffff),
	}
}
fn odd_name(rng: &mut Rng) -> String {
	let c: &[&str] = &["#0", "#", "", "#00", "#007", "#4294967295", "#4294967296", "#99999999999999999999", "#+7", "#7x", "#-1", "#1 ", "x", "#ICON", "#icon", "#MANIFEST", "#GROUP_ICON", "#VERSION", "#\u{e9}", "\u{1F600}", "#1", "#3", "#14", "#16", "#24", "#024"];
	if rng.chance(1, 8) { format!("i{}", *rng.pick(&[0u32, 1, 3, 14, 16, 24, 0xFFFF_FFFF])) } else { format!("s{}", hex(rng.pick(c).as_bytes())) }
}

fn gen_queries(rng: &mut Rng, t: &Tree, root: usize) -> Vec<String> {
	let mut qs = Vec::new();
	// names along random descents
	for _ in 0..6 {
		let mut path: Vec<&NameSpec> = Vec::new();
		let mut cur = root;
		let mut guard = 0;
		loop {
			let d = &t.dirs[cur];
			if d.ents.is_empty() || guard > 5 {
				break;
			}
			guard += 1;
			let e = &d.ents[rng.below(d.ents.len() as u64) as usize];
			path.push(&e.name);
			match e.tgt {
				Tgt::Dir(j) if j < t.dirs.len() => cur = j,
				_ => break,
			}
		}
		if path.is_empty() {
			continue;
		}
		let qn: Vec<String> = path.iter().enumerate().map(|(k, n)| if rng.chance(1, 7) { odd_name(rng) } else { name_q(rng, n, k == 0) }).collect();
		qs.push(format!("g:{}", qn[0]));
		if qn.len() >= 2 {
			qs.push(format!("fr:{}:{}", qn[0], qn[1]));
		}
		if qn.len() >= 3 {
			qs.push(format!("fx:{}:{}:{}", qn[0], qn[1], qn[2]));
		}
		// the same descent as a path; components as '#id' / text
		let parts: Vec<String> = path.iter().map(|n| match n {
			NameSpec::Id(id) => hex(format!("#{}", id).as_bytes()),
			NameSpec::Str(ws) => { let s = String::from_utf16_lossy(ws); if s.is_empty() || s.contains('/') || s == "." || s == ".." || s.contains('\0') { hex(b"x") } else { hex(s.as_bytes()) } },
			NameSpec::RawName(_) => hex(b"#1"),
		}).collect();
		let keep = rng.range(0, parts.len() as u64) as usize;
		qs.push(format!("p:{}:{}", if rng.chance(1, 9) { 0 } else { 1 }, join(&parts[..keep.max(if rng.chance(1, 8) { 0 } else { 1 })].to_vec(), "/")));
	}
	for _ in 0..3 {
		qs.push(format!("g:{}", odd_name(rng)));
	}
	qs.push(format!("fr:{}:{}", odd_name(rng), odd_name(rng)));
	qs.push("f1".to_string());
	qs
}

fn gen(rng: &mut Rng, i: u64) -> String {
	if i % 97 == 96 || i % 97 == 48 {
		return gen_pe(rng);
	}
	if i % 41 == 7 {
		return gen_limits(rng);
	}
	let mut t = Tree::default();
	let mut ico: Option<Vec<u8>> = None;
	let mut cur: Option<Vec<u8>> = None;
	let typed = rng.chance(1, 2);
	let fdepth = rng.range(1, 4) as u32;
	let root = if typed { gen_typed(rng, &mut t, &mut ico, &mut cur) } else { gen_free(rng, &mut t, fdepth) };
	let va: u32 = match rng.below(8) { 0 => 0, 1 => 0xFFFF_F000, 2 => 0x1002, 3 => rng.below(0x10000) as u32, _ => 0x1000 * rng.range(1, 64) as u32 };
	// blobs (icon groups among them) at offsets that are 2 mod 4: valid for everything built from u16 halves
	if rng.chance(1, 4) {
		for d in t.datas.iter_mut() {
			d.half = rng.chance(2, 3);
		}
	}
	let mut wf = true;      // the writer's tree is what a traversal must report
	let mut expfsck = "ok"; // what the consistency check must say
	// structural variations
	match rng.below(14) {
		0 => {
			// shared child
			if t.dirs.len() >= 2 {
				let a = rng.below(t.dirs.len() as u64) as usize;
				if let Some(e0) = t.dirs[a].ents.first().cloned() {
					let b = rng.below(t.dirs.len() as u64) as usize;
					// only share downwards (a data entry, or a directory created later than the new parent)
					let ok = match e0.tgt { Tgt::Data(_) => true, Tgt::Dir(j) => j > b, Tgt::Raw(_) => false };
					if ok && matches!(e0.name, NameSpec::Id(_)) {
						t.dirs[b].ents.push(Ent { name: NameSpec::Id(0x7000 + rng.below(16) as u32), tgt: e0.tgt });
						ico = None; cur = None;
						expfsck = "-"; // sharing may exceed the entry budget
					}
				}
			}
		},
		1 => {
			// a directory that contains itself or one of its ancestors: dirs are created parent-first
			let a = rng.below(t.dirs.len() as u64) as usize;
			// the chain a, parent(a), .. up to the root
			let mut chain = vec![a];
			loop {
				let cur = *chain.last().unwrap();
				match t.dirs.iter().position(|d| d.ents.iter().any(|e| matches!(e.tgt, Tgt::Dir(j) if j == cur))) {
					Some(p) if !chain.contains(&p) => chain.push(p),
					_ => break,
				}
			}
			let b = *rng.pick(&chain);
			let k = rng.range(1, 3);
			for _ in 0..k {
				t.dirs[a].ents.push(Ent { name: NameSpec::Id(0x6000 + rng.below(4) as u32), tgt: Tgt::Dir(b) });
			}
			wf = false;
			ico = None; cur = None;
			expfsck = if is_reachable(&t, root, a) { "err" } else { "-" };
		},
		2 => {
			// dangling references
			let a = rng.below(t.dirs.len() as u64) as usize;
			let v = match rng.below(6) { 0 => 0xFFFF_FFF0u32, 1 => 0x7FFF_FFF0, 2 => 0x8000_0000 | 0x7FFF_FFF0, 3 => 0x8000_0002, 4 => 2, _ => 0x8000_0000 | 0x10000 };
			t.dirs[a].ents.push(Ent { name: NameSpec::Id(0x5000), tgt: Tgt::Raw(v) });
			wf = false;
			ico = None; cur = None;
			expfsck = if is_reachable(&t, root, a) { "err" } else { "-" };
		},
		3 => {
			// a name string reference that dangles or is odd
			let a = rng.below(t.dirs.len() as u64) as usize;
			let v = match rng.below(4) { 0 => 0xFFFF_FFFEu32, 1 => 0x8000_0001, 2 => 0x8001_0000, _ => 0x8000_0000 | 0x7FFF_FFFE };
			let da = t.data(vec![1, 2, 3], 0);
			t.dirs[a].ents.insert(0, Ent { name: NameSpec::RawName(v), tgt: Tgt::Data(da) });
			wf = false;
			ico = None; cur = None;
			expfsck = if is_reachable(&t, root, a) { "err" } else { "-" };
		},
		4 => {
			// data entries whose range is wrong
			if !t.datas.is_empty() {
				let a = rng.below(t.datas.len() as u64) as usize;
				match rng.below(4) {
					0 => t.datas[a].size_override = Some(*rng.pick(&[0xFFFF_FFFFu32, 0x10000, 0x8000_0000])),
					1 => t.datas[a].otd_delta = -(va as i64) - 1 - rng.below(8) as i64 + if va == 0 { 0x1_0000_0000 } else { 0 },
					2 => t.datas[a].otd_delta = 0x10000,
					_ => t.datas[a].otd_delta = 0xFFFF_FFFF - va as i64 - 8,
				}
				wf = false;
				ico = None; cur = None;
				expfsck = "-";
			}
		},
		5 => {
			// data at odd offsets (allowed)
			for d in t.datas.iter_mut() {
				d.odd = rng.chance(1, 2);
			}
			ico = None; cur = None;
		},
		7 | 8 => {
			// two entries with the same name: lookups must return the first one
			let a = rng.below(t.dirs.len() as u64) as usize;
			if !t.dirs[a].ents.is_empty() {
				let k = rng.below(t.dirs[a].ents.len() as u64) as usize;
				let nm = t.dirs[a].ents[k].name.clone();
				let da = t.data(gen_blob(rng), 7);
				t.dirs[a].ents.insert(k + 1, Ent { name: nm, tgt: Tgt::Data(da) });
				ico = None; cur = None;
			}
		},
		6 => {
			// counts in the header do not match the named / id split
			let a = rng.below(t.dirs.len() as u64) as usize;
			let n = t.dirs[a].ents.len() as u16;
			let k = rng.below(n as u64 + 1) as u16;
			t.dirs[a].named_override = Some((k, n - k));
			wf = false;
			expfsck = "-";
			ico = None; cur = None;
		},
		_ => {},
	}
	let pad = if rng.chance(1, 4) { 0xCC } else { 0 };
	let lay = t.layout(va, pad);
	let mut sec = lay.bytes.clone();
	let place: usize = match rng.below(20) { 0 => 2, 1 => 6, 2 => 1, 3 | 4 => 4, 5 | 6 => 8, 7 | 8 => 12, 9 => 10, _ => 0 };
	// mutation stream: field pokes and truncation
	match rng.below(8) {
		0 => {
			let n = rng.range(1, 3);
			for _ in 0..n {
				if sec.len() >= 4 {
					let o = (rng.below(sec.len() as u64 / 2) * 2) as usize;
					let v: u32 = *rng.pick(&[0u32, 1, 0xFFFF, 0x10000, 0x7FFF_FFFF, 0x8000_0000, 0xFFFF_FFFF, 0x8000_0010, 16, 0x8000_0000 | 24]);
					let w = if rng.chance(1, 2) { 2 } else { 4 };
					for k in 0..w {
						if o + k < sec.len() {
							sec[o + k] = (v >> (8 * k)) as u8;
						}
					}
				}
			}
			wf = false;
			ico = None; cur = None;
			expfsck = "-";
		},
		1 => {
			let cut = rng.below(sec.len() as u64 + 1) as usize;
			sec.truncate(cut);
			wf = false;
			ico = None; cur = None;
			expfsck = "-";
		},
		_ => {},
	}
	if place % 4 != 0 {
		expfsck = "err"; // the root directory itself is misaligned
	}
	let budget_full = (sec.len() / 8) as u64;
	let (depth, budget) = match rng.below(10) { 0 => (rng.range(1, 3) as u32, budget_full), 1 => (32, rng.below(6)), _ => (32, budget_full) };
	let exp = if wf {
		let mut out = Vec::new();
		let mut b = budget;
		t.expect(&lay, root, 0, depth, &mut b, &mut out);
		join(&out, ",")
	}
	else { "-".to_string() };
	if exp.contains("cut") || exp.contains("stop") {
		// the observer's own limits; fsck has the full budget
		if budget_full < 2 { expfsck = "-"; }
	}
	let qs = gen_queries(rng, &t, root);
	format!("res place={} va={} depth={} budget={} sec={} q={} exp={} expfsck={} ico={} cur={}", place, va, depth, budget, hex(&sec), join(&qs, ","), exp, expfsck, ico.map(|v| hex(&v)).unwrap_or("-".to_string()), cur.map(|v| hex(&v)).unwrap_or("-".to_string()))
}

/// Sections that sit exactly on the two limits of the consistency check and the tree formatter (F16 repair):
/// * a chain of 30..34 nested directories (the deepest one is entered at depth n-1; 32 levels pass, 33 fail), optionally
///   with a second entry per level so that the limit is not reached by the budget first;
/// * a root with k entries that all point at one shared directory with m entries (each an empty directory): k + k*m
///   entries are visited; trailing padding sets len/8 to that number minus one, that number, or that number plus one.
fn gen_limits(rng: &mut Rng) -> String {
	let mut t = Tree::default();
	let va: u32 = 0x1000 * rng.range(1, 64) as u32;
	let root;
	let mut tail_pad = 0usize;
	let expfsck;
	if rng.chance(1, 2) {
		let levels = *rng.pick(&[30usize, 31, 31, 32, 32, 32, 33, 33, 34]);
		let leaf_data = rng.chance(1, 2);
		let wide = rng.chance(1, 3);
		let first = t.dir();
		let mut cur = first;
		for _ in 1..levels {
			let next = t.dir();
			let mut ents = vec![Ent { name: NameSpec::Id(1 + rng.below(3) as u32), tgt: Tgt::Dir(next) }];
			if wide {
				let d = t.data(vec![7], 0);
				ents.push(Ent { name: NameSpec::Id(9), tgt: Tgt::Data(d) });
			}
			t.dirs[cur].ents = ents;
			cur = next;
		}
		if leaf_data {
			let d = t.data(vec![1, 2, 3, 4], 1252);
			t.dirs[cur].ents = vec![Ent { name: NameSpec::Id(1033), tgt: Tgt::Data(d) }];
		}
		root = first;
		expfsck = if levels <= 32 { "ok" } else { "err" };
	}
	else {
		let k = rng.range(2, 6) as usize;
		let m = rng.range(1, 7) as usize;
		let r = t.dir();
		let shared = t.dir();
		let empty = t.dir();
		t.dirs[r].ents = (0..k).map(|j| Ent { name: NameSpec::Id(1 + j as u32), tgt: Tgt::Dir(shared) }).collect();
		t.dirs[shared].ents = (0..m).map(|j| Ent { name: NameSpec::Id(10 + j as u32), tgt: Tgt::Dir(empty) }).collect();
		let visited = k + k * m;
		let base = (16 + 8 * k) + (16 + 8 * m) + 16; // the three directories, nothing else
		let delta: i64 = *rng.pick(&[-1i64, 0, 0, 1]);
		let want = visited as i64 + delta; // the budget len/8 the section shall have
		let have = (base / 8) as i64;
		let budget = if want >= have { want } else { have };
		tail_pad = (budget - have) as usize * 8 + rng.below(8) as usize;
		root = r;
		expfsck = if visited as i64 <= budget { "ok" } else { "err" };
	}
	let lay = t.layout(va, 0);
	let mut sec = lay.bytes.clone();
	sec.extend(std::iter::repeat(0u8).take(tail_pad));
	let budget = (sec.len() / 8) as u64;
	let mut out = Vec::new();
	let mut b = budget;
	t.expect(&lay, root, 0, 32, &mut b, &mut out);
	let qs = gen_queries(rng, &t, root);
	format!("res place=0 va={} depth=32 budget={} sec={} q={} exp={} expfsck={} ico=- cur=-", va, budget, hex(&sec), join(&qs, ","), join(&out, ","), expfsck)
}

fn is_reachable(t: &Tree, root: usize, target: usize) -> bool {
	let mut seen = vec![false; t.dirs.len()];
	let mut stack = vec![root];
	while let Some(d) = stack.pop() {
		if d == target {
			return true;
		}
		if seen[d] {
			continue;
		}
		seen[d] = true;
		for e in &t.dirs[d].ents {
			if let Tgt::Dir(j) = e.tgt {
				stack.push(j);
			}
		}
	}
	false
}

/// one smoke path through Pe::resources(): a mapped PE32+ view whose resource directory lies at `rva`
fn gen_pe(rng: &mut Rng) -> String {
	let mut t = Tree::default();
	let mut ico = None;
	let mut cur = None;
	// one in three: an ACYCLIC chain of 20..31 directories in which every level holds 2..3 entries that all point at the
	// next level (k^depth paths through a few hundred bytes).  Together with a data-directory Size far beyond the bytes
	// that exist this is the shape on which a work budget taken from the declared Size instead of the section that was
	// actually sliced never runs out.
	let chain = rng.chance(1, 3);
	let root = if chain {
		let levels = rng.range(26, 31) as usize;
		let k = rng.range(2, 5) as usize;
		let first = t.dir();
		let mut cur = first;
		for _ in 1..levels {
			let next = t.dir();
			t.dirs[cur].ents = (0..k).map(|j| Ent { name: NameSpec::Id(1 + j as u32), tgt: Tgt::Dir(next) }).collect();
			cur = next;
		}
		let d = t.data(vec![1, 2, 3, 4], 0);
		t.dirs[cur].ents = vec![Ent { name: NameSpec::Id(1), tgt: Tgt::Data(d) }];
		first
	} else { gen_typed(rng, &mut t, &mut ico, &mut cur) };
	let rva: u32 = *rng.pick(&[0x1000u32, 0x1000, 0x1004, 0x1002, 0x1100]);
	let lay = t.layout(rva, 0);
	let len = 0x1000 + 0x400 + lay.bytes.len();
	let mut dirs = vec![(0u32, 0u32); 16];
	let size = match rng.below(4) { 0 => lay.bytes.len() as u32 / 2, 1 => 0xFFFF_FFFF, 2 if chain => 0x4000_0000, _ => lay.bytes.len() as u32 };
	dirs[2] = (rva, size);
	let mut spec = ImgSpec { pe64: true, e_lfanew: 0x80, soh: 0x400, soi: len as u32, image_base: 0x1_4000_0000, nrva: 16, dirs, opt_size: 0, nsec_field: 1, secs: Vec::new(), checksum: 0, magic: 0x20b };
	spec.opt_size = spec.std_opt_size();
	let mut s = Sec { name: [0; 8], va: 0x1000, vs: len as u32 - 0x1000, prd: 0x1000, srd: len as u32 - 0x1000, chars: 0x4000_0040 };
	s.name[..5].copy_from_slice(b".rsrc");
	spec.secs.push(s);
	let img = Image { len, fill: 0, hdr: scrambled_header(&spec, rng), pokes: vec![(rva as usize, lay.bytes.clone())] };
	let _ = root;
	format!("pe place={} rva={} size={} depth=32 budget={} {}", *rng.pick(&[0usize, 8]), rva, size, lay.bytes.len() / 8, img.encode())
}

// ---------------------------------------------------------------------------------------------
// implementation side

struct Ctx {
	base: usize,
	len: usize,
}
impl Ctx {
	fn off<T>(&self, p: *const T) -> usize {
		let o = (p as usize).wrapping_sub(self.base);
		assert!(o <= self.len, "harness: pointer outside the section: {}", o as isize);
		o
	}
	fn region(&self, b: &[u8]) -> String {
		let o = self.off(b.as_ptr());
		assert!(b.len() <= self.len - o, "harness: slice outside the section: off={} len={}", o, b.len());
		format!("{}/{}", o, b.len())
	}
}
fn show_name(n: Name<'_>) -> String {
	match n {
		Name::Id(id) => format!("i{}", id),
		Name::Wide(ws) => format!("w{}", ws.iter().map(|w| format!("{:04x}", w)).collect::<Vec<_>>().join(".")),
		Name::Str(s) => format!("s{}", hex(s.as_bytes())),
	}
}
fn show_ferr(e: FindError) -> String {
	match e {
		FindError::Pe(e) => format!("ePe.{:?}", e),
		other => format!("e{:?}", other),
	}
}
fn show_entry(c: &Ctx, r: Result<Entry<'_>, FindError>) -> String {
	match r {
		Ok(Entry::Directory(d)) => format!("D/{}", c.off(d.image())),
		Ok(Entry::DataEntry(d)) => format!("F/{}", c.off(d.image())),
		Err(e) => show_ferr(e),
	}
}
fn show_dir(c: &Ctx, r: Result<Directory<'_>, FindError>) -> String {
	match r {
		Ok(d) => format!("D/{}", c.off(d.image())),
		Err(e) => show_ferr(e),
	}
}
fn show_data(c: &Ctx, r: Result<DataEntry<'_>, FindError>) -> String {
	match r {
		Ok(d) => format!("F/{}", c.off(d.image())),
		Err(e) => show_ferr(e),
	}
}
fn show_bytes(c: &Ctx, r: Result<&[u8], FindError>) -> String {
	match r {
		Ok(b) => format!("R/{}", c.region(b)),
		Err(e) => show_ferr(e),
	}
}

fn walk(c: &Ctx, dir: Directory<'_>, lvl: u32, depth: u32, budget: &mut u64, out: &mut Vec<String>) {
	if depth == 0 {
		out.push("cut".into());
		return;
	}
	let named: Vec<usize> = dir.named_entries().map(|e| e.image() as *const _ as usize).collect();
	let ids: Vec<usize> = dir.id_entries().map(|e| e.image() as *const _ as usize).collect();
	{
		// the three views of one entry array: named_entries() followed by id_entries() is entries(), reference by
		// reference, with the counts of the directory header; every reference lies inside the section
		let all: Vec<usize> = dir.entries().map(|e| e.image() as *const _ as usize).collect();
		let base = c.base;
		for p in named.iter().chain(ids.iter()).chain(all.iter()) {
			assert!(*p >= base && *p + 8 <= base + c.len, "harness: returned region outside the section (directory entry)");
		}
		assert!(named.len() == dir.image().NumberOfNamedEntries as usize && ids.len() == dir.image().NumberOfIdEntries as usize,
			"harness: returned region outside its table (named_entries / id_entries do not have the header's counts)");
		let cat: Vec<usize> = named.iter().chain(ids.iter()).cloned().collect();
		assert!(cat == all, "harness: returned region outside its table (named_entries ++ id_entries differs from entries)");
	}
	for e in dir.entries() {
		if *budget == 0 {
			out.push("stop".into());
			break;
		}
		*budget -= 1;
		let p = e.image() as *const _ as usize;
		assert!(p % 4 == 0, "harness: misaligned directory entry reference");
		let eo = c.off(e.image());
		let flag = match (named.contains(&p), ids.contains(&p)) { (true, false) => "n", (false, true) => "i", _ => "?" };
		let nm = match e.name() {
			Ok(n) => {
				if let Name::Wide(ws) = n {
					assert!(ws.as_ptr() as usize % 2 == 0, "harness: misaligned name reference");
					let o = c.off(ws.as_ptr());
					assert!(o + 2 * ws.len() <= c.len, "harness: name outside the section");
				}
				show_name(n)
			},
			Err(err) => format!("x{:?}", err),
		};
		let isdir = e.is_dir() as u8;
		match e.entry() {
			Ok(Entry::Directory(d)) => {
				assert!(d.image() as *const _ as usize % 4 == 0, "harness: misaligned directory reference");
				out.push(format!("{}:{}:{}:{}:{}:D/{}", lvl, eo, flag, nm, isdir, c.off(d.image())));
				walk(c, d, lvl + 1, depth - 1, budget, out);
			},
			Ok(Entry::DataEntry(d)) => {
				assert!(d.image() as *const _ as usize % 4 == 0, "harness: misaligned data entry reference");
				let b = match d.bytes() {
					Ok(b) => c.region(b),
					Err(err) => format!("e{:?}", err),
				};
				out.push(format!("{}:{}:{}:{}:{}:F/{}/{}/{}/{}", lvl, eo, flag, nm, isdir, c.off(d.image()), b, d.size(), d.code_page()));
			},
			Err(err) => out.push(format!("{}:{}:{}:{}:{}:X/{:?}", lvl, eo, flag, nm, isdir, err)),
		}
	}
}

fn with_name<R>(q: &str, f: impl FnOnce(Name<'_>) -> R) -> R {
	let (k, rest) = q.split_at(1);
	match k {
		"i" => f(Name::Id(rest.parse::<u32>().unwrap())),
		"w" => {
			let ws: Vec<u16> = if rest.is_empty() { Vec::new() } else { rest.split('.').map(|w| u16::from_str_radix(w, 16).unwrap()).collect() };
			f(Name::Wide(&ws))
		},
		_ => {
			let b = unhex(if rest.is_empty() { "-" } else { rest });
			let s = String::from_utf8(b).unwrap();
			f(Name::Str(&s))
		},
	}
}

fn show_group(c: &Ctx, r: Result<(Name<'_>, GroupResource<'_>), FindError>) -> String {
	match r {
		Ok((n, g)) => format!("{}/{}/{}", show_name(n), c.off(g.header()), g.entries().len()),
		Err(e) => show_ferr(e),
	}
}
fn show_write(c: &Ctx, g: &GroupResource<'_>) -> String {
	let ents: Vec<String> = g.entries().iter().map(|e| format!("{}/{}/{}", e.nId, e.bytes_in_resource(), show_bytes(c, g.image(e.nId)).replace('/', "."))).collect();
	let mut out: Vec<u8> = Vec::new();
	let r = g.write(&mut out);
	format!("{}|{}|{}|{}|{}", c.off(g.header()), match g.ty() { pelite::resources::group::ResourceType::Icon => 1, _ => 2 }, join(&ents, ";"), if r.is_ok() { "ok" } else { "err" }, hex(&out))
}

fn observe(c: &Ctx, res: Resources<'_>, depth: u32, budget: u64, qs: &[&str]) -> String {
	let mut items = Vec::new();
	let rootr = res.root();
	let roots = match rootr {
		Ok(d) => {
			let mut b = budget;
			walk(c, d, 0, depth, &mut b, &mut items);
			format!("ok:{}", c.off(d.image()))
		},
		Err(e) => format!("e{:?}", e),
	};
	let t0 = cpu_ms();
	let fsck = match res.fsck() { Ok(()) => "ok".to_string(), Err(e) => format!("e{:?}", e) };
	assert_work("Resources::fsck", t0, c.len);
	// number of entries the tree formatter prints (+1 for the heading): every entry starts with one of the two prefixes
	let lines = {
		use std::fmt::Write;
		struct Count(u64);
		impl std::fmt::Write for Count {
			fn write_str(&mut self, s: &str) -> std::fmt::Result {
				if s == "+-- " || s == "`-- " {
					self.0 += 1;
				}
				Ok(())
			}
		}
		let mut cnt = Count(0);
		let t0 = cpu_ms();
		let _ = write!(cnt, "{}", res);
		assert_work("Display for Resources", t0, c.len);
		1 + cnt.0
	};
	// the text itself (UTF-8), compared with the model of art.rs; long texts by their length and their first 4096 bytes
	let text = {
		let t = format!("{}", res);
		let b = t.as_bytes();
		format!("{}/{}", b.len(), hex(&b[..b.len().min(4096)]))
	};
	let mut qr: Vec<String> = Vec::new();
	for q in qs {
		let p: Vec<&str> = q.split(':').collect();
		let r = match p[0] {
			"g" => match rootr {
				Ok(d) => with_name(p[1], |n| format!("{}|{}|{}", show_entry(c, d.get(n)), show_dir(c, d.get_dir(n)), show_data(c, d.get_data(n)))),
				Err(e) => format!("r{:?}", e),
			},
			"fr" => with_name(p[1], |a| with_name(p[2], |b| format!("{}|{}", show_dir(c, res.find_resources(&[a, b])), show_bytes(c, res.find_resource(&[a, b]))))),
			"fx" => with_name(p[1], |a| with_name(p[2], |b| with_name(p[3], |x| show_bytes(c, res.find_resource_ex(&[a, b, x]))))),
			"p" => {
				let parts: Vec<String> = split(p[2], '/').iter().map(|h| String::from_utf8(unhex(h)).unwrap()).collect();
				let path = format!("{}{}", if p[1] == "1" { "/" } else { "" }, parts.join("/"));
				format!("{}|{}|{}", show_entry(c, res.find(&path)), show_data(c, res.find_data(&path)), show_dir(c, res.find_dir(&path)))
			},
			"f1" => match rootr {
				Ok(d) => format!("{}|{}|{}", show_entry(c, d.first()), show_data(c, d.first_data()), show_dir(c, d.first_dir())),
				Err(e) => format!("r{:?}", e),
			},
			_ => "?".to_string(),
		};
		qr.push(r);
	}
	let man = match res.manifest() { Ok(s) => format!("R/{}", c.region(s.as_bytes())), Err(e) => show_ferr(e) };
	let ver = match res.version_info() { Ok(_) => "ok".to_string(), Err(e) => show_ferr(e) };
	let icons: Vec<String> = res.icons().take(40).map(|r| show_group(c, r)).collect();
	let cursors: Vec<String> = res.cursors().take(40).map(|r| show_group(c, r)).collect();
	let mut grp: Vec<String> = Vec::new();
	for r in res.icons().take(40).chain(res.cursors().take(40)) {
		if let Ok((_, g)) = r {
			if grp.len() < 4 {
				grp.push(show_write(c, &g));
			}
		}
	}
	// Display / eq round trip of ids: boundary values and the ids of the "g" queries.
	// text of `Name::Id(id)` as hex, then Name == str, Name::Str == Name::Id, Name::Id == Name::Str
	let mut ids: Vec<u32> = vec![0, 9, 10, 99, 100, 65535, 65536, 2147483647, 2147483648, 4294967295];
	for q in qs {
		let p: Vec<&str> = q.split(':').collect();
		if p[0] == "g" && p[1].starts_with('i') {
			ids.push(p[1][1..].parse::<u32>().unwrap());
		}
	}
	let disp: Vec<String> = ids
		.iter()
		.map(|&id| {
			let n = Name::Id(id);
			let s = format!("{}", n);
			format!("{}/{}{}{}", hex(s.as_bytes()), PartialEq::<str>::eq(&n, s.as_str()) as u8, (Name::Str(&s) == n) as u8, (n == Name::Str(&s)) as u8)
		})
		.collect();
	format!("root={} walk={} fsck={} lines={} q={} man={} ver={} icons={} cursors={} grp={} disp={} text={}", roots, join(&items, ","), fsck, lines, join(&qr, ","), man, ver, join(&icons, ","), join(&cursors, ","), join(&grp, ","), join(&disp, ","), text)
}

fn run(case: &str) -> String {
	let depth: u32 = field(case, "depth").parse().unwrap();
	let budget: u64 = field(case, "budget").parse().unwrap();
	let place: usize = field(case, "place").parse().unwrap();
	if case.starts_with("pe ") {
		use pelite::pe64::{Pe, PeView};
		let img = Image::decode(case);
		let bytes = img.bytes();
		let buf = Aligned::new(&bytes, place);
		let view = match PeView::from_bytes(buf.bytes()) { Ok(v) => v, Err(e) => return format!("!ctor {:?}", e) };
		let base = buf.bytes().as_ptr() as usize;
		return match view.resources() {
			Ok(res) => {
				// the section the implementation chose is where the model says: its root sits at image + rva
				let rva: usize = field(case, "rva").parse().unwrap();
				let c = Ctx { base: base + rva, len: bytes.len() - rva };
				observe(&c, res, depth, budget, &["f1", "g:i3", "g:i14", "fr:i24:i1", "p:1:233134"])
			},
			Err(e) => format!("res=e{:?}", e),
		};
	}
	let sec = unhex(field(case, "sec"));
	let va: u32 = field(case, "va").parse().unwrap();
	let buf = Aligned::new(&sec, place);
	let b = buf.bytes();
	let dd = IMAGE_DATA_DIRECTORY { VirtualAddress: va, Size: sec.len() as u32 };
	let res = Resources::new(b, &dd);
	let c = Ctx { base: b.as_ptr() as usize, len: b.len() };
	let qs: Vec<&str> = split(field(case, "q"), ',');
	observe(&c, res, depth, budget, &qs)
}

fn main() {
	harness_main(gen, run);
}
