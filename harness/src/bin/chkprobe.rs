//! Hand-written probes for the obligations of coq/Proofs/CheckedProofs.v that turned out false
//! (usage: chkprobe rich-encode [n]).  Not part of any ./check run: the inputs need gigabytes.
use pelite::pe64::{Pe, PeFile};
use pelite::rich_structure::RichRecord;
use pvh::pe::*;
use pvh::*;

const DANS: u32 = 0x536e6144;
const RICH: u32 = 0x68636952;

fn rich_image() -> Vec<u8> {
	// 16 stub dwords, DanS^k k k k, Rich k : e_lfanew = 22 * 4
	let key = 0x1234_5678u32;
	let mut words: Vec<u32> = vec![0x11111111; 16];
	words[0] = 0x5A4D;
	words.extend_from_slice(&[DANS ^ key, key, key, key, RICH, key]);
	let e_lfanew = (words.len() * 4) as u32;
	let spec = ImgSpec { pe64: true, e_lfanew, soh: 0, soi: 0x1000, image_base: 0x1_4000_0000, nrva: 0, dirs: vec![], opt_size: 112, nsec_field: 0, secs: vec![], checksum: 0, magic: 0x20b };
	let mut bytes = spec.header_bytes();
	for (i, w) in words.iter().enumerate() {
		if i != 15 {
			bytes[4 * i..4 * i + 4].copy_from_slice(&w.to_le_bytes());
		}
	}
	bytes
}

fn main() {
	let args: Vec<String> = std::env::args().collect();
	match args.get(1).map(|s| s.as_str()) {
		Some("rich-encode") => {
			let n: usize = args.get(2).map(|s| s.parse().unwrap()).unwrap_or((1usize << 29) - 4);
			let bytes = rich_image();
			let buf = Aligned::new(&bytes, 0);
			let file = PeFile::from_bytes(buf.bytes()).unwrap();
			let rs = file.rich_structure().unwrap();
			let recs: Vec<RichRecord> = vec![RichRecord::default(); n];
			let mut dest: Vec<u32> = Vec::new();
			let r = std::panic::catch_unwind(std::panic::AssertUnwindSafe(|| rs.encode(&recs, &mut dest)));
			match r {
				Ok(Ok(k)) => println!("n={} encode -> Ok({})", n, k),
				Ok(Err(k)) => println!("n={} encode -> Err({}) ; a destination of {} dwords is needed", n, k, 2 * n + 6),
				Err(_) => println!("n={} encode -> PANIC", n),
			}
		},
		_ => eprintln!("usage: chkprobe rich-encode [n]"),
	}
}
