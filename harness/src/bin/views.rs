//! C04 / C05: address translation, slicing and typed reads — implementation side.
use pelite::pe32;
use pelite::pe64;
use pvh::pe::*;
use pvh::*;

fn gen(rng: &mut Rng, i: u64) -> String {
	if i % 211 == 17 {
		return gen_long_string(rng);
	}
	let pe64 = rng.chance(1, 2);
	let file = rng.chance(3, 5);
	let e_lfanew = *rng.pick(&[0x40u32, 0x80, 0x44, 0xF8]);
	let nrva = 16u32;
	let dirs = vec![(0u32, 0u32); 16];
	let mut spec = ImgSpec { pe64, e_lfanew, soh: 0, soi: 0, image_base: 0, nrva, dirs, opt_size: 0, nsec_field: 0, secs: Vec::new(), checksum: 0, magic: if pe64 { 0x20b } else { 0x10b } };
	spec.opt_size = spec.std_opt_size();
	let len: usize = match rng.below(6) {
		0 => 0x600,
		1 => 0x1000,
		2 => 0x2345,
		_ => (0x800 + rng.below(0x1800)) as usize,
	};
	spec.secs = gen_sections(rng, len as u32, 0x400);
	spec.nsec_field = spec.secs.len() as u16;
	let hdr_end = spec.hdr_end();
	let len = len.max(hdr_end);
	spec.soh = match rng.below(8) {
		0 => 0,
		1 => len as u32,
		2 => hdr_end as u32,
		3 => rng.below(len as u64 + 1) as u32,
		_ => 0x400.min(len as u32),
	};
	spec.soi = match rng.below(8) {
		0 => spec.soh,
		1 => 0xFFFF_FFFF,
		2 => len as u32,
		3 => spec.soh + rng.below(0x4000) as u32,
		_ => spec.secs.iter().map(|s| s.va.wrapping_add(s.vs.max(s.srd))).filter(|e| *e < 0x100_0000).max().unwrap_or(0x1000).max(spec.soh),
	};
	if spec.soi < spec.soh {
		spec.soi = spec.soh;
	}
	spec.image_base = match rng.below(8) {
		0 => 0,
		1 => 0xFFFF_F000,
		2 => if pe64 { 0xFFFF_FFFF_FFFF_F000 } else { 0xFFFF_0000 },
		3 => 0x1000,
		4 => if pe64 { 0x1_4000_0000 } else { 0x40_0000 },
		_ => 0x1000_0000,
	};
	let setbase: Option<u64> = if !file && rng.chance(1, 3) {
		Some(match rng.below(4) {
			0 => 0,
			1 => if pe64 { 0xFFFF_FFFF_FFFF_0000 } else { 0xFFFF_8000 },
			_ => 0x7000_0000,
		})
	} else { None };
	let base = setbase.unwrap_or(spec.image_base);
	let img = Image { len, fill: if rng.chance(1, 6) { 0 } else { rng.range(1, 1000) as u32 }, hdr: scrambled_header(&spec, rng), pokes: {
		// plant NUL / sentinel zeros at a few places so that terminated reads succeed sometimes
		let mut p = Vec::new();
		for _ in 0..rng.below(6) {
			let o = hdr_end + rng.below((len - hdr_end) as u64 + 1) as usize;
			p.push((o, vec![0u8; rng.range(1, 9) as usize]));
		}
		p
	} };
	// PE32+ NT headers need 8-byte alignment (F1); until repaired keep pe64 images 8-aligned here
	let place = *rng.pick(&[0usize, 4, 8, 12]);

	// ---- queries: boundary enumeration
	let mut edges: Vec<u64> = vec![0, 1, spec.soh as u64, spec.soi as u64, 0xFFFF_FFFF, len as u64, hdr_end as u64];
	for s in &spec.secs {
		for e in &[s.va as u64, s.va as u64 + s.vs as u64, s.va as u64 + s.srd as u64, s.va as u64 + s.vs.max(s.srd) as u64, s.prd as u64, s.prd as u64 + s.srd as u64] {
			edges.push(*e);
		}
	}
	let deltas: [i64; 9] = [-8, -4, -2, -1, 0, 1, 2, 4, 8];
	let mut qs: Vec<String> = Vec::new();
	let nq = 40;
	let mut addr = |rng: &mut Rng| -> u32 {
		let e = *rng.pick(&edges) as i64 + *rng.pick(&deltas);
		if rng.chance(1, 20) { rng.next() as u32 } else { (e.max(0) as u64 & 0xFFFF_FFFF) as u32 }
	};
	let mins = |rng: &mut Rng, len: usize| -> u64 {
		match rng.below(10) {
			0 => 1, 1 => 2, 2 => 4, 3 => 8, 4 => len as u64, 5 => 1 << 32, 6 => 1 << 63, 7 => rng.below(0x400), 8 => u64::MAX, _ => 0,
		}
	};
	// min_size exactly at what is left: the bytes between the address and the end of the stored data of its first containing
	// section (file view) resp. the end of the buffer (mapped view), one less and one more
	let secs_c = spec.secs.clone();
	let rest_min = |rng: &mut Rng, a: u32| -> u64 {
		let rest: u64 = if file {
			match secs_c.iter().find(|s| a >= s.va && (a as u64) < s.va as u64 + s.vs.max(s.srd) as u64) {
				Some(s) => (s.srd as u64).saturating_sub((a - s.va) as u64),
				None => (len as u64).saturating_sub(a as u64),
			}
		} else { (len as u64).saturating_sub(a as u64) };
		match rng.below(3) { 0 => rest, 1 => rest + 1, _ => rest.saturating_sub(1) }
	};
	for _ in 0..nq {
		let a = addr(rng);
		let va = |rng: &mut Rng, a: u32| -> u64 {
			let v = base.wrapping_add(a as u64);
			let v = if pe64 { v } else { v & 0xFFFF_FFFF };
			match rng.below(12) { 0 => 0, 1 => base.wrapping_sub(1) & if pe64 { u64::MAX } else { 0xFFFF_FFFF }, 2 => rng.next() & if pe64 { u64::MAX } else { 0xFFFF_FFFF }, _ => v }
		};
		let al = *rng.pick(&[1u64, 1, 2, 4, 8]);
		let sz = *rng.pick(&[1u64, 2, 4, 8]);
		match rng.below(19) {
			0 => qs.push(format!("r2f:{}", a)),
			1 => qs.push(format!("f2r:{}", if rng.chance(1, 16) { rng.next() } else { a as u64 })),
			2 | 3 => qs.push(format!("sl:{}:{}:{}", a, if rng.chance(1, 4) { rest_min(rng, a) } else { mins(rng, len) }, al)),
			4 => qs.push(format!("rd:{}:{}:{}", va(rng, a), if rng.chance(1, 4) { rest_min(rng, a) } else { mins(rng, len) }, al)),
			5 => qs.push(format!("r2v:{}", a)),
			6 => qs.push(format!("v2r:{}", va(rng, a))),
			7 => qs.push(format!("gsb:{}", rng.below(spec.secs.len() as u64 + 1))),
			8 => qs.push(format!("derva:{}:{}", a, sz)),
			9 => qs.push(format!("copy:{}:{}", a, sz)),
			10 => qs.push(format!("arr:{}:{}:{}", a, sz, match rng.below(6) { 0 => 0, 1 => u64::MAX / 2, 2 => 1 << 61, _ => rng.below(40) })),
			11 => qs.push(format!("sent:{}:{}:{}", a, sz, if rng.chance(2, 3) { 0 } else { rng.below(256) })),
			12 => qs.push(format!("cstr:{}", a)),
			13 => qs.push(format!("vderva:{}:{}", va(rng, a), sz)),
			14 => qs.push(format!("vsent:{}:{}:{}", va(rng, a), sz, 0)),
			15 => qs.push(format!("vcstr:{}", va(rng, a))),
			16 | 17 => { let (esz, eal) = *rng.pick(&[(6u64, 2u64), (12, 4), (5, 1), (24, 8)]); let n = match rng.below(6) { 0 => 0, 1 => u64::MAX / 4, _ => rng.below(12) }; if rng.chance(1, 2) { qs.push(format!("arrx:{}:{}:{}:{}", a, esz, eal, n)) } else { qs.push(format!("varrx:{}:{}:{}:{}", va(rng, a), esz, eal, n)) } },
			_ => qs.push(format!("vcopy:{}:{}", va(rng, a), sz)),
		}
	}
	// ragged tails: a terminated read whose available bytes end in the middle of an element, with the
	// partial element completed to the sentinel by what lies beyond (zeros planted across the end)
	let mut img = img;
	if img.fill != 0 {
		let mut ends: Vec<(usize, u32)> = Vec::new(); // (buffer offset where the slice ends, rva of that offset)
		if file {
			for s in &spec.secs {
				let e = s.prd as u64 + s.srd as u64;
				if s.srd >= 24 && e <= len as u64 && (s.prd as usize) >= hdr_end && s.va as u64 + (s.srd as u64) < 0xFFFF_0000 && s.va as u64 >= spec.soh as u64 {
					ends.push((e as usize, s.va + s.srd));
				}
			}
		}
		else if len > hdr_end + 64 {
			ends.push((len, len as u32));
		}
		for (e, erva) in ends {
			for sz in [2usize, 4, 8] {
				let r = (place + e) % sz;
				if r == 0 { continue; }
				img.pokes.push((e - r, vec![0u8; sz]));
				for k in [0usize, 1, 3] {
					let back = (r + k * sz) as u32;
					if (erva as usize) < r + k * sz + 1 { continue; }
					let a = erva - back;
					qs.push(format!("sent:{}:{}:0", a, sz));
					let v = base.wrapping_add(a as u64);
					qs.push(format!("vsent:{}:{}:0", if pe64 { v } else { v & 0xFFFF_FFFF }, sz));
				}
				break;
			}
		}
	}
	format!(
		"view fmt={} file={} place={} {} soh={} soi={} base={} setbase={} secs={} q={}",
		if pe64 { 64 } else { 32 }, file as u8, place, img.encode(), spec.soh, spec.soi, spec.image_base,
		setbase.map(|b| b.to_string()).unwrap_or("-".to_string()), secs_field(&spec.secs), join(&qs, ",")
	)
}

fn rn<T: std::fmt::Display>(r: pelite::Result<T>) -> String {
	match r {
		Ok(v) => format!("ok:{}", v),
		Err(e) => format!("e:{:?}", e),
	}
}

macro_rules! run_queries {
	($pe:ident, $m:ident, $view:expr, $qs:expr, $base:expr, $blen:expr, $va_t:ty) => {{
		use $m::{Pe, Ptr};
		let view = $view;
		let reg = |p: *const u8, n: usize| -> String {
			let off = (p as usize).wrapping_sub($base);
			assert!(off <= $blen && n <= $blen - off, "harness: returned region outside the buffer: off={} len={}", off as isize, n);
			format!("ok:{}:{}", off, n)
		};
		let rs = |r: pelite::Result<&[u8]>| -> String {
			match r { Ok(s) => reg(s.as_ptr(), s.len()), Err(e) => format!("e:{:?}", e) }
		};
		let mut out: Vec<String> = Vec::new();
		for q in $qs {
			let p: Vec<&str> = q.split(':').collect();
			let n = |i: usize| -> u64 { p[i].parse::<u64>().unwrap() };
			let o = match p[0] {
				"r2f" => {
					let r = view.rva_to_file_offset(n(1) as u32);
					let chain = match r { Ok(fo) => rn(view.file_offset_to_rva(fo)), Err(_) => "-".to_string() };
					format!("{}|{}", rn(r), chain)
				},
				"f2r" => {
					let r = view.file_offset_to_rva(n(1) as usize);
					let chain = match r { Ok(rva) => rn(view.rva_to_file_offset(rva)), Err(_) => "-".to_string() };
					format!("{}|{}", rn(r), chain)
				},
				"sl" => rs(view.slice(n(1) as u32, n(2) as usize, n(3) as usize)),
				"rd" => rs(view.read(n(1) as $va_t, n(2) as usize, n(3) as usize)),
				"r2v" => rn(view.rva_to_va(n(1) as u32)),
				"v2r" => rn(view.va_to_rva(n(1) as $va_t)),
				"gsb" => {
					let i = n(1) as usize;
					match view.section_headers().image().get(i) {
						Some(sh) => rs(view.get_section_bytes(sh)),
						None => "none".to_string(),
					}
				},
				"derva" | "vderva" => {
					let byva = p[0] == "vderva";
					macro_rules! t { ($t:ty) => {{
						let r = if byva { view.deref::<$t>(Ptr::from(n(1) as $va_t)) } else { view.derva::<$t>(n(1) as u32) };
						match r { Ok(x) => { let pp = x as *const $t as *const u8; assert!(pp as usize % std::mem::align_of::<$t>() == 0, "harness: misaligned reference returned"); format!("{}:{}", reg(pp, std::mem::size_of::<$t>()), *x as u64) }, Err(e) => format!("e:{:?}", e) }
					}}}
					match n(2) { 1 => t!(u8), 2 => t!(u16), 4 => t!(u32), _ => t!(u64) }
				},
				"copy" => {
					macro_rules! t { ($t:ty) => {{
						let r = view.derva_copy::<$t>(n(1) as u32);
						let mut dest: [$t; 3] = [0; 3];
						let r2 = view.derva_into(n(1) as u32, &mut dest);
						let s2 = match r2 { Ok(()) => format!("ok:{}:{}:{}", dest[0], dest[1], dest[2]), Err(e) => format!("e:{:?}", e) };
						match r { Ok(x) => format!("ok:{}/{}", x as u64, s2), Err(e) => format!("e:{:?}/{}", e, s2) }
					}}}
					match n(2) { 1 => t!(u8), 2 => t!(u16), 4 => t!(u32), _ => t!(u64) }
				},
				"arr" => {
					macro_rules! t { ($t:ty) => {{
						match view.derva_slice::<$t>(n(1) as u32, n(3) as usize) { Ok(x) => { assert!(x.as_ptr() as usize % std::mem::align_of::<$t>() == 0, "harness: misaligned slice returned"); reg(x.as_ptr() as *const u8, std::mem::size_of_val(x)) }, Err(e) => format!("e:{:?}", e) }
					}}}
					match n(2) { 1 => t!(u8), 2 => t!(u16), 4 => t!(u32), _ => t!(u64) }
				},
				"arrx" | "varrx" => {
					let byva = p[0] == "varrx";
					macro_rules! t { ($t:ty) => {{
						let r = if byva { view.deref_slice::<$t>(Ptr::from(n(1) as $va_t), n(4) as usize) } else { view.derva_slice::<$t>(n(1) as u32, n(4) as usize) };
						match r { Ok(x) => { assert!(x.as_ptr() as usize % std::mem::align_of::<$t>() == 0, "harness: misaligned slice returned"); reg(x.as_ptr() as *const u8, std::mem::size_of_val(x)) }, Err(e) => format!("e:{:?}", e) }
					}}}
					match n(2) { 6 => t!([u16; 3]), 12 => t!([u32; 3]), 5 => t!([u8; 5]), _ => t!([u64; 3]) }
				},
				"vcopy" => {
					macro_rules! t { ($t:ty) => {{
						let r = view.deref_copy::<$t>(Ptr::from(n(1) as $va_t));
						let mut dest: [$t; 1] = [0; 1];
						let r2 = view.deref_into(Ptr::from(n(1) as $va_t), &mut dest);
						match (r, r2) { (Ok(x), Ok(())) if x == dest[0] => format!("ok:{}", x as u64), (Ok(_), Ok(())) => "harness: deref_copy and deref_into disagree".to_string(), (Err(e), Err(e2)) if e == e2 => format!("e:{:?}", e), (a, b) => format!("mixed:{:?}:{:?}", a.map(|x| x as u64), b) }
					}}}
					match n(2) { 1 => t!(u8), 2 => t!(u16), 4 => t!(u32), _ => t!(u64) }
				},
				"sent" | "vsent" => {
					let byva = p[0] == "vsent";
					macro_rules! t { ($t:ty) => {{
						let r = if byva { view.deref_slice_s::<$t>(Ptr::from(n(1) as $va_t), n(3) as $t) } else { view.derva_slice_s::<$t>(n(1) as u32, n(3) as $t) };
						match r { Ok(x) => { assert!(x.as_ptr() as usize % std::mem::align_of::<$t>() == 0, "harness: misaligned slice returned"); reg(x.as_ptr() as *const u8, std::mem::size_of_val(x)) }, Err(e) => format!("e:{:?}", e) }
					}}}
					// element types whose PartialEq is not bytewise (seed C05-20): -0.0 == +0.0 and NaN != NaN, so the two paths
					// must agree with each other and with float equality, whatever the bytes are (zero dwords are everywhere,
					// the 0xFF sections of the long-string cases are all NaN)
					{
						let (rva, va) = if byva { (view.va_to_rva(n(1) as $va_t).ok(), Some(n(1) as $va_t)) } else { (Some(n(1) as u32), view.rva_to_va(n(1) as u32).ok()) };
						// (a null rva and a null va are different addresses: Err(Null) is reported per path)
						if let (Some(rva), Some(va)) = (rva.filter(|r| *r != 0), va.filter(|v| *v != 0)) {
							for &bits in &[0x8000_0000u32, 0, 0x7FC0_0000, 0xFFFF_FFFF, n(3) as u32] {
								let s = f32::from_bits(bits);
								let a = view.derva_slice_s::<f32>(rva, s);
								let b = view.deref_slice_s::<f32>(Ptr::from(va), s);
								let same = match (&a, &b) { (Ok(x), Ok(y)) => x.as_ptr() == y.as_ptr() && x.len() == y.len(), (Err(e), Err(f)) => e == f, _ => false };
								assert!(same, "harness: deref_slice_s and derva_slice_s differ for f32 elements, sentinel bits {:#x}: {:?} vs {:?}", bits, a.map(|x| x.len()), b.map(|x| x.len()));
								if let Ok(x) = a { assert!(x.iter().all(|e| *e != s), "harness: the sentinel (float equality) lies inside the returned f32 slice"); }
							}
							for &bits in &[0x8000_0000_0000_0000u64, 0, 0x7FF8_0000_0000_0000, n(3) as u64] {
								let s = f64::from_bits(bits);
								let a = view.derva_slice_s::<f64>(rva, s);
								let b = view.deref_slice_s::<f64>(Ptr::from(va), s);
								let same = match (&a, &b) { (Ok(x), Ok(y)) => x.as_ptr() == y.as_ptr() && x.len() == y.len(), (Err(e), Err(f)) => e == f, _ => false };
								assert!(same, "harness: deref_slice_s and derva_slice_s differ for f64 elements, sentinel bits {:#x}", bits);
							}
						}
					}
					match n(2) { 1 => t!(u8), 2 => t!(u16), 4 => t!(u32), _ => t!(u64) }
				},
				"cstr" | "vcstr" => {
					let r = if p[0] == "vcstr" { view.deref_c_str(Ptr::from(n(1) as $va_t)) } else { view.derva_c_str(n(1) as u32) };
					match r { Ok(s) => reg(s.c_str().as_ptr(), s.c_str().len()), Err(e) => format!("e:{:?}", e) }
				},
				_ => "?".to_string(),
			};
			out.push(o);
		}
		out
	}};
}

/// A NUL-terminated string of 65530..65545 (and 131070..131075) bytes: no terminator search, sentinel scan or length
/// may be cut off at a 16-bit limit.  One big section of 0xFF bytes, mapped 1:1, NULs planted at the chosen distance.
fn gen_long_string(rng: &mut Rng) -> String {
	let pe64 = rng.chance(1, 2);
	let file = rng.chance(1, 2);
	let dist: usize = *rng.pick(&[65530usize, 65534, 65535, 65536, 65537, 65545, 131070, 131072]);
	let start: u32 = 0x1000 + 8 * rng.below(8) as u32;
	let len = 0x1000 + 0x24000;
	let mut spec = ImgSpec { pe64, e_lfanew: 0x80, soh: 0x400, soi: len as u32, image_base: if pe64 { 0x1_4000_0000 } else { 0x40_0000 }, nrva: 16, dirs: vec![(0u32, 0u32); 16], opt_size: 0, nsec_field: 1, secs: Vec::new(), checksum: 0, magic: if pe64 { 0x20b } else { 0x10b } };
	spec.opt_size = spec.std_opt_size();
	let mut s = Sec { name: [0; 8], va: 0x1000, vs: 0x24000, prd: 0x1000, srd: 0x24000, chars: 0x4000_0040 };
	s.name[..5].copy_from_slice(b".long");
	spec.secs.push(s);
	let at = start as usize + dist;
	let img = Image { len, fill: 0xFFFF_FFFF, hdr: spec.header_bytes(), pokes: vec![(at, vec![0u8; 8])] };
	let base = spec.image_base;
	let qs = vec![format!("cstr:{}", start), format!("vcstr:{}", base + start as u64), format!("sent:{}:1:0", start), format!("sent:{}:2:0", start & !1),
		format!("sent:{}:4:0", start & !3), format!("sl:{}:{}:1", start, dist + 1), format!("cstr:{}", start + 1)];
	format!("view fmt={} file={} place=0 {} soh={} soi={} base={} setbase=- secs={} q={}", if pe64 { 64 } else { 32 }, file as u8, img.encode(), spec.soh, spec.soi, spec.image_base, secs_field(&spec.secs), join(&qs, ","))
}

/// The same rva-based queries through the format-agnostic wrapper (pelite::PeFile / pelite::PeView): every method it
/// offers must return exactly what the format-specific API returns (same region, same value, same error).
/// None = a query kind the wrapper has no method for.
macro_rules! wrap_queries {
	($w:expr, $qs:expr, $base:expr, $blen:expr) => {{
		let w = $w;
		let reg = |p: *const u8, n: usize| -> String {
			let off = (p as usize).wrapping_sub($base);
			assert!(off <= $blen && n <= $blen - off, "harness: returned region outside the buffer (wrapper): off={} len={}", off as isize, n);
			format!("ok:{}:{}", off, n)
		};
		let rs = |r: pelite::Result<&[u8]>| -> String { match r { Ok(s) => reg(s.as_ptr(), s.len()), Err(e) => format!("e:{:?}", e) } };
		let mut out: Vec<Option<String>> = Vec::new();
		for q in $qs {
			let p: Vec<&str> = q.split(':').collect();
			let n = |i: usize| -> u64 { p[i].parse::<u64>().unwrap() };
			let o = match p[0] {
				"sl" => Some(rs(w.slice(n(1) as u32, n(2) as usize, n(3) as usize))),
				"gsb" => Some(match w.section_headers().image().get(n(1) as usize) { Some(sh) => rs(w.get_section_bytes(sh)), None => "none".to_string() }),
				"derva" => {
					macro_rules! t { ($t:ty) => {{
						match w.derva::<$t>(n(1) as u32) { Ok(x) => format!("{}:{}", reg(x as *const $t as *const u8, std::mem::size_of::<$t>()), *x as u64), Err(e) => format!("e:{:?}", e) }
					}}}
					Some(match n(2) { 1 => t!(u8), 2 => t!(u16), 4 => t!(u32), _ => t!(u64) })
				},
				"copy" => {
					macro_rules! t { ($t:ty) => {{
						let r = w.derva_copy::<$t>(n(1) as u32);
						let mut dest: [$t; 3] = [0; 3];
						let r2 = w.derva_into(n(1) as u32, &mut dest);
						let s2 = match r2 { Ok(()) => format!("ok:{}:{}:{}", dest[0], dest[1], dest[2]), Err(e) => format!("e:{:?}", e) };
						match r { Ok(x) => format!("ok:{}/{}", x as u64, s2), Err(e) => format!("e:{:?}/{}", e, s2) }
					}}}
					Some(match n(2) { 1 => t!(u8), 2 => t!(u16), 4 => t!(u32), _ => t!(u64) })
				},
				"arr" => {
					macro_rules! t { ($t:ty) => {{
						match w.derva_slice::<$t>(n(1) as u32, n(3) as usize) { Ok(x) => reg(x.as_ptr() as *const u8, std::mem::size_of_val(x)), Err(e) => format!("e:{:?}", e) }
					}}}
					Some(match n(2) { 1 => t!(u8), 2 => t!(u16), 4 => t!(u32), _ => t!(u64) })
				},
				"arrx" => {
					macro_rules! t { ($t:ty) => {{
						match w.derva_slice::<$t>(n(1) as u32, n(4) as usize) { Ok(x) => reg(x.as_ptr() as *const u8, std::mem::size_of_val(x)), Err(e) => format!("e:{:?}", e) }
					}}}
					Some(match n(2) { 6 => t!([u16; 3]), 12 => t!([u32; 3]), 5 => t!([u8; 5]), _ => t!([u64; 3]) })
				},
				"sent" => {
					macro_rules! t { ($t:ty) => {{
						match w.derva_slice_s::<$t>(n(1) as u32, n(3) as $t) { Ok(x) => reg(x.as_ptr() as *const u8, std::mem::size_of_val(x)), Err(e) => format!("e:{:?}", e) }
					}}}
					Some(match n(2) { 1 => t!(u8), 2 => t!(u16), 4 => t!(u32), _ => t!(u64) })
				},
				"cstr" => Some(match w.derva_c_str(n(1) as u32) { Ok(s) => reg(s.c_str().as_ptr(), s.c_str().len()), Err(e) => format!("e:{:?}", e) }),
				_ => None,
			};
			out.push(o);
		}
		out
	}};
}
fn cross_check(kind: &str, qs: &[&str], specific: &[String], wrapped: &[Option<String>]) {
	for (i, w) in wrapped.iter().enumerate() {
		if let Some(w) = w {
			assert!(*w == specific[i], "harness: the format-agnostic {} differs from the format-specific API on query {}: wrapper {} specific {}", kind, qs[i], w, specific[i]);
		}
	}
}

fn run(case: &str) -> String {
	let img = Image::decode(case);
	let bytes = img.bytes();
	let place: usize = field(case, "place").parse().unwrap();
	let buf = Aligned::new(&bytes, place);
	let b = buf.bytes();
	let base = b.as_ptr() as usize;
	let blen = b.len();
	let file = field(case, "file") == "1";
	let setbase = field(case, "setbase");
	let qs: Vec<&str> = split(field(case, "q"), ',');
	let out: Vec<String> = match (field(case, "fmt"), file) {
		("32", true) => match pe32::PeFile::from_bytes(b) { Ok(v) => run_queries!(PeFile, pe32, v, qs.iter(), base, blen, u32), Err(e) => return format!("!ctor {:?}", e) },
		("64", true) => match pe64::PeFile::from_bytes(b) { Ok(v) => run_queries!(PeFile, pe64, v, qs.iter(), base, blen, u64), Err(e) => return format!("!ctor {:?}", e) },
		("32", false) => match pe32::PeView::from_bytes(b) {
			Ok(v) => { let v = if setbase != "-" { v.set_base_address(setbase.parse::<u64>().unwrap() as u32) } else { v }; run_queries!(PeView, pe32, v, qs.iter(), base, blen, u32) },
			Err(e) => return format!("!ctor {:?}", e),
		},
		_ => match pe64::PeView::from_bytes(b) {
			Ok(v) => { let v = if setbase != "-" { v.set_base_address(setbase.parse::<u64>().unwrap()) } else { v }; run_queries!(PeView, pe64, v, qs.iter(), base, blen, u64) },
			Err(e) => return format!("!ctor {:?}", e),
		},
	};
	// the wrapper selects the parser by the optional-header magic; a view that was rebased has no wrapper twin
	if setbase == "-" {
		if file {
			if let Ok(w) = pelite::PeFile::from_bytes(b) { let wq = wrap_queries!(w, qs.iter(), base, blen); cross_check("PeFile", &qs, &out, &wq); }
		}
		else if let Ok(w) = pelite::PeView::from_bytes(b) { let wq = wrap_queries!(w, qs.iter(), base, blen); cross_check("PeView", &qs, &out, &wq); }
	}
	format!("r={}", out.join(","))
}

fn main() {
	harness_main(gen, run);
}
