//! C01 / C02 / C03: the walker — calls the whole public API (accessors, directory parsers, iterators,
//! formatters, serializers, scanner, conversions) on real PE files (the two demo DLLs, the tiny files and
//! the 217 corkami files shipped in /repo/tests) and on field-level corruptions of them.  No model stands
//! behind this component: its observation is only "returned / panicked / aborted / hung" plus the placement
//! checks made on the spot for every returned reference (inside the buffer, aligned for its type).
use pvh::*;
use std::fmt::Write as _;

struct Src {
	name: String,
	bytes: Vec<u8>,
}

fn repo() -> String {
	std::env::var("PELITE_REPO").unwrap_or_else(|_| "/repo".to_string())
}

fn sources() -> &'static Vec<Src> {
	static mut SRC: Option<Vec<Src>> = None;
	unsafe {
		if SRC.is_none() {
			let r = repo();
			let mut v = Vec::new();
			for n in ["demo/Demo.dll", "demo/Demo64.dll"] {
				v.push(Src { name: n.to_string(), bytes: std::fs::read(format!("{}/{}", r, n)).expect("harness: demo dll") });
			}
			let mut tiny: Vec<_> = std::fs::read_dir(format!("{}/tests/tiny", r)).expect("harness: tiny").map(|e| e.unwrap().file_name().into_string().unwrap()).collect();
			tiny.sort();
			for n in tiny {
				v.push(Src { name: format!("tests/tiny/{}", n), bytes: std::fs::read(format!("{}/tests/tiny/{}", r, n)).unwrap() });
			}
			let blob = std::fs::read(format!("{}/tests/pocs/pocs.blob", r)).expect("harness: pocs.blob");
			let table = std::fs::read_to_string(format!("{}/tests/pocs/pocs.rs", r)).expect("harness: pocs.rs");
			for line in table.lines() {
				let line = line.trim();
				if !line.starts_with("Binary { offset:") {
					continue;
				}
				let num = |key: &str| -> usize {
					let s = &line[line.find(key).unwrap() + key.len()..];
					let s = s.trim_start();
					let e = s.find(|c: char| c == ',' || c == ' ').unwrap();
					usize::from_str_radix(s[..e].trim_start_matches("0x"), 16).unwrap()
				};
				let off = num("offset:");
				let len = num("len:");
				let q = line.find('"').unwrap();
				let q2 = line.rfind('"').unwrap();
				v.push(Src { name: format!("poc/{}", &line[q + 1..q2]), bytes: blob[off..off + len].to_vec() });
			}
			SRC = Some(v);
		}
		SRC.as_ref().unwrap()
	}
}

fn rd16(b: &[u8], o: usize) -> u32 {
	if o + 2 <= b.len() { u16::from_le_bytes([b[o], b[o + 1]]) as u32 } else { 0 }
}
fn rd32(b: &[u8], o: usize) -> u32 {
	if o + 4 <= b.len() { u32::from_le_bytes([b[o], b[o + 1], b[o + 2], b[o + 3]]) } else { 0 }
}

/// minimal independent header reader used to aim the corruptions
struct Lay {
	nt: usize,
	pe64: bool,
	dirs_off: usize,
	ndirs: usize,
	secs_off: usize,
	nsecs: usize,
	soi: u32,
	soh: u32,
}
fn lay(b: &[u8]) -> Option<Lay> {
	if b.len() < 64 || rd16(b, 0) != 0x5A4D {
		return None;
	}
	let nt = rd32(b, 60) as usize;
	if nt > b.len() || nt + 24 + 96 > b.len() {
		return None;
	}
	let magic = rd16(b, nt + 24);
	let pe64 = magic == 0x20b;
	let opt = nt + 24;
	let dirs_off = opt + if pe64 { 112 } else { 96 };
	let ndirs = (rd32(b, dirs_off - 4) as usize).min(16);
	let secs_off = opt + rd16(b, nt + 20) as usize;
	let nsecs = (rd16(b, nt + 6) as usize).min(96);
	Some(Lay { nt, pe64, dirs_off, ndirs, secs_off, nsecs, soi: rd32(b, opt + 56), soh: rd32(b, opt + 60) })
}
fn rva_to_off(b: &[u8], l: &Lay, rva: u32) -> Option<usize> {
	for i in 0..l.nsecs {
		let o = l.secs_off + 40 * i;
		let (vs, va, srd, prd) = (rd32(b, o + 8), rd32(b, o + 12), rd32(b, o + 16), rd32(b, o + 20));
		if rva >= va && (rva - va) < vs.max(srd) {
			if rva - va < srd {
				return Some((prd + (rva - va)) as usize);
			}
			return None;
		}
	}
	if rva < l.soh { Some(rva as usize) } else { None }
}
/// reference loader (independent of pelite): file layout -> mapped layout
fn load(b: &[u8], l: &Lay) -> Option<Vec<u8>> {
	if l.soi == 0 || l.soi > 0x400_0000 {
		return None;
	}
	let mut v = vec![0u8; l.soi as usize];
	let h = (l.soh as usize).min(b.len()).min(v.len());
	v[..h].copy_from_slice(&b[..h]);
	for i in 0..l.nsecs {
		let o = l.secs_off + 40 * i;
		let (vs, va, srd, prd) = (rd32(b, o + 8) as usize, rd32(b, o + 12) as usize, rd32(b, o + 16) as usize, rd32(b, o + 20) as usize);
		let n = vs.min(srd);
		if prd <= b.len() && n <= b.len() - prd && va <= v.len() && n <= v.len() - va {
			v[va..va + n].copy_from_slice(&b[prd..prd + n]);
		}
	}
	Some(v)
}

const EDGE32: [u32; 14] = [0, 1, 2, 4, 8, 0xFFFF, 0x1_0000, 0x7FFF_FFFF, 0x8000_0000, 0xFFFF_FFFF, 0xFFFF_FFFD, 0xFFFF_F000, 0x1000, 0x2000];

fn gen(rng: &mut Rng, _i: u64) -> String {
	let srcs = sources();
	// the demo DLLs carry every directory: half of the cases start from them
	let si = if rng.chance(1, 2) { rng.below(2) as usize } else { rng.below(srcs.len() as u64) as usize };
	let src = &srcs[si];
	let view = rng.chance(2, 5);
	let mut bytes = src.bytes.clone();
	let l = lay(&bytes);
	let mut mapped = false;
	if view {
		if let Some(l) = &l {
			if let Some(v) = load(&bytes, l) {
				bytes = v;
				mapped = true;
			}
		}
	}
	let mut pokes: Vec<String> = Vec::new();
	let npokes = match rng.below(10) { 0 => 0, 1..=5 => 1, 6..=7 => 2, _ => rng.range(3, 6) };
	if let Some(l) = &l {
		for _ in 0..npokes {
			let width = *rng.pick(&[4usize, 4, 4, 2, 1]);
			let off: usize = match rng.below(10) {
				// a data directory entry (VirtualAddress or Size)
				0 | 1 if l.ndirs > 0 => l.dirs_off + 8 * rng.below(l.ndirs as u64) as usize + 4 * rng.below(2) as usize,
				// a section header field
				2 if l.nsecs > 0 => l.secs_off + 40 * rng.below(l.nsecs as u64) as usize + 8 + 4 * rng.below(4) as usize,
				// a header field
				3 => l.nt + 4 * rng.below(34 + if l.pe64 { 4 } else { 0 }) as usize,
				// inside the extent of a directory
				4..=8 if l.ndirs > 0 => {
					let d = rng.below(l.ndirs as u64) as usize;
					let (va, sz) = (rd32(&src.bytes, l.dirs_off + 8 * d), rd32(&src.bytes, l.dirs_off + 8 * d + 4));
					let cap = if rng.chance(1, 2) { 64 } else { 2048 };
					let inner = rng.below((sz.max(4) as u64).min(cap)) as u32 & !(if width == 4 { 3 } else { 0 });
					if va == 0 { rng.below(bytes.len() as u64 + 1) as usize }
					else if mapped { va as usize + inner as usize }
					else if d == 4 { va as usize + inner as usize }
					else { rva_to_off(&src.bytes, l, va.wrapping_add(inner)).unwrap_or(0) }
				},
				_ => rng.below(bytes.len() as u64 + 1) as usize,
			};
			if off.checked_add(width).map_or(true, |e| e > bytes.len()) {
				continue;
			}
			let old = rd32(&bytes, off);
			let val: u32 = match rng.below(8) {
				0 => old.wrapping_add(1), 1 => old.wrapping_sub(1), 2 => old.wrapping_add(8), 3 => old ^ (1 << rng.below(32)),
				4 => rng.next() as u32, 5 => bytes.len() as u32, _ => *rng.pick(&EDGE32),
			};
			let vb = val.to_le_bytes();
			pokes.push(format!("{}:{}", off, hex(&vb[..width])));
		}
	}
	let trunc = if rng.chance(1, 8) { rng.below(bytes.len() as u64 + 1).to_string() } else { "-".to_string() };
	let place = *rng.pick(&[0usize, 0, 4, 8, 12]);
	format!("walk src={} view={} place={} trunc={} pokes={}", src.name, mapped as u8, place, trunc, join(&pokes, "/"))
}

/// everything observed about one image
struct Ctx {
	base: usize,
	len: usize,
	steps: usize,
	refs: usize,
	log: String,
}
impl Ctx {
	fn region(&mut self, what: &str, p: *const u8, n: usize, align: usize) {
		self.refs += 1;
		if n == 0 {
			return;
		}
		let a = p as usize;
		let inside = a >= self.base && a - self.base <= self.len && n <= self.len - (a - self.base);
		// static constants (CStr::empty and the like) are tiny and live in the binary's data, far away from the mapping: a
		// one-byte region NEXT TO the buffer (one past its end, one before its start) is an out-of-bounds borrow
		let far = a.wrapping_add(0x10_0000) < self.base || a > self.base.wrapping_add(self.len).wrapping_add(0x10_0000);
		assert!(inside || (n <= 1 && far), "harness: returned region outside the buffer: {} off={} len={}", what, a.wrapping_sub(self.base) as isize, n);
		assert!(a % align == 0, "harness: misaligned reference returned: {} addr%{}={}", what, align, a % align);
	}
	fn bytes(&mut self, what: &str, s: &[u8]) {
		self.region(what, s.as_ptr(), s.len(), 1);
	}
	fn r<T>(&mut self, what: &str, x: &T) {
		self.region(what, x as *const T as *const u8, std::mem::size_of::<T>(), std::mem::align_of::<T>());
	}
	fn s<T>(&mut self, what: &str, x: &[T]) {
		self.region(what, x.as_ptr() as *const u8, std::mem::size_of_val(x), std::mem::align_of::<T>());
	}
	fn step(&mut self, what: &str, n: usize) {
		self.steps += 1;
		let _ = write!(self.log, "{}={} ", what, n);
	}
	/// formatting / serializing anything read from an image of L bytes is linear work with a small constant: seconds of
	/// CPU (thread CPU time, independent of machine load) are out of all proportion
	fn work(&self, what: &str, t0: u64) {
		let spent = cpu_ms().saturating_sub(t0);
		let bound = 3000 + self.len as u64 / 50;
		assert!(spent <= bound, "harness: more work than the input bounds: {} took {} ms of CPU for an image of {} bytes (bound {} ms)", what, spent, self.len, bound);
	}
	fn fmt<T: std::fmt::Debug>(&mut self, what: &str, x: &T) {
		let t0 = cpu_ms();
		let s = format!("{:?}", x);
		let s2 = format!("{:#?}", x);
		self.work(what, t0);
		self.step(what, s.len() + s2.len());
	}
	fn json<T: serde::Serialize>(&mut self, what: &str, x: &T) {
		let t0 = cpu_ms();
		let r = serde_json::to_string(x);
		self.work(what, t0);
		match r {
			Ok(s) => {
				let v: Result<serde_json::Value, _> = serde_json::from_str(&s);
				assert!(v.is_ok(), "harness: serializer produced malformed JSON for {}", what);
				self.step(what, s.len());
			},
			Err(_) => self.step(what, 0),
		}
	}
}

const NPARTS: usize = 9;
const PATTERNS: [&str; 6] = ["4D 5A", "E8 ${'} C3", "48 8B ? ? [1-8] ${'}", "55 8B EC", "'*{'} 00 00 ? ?", "? ? ? ? [0-16] u4 FF"];

macro_rules! walk_impl {
	($fname:ident, $m:ident, $va:ty) => {
		fn $fname<'a, P: pelite::$m::Pe<'a> + Copy + serde::Serialize>(c: &mut Ctx, pe: P, part: usize) {
			use pelite::$m::exports::GetProcAddress;
			use pelite::$m::Pe;
			let soi = pe.optional_header().SizeOfImage;
			// ---- headers
			if part == 0 {
				c.r("dos_header", pe.dos_header());
				c.bytes("dos_image", pe.dos_image());
				c.r("nt_headers", pe.nt_headers());
				c.r("file_header", pe.file_header());
				c.r("optional_header", pe.optional_header());
				c.s("data_directory", pe.data_directory());
				c.s("section_headers", pe.section_headers().image());
				c.fmt("dbg_nt", pe.nt_headers());
				c.step("dbg_secs", format!("{:?}", pe.section_headers()).len());
				let hdrs = pe.headers();
				c.bytes("headers_image", hdrs.image());
				c.step("check_sum", hdrs.check_sum() as usize);
				let cr = hdrs.code_range();
				let ir = hdrs.image_range();
				c.step("ranges", (cr.end.wrapping_sub(cr.start) ^ ir.end) as usize);
				c.json("json_headers", &hdrs);
				for sh in pe.section_headers() {
					if let Ok(b) = pe.get_section_bytes(sh) { c.bytes("section_bytes", b); }
					c.fmt("dbg_sh", sh);
					let _ = sh.name();
					c.step("sh_name_bytes", sh.name_bytes().len());
					let (vr, fr) = (sh.virtual_range(), sh.file_range());
					c.step("sh_ranges", (vr.end.wrapping_sub(vr.start) ^ fr.end.wrapping_sub(fr.start)) as usize);
					let _ = pe.section_headers().by_name(sh.name_bytes());
					let _ = pe.section_headers().by_rva(sh.VirtualAddress);
				}
				c.fmt("dbg_opt", pe.optional_header());
				c.fmt("dbg_dos", pe.dos_header());
				for probe in [0u32, 1, 0x1000, soi.wrapping_sub(1), soi, 0xFFFF_FFFF] {
					if let Err(e) = pe.rva_to_file_offset(probe) { c.step("err_str", e.to_str().len() + format!("{}", e).len() + format!("{:?}", e).len() + e.is_null() as usize); }
					let _ = pe.file_offset_to_rva(probe as usize);
					let _ = pe.section_headers().by_rva(probe);
					if let Ok(va) = pe.rva_to_va(probe) { let _ = pe.va_to_rva(va); if let Ok(b) = pe.read_bytes(va) { c.bytes("read_bytes", b); } }
					if let Ok(b) = pe.slice_bytes(probe) { c.bytes("slice_bytes", b); }
					if let Ok(s) = pe.derva_c_str(probe) { c.bytes("c_str", s.as_ref()); c.fmt("dbg_cstr", &s); c.step("disp_cstr", format!("{}", s).len()); }
				}
			}
			// ---- rich
			if part == 1 {
				if let Ok(rich) = pe.rich_structure() {
					c.s("rich_image", rich.image());
					c.fmt("dbg_rich", &rich);
					c.step("rich_records", rich.records().count());
					c.step("rich_checksum", (rich.checksum() ^ rich.xor_key()) as usize);
					let recs: Vec<_> = rich.records().collect();
					c.step("rich_kinds", recs.iter().filter(|r| pelite::rich_structure::ObjectKind::from(r.product) != pelite::rich_structure::ObjectKind::Unknown).count());
					let mut dest = vec![0u32; recs.len() * 2 + 8];
					let _ = rich.encode(&recs, &mut dest);
					let _ = rich.records().rev().count();
					c.json("json_rich", &rich);
				}
			}
			// ---- exports
			if part == 2 {
				if let Ok(exp) = pe.exports() {
					c.r("exports_image", exp.image());
					c.fmt("dbg_exports", &exp);
					if let Ok(n) = exp.dll_name() { c.bytes("exp_dll_name", n.as_ref()); }
					if let Ok(f) = exp.functions() { c.s("exp_functions", f); }
					if let Ok(f) = exp.names() { c.s("exp_names", f); }
					if let Ok(f) = exp.name_indices() { c.s("exp_name_indices", f); }
					c.json("json_exports", &exp);
					if let Ok(by) = exp.by() {
						c.fmt("dbg_by", &by);
						c.json("json_by", &by);
						let _ = by.check_sorted();
						let nf = by.functions().len();
						let nn = by.names().len();
						c.step("by_iter", by.iter().count());
						let mut k = 0;
						for (name, e) in by.iter_names() {
							k += 1;
							if let Ok(name) = name {
								c.bytes("exp_name", name.as_ref());
								let _ = by.name(name);
								let _ = by.name_linear(name);
								let _ = pe.get_proc_address(name);
							}
							if let Ok(pelite::$m::exports::Export::Forward(s)) = e { c.bytes("exp_fwd", s.as_ref()); }
						}
						c.step("by_iter_names", k);
						c.step("by_iter_name_indices", by.iter_name_indices().count());
						let base = exp.ordinal_base();
						for i in (0..nf.min(64)).chain([nf, nf + 1, usize::MAX, 0xFFFF_FFFF, 0xFFFF].iter().cloned()) {
							let _ = by.index(i);
							let _ = by.name_lookup(i);
							let _ = by.ordinal(base.wrapping_add(i as u16));
							let _ = pe.get_proc_address(base.wrapping_add(i as u16));
						}
						for h in (0..nn.min(64)).chain([nn, nn + 1, usize::MAX].iter().cloned()) {
							let _ = by.hint(h);
							if let Ok(n) = by.name_of_hint(h) { c.bytes("exp_name_of_hint", n.as_ref()); }
							let _ = by.hint_name(h, "NoSuchExport");
						}
						let _ = by.name("NoSuchExport");
						let _ = by.name_linear("");
					}
				}
			}
			// ---- imports
			if part == 3 {
				if let Ok(imps) = pe.imports() {
					c.s("imports_image", imps.image());
					c.fmt("dbg_imports", &imps);
					c.json("json_imports", &imps);
					let mut n = 0;
					for d in imps {
						n += 1;
						c.r("imp_desc", d.image());
						if let Ok(s) = d.dll_name() { c.bytes("imp_dll_name", s.as_ref()); }
						if let Ok(it) = d.iat() { c.s("imp_iat", it.as_slice()); }
						if let Ok(it) = d.int() { for i in it { if let Ok(pelite::$m::imports::Import::ByName { hint: _, name }) = i { c.bytes("imp_name", name.as_ref()); } } }
						c.fmt("dbg_desc", &d);
					}
					c.step("imports", n);
					let _ = imps.iter().rev().count();
					let _ = imps.iter().nth(1);
				}
				if let Ok(iat) = pe.iat() {
					c.s("iat_image", iat.image());
					c.fmt("dbg_iat", &iat);
					c.json("json_iat", &iat);
					c.step("iat", iat.iter().count());
				}
			}
			// ---- relocations
			if part == 4 {
				if let Ok(rel) = pe.base_relocs() {
					c.bytes("relocs_image", rel.image());
					c.fmt("dbg_relocs", &rel);
					c.json("json_relocs", &rel);
					let mut nb = 0;
					for b in rel.iter_blocks() {
						nb += 1;
						c.r("reloc_block", b.image());
						c.s("reloc_words", b.words());
						assert!(nb <= rel.image().len() / 8 + 1, "harness: more relocation blocks than len/8");
					}
					c.step("reloc_blocks", nb);
					c.step("reloc_fold", rel.fold(0usize, |a, _, _| a + 1));
				}
			}
			// ---- load config, tls, security, exception, debug
			if part == 5 {
				if let Ok(lc) = pe.load_config() {
					c.r("load_config_image", lc.image());
					c.fmt("dbg_load_config", &lc);
					c.json("json_load_config", &lc);
					if let Ok(x) = lc.security_cookie() { c.r("lc_cookie", x); }
					if let Ok(x) = lc.se_handler_table() { c.s("lc_handlers", x); }
				}
				if let Ok(tls) = pe.tls() {
					c.r("tls_image", tls.image());
					c.fmt("dbg_tls", &tls);
					c.json("json_tls", &tls);
					if let Ok(x) = tls.raw_data() { c.bytes("tls_raw", x); }
					if let Ok(x) = tls.slot() { c.r("tls_slot", x); }
					if let Ok(x) = tls.callbacks() { c.s("tls_callbacks", x); }
				}
				if let Ok(sec) = pe.security() {
					c.r("security_image", sec.image());
					c.bytes("security_data", sec.certificate_data());
					c.fmt("dbg_security", &sec);
					c.json("json_security", &sec);
					c.step("cert_type", sec.certificate_type() as usize);
				}
				if let Ok(exc) = pe.exception() {
					c.s("exception_image", exc.image());
					c.fmt("dbg_exception", &exc);
					let _ = exc.check_sorted();
					let mut n = 0;
					for f in exc.functions() {
						n += 1;
						c.r("exc_fn", f.image());
						if n <= 64 {
							c.fmt("dbg_exc_fn", &f);
							let _ = f.pe();
							if let Ok(b) = f.bytes() { c.bytes("exc_bytes", b); }
							if let Ok(u) = f.unwind_info() { c.r("exc_unwind", u.image()); c.s("exc_codes", u.unwind_codes()); c.fmt("dbg_unwind", &u); }
							let _ = exc.index_of(f.image().BeginAddress);
							let _ = exc.lookup_function_entry(f.image().EndAddress);
						}
					}
					c.step("exception", n);
					for pc in [0u32, 1, 0x1000, 0xFFFF_FFFF] { let _ = exc.index_of(pc); let _ = exc.lookup_function_entry(pc); }
				}
				if let Ok(dbg) = pe.debug() {
					c.s("debug_image", dbg.image());
					c.fmt("dbg_debug", &dbg);
					c.json("json_debug", &dbg);
					if let Some(n) = dbg.pdb_file_name() { c.bytes("pdb_file_name", n.as_ref()); }
					let mut n = 0;
					for d in dbg {
						n += 1;
						c.r("debug_dir", d.image());
						if let Some(b) = d.data() { c.bytes("debug_data", b); }
						c.fmt("dbg_dir", &d);
						if let Ok(e) = d.entry() {
							c.fmt("dbg_entry", &e);
							if let Some(cv) = e.as_code_view() { c.bytes("cv_pdb", cv.pdb_file_name().as_ref()); let _ = cv.age(); let _ = cv.format(); }
							if let Some(m) = e.as_dbg() { c.r("misc", m.image()); c.fmt("dbg_misc", &m); c.json("json_misc", &m); }
							if let Some(u) = e.as_unknown() { c.bytes("dbg_unknown", u); }
							if let Some(p) = e.as_pgo() { c.fmt("dbg_pgo", &p); c.json("json_pgo", &p); let _ = p.into_iter().count(); }
							if let Some(p) = e.as_pgo() { c.s("pgo_image", p.image()); let mut k = 0; for s in p.iter() { k += 1; c.bytes("pgo_name", s.name.as_ref()); assert!(k <= p.image().len() + 1, "harness: more POGO records than dwords"); } c.step("pgo", k); }
						}
					}
					c.step("debug", n);
					let _ = dbg.iter().rev().count();
				}
			}
			// ---- resources
			if part == 6 {
				if let Ok(res) = pe.resources() {
					c.step("fsck", res.fsck().is_ok() as usize);
					c.fmt("dbg_resources", &res);
					c.step("tree", format!("{}", res).len());
					c.json("json_resources", &res);
					if let Ok(root) = res.root() {
						c.r("res_root", root.image());
						c.fmt("dbg_res_root", &root);
						let _ = root.resources();
						for path in ["/Manifest/1", "/Version/1/1033", "/Icon", "Manifest", "/", "/#24/#1/#1033", "/Manifest/1/1033/x"] {
							match root.find_data(path) { Ok(d) => { if let Ok(b) = d.bytes() { c.bytes("find_data", b); } }, Err(e) => { c.step("find_err", e.to_str().len() + format!("{}", e).len() + format!("{:?}", e).len()); let _ = std::error::Error::source(&e); } }
							if let Ok(d) = root.find_dir(path) { c.r("find_dir", d.image()); }
						}
						let mut n = 0;
						for e in root.entries() {
							n += 1;
							c.r("res_entry", e.image());
							c.fmt("dbg_res_entry", &e);
							let _ = e.resources();
							if let Ok(name) = e.name() { c.step("res_name", format!("{}", name).len() + format!("{:?}", name).len() + (name == 16u32) as usize + (name == pelite::resources::Name::from("MANIFEST")) as usize); }
							if let Ok(ent) = e.entry() {
								if let Some(d) = ent.dir() { c.r("res_dir", d.image()); c.step("res_sub", d.entries().count()); let _ = d.first(); }
								if let Some(d) = ent.data() { c.r("res_data", d.image()); c.fmt("dbg_res_data", &d); if let Ok(b) = d.bytes() { c.bytes("res_bytes", b); } }
								if let Some(d) = ent.dir() { c.fmt("dbg_res_dir", &d); c.step("res_fsck_sub", d.fsck().is_ok() as usize); c.json("json_res_dir", &d); }
							}
						}
						c.step("res_entries", n);
						let _ = root.get(pelite::resources::Name::Id(16));
						let _ = root.find("/Manifest/1");
						let _ = root.first();
					}
					if let Ok(vi) = res.version_info() {
						c.fmt("dbg_version", &vi);
						c.json("json_version", &vi);
						if let Some(f) = vi.fixed() { c.r("vi_fixed", f); }
						c.s("vi_translation", vi.translation());
						let fi = vi.file_info();
						c.step("vi_file_info", fi.strings.len());
						c.step("vi_source", vi.source_code().len());
						for l in vi.translation() { let _ = vi.value(*l, "ProductName"); let mut k = 0; vi.strings(*l, |_, _| k += 1); }
					}
					if let Ok(m) = res.manifest() { c.bytes("manifest", m.as_bytes()); }
					let mut n = 0;
					for g in res.icons().chain(res.cursors()) {
						n += 1;
						if n > 256 { break; }
						if let Ok((name, g)) = g {
							let _ = format!("{}", name);
							c.s("group_entries", g.entries());
							c.fmt("dbg_group", &g);
							let mut out = Vec::new();
							let _ = g.write(&mut out);
							for e in g.entries() { if let Ok(b) = g.image(e.nId) { c.bytes("group_image", b); } }
						}
					}
					c.step("groups", n);
					let _ = res.find_resource(&[pelite::resources::Name::Id(24), pelite::resources::Name::Id(1)]);
					let _ = res.find_resource_ex(&[pelite::resources::Name::Id(16), pelite::resources::Name::Id(1), pelite::resources::Name::Id(1033)]);
				}
			}
			// ---- scanner and strings
			if part == 7 {
				let sc = pe.scanner();
				for (k, text) in PATTERNS.iter().enumerate() {
					if let Ok(pat) = pelite::pattern::parse(text) {
						let mut save = [0u32; 8];
						let mut m = if k % 2 == 0 { sc.matches_code(&pat) } else { sc.matches(&pat, 0..soi) };
						let mut hits = 0;
						let mut last = None;
						while hits < 2000 && m.next(&mut save) {
							assert!(last.map_or(true, |l| l < save[0]), "harness: scanner positions not ascending");
							last = Some(save[0]);
							hits += 1;
						}
						c.step("scan", hits);
						let _ = sc.finds(&pat, 0x1000..0x1800, &mut save);
						let _ = sc.exec(0x1000, &pat, &mut save);
						let _ = sc.exec(soi.wrapping_sub(2), &pat, &mut save);
					}
				}
				for sh in pe.section_headers().iter().take(8) {
					if let Ok(b) = pe.get_section_bytes(sh) {
						let mut n = 0;
						for f in pelite::strings::Config::default().enumerate(sh.VirtualAddress, b) { n += 1; c.bytes("string", f.string); assert!(n <= b.len() + 1, "harness: more strings than bytes"); }
						c.step("strings", n);
					}
				}
			}
			// ---- whole image
			if part == 8 {
				c.json("json_pe", &pe);
			}
		}
	};
}
walk_impl!(walk32, pe32, u32);
walk_impl!(walk64, pe64, u64);

fn run(case: &str) -> String {
	use pelite::pe32::Pe as _;
	use pelite::pe64::Pe as _;
	let name = field(case, "src");
	let src = sources().iter().find(|s| s.name == name).expect("harness: unknown source");
	let view = field(case, "view") == "1";
	let mut bytes = src.bytes.clone();
	if view {
		let l = lay(&bytes).expect("harness: view of an unparsable source");
		bytes = load(&bytes, &l).expect("harness: view of an unloadable source");
	}
	for p in split(field(case, "pokes"), '/') {
		let mut it = p.split(':');
		let off: usize = it.next().unwrap().parse().unwrap();
		let val = unhex(it.next().unwrap());
		if off + val.len() <= bytes.len() {
			bytes[off..off + val.len()].copy_from_slice(&val);
		}
	}
	if field(case, "trunc") != "-" {
		let n: usize = field(case, "trunc").parse().unwrap();
		bytes.truncate(n);
	}
	let place: usize = field(case, "place").parse().unwrap();
	let buf = Aligned::new(&bytes, place);
	let b = buf.bytes();
	let mut c = Ctx { base: b.as_ptr() as usize, len: b.len(), steps: 0, refs: 0, log: String::new() };
	let mut ctor = String::new();
	let soi_cap = 0x400_0000u32;
	let mut panics: Vec<String> = Vec::new();
	// every part of the walk runs under its own catch_unwind so that one defect does not hide the next
	macro_rules! parts {
		($walk:ident, $v:expr) => {{
			let v = $v;
			for part in 0..NPARTS {
				let r = std::panic::catch_unwind(std::panic::AssertUnwindSafe(|| $walk(&mut c, v, part)));
				if let Err(e) = r { panics.push(pvh::panic_text(e)); }
			}
		}};
	}
	macro_rules! guarded {
		($what:expr, $body:expr) => {{
			let r = std::panic::catch_unwind(std::panic::AssertUnwindSafe(|| $body));
			match r { Ok(n) => c.step($what, n), Err(e) => panics.push(pvh::panic_text(e)) }
		}};
	}
	if view {
		match pelite::pe32::PeView::from_bytes(b) { Ok(v) => { ctor.push_str("v32 "); parts!(walk32, v); if v.optional_header().SizeOfImage <= soi_cap { guarded!("to_file", v.to_file().len()); } }, Err(e) => { let _ = write!(ctor, "v32:{:?} ", e); } }
		match pelite::pe64::PeView::from_bytes(b) { Ok(v) => { ctor.push_str("v64 "); parts!(walk64, v); if v.optional_header().SizeOfImage <= soi_cap { guarded!("to_file", v.to_file().len()); } }, Err(e) => { let _ = write!(ctor, "v64:{:?} ", e); } }
		match pelite::PeView::from_bytes(b) { Ok(v) => { guarded!("json_wrap", serde_json::to_string(&v).map(|s| s.len()).unwrap_or(0)); }, Err(_) => {} }
	}
	else {
		match pelite::pe32::PeFile::from_bytes(b) { Ok(v) => { ctor.push_str("f32 "); parts!(walk32, v); if v.optional_header().SizeOfImage <= soi_cap { guarded!("to_view", v.to_view().len()); } }, Err(e) => { let _ = write!(ctor, "f32:{:?} ", e); } }
		match pelite::pe64::PeFile::from_bytes(b) { Ok(v) => { ctor.push_str("f64 "); parts!(walk64, v); if v.optional_header().SizeOfImage <= soi_cap { guarded!("to_view", v.to_view().len()); } }, Err(e) => { let _ = write!(ctor, "f64:{:?} ", e); } }
		match pelite::PeFile::from_bytes(b) { Ok(v) => { guarded!("json_wrap", serde_json::to_string(&v).map(|s| s.len()).unwrap_or(0)); }, Err(_) => {} }
	}
	if !panics.is_empty() {
		panics.sort();
		panics.dedup();
		return format!("!panic {} [{} distinct]", panics.join(" || "), panics.len());
	}
	format!("ctor={} steps={} refs={}", ctor.trim_end().replace(' ', ","), c.steps, c.refs)
}

fn main() {
	harness_main(gen, run);
}
