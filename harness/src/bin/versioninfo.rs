//! C13: version information — implementation side.
//!
//! Kinds of case:
//!   vi  off= tight= key= fixed= blocks= muts= cut= mask= q=    an abstract resource, written by the
//!       independent writer below, then corrupted by word mutations and a byte truncation
//!   raw off= data= mask= q=                                      arbitrary bytes
//! Words are printed as 4 hex digits each. blocks: comma list of
//!   S/<table>;<table>..   table = <key>|<skey>:<svalue>|..
//!   V/<key>:<value>;..   or <key>:<value>:<word> for a value with an odd byte count (the last byte is the low half of <word>)
//!   O/<key>:<children>
use pelite::image::VS_FIXEDFILEINFO;
use pelite::resources::version_info::{Language, VersionInfo, Visit};
use pvh::*;

fn whex(ws: &[u16]) -> String {
	ws.iter().map(|w| format!("{:04x}", w)).collect()
}
fn unwhex(s: &str) -> Vec<u16> {
	let b = s.as_bytes();
	(0..b.len() / 4).map(|i| u16::from_str_radix(std::str::from_utf8(&b[4 * i..4 * i + 4]).unwrap(), 16).unwrap()).collect()
}
fn w(s: &str) -> Vec<u16> {
	s.encode_utf16().collect()
}

//---------------------------------------------------------------- the abstract resource

struct Str { key: Vec<u16>, value: Vec<u16> }
struct Table { key: Vec<u16>, strings: Vec<Str> }
struct Var { key: Vec<u16>, value: Vec<u16>, odd: Option<u16> }
enum Block { Strings(Vec<Table>), Vars(Vec<Var>), Other(Vec<u16>, Vec<u16>) }
struct Info { key: Vec<u16>, fixed: Vec<u16>, blocks: Vec<Block> }

fn show_blocks(bs: &[Block]) -> String {
	let v: Vec<String> = bs.iter().map(|b| match b {
		Block::Strings(ts) => format!("S/{}", ts.iter().map(|t| {
			let mut s = whex(&t.key);
			for x in &t.strings { s.push_str(&format!("|{}:{}", whex(&x.key), whex(&x.value))); }
			s
		}).collect::<Vec<_>>().join(";")),
		Block::Vars(vs) => format!("V/{}", vs.iter().map(|x| match x.odd {
			None => format!("{}:{}", whex(&x.key), whex(&x.value)),
			Some(b) => format!("{}:{}:{}", whex(&x.key), whex(&x.value), whex(&[b])),
		}).collect::<Vec<_>>().join(";")),
		Block::Other(k, c) => format!("O/{}:{}", whex(k), whex(c)),
	}).collect();
	join(&v, ",")
}
fn parse_blocks(s: &str) -> Vec<Block> {
	split(s, ',').iter().map(|b| {
		let (ty, rest) = b.split_at(2);
		let items: Vec<&str> = if rest.is_empty() { Vec::new() } else { rest.split(';').collect() };
		match ty {
			"S/" => Block::Strings(items.iter().map(|t| {
				let mut it = t.split('|');
				let key = unwhex(it.next().unwrap());
				let strings = it.map(|x| { let (k, v) = x.split_once(':').unwrap(); Str { key: unwhex(k), value: unwhex(v) } }).collect();
				Table { key, strings }
			}).collect()),
			"V/" => Block::Vars(items.iter().map(|x| {
				let p: Vec<&str> = x.split(':').collect();
				Var { key: unwhex(p[0]), value: unwhex(p[1]), odd: if p.len() > 2 { Some(unwhex(p[2])[0]) } else { None } }
			}).collect()),
			_ => { let (k, c) = rest.split_once(':').unwrap(); Block::Other(unwhex(k), unwhex(c)) },
		}
	}).collect()
}

//---------------------------------------------------------------- the independent writer

struct Writer { out: Vec<u16>, tight: bool }
impl Writer {
	fn pad(&mut self) {
		if self.out.len() % 2 == 1 { self.out.push(0); }
	}
	/// header, key, padding, value, padding; returns the position of wLength
	fn open(&mut self, wtype: u16, vlen: usize, key: &[u16], value: &[u16], has_children: bool) -> usize {
		let start = self.out.len();
		self.out.push(0);
		self.out.push(vlen as u16);
		self.out.push(wtype);
		self.out.extend_from_slice(key);
		self.out.push(0);
		if !(self.tight && value.is_empty() && !has_children) { self.pad(); }
		self.out.extend_from_slice(value);
		if !(self.tight && !has_children) { self.pad(); }
		start
	}
	fn close(&mut self, start: usize) {
		self.out[start] = ((self.out.len() - start) * 2) as u16;
	}
	fn between(&mut self, i: usize, n: usize) {
		if i + 1 < n || !self.tight { self.pad(); }
	}
	fn info(&mut self, vi: &Info) {
		let s0 = self.open(0, vi.fixed.len() * 2, &vi.key, &vi.fixed, !vi.blocks.is_empty());
		for (i, b) in vi.blocks.iter().enumerate() {
			match b {
				Block::Strings(ts) => {
					let s1 = self.open(1, 0, &w("StringFileInfo"), &[], !ts.is_empty());
					for (j, t) in ts.iter().enumerate() {
						let s2 = self.open(1, 0, &t.key, &[], !t.strings.is_empty());
						for (k, x) in t.strings.iter().enumerate() {
							let s3 = self.open(1, x.value.len(), &x.key, &x.value, false);
							self.close(s3);
							self.between(k, t.strings.len());
						}
						self.close(s2);
						self.between(j, ts.len());
					}
					self.close(s1);
				},
				Block::Vars(vs) => {
					let s1 = self.open(1, 0, &w("VarFileInfo"), &[], !vs.is_empty());
					for (j, x) in vs.iter().enumerate() {
						// an odd byte count: one more byte, stored as the low half of one more word
						let s2 = match x.odd {
							None => self.open(0, x.value.len() * 2, &x.key, &x.value, false),
							Some(b) => { let mut v = x.value.clone(); v.push(b); self.open(0, x.value.len() * 2 + 1, &x.key, &v, false) },
						};
						self.close(s2);
						self.between(j, vs.len());
					}
					self.close(s1);
				},
				Block::Other(k, c) => {
					let s1 = self.open(1, 0, k, &[], !c.is_empty());
					self.out.extend_from_slice(c);
					self.close(s1);
				},
			}
			self.between(i, vi.blocks.len());
		}
		self.close(s0);
	}
}

//---------------------------------------------------------------- generator

const LANGS: [&str; 8] = ["040904B0", "040904b0", "000004B0", "04090000", "0409fFfF", "AbCdEf01", "0a09A4Fa", "040904E4"];
const BADLANGS: [&str; 8] = ["040904B", "040904B00", "0409G4B0", "04:904B0", "0409`4b0", "@40904B0", "", "0409 4B0"];
const KEYS: [&str; 10] = ["CompanyName", "FileVersion", "A", "Ab", "Abc", "ProductName", "Comments", "K\u{e9}y", "\u{1F600}x", "Legal Copyright"];

fn gen_key(rng: &mut Rng) -> Vec<u16> {
	match rng.below(14) {
		0 => Vec::new(),
		1 => vec![0xD800, 0x41],        // unpaired high surrogate
		2 => vec![0x41, 0xDC00],        // unpaired low surrogate
		3 => (0..rng.range(1, 6)).map(|_| rng.range(0x20, 0x7e) as u16).collect(),
		_ => w(KEYS[rng.below(KEYS.len() as u64) as usize]),
	}
}
fn gen_value(rng: &mut Rng) -> Vec<u16> {
	let mut v: Vec<u16> = match rng.below(10) {
		0 => return Vec::new(),                         // absent value
		1 => Vec::new(),                                // only the terminator
		2 => vec![0x61, 0, 0x62],                       // embedded NUL
		3 => vec![0, 0x61],                             // leading NUL
		4 => vec![0xD83D, 0xDE00, 0xDC00, 0x22, 0x5c, 9, 10, 13],
		5 => (0..rng.range(1, 9)).map(|_| rng.range(1, 0xFFFF) as u16).collect(),
		_ => (0..rng.range(1, 9)).map(|_| rng.range(0x20, 0x7e) as u16).collect(),
	};
	match rng.below(8) {
		0 => {},                     // no terminator
		1 => { v.push(0); v.push(0); },
		_ => v.push(0),
	}
	v
}
fn gen_fixed(rng: &mut Rng) -> Vec<u16> {
	match rng.below(10) {
		0 | 1 => Vec::new(),
		2 => (0..*rng.pick(&[1u64, 2, 24, 25, 27, 28])).map(|_| rng.next() as u16).collect(),
		_ => {
			let mut f: Vec<u16> = vec![0x04BD, 0xFEEF, 0, 1];
			while f.len() < 26 {
				f.push(match rng.below(4) { 0 => 0, 1 => rng.below(20) as u16, 2 => 0xFFFF, _ => rng.next() as u16 });
			}
			f
		},
	}
}
fn gen_lang(rng: &mut Rng) -> Vec<u16> {
	if rng.chance(1, 6) { return w(BADLANGS[rng.below(8) as usize]); }
	let n = if rng.chance(1, 2) { 3 } else { 8 };
	w(LANGS[rng.below(n) as usize])
}
fn gen_info(rng: &mut Rng) -> Info {
	let key = match rng.below(8) { 0 => gen_key(rng), 1 => w("VS_VERSION_INF"), _ => w("VS_VERSION_INFO") };
	let fixed = gen_fixed(rng);
	let nblocks = match rng.below(8) { 0 => 0, 1 => 1, 2 => 3, 3 => 4, _ => 2 };
	let mut blocks = Vec::new();
	for i in 0..nblocks {
		let kind = if nblocks == 2 && rng.chance(3, 4) { i as u64 } else { rng.below(5) };
		blocks.push(match kind {
			0 | 3 => {
				let nt = match rng.below(6) { 0 => 0, 1 | 2 => 1, 3 | 4 => 2, _ => 3 };
				Block::Strings((0..nt).map(|_| {
					let ns = match rng.below(6) { 0 => 0, 1 => 1, _ => rng.range(1, 5) };
					Table { key: gen_lang(rng), strings: (0..ns).map(|_| Str { key: gen_key(rng), value: gen_value(rng) }).collect() }
				}).collect())
			},
			1 | 4 => {
				let nv = match rng.below(6) { 0 => 0, 1 => 2, _ => 1 };
				Block::Vars((0..nv).map(|_| {
					let k = if rng.chance(1, 5) { gen_key(rng) } else { w("Translation") };
					let n = match rng.below(6) { 0 => 0, 1 => 1, 2 => 3, 3 => 4, _ => 2 };
					let value = (0..n).map(|_| match rng.below(3) { 0 => 0x0409, 1 => 0x04B0, _ => rng.next() as u16 }).collect();
					let odd = if rng.chance(1, 6) { Some(if rng.chance(1, 2) { rng.byte() as u16 } else { rng.next() as u16 }) } else { None };
					Var { key: k, value, odd }
				}).collect())
			},
			_ => Block::Other(if rng.chance(1, 3) { gen_key(rng) } else { w(*rng.pick(&["StringFileInf", "VarFileInfo2", "Other", "stringfileinfo"])) },
				(0..rng.below(7)).map(|_| rng.below(12) as u16).collect()),
		});
	}
	Info { key, fixed, blocks }
}

fn gen_queries(rng: &mut Rng, vi: Option<&Info>) -> String {
	let mut qs: Vec<String> = Vec::new();
	let mut langs: Vec<Vec<u16>> = Vec::new();
	let mut keys: Vec<Vec<u16>> = Vec::new();
	if let Some(vi) = vi {
		for b in &vi.blocks {
			if let Block::Strings(ts) = b {
				for t in ts {
					langs.push(t.key.clone());
					for s in &t.strings { keys.push(s.key.clone()); }
				}
			}
		}
	}
	let n = rng.range(1, 3);
	for _ in 0..n {
		let lang = if !langs.is_empty() && rng.chance(4, 5) { langs[rng.below(langs.len() as u64) as usize].clone() } else { w(LANGS[rng.below(8) as usize]) };
		let lang = Language::parse(&lang).unwrap_or(Language { lang_id: 0x0409, charset_id: 0x04B0 });
		let key = if !keys.is_empty() && rng.chance(4, 5) { keys[rng.below(keys.len() as u64) as usize].clone() } else { gen_key(rng) };
		// the query key is a &str: pass it through String so that it is well-formed UTF-16
		let key: Vec<u16> = String::from_utf16_lossy(&key).encode_utf16().collect();
		qs.push(format!("{}:{}/{}", lang.lang_id, lang.charset_id, whex(&key)));
	}
	join(&qs, ",")
}

fn gen(rng: &mut Rng, _i: u64) -> String {
	let off = if rng.chance(9, 10) { 4 * rng.below(4) } else { rng.below(16) };
	let mask: u32 = match rng.below(8) { 0 => 1 << rng.below(6), 1 => rng.next() as u32 & rng.next() as u32, 2 => rng.next() as u32, _ => 0 };
	if rng.chance(1, 8) {
		// raw: plausible headers followed by noise
		let n = match rng.below(6) { 0 => rng.below(4), 1 => rng.below(10), _ => rng.below(60) } as usize;
		let mut ws: Vec<u16> = (0..n).map(|_| match rng.below(5) { 0 => 0, 1 => rng.below(40) as u16, 2 => rng.range(0x41, 0x5a) as u16, 3 => rng.below(300) as u16, _ => rng.next() as u16 }).collect();
		if n >= 4 && rng.chance(2, 3) {
			ws[0] = match rng.below(5) { 0 => (2 * n) as u16, 1 => (2 * n + 1) as u16, 2 => rng.below(2 * n as u64 + 4) as u16, 3 => 0, _ => (2 * n - 1) as u16 };
			ws[1] = match rng.below(4) { 0 => 0, 1 => 52, _ => rng.below(12) as u16 };
		}
		let mut bytes: Vec<u8> = ws.iter().flat_map(|w| w.to_le_bytes().to_vec()).collect();
		if rng.chance(1, 4) { bytes.push(rng.byte()); }
		return format!("raw off={} data={} mask={} q={}", off, hex(&bytes), mask, gen_queries(rng, None));
	}
	let vi = gen_info(rng);
	let tight = rng.chance(1, 2);
	let mut wr = Writer { out: Vec::new(), tight };
	wr.info(&vi);
	if rng.chance(1, 16) {
		// a complete, well-formed resource behind 1..4 leading zero words (or one junk word): the data begins with a block
		// of wLength 0 - nothing behind it is a VS_VERSIONINFO at the alignment the parser established, and a parser that
		// skipped ahead to it would cast its VS_FIXEDFILEINFO at an address that is 2 mod 4 for an odd number of words
		let k = rng.range(1, 4) as usize;
		let mut ws: Vec<u16> = vec![0u16; k];
		if rng.chance(1, 6) { ws[0] = 2; }
		ws.extend_from_slice(&wr.out);
		let bytes: Vec<u8> = ws.iter().flat_map(|w| w.to_le_bytes().to_vec()).collect();
		return format!("raw off={} data={} mask={} q={}", 4 * rng.below(4), hex(&bytes), mask, gen_queries(rng, Some(&vi)));
	}
	let len = wr.out.len();
	let mut muts: Vec<String> = Vec::new();
	if rng.chance(3, 10) {
		// positions of headers: a word that is followed by (vlen, type in {0,1}) is likely a wLength
		let heads: Vec<usize> = (0..len.saturating_sub(3)).filter(|&i| i % 2 == 0 && wr.out[i + 2] <= 1 && wr.out[i] as usize <= 2 * (len - i) && wr.out[i] >= 8).collect();
		for _ in 0..rng.range(1, 3) {
			let pos = if !heads.is_empty() && rng.chance(3, 4) { heads[rng.below(heads.len() as u64) as usize] + rng.below(2) as usize } else { rng.below(len as u64 + 1) as usize };
			let old = if pos < len { wr.out[pos] } else { 0 };
			let val = match rng.below(12) { 0 => 0, 1 => 1, 2 => 2, 3 => 3, 4 => old.wrapping_add(1), 5 => old.wrapping_sub(1), 6 => old.wrapping_add(2), 7 => old.wrapping_sub(2), 8 => 0xFFFF, 9 => old.wrapping_mul(2), 10 => old / 2, _ => rng.below(64) as u16 };
			muts.push(format!("{}:{}", pos, val));
		}
	}
	let cut = if rng.chance(1, 7) { rng.below(2 * len as u64 + 1) } else { 99999 };
	format!("vi off={} tight={} key={} fixed={} blocks={} muts={} cut={} mask={} q={}", off, tight as u8, whex(&vi.key), whex(&vi.fixed), show_blocks(&vi.blocks), join(&muts, ","), cut, mask, gen_queries(rng, Some(&vi)))
}

//---------------------------------------------------------------- observation

struct Rec { ev: Vec<String>, count: u32, mask: u32 }
impl Rec {
	fn answer(&mut self) -> bool {
		let r = (self.mask >> (self.count % 32)) & 1 == 0;
		self.count += 1;
		r
	}
}
fn fixed_words(f: &VS_FIXEDFILEINFO) -> Vec<u16> {
	unsafe { std::slice::from_raw_parts(f as *const VS_FIXEDFILEINFO as *const u16, 26) }.to_vec()
}
fn show_fixed(f: Option<&VS_FIXEDFILEINFO>) -> String {
	match f { Some(f) => whex(&fixed_words(f)), None => "n".to_string() }
}
impl<'a> Visit<'a> for Rec {
	fn version_info(&mut self, key: &'a [u16], fixed: Option<&'a VS_FIXEDFILEINFO>) -> bool {
		self.ev.push(format!("V.{}.{}", whex(key), show_fixed(fixed)));
		self.answer()
	}
	fn file_info(&mut self, key: &'a [u16]) -> bool {
		self.ev.push(format!("F.{}", whex(key)));
		self.answer()
	}
	fn string_table(&mut self, lang: &'a [u16]) -> bool {
		self.ev.push(format!("T.{}", whex(lang)));
		self.answer()
	}
	fn string(&mut self, key: &'a [u16], value: &'a [u16]) {
		self.ev.push(format!("S.{}.{}", whex(key), whex(value)));
	}
	fn var(&mut self, key: &'a [u16], value: &'a [u16]) {
		self.ev.push(format!("R.{}.{}", whex(key), whex(value)));
	}
	fn enter_scope(&mut self, depth: usize) {
		self.ev.push(format!("E{}", depth));
	}
	fn exit_scope(&mut self, depth: usize) {
		self.ev.push(format!("X{}", depth));
	}
}
fn show_langs(ls: &[Language]) -> String {
	join(&ls.iter().map(|l| format!("{}:{}", l.lang_id, l.charset_id)).collect::<Vec<_>>(), ";")
}

fn run(case: &str) -> String {
	let kind = case.split(' ').next().unwrap();
	let off: usize = field(case, "off").parse().unwrap();
	let mask: u32 = field(case, "mask").parse().unwrap();
	let bytes: Vec<u8> = if kind == "raw" { unhex(field(case, "data")) } else {
		let vi = Info { key: unwhex(field(case, "key")), fixed: unwhex(field(case, "fixed")), blocks: parse_blocks(field(case, "blocks")) };
		let mut wr = Writer { out: Vec::new(), tight: field(case, "tight") == "1" };
		wr.info(&vi);
		for m in split(field(case, "muts"), ',') {
			let (p, v) = m.split_once(':').unwrap();
			let p: usize = p.parse().unwrap();
			if p < wr.out.len() { wr.out[p] = v.parse().unwrap(); }
		}
		let mut bytes: Vec<u8> = wr.out.iter().flat_map(|w| w.to_le_bytes().to_vec()).collect();
		let cut: usize = field(case, "cut").parse().unwrap();
		bytes.truncate(cut);
		bytes
	};
	let buf = Aligned::new(&bytes, off);
	let vi = match VersionInfo::try_from(buf.bytes()) {
		Ok(vi) => vi,
		Err(e) => return format!("data={} tf={:?}", hex(&bytes), e),
	};
	let mut rec = Rec { ev: Vec::new(), count: 0, mask: 0 };
	vi.visit(&mut rec);
	let evm = if mask == 0 { "=".to_string() } else {
		let mut recm = Rec { ev: Vec::new(), count: 0, mask };
		vi.visit(&mut recm);
		join(&recm.ev, ",")
	};
	let fx = show_fixed(vi.fixed());
	let tr = show_langs(vi.translation());
	let mut qo: Vec<String> = Vec::new();
	for q in split(field(case, "q"), ',') {
		let (l, k) = q.split_once('/').unwrap();
		let (a, b) = l.split_once(':').unwrap();
		let lang = Language { lang_id: a.parse().unwrap(), charset_id: b.parse().unwrap() };
		let key = String::from_utf16(&unwhex(k)).expect("harness: query key must be well-formed");
		let val = match vi.value(lang, &key) { Some(s) => format!("s{}", whex(&s.encode_utf16().collect::<Vec<_>>())), None => "n".to_string() };
		let mut strs: Vec<String> = Vec::new();
		vi.strings(lang, |k, v| strs.push(format!("{}:{}", whex(&k.encode_utf16().collect::<Vec<_>>()), whex(&v.encode_utf16().collect::<Vec<_>>()))));
		qo.push(format!("{}/{}", val, strs.join("|")));
	}
	let fi = vi.file_info();
	let mut langs: Vec<(&Language, &std::collections::HashMap<String, String>)> = fi.strings.iter().collect();
	langs.sort_by_key(|(l, _)| (l.lang_id, l.charset_id));
	let fis: Vec<String> = langs.iter().map(|(l, m)| {
		let mut kv: Vec<(Vec<u16>, Vec<u16>)> = m.iter().map(|(k, v)| (k.encode_utf16().collect(), v.encode_utf16().collect())).collect();
		kv.sort();
		let mut s = format!("{}:{}", l.lang_id, l.charset_id);
		for (k, v) in kv { s.push_str(&format!("|{}:{}", whex(&k), whex(&v))); }
		s
	}).collect();
	let src: Vec<u16> = vi.source_code().encode_utf16().collect();
	format!("data={} tf=ok ev={} evm={} fx={} tr={} q={} fi={}/{}/{} src={}", hex(&bytes), join(&rec.ev, ","), evm, fx, tr, join(&qo, ","),
		show_fixed(fi.fixed), show_langs(fi.langs), fis.join(";"), if src.is_empty() { "-".to_string() } else { whex(&src) })
}

fn main() {
	harness_main(gen, run);
}
