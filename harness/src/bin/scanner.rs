//! C10: the pattern scanner (Matches::next, Scanner::finds) - implementation side.
//! Observation: every call of Matches::next until the first false (and one call more), with range().start,
//! hits() and the save array after each call; Scanner::finds; and, as an oracle that does not depend on any model,
//! the set of positions at which the implementation's own Scanner::exec succeeds.
use pelite::pattern::Atom;
use pelite::pe32;
use pelite::pe64;
use pvh::pe::*;
use pvh::*;

const FILL: u32 = 0x5555_5555;

fn atoms_text(a: &[Atom]) -> String {
	let v: Vec<String> = a.iter().map(|x| format!("{:?}", x).replace('(', ":").replace(')', "")).collect();
	join(&v, ",")
}
fn parse_atoms(s: &str) -> Vec<Atom> {
	split(s, ',').iter().map(|t| {
		let mut it = t.split(':'); let name = it.next().unwrap(); let arg: u8 = it.next().map(|x| x.parse().unwrap()).unwrap_or(0);
		match name {
			"Byte" => Atom::Byte(arg), "Save" => Atom::Save(arg), "Push" => Atom::Push(arg), "Pop" => Atom::Pop, "Fuzzy" => Atom::Fuzzy(arg), "Skip" => Atom::Skip(arg),
			"Back" => Atom::Back(arg), "Rangext" => Atom::Rangext(arg), "Many" => Atom::Many(arg), "Jump1" => Atom::Jump1, "Jump4" => Atom::Jump4, "Ptr" => Atom::Ptr,
			"Pir" => Atom::Pir(arg), "VTypeName" => Atom::VTypeName, "Check" => Atom::Check(arg), "Aligned" => Atom::Aligned(arg), "ReadI8" => Atom::ReadI8(arg),
			"ReadU8" => Atom::ReadU8(arg), "ReadI16" => Atom::ReadI16(arg), "ReadU16" => Atom::ReadU16(arg), "ReadI32" => Atom::ReadI32(arg), "ReadU32" => Atom::ReadU32(arg),
			"Zero" => Atom::Zero(arg), "Case" => Atom::Case(arg), "Break" => Atom::Break(arg), _ => Atom::Nop,
		}
	}).collect()
}

// ---------------------------------------------------------------- generator

/// a pattern with a literal prefix of `plen` bytes over `alpha`, transparent atoms sprinkled in, and a tail;
/// returns the atoms and one byte string that satisfies them (None where any byte does)
fn gen_pattern(rng: &mut Rng, plen: usize, alpha: &[u8], pe64: bool, base: u64) -> (Vec<Atom>, Vec<Option<u8>>) {
	let mut atoms = Vec::new();
	let mut real: Vec<Option<u8>> = Vec::new();
	let mut slot = 1u8;
	if !rng.chance(1, 12) { atoms.push(Atom::Save(0)); }
	let same = rng.chance(1, 6);
	let b0 = *rng.pick(alpha);
	for k in 0..plen {
		match rng.below(14) {
			0 => { atoms.push(Atom::Save(slot)); slot += 1; },
			1 => atoms.push(Atom::Nop),
			2 if k == 0 => atoms.push(Atom::Aligned(*rng.pick(&[0u8, 0, 1, 2]))),
			_ => {},
		}
		let b = if same { b0 } else { *rng.pick(alpha) };
		atoms.push(Atom::Byte(b));
		real.push(Some(b));
	}
	// what ends the prefix
	match rng.below(11) {
		0 | 1 | 2 => {},
		10 => { // an absolute pointer behind the prefix: followed (and returned from) when it is a VA inside the image.
			// Half of the planted values are NOT such pointers: the high dword is off by a multiple of 2^32 (PE32+), or the
			// value lies below the base / beyond SizeOfImage - a translation that compares a truncated difference accepts them
			atoms.push(Atom::Push(0)); atoms.push(Atom::Ptr); atoms.push(Atom::Save(slot)); slot += 1; atoms.push(Atom::Pop);
			let good = base.wrapping_add(0x1000 + rng.below(0x40));
			let v: u64 = match rng.below(6) {
				0 | 1 | 2 => good,
				3 if pe64 => good.wrapping_add((1 + rng.below(3)) << 32),
				4 if pe64 => good.wrapping_sub(1 << 32),
				3 | 4 => base.wrapping_sub(0x10),
				_ => base.wrapping_add(0x7000_0000),
			};
			let bytes = if pe64 { v.to_le_bytes().to_vec() } else { (v as u32).to_le_bytes().to_vec() };
			for b in bytes { real.push(Some(b)); }
		},
		3 | 4 => { // a wildcard and more literal bytes
			let k = rng.range(1, 3) as u8;
			atoms.push(Atom::Skip(k));
			for _ in 0..k { real.push(None); }
			for _ in 0..rng.range(1, 3) { let b = *rng.pick(alpha); atoms.push(Atom::Byte(b)); real.push(Some(b)); }
		},
		5 => { // masked byte
			let b = *rng.pick(alpha);
			atoms.push(Atom::Fuzzy(0xf0)); atoms.push(Atom::Byte(b)); real.push(Some(b));
		},
		6 => { // capture a byte, then a literal
			atoms.push(Atom::ReadU8(slot)); slot += 1; real.push(None);
			let b = *rng.pick(alpha); atoms.push(Atom::Byte(b)); real.push(Some(b));
		},
		7 => { // bounded search for a byte
			let b = *rng.pick(alpha);
			atoms.push(Atom::Many(rng.range(1, 6) as u8)); atoms.push(Atom::Byte(b)); real.push(Some(b));
		},
		8 => { // relative jump: the byte after the prefix is a displacement
			atoms.push(Atom::Push(1)); atoms.push(Atom::Jump1); atoms.push(Atom::Save(slot)); slot += 1; atoms.push(Atom::Pop); real.push(Some(rng.below(8) as u8));
		},
		_ => { // atoms that READ the save array (outside what finds is stated for)
			if rng.chance(1, 2) { atoms.push(Atom::Check(0)); } else { atoms.push(Atom::Skip(1)); real.push(None); atoms.push(Atom::Check(0)); }
		},
	}
	if rng.chance(1, 5) { atoms.push(Atom::Save(slot)); }
	(atoms, real)
}

fn realize(rng: &mut Rng, real: &[Option<u8>], alpha: &[u8]) -> Vec<u8> {
	real.iter().map(|x| x.unwrap_or_else(|| if rng.chance(1, 2) { *rng.pick(alpha) } else { rng.byte() })).collect()
}

fn gen(rng: &mut Rng, i: u64) -> String {
	// every 8th case belongs to the VirtualSize / SizeOfRawData boundary stream: a file view whose sections have
	// VirtualSize < SizeOfRawData (stored bytes that are not mapped) or VirtualSize > SizeOfRawData (virtual-only tail) by a
	// small amount, matches planted across and beyond VA+VirtualSize, ranges that start or end at that boundary
	let vsmode = i % 8 == 5;
	let pe64 = rng.chance(1, 2);
	let file = rng.chance(3, 5) || vsmode;
	let wrap = rng.chance(1, 3);
	let e_lfanew = 0x80u32;
	let mut spec = ImgSpec { pe64, e_lfanew, soh: 0x400, soi: 0, image_base: if pe64 { 0x1_4000_0000 } else { 0x40_0000 }, nrva: 16, dirs: vec![(0, 0); 16], opt_size: 0, nsec_field: 0, secs: Vec::new(), checksum: 0, magic: if pe64 { 0x20b } else { 0x10b } };
	spec.opt_size = spec.std_opt_size();

	// ---- pattern
	let alpha_all: [u8; 6] = [0x41, 0x42, 0x43, 0x00, 0xff, 0x90];
	let na = rng.range(1, 4) as usize;
	let alpha: Vec<u8> = (0..na).map(|_| *rng.pick(&alpha_all)).collect();
	let plen = match rng.below(12) { 0 | 1 => 0, 2 => 1, 3 => 2, 4 => 3, 5 | 6 => 4, 7 => rng.range(5, 9) as usize, 8 => 15, 9 => 16, 10 => 17, _ => rng.range(4, 20) as usize };
	let (atoms, real) = gen_pattern(rng, plen, &alpha, pe64, spec.image_base);
	let qslen = plen.min(16);

	// ---- sections
	let malformed = rng.chance(1, 10) && !vsmode;
	let mut secs: Vec<Sec> = Vec::new();
	let mut len: usize;
	if malformed {
		len = 0x1000;
		secs = gen_sections(rng, len as u32, 0x400);
		for s in secs.iter_mut() { if s.srd > 0x2000 && s.srd < 0xFFFF_0000 { s.srd = 0x200; } }
		if rng.chance(1, 4) { // a section reaching 2^32 whose raw data is present in the file (F9: base + slice.len())
			if rng.chance(1, 2) { secs.clear(); }
			secs.push(Sec { name: *b".hi\0\0\0\0\0", va: 0xFFFF_F000, vs: *rng.pick(&[0x800u32, 0xfff, 0x1000]), prd: 0x400, srd: *rng.pick(&[0x1000u32, 0x2000, 0xfff]), chars: 0x6000_0020 });
			len = 0x2400;
		}
	}
	else {
		let n = match rng.below(8) { 0 => 1, 1 | 2 => 2, 3 => 4, _ => 3 } as usize;
		let mut va = 0x1000u32;
		let mut prd = 0x400u32;
		for i in 0..n {
			let srd = *rng.pick(&[0u32, 0x13, 0x40, 0x80, 0x100, 0x100, 0x180, 0x200]);
			let mut vs = match rng.below(6) { 0 => srd, 1 => srd + rng.range(1, 0x300) as u32, 2 => srd.saturating_sub(rng.range(1, 0x30) as u32), 3 => srd + 0x1000, _ => srd + rng.below(0x20) as u32 };
			let mut srd = srd;
			if vsmode {
				srd = *rng.pick(&[0x40u32, 0x80, 0x100, 0x180]);
				vs = match rng.below(6) { 0 | 1 | 2 => srd - rng.range(1, 0x30) as u32, 3 => srd + rng.range(1, 0x30) as u32, 4 => srd + 0x1000, _ => srd - 1 };
			}
			let mut s = Sec { name: [0; 8], va, vs, prd: if file { prd } else { va }, srd, chars: 0x6000_0020 };
			let nm = format!(".s{}", i);
			s.name[..nm.len()].copy_from_slice(nm.as_bytes());
			if i > 0 && rng.chance(1, 16) { let p = &secs[i - 1]; s.va = p.va + rng.below(0x60) as u32; } // overlapping virtual ranges
			secs.push(s);
			va = (va + vs.max(srd).max(1) + 0xfff) & !0xfff;
			if rng.chance(1, 8) { va += 0x1000; }
			prd += srd;
			if rng.chance(1, 4) { prd = (prd + 0x1ff) & !0x1ff; }
		}
		if n > 1 && !vsmode && rng.chance(1, 10) { let i = rng.below(n as u64) as usize; let j = rng.below(n as u64) as usize; secs.swap(i, j); } // F28
		len = if file { prd as usize } else { va as usize };
		if file && rng.chance(1, 12) { len = len.saturating_sub(rng.range(1, 0x40) as usize).max(0x400); } // raw data partly outside the file
		if !file && rng.chance(1, 6) { len = len.saturating_sub(rng.range(1, 0x1100) as usize).max(0x1000); } // mapped image shorter than its sections
	}
	spec.secs = secs.clone();
	spec.nsec_field = secs.len() as u16;
	let hdr_end = spec.hdr_end();
	len = len.max(hdr_end).max(0x400);
	spec.soi = secs.iter().map(|s| s.va.wrapping_add(s.vs.max(s.srd))).filter(|e| *e < 0x100_0000).max().unwrap_or(0x1000).max(0x1000);

	// ---- content: a background that keeps the skip table busy, and planted matches
	let mut pokes: Vec<(usize, Vec<u8>)> = Vec::new();
	let mut planted: Vec<u32> = Vec::new(); // rvas
	let bg = rng.below(4);
	let mut regions: Vec<(usize, usize, u32, usize)> = Vec::new(); // (buffer offset, length, rva of first byte, VirtualSize)
	for s in &secs {
		let off = if file { s.prd as usize } else { s.va as usize };
		let n = (s.srd as usize).min(0x800);
		if off >= hdr_end && off < len && n > 0 { regions.push((off, n.min(len - off), s.va, s.vs as usize)); }
	}
	for &(off, n, rva, vsz) in &regions {
		let mut buf: Vec<u8> = match bg {
			0 => (0..n).map(|_| *rng.pick(&alpha)).collect(),                                     // only pattern bytes: many partial matches
			1 => (0..n).map(|_| if rng.chance(3, 4) { *rng.pick(&alpha) } else { rng.byte() }).collect(),
			2 => vec![alpha[0]; n],                                                               // one repeated byte
			_ => (0..n).map(|k| pattern(7, off + k)).collect(),
		};
		// planted realisations: start, end, around the end, overlapping, adjacent, random
		let m = real.len().max(1);
		let mut at: Vec<i64> = Vec::new();
		if vsmode { // around VA+VirtualSize: straddling it, ending at it, starting at it, in the stored bytes beyond it
			for _ in 0..rng.range(2, 5) {
				at.push(match rng.below(6) {
					0 => vsz as i64 - rng.below(m as u64 + 1) as i64,
					1 => vsz as i64 - m as i64,
					2 => vsz as i64 - qslen as i64 + rng.below(2) as i64,
					3 => vsz as i64 + rng.below(3) as i64,
					4 if vsz < n => vsz as i64 + rng.below((n - vsz) as u64) as i64,
					_ => rng.below(n as u64) as i64,
				});
			}
		}
		for _ in 0..rng.range(1, 6) {
			at.push(match rng.below(9) {
				0 => 0,
				1 => n as i64 - m as i64,
				2 => n as i64 - qslen as i64,
				3 => n as i64 - qslen as i64 + 1,
				4 => n as i64 - 1,
				5 => n as i64 - m as i64 - 1,
				6 if !at.is_empty() => at[at.len() - 1] + rng.range(1, m as u64) as i64,   // overlapping / adjacent
				_ => rng.below(n as u64) as i64,
			});
		}
		for a in at {
			if a < 0 || a as usize >= n { continue; }
			let r = realize(rng, &real, &alpha);
			for (k, b) in r.iter().enumerate() { if a as usize + k < n { buf[a as usize + k] = *b; } }
			planted.push(rva.wrapping_add(a as u32));
		}
		pokes.push((off, buf));
	}
	let img = Image { len, fill: rng.range(1, 999) as u32, hdr: scrambled_header(&spec, rng), pokes };

	// ---- range
	let mut edges: Vec<i64> = vec![0, 0x1000, spec.soi as i64, len as i64];
	for s in &secs { for e in &[s.va as i64, s.va as i64 + s.srd as i64, s.va as i64 + s.vs as i64] { edges.push(*e); } }
	for p in &planted { edges.push(*p as i64); edges.push(*p as i64 + qslen as i64); edges.push(*p as i64 + real.len() as i64); }
	let edge = |rng: &mut Rng| -> u32 { let e = *rng.pick(&edges) + rng.range(0, 4) as i64 - 2; e.max(0).min(0xFFFF_FFFF) as u32 };
	let (rstart, rend): (u32, u32) = if secs.is_empty() { (0, spec.soi) } else {
		let s = rng.pick(&secs).clone();
		if vsmode && rng.chance(3, 4) {
			let lo = s.va + s.vs.min(s.srd); let hi = s.va + s.vs.max(s.srd);
			let a = match rng.below(6) { 0 => s.va, 1 => lo - rng.below(3) as u32, 2 => lo + rng.below(3) as u32, 3 => lo.saturating_sub(real.len() as u32 + rng.below(3) as u32), 4 => hi - rng.below(3) as u32, _ => s.va + rng.below(s.srd as u64) as u32 };
			let b = match rng.below(6) { 0 => 0xFFFF_FFFF, 1 => hi + 0x20, 2 => lo + rng.below(3) as u32, 3 => hi, 4 => spec.soi, _ => lo - rng.below(3) as u32 };
			(a, b)
		} else {
		match rng.below(16) {
			0 | 1 => (s.va, s.va.wrapping_add(s.vs)),                                   // like code_range
			2 => (s.va, s.va.wrapping_add(s.srd)),
			3 => (0, spec.soi),
			4 => (0, 0xFFFF_FFFF),
			5 => { let a = edge(rng); (a, a) },                                         // empty
			6 => { let a = edge(rng); let b = edge(rng); (a.max(b), a.min(b)) },        // reversed (or empty)
			7 => (s.va.wrapping_add(s.srd).wrapping_add(rng.below(8) as u32), s.va.wrapping_add(s.vs.max(s.srd)).wrapping_add(0x2000)), // starts in the virtual-only tail
			8 => (spec.soi.wrapping_add(rng.below(0x100) as u32), spec.soi.wrapping_add(0x1000)),    // beyond the image
			9 => (len as u32 + rng.below(4) as u32, 0xFFFF_FFFF),
			11 => (s.va.wrapping_sub(rng.below(3) as u32), 0xFFFF_FFFF - rng.below(2) as u32),
			10 => (secs[0].va.wrapping_add(rng.below(0x40) as u32), secs[secs.len() - 1].va.wrapping_add(rng.below(0x100) as u32)), // cross-section
			_ => { let a = edge(rng); let b = edge(rng); (a.min(b), a.max(b)) },
		}
		}
	};
	// one case in four goes through matches_code / finds_code: the range is then written into the header as
	// BaseOfCode / SizeOfCode (Headers::code_range = BaseOfCode .. BaseOfCode.wrapping_add(SizeOfCode)) and must give
	// exactly what matches(pat, rstart..rend) / finds(pat, rstart..rend) give
	let code = rng.chance(1, 4) && spec.opt_size as usize >= 24;
	let mut img = img;
	if code {
		let o = spec.e_lfanew as usize + 24;
		img.pokes.push((o + 20, rstart.to_le_bytes().to_vec()));
		img.pokes.push((o + 4, rend.wrapping_sub(rstart).to_le_bytes().to_vec()));
	}
	let save_len = pelite::pattern::save_len(&atoms);
	let slots = match rng.below(8) { 0 => 0, 1 => 1, 2 => save_len + 2, _ => save_len.max(1) };
	let maxn = *rng.pick(&[3u32, 8, 40, 40, 40]);
	// sweep windows for the exec oracle
	let mut wins: Vec<String> = vec![format!("0:{}", (len as u32).min(0x4000))];
	for s in &secs { wins.push(format!("{}:{}", s.va, (s.va as u64 + (s.vs.max(s.srd) as u64).min(0x1000) + 0x20).min(0xFFFF_FFFF))); }
	format!("scan fmt={} file={} wrap={} {} soh={} soi={} base={} secs={} atoms={} rstart={} rend={} slots={} maxn={} wins={} code={}",
		if pe64 { 64 } else { 32 }, file as u8, wrap as u8, img.encode(), spec.soh, spec.soi, spec.image_base, secs_field(&spec.secs),
		atoms_text(&atoms), rstart, rend, slots, maxn, wins.join(";"), code as u8)
}

// ---------------------------------------------------------------- implementation side

fn saves(s: &[u32]) -> String { join(s, ",") }

macro_rules! observe {
	($scanner:expr, $atoms:expr, $rstart:expr, $rend:expr, $slots:expr, $maxn:expr, $sweep:expr, $code:expr) => {{
		let scanner = $scanner;
		let atoms: &[Atom] = $atoms;
		let mut out = String::new();
		// 1. the iteration
		let mut recs: Vec<String> = Vec::new();
		let mut save = vec![FILL; $slots];
		let mut matches = if $code { scanner.matches_code(atoms) } else { scanner.matches(atoms, $rstart..$rend) };
		let mut falses = 0;
		for _ in 0..$maxn {
			let ok = matches.next(&mut save);
			let mut rec = format!("{}:{}:{}:{}", ok as u8, matches.range().start, matches.hits(), saves(&save));
			if ok && $slots > 0 {
				let mut fresh = vec![FILL; $slots];
				let fok = scanner.exec(save[0], atoms, &mut fresh);
				rec.push_str(&format!(":{}:{}", fok as u8, saves(&fresh)));
			}
			else { rec.push_str(":-:-"); }
			recs.push(rec);
			if !ok { falses += 1; if falses == 2 { break; } }
		}
		out.push_str(&format!("m={} end={}", recs.join("/"), matches.range().end));
		// 2. finds
		let mut save2 = vec![FILL; $slots];
		let f = if $code { scanner.finds_code(atoms, &mut save2) } else { scanner.finds(atoms, $rstart..$rend, &mut save2) };
		out.push_str(&format!(" finds={}:{}", f as u8, saves(&save2)));
		// 3. the exec oracle
		let mut xs: Vec<u32> = Vec::new();
		for c in $sweep {
			let mut fresh = vec![FILL; $slots];
			if scanner.exec(c, atoms, &mut fresh) { xs.push(c); }
		}
		out.push_str(&format!(" X={}", join(&xs, ",")));
		out
	}};
}

fn sweep_positions(case: &str, rstart: u32, rend: u32) -> Vec<u32> {
	let mut v: Vec<u32> = Vec::new();
	for w in split(field(case, "wins"), ';') {
		let mut it = w.split(':');
		let lo: u64 = it.next().unwrap().parse().unwrap();
		let hi: u64 = it.next().unwrap().parse().unwrap();
		let lo = lo.max(rstart as u64);
		let hi = hi.min(rend as u64).min(lo + 0x4000);
		let mut c = lo;
		while c < hi { v.push(c as u32); c += 1; }
	}
	v.sort();
	v.dedup();
	v
}

fn run(case: &str) -> String {
	let img = Image::decode(case);
	let bytes = img.bytes();
	let buf = Aligned::new(&bytes, 0);
	let b = buf.bytes();
	let atoms = parse_atoms(field(case, "atoms"));
	let rstart: u32 = field(case, "rstart").parse().unwrap();
	let rend: u32 = field(case, "rend").parse().unwrap();
	let slots: usize = field(case, "slots").parse().unwrap();
	let maxn: u32 = field(case, "maxn").parse().unwrap();
	let file = field(case, "file") == "1";
	let wrap = field(case, "wrap") == "1";
	let sweep = sweep_positions(case, rstart, rend);
	let code = case.contains(" code=1");
	let r: Result<String, pelite::Error> = match (wrap, field(case, "fmt"), file) {
		(true, _, true) => pelite::PeFile::from_bytes(b).map(|f| observe!(f.scanner(), &atoms, rstart, rend, slots, maxn, sweep.iter().cloned(), code)),
		(true, _, false) => pelite::PeView::from_bytes(b).map(|f| observe!(f.scanner(), &atoms, rstart, rend, slots, maxn, sweep.iter().cloned(), code)),
		(false, "32", true) => { use pe32::Pe; pe32::PeFile::from_bytes(b).map(|f| observe!(f.scanner(), &atoms, rstart, rend, slots, maxn, sweep.iter().cloned(), code)) },
		(false, "32", false) => { use pe32::Pe; pe32::PeView::from_bytes(b).map(|f| observe!(f.scanner(), &atoms, rstart, rend, slots, maxn, sweep.iter().cloned(), code)) },
		(false, _, true) => { use pe64::Pe; pe64::PeFile::from_bytes(b).map(|f| observe!(f.scanner(), &atoms, rstart, rend, slots, maxn, sweep.iter().cloned(), code)) },
		(false, _, false) => { use pe64::Pe; pe64::PeView::from_bytes(b).map(|f| observe!(f.scanner(), &atoms, rstart, rend, slots, maxn, sweep.iter().cloned(), code)) },
	};
	match r {
		Ok(s) => s,
		Err(e) => format!("!ctor {:?}", e),
	}
}

fn main() {
	harness_main(gen, run);
}
