//! C16: Rich header — implementation side. The DOS area is built by an independent writer.
use pelite::pe64::{Pe, PeFile};
use pelite::rich_structure::RichRecord;
use pvh::pe::*;
use pvh::*;

const DANS: u32 = 0x536e6144;
const RICH: u32 = 0x68636952;

/// independent implementation of the documented checksum formula
fn rich_checksum(stub: &[u32], recs: &[(u16, u16, u32)]) -> u32 {
	let mut c: u32 = (stub.len() * 4) as u32;
	for (j, d) in stub.iter().enumerate() {
		let d = if j == 15 { 0 } else { *d };
		for k in 0..4 {
			let b = (d >> (8 * k)) & 0xff;
			c = c.wrapping_add(b.rotate_left((4 * j + k) as u32));
		}
	}
	for (build, product, count) in recs {
		c = c.wrapping_add((((*product as u32) << 16) | *build as u32).rotate_left(*count));
	}
	c
}

fn gen(rng: &mut Rng, _i: u64) -> String {
	if rng.chance(1, 8) {
		let key = if rng.chance(1, 6) { 0 } else { rng.next() as u32 };
		return format!("codec key={} v0={} v1={} build={} product={} count={}", key, rng.next() as u32, rng.next() as u32, rng.next() as u16, rng.next() as u16,
			match rng.below(4) { 0 => 0, 1 => 0xFFFF_FFFF, _ => rng.next() as u32 });
	}
	// ---- small e_lfanew: the NT headers overlap the DOS header.  PeFile::from_bytes accepts every multiple of 4 from 0x10 on
	// for which the e_lfanew field falls on a header field that is not validated (0x24 would put it on the optional header
	// magic, 0x3c on the PE signature); rich_structure() then sees fewer than 16 dwords and must answer Invalid at the first
	// test of its padding loop (`end < 16`), before `image[end - 1]`, `image[end - 2]` or `end - 6` are evaluated.
	if rng.chance(1, 10) {
		let el = *rng.pick(&[0x10u32, 0x14, 0x18, 0x1c, 0x20, 0x28, 0x2c, 0x30, 0x34, 0x38]);
		let spec = ImgSpec { pe64: true, e_lfanew: el, soh: 0, soi: 0x1000, image_base: 0x1_4000_0000, nrva: 0, dirs: vec![], opt_size: 112, nsec_field: 0, secs: vec![], checksum: 0, magic: 0x20b };
		let mut bytes = spec.header_bytes();
		// the header writer wrote e_lfanew first and the NT fields over it: write it again (Machine / SizeOfOptionalHeader /
		// a size field now holds the value, none of which validate_headers rejects with no sections)
		bytes[60..64].copy_from_slice(&el.to_le_bytes());
		let n = (el / 4) as usize;
		// what the dword scan would look at if the guard were missing: non-zero dwords, sometimes a Rich marker and key in
		// the last two dwords and a DanS header before them
		let key = rng.next() as u32 | 1;
		let style = rng.below(4);
		for i in 1..n {
			let w: u32 = match style {
				0 => 0,
				1 if i == n - 2 => RICH,
				1 if i == n - 1 => key,
				1 if i + 6 == n => DANS ^ key,
				1 if i + 6 > n && i + 2 < n => key,
				_ => rng.next() as u32 | 0x100,
			};
			bytes[4 * i..4 * i + 4].copy_from_slice(&w.to_le_bytes());
		}
		return format!("rich img={} expect=any key=0 nstub=0 recs=- extra=0", hex(&bytes));
	}
	// ---- DOS area
	// (one in fifteen: a DOS area around and beyond one page - e_lfanew above 0x1000; validate_headers allows up to 16 MiB)
	let stub_len = if rng.chance(1, 15) { *rng.pick(&[1010usize, 1016, 1017, 1018, 1020, 1024, 1025, 1100, 2050]) } else { (match rng.below(6) { 0 => 16, 1 => 17, 2 => 32, 3 => 64, _ => rng.range(16, 70) }) as usize };
	let mut stub: Vec<u32> = (0..stub_len).map(|_| if rng.chance(1, 4) { 0 } else { rng.next() as u32 }).collect();
	stub[0] = (stub[0] & 0xFFFF_0000) | 0x5A4D;
	let nrec = match rng.below(10) { 0 => 0, 1 => 1, 2 => rng.range(30, 60), _ => rng.range(1, 9) } as usize;
	let recs: Vec<(u16, u16, u32)> = (0..nrec).map(|_| (
		match rng.below(5) { 0 => 0, 1 => 0xFFFF, 2 => 0x8000 | rng.next() as u16, _ => rng.next() as u16 },
		match rng.below(5) { 0 => 0, 1 => 0xFFFF, _ => rng.below(0x110) as u16 },
		match rng.below(8) { 0 => 0, 1 => 32, 2 => 31, 3 => 64, 4 => 0xFFFF_FFFF, 5 => 0x8000_0000, _ => rng.below(500) as u32 },
	)).collect();
	let npad = match rng.below(5) { 0 => 0, 1 => 1, 2 => 3, _ => rng.below(8) } as usize;
	let total = stub_len + 2 * nrec + 6 + npad;
	stub[15] = (total * 4) as u32;
	let mode = rng.below(16);
	let key = match mode {
		0 => rng.next() as u32,          // arbitrary key, not the checksum
		1 => 0,                          // key zero (known class)
		_ => rich_checksum(&stub, &recs),
	};
	let mut recs = recs;
	if mode == 2 && nrec >= 2 {
		// known class F20: plant records that encode to DanS^k,k | k,k
		let j = rng.below(nrec as u64 - 1) as usize;
		recs[j] = (0x6144, 0x536e, 0);
		recs[j + 1] = (0, 0, 0);
	}
	if mode == 3 && nrec >= 2 {
		// NOT in the class: a near miss of the header pattern - three of the four words match, one does not.
		// The backward scan must compare all four and walk past it.
		let j = rng.below(nrec as u64 - 1) as usize;
		let odd = rng.range(1, 0xFFFF_FFFF) as u32;
		match rng.below(4) {
			0 => { recs[j] = (0x6144, 0x536e, 0); recs[j + 1] = (0, 0, odd); },                       // DanS^k, k, k, *
			1 => { recs[j] = (0x6144, 0x536e, 0); recs[j + 1] = (odd as u16 | 1, (odd >> 16) as u16, 0); }, // DanS^k, k, *, k
			2 => { recs[j] = (0x6144, 0x536e, odd); recs[j + 1] = (0, 0, 0); },                       // DanS^k, *, k, k
			_ => { recs[j] = (0x6145, 0x536e, 0); recs[j + 1] = (0, 0, 0); },                         // *, k, k, k
		}
	}
	// the key of a round-trip case is the checksum of the records actually written
	let key = if mode == 3 { rich_checksum(&stub, &recs) } else { key };
	let mut words: Vec<u32> = Vec::new();
	words.extend_from_slice(&stub);
	words.push(DANS ^ key); words.push(key); words.push(key); words.push(key);
	for (b, p, c) in &recs { words.push((((*p as u32) << 16) | *b as u32) ^ key); words.push(*c ^ key); }
	words.push(RICH); words.push(key);
	for _ in 0..npad { words.push(0); }
	let mut expect = if mode == 0 { "decode" } else { "roundtrip" };
	// ---- malformed stream
	match rng.below(14) {
		0 => { let k = stub_len + 4 + 2 * nrec; words[k] = RICH ^ 1; expect = "any"; },                 // no Rich marker
		1 => { words[stub_len] ^= 0x100; expect = "any"; },                                               // no DanS
		2 => { words.insert(stub_len + 4, rng.next() as u32 | 1); words.pop(); if npad == 0 { words.push(0); } expect = "any"; }, // odd distance
		3 => { for w in words.iter_mut().skip(16) { *w = 0; } expect = "any"; },                          // all zero
		4 => { let k = words.len() - 1; words[k] = rng.next() as u32 | 1; expect = "any"; },             // junk instead of padding end
		5 => {},  // (was: "e_lfanew elsewhere" - the image was no PE any more and the case ran with its oracle switched off; audit F12)
		_ => {},
	}
	// ---- wrap into a PE32+ image: NT headers right after the DOS area
	let e_lfanew = (total * 4) as u32;
	let spec = ImgSpec { pe64: true, e_lfanew, soh: 0, soi: 0x1000, image_base: 0x1_4000_0000, nrva: 0, dirs: vec![], opt_size: 112, nsec_field: 0, secs: vec![], checksum: 0, magic: 0x20b };
	let mut bytes = spec.header_bytes();
	for (i, w) in words.iter().enumerate() {
		if 4 * i + 4 <= e_lfanew as usize && !(i == 15) {
			bytes[4 * i..4 * i + 4].copy_from_slice(&w.to_le_bytes());
		}
	}
	if expect == "any" && words[15] != e_lfanew { expect = "skip"; } // the image would not be a PE any more
	let extra = *rng.pick(&[0usize, 0, 1, 2, 3, 5]);
	format!("rich img={} expect={} key={} nstub={} recs={} extra={}", hex(&bytes), expect, key, stub_len,
		join(&recs.iter().map(|(b, p, c)| format!("{}:{}:{}", b, p, c)).collect::<Vec<_>>(), ","), extra)
}

fn run(case: &str) -> String {
	let kind = case.split(' ').next().unwrap();
	if kind == "codec" {
		let key: u32 = field(case, "key").parse().unwrap();
		let v0: u32 = field(case, "v0").parse().unwrap();
		let v1: u32 = field(case, "v1").parse().unwrap();
		let d = RichRecord::decode(key, &[v0, v1]);
		let e = d.encode(key);
		let r = RichRecord { build: field(case, "build").parse().unwrap(), product: field(case, "product").parse().unwrap(), count: field(case, "count").parse().unwrap() };
		let e2 = r.encode(key);
		let d2 = RichRecord::decode(key, &e2);
		return format!("dec={}:{}:{} reenc={}:{} enc={}:{} redec={}:{}:{}", d.build, d.product, d.count, e[0], e[1], e2[0], e2[1], d2.build, d2.product, d2.count);
	}
	let bytes = unhex(field(case, "img"));
	let buf = Aligned::new(&bytes, 0);
	let b = buf.bytes();
	let file = match PeFile::from_bytes(b) { Ok(f) => f, Err(e) => return format!("!ctor {:?}", e) };
	match file.rich_structure() {
		Err(e) => format!("res={:?}", e),
		Ok(rs) => {
			let off = (rs.image().as_ptr() as usize - b.as_ptr() as usize) / 4;
			let recs: Vec<RichRecord> = rs.records().collect();
			let recs_s: Vec<String> = recs.iter().map(|r| format!("{}:{}:{}", r.build, r.product, r.count)).collect();
			let extra: usize = field(case, "extra").parse().unwrap();
			let mut dest = vec![0xAAAA_AAAAu32; recs.len() * 2 + 6 + extra];
			let enc = match rs.encode(&recs, &mut dest) { Ok(n) => format!("ok:{}:{}", n, join(&dest, ".")), Err(n) => format!("err:{}", n) };
			let mut short = vec![0u32; (recs.len() * 2 + 5).saturating_sub(extra)];
			let enc_short = match rs.encode(&recs, &mut short) { Ok(n) => format!("ok:{}", n), Err(n) => format!("err:{}", n) };
			format!("res=ok s={} e={} key={} csum={} recs={} enc={} encshort={}", off, off + rs.image().len(), rs.xor_key(), rs.checksum(), join(&recs_s, ","), enc, enc_short)
		},
	}
}

fn main() {
	harness_main(gen, run);
}
