//! Component `util`: the utility / formatting layer - implementation side.
//!
//! * src/util/wide_str.rs is not exported by the crate (`mod wide_str` is private, only `FmtUtf16` is used, by the
//!   version-info printer).  The file is compiled into this binary, text unchanged, through the `#[path]`
//!   declaration that harness/build.rs writes (it names the pelite tree of Cargo.toml), under a module `util` that
//!   supplies the `FromBytes` trait it imports.  Everything else is reached through the public API.
//! * Calls whose panics are characterised exactly by the model (`WideStr::from_str`, `Ptr::member`, `Ptr::at`,
//!   `Pir::at`) run under their own `catch_unwind`; the observation says `panic:<kind>` and carries `oc=<0|1>`,
//!   whether this build checks integer overflow (the model takes that as a parameter).  Any other panic is `!panic`.
use pelite::image::GUID;
use pelite::stringify as sfy;
use pelite::util::{strn, wstrn};
use pvh::pe::{ImgSpec, Sec};
use pvh::*;
use std::panic::{self, AssertUnwindSafe};

#[allow(dead_code)]
mod util {
	/// the trait of src/util/mod.rs, restated (wide_str.rs imports `crate::util::FromBytes`)
	pub trait FromBytes {
		const MIN_SIZE_OF: usize;
		const ALIGN_OF: usize;
		unsafe fn from_bytes(bytes: &[u8]) -> Option<&Self>;
	}
	include!(concat!(env!("OUT_DIR"), "/pelite_paths.rs"));
}
use util::wide_str::{FmtUtf16, WideStr};
use util::FromBytes;

// ---------------------------------------------------------------------------------------------- helpers

fn overflow_checked() -> bool {
	let x: u8 = std::hint::black_box(255);
	panic::catch_unwind(|| std::hint::black_box(x + std::hint::black_box(1))).is_err()
}

/// runs `f`; a panic of one of the characterised kinds becomes Err(kind); any other panic is re-raised
fn guarded<R>(f: impl FnOnce() -> R) -> Result<R, &'static str> {
	match panic::catch_unwind(AssertUnwindSafe(f)) {
		Ok(r) => Ok(r),
		Err(e) => {
			let msg = if let Some(s) = e.downcast_ref::<String>() { s.clone() } else if let Some(s) = e.downcast_ref::<&str>() { s.to_string() } else { String::new() };
			if msg.contains("with overflow") {
				Err("overflow")
			}
			else if msg.contains("index out of bounds") {
				Err("index")
			}
			else if msg.contains("out of range for slice") || msg.contains("slice index starts") {
				Err("slice")
			}
			else {
				panic::resume_unwind(e)
			}
		},
	}
}

fn words_of_hex(s: &str) -> Vec<u16> {
	let b = unhex(s);
	assert!(b.len() % 2 == 0, "harness: odd word data");
	b.chunks(2).map(|c| u16::from_le_bytes([c[0], c[1]])).collect()
}
fn hex_of_words(ws: &[u16]) -> String {
	let mut b = Vec::with_capacity(ws.len() * 2);
	for w in ws {
		b.extend_from_slice(&w.to_le_bytes());
	}
	hex(&b)
}
/// the bytes placed so that, under PVH_GUARD=end, the buffer ends exactly at the guard page (and starts right after it
/// under PVH_GUARD=start with offset 0): (offset + len) % 16 == 0
fn flush(bytes: &[u8]) -> Aligned {
	Aligned::new(bytes, (16 - bytes.len() % 16) % 16)
}
fn flush_words(ws: &[u16]) -> Aligned {
	let mut b = Vec::with_capacity(ws.len() * 2);
	for w in ws {
		b.extend_from_slice(&w.to_le_bytes());
	}
	flush(&b)
}
/// the u16 view of a buffer made by flush_words (its start is 2-aligned: even length, 16-aligned end)
fn words_view(a: &Aligned) -> &[u16] {
	let b = a.bytes();
	assert!(b.as_ptr() as usize % 2 == 0 && b.len() % 2 == 0, "harness: word buffer placement");
	unsafe { std::slice::from_raw_parts(b.as_ptr() as *const u16, b.len() / 2) }
}
fn inside<T>(outer: &[T], inner: &[T]) -> bool {
	let (o, i) = (outer.as_ptr() as usize, inner.as_ptr() as usize);
	i >= o && i + inner.len() * std::mem::size_of::<T>() <= o + outer.len() * std::mem::size_of::<T>()
}
fn hs(s: &str) -> String {
	hex(s.as_bytes())
}

// ---------------------------------------------------------------------------------------------- generators

fn gen_unit(rng: &mut Rng) -> Vec<u16> {
	match rng.below(16) {
		0 => vec![*rng.pick(&[0u16, 10, 13, 9, 34, 92])],
		1 => vec![rng.range(0xD800, 0xDBFF) as u16],                                   // lone high
		2 => vec![rng.range(0xDC00, 0xDFFF) as u16],                                   // lone low
		3 | 4 => vec![rng.range(0xD800, 0xDBFF) as u16, rng.range(0xDC00, 0xDFFF) as u16], // pair
		5 => vec![*rng.pick(&[0xD800u16, 0xDBFF, 0xDC00, 0xDFFF, 0xD7FF, 0xE000, 0xFFFD, 0xFFFE, 0xFFFF, 0x7F, 0x80, 0x7FF, 0x800])],
		6 => vec![rng.range(0x80, 0x7FF) as u16],
		7 => vec![rng.range(0x800, 0xD7FF) as u16],
		8 => vec![rng.range(0xE000, 0xFFFF) as u16],
		9 => vec![rng.range(1, 0x1F) as u16],
		_ => vec![rng.range(0x20, 0x7E) as u16],
	}
}
fn gen_units(rng: &mut Rng, max: u64) -> Vec<u16> {
	let n = match rng.below(8) { 0 => 0, 1 => 1, 2 => 2, _ => rng.below(max + 1) };
	let mut v = Vec::new();
	for _ in 0..n {
		v.extend(gen_unit(rng));
	}
	v
}
fn gen_char(rng: &mut Rng) -> char {
	let c = match rng.below(12) {
		0 => *rng.pick(&[0u32, 10, 13, 9, 34, 92]),
		1 => rng.range(0x10000, 0x10FFFF) as u32,
		2 => *rng.pick(&[0x7Fu32, 0x80, 0x7FF, 0x800, 0xD7FF, 0xE000, 0xFFFD, 0xFFFF, 0x10000, 0x10FFFF]),
		3 => rng.range(0x80, 0x7FF) as u32,
		4 => rng.range(0x800, 0xD7FF) as u32,
		5 => rng.range(0xE000, 0xFFFF) as u32,
		_ => rng.range(0x20, 0x7E) as u32,
	};
	char::from_u32(c).unwrap()
}
fn gen_string(rng: &mut Rng, max: u64) -> String {
	let n = match rng.below(8) { 0 => 0, 1 => 1, _ => rng.below(max + 1) };
	(0..n).map(|_| gen_char(rng)).collect()
}

const FLAG_TYPES: [&str; 3] = ["FileChars", "DllChars", "SectionChars"];
const ENUM_TYPES: [&str; 10] = ["Machine", "OptionalMagic", "Subsystem", "DirectoryEntry", "ResourceName", "RelocType", "UnwindOp", "UnwindFlag", "DebugType", "Machine"];
const SIZES: [u64; 9] = [0, 1, 2, 4, 8, 12, 40, 65536, 0x8000_0000];

fn gen_ptr_fields(rng: &mut Rng, bits: u32) -> String {
	let top: u128 = 1u128 << bits;
	let va: u128 = match rng.below(8) {
		0 => 0,
		1 => rng.below(0x1000) as u128,
		2 => top - 1,
		3 => top - 1 - rng.below(0x1000) as u128,
		4 => top / 2 + rng.below(16) as u128 - 8,
		5 => 0x1000 * rng.below(0x10_0000) as u128 % top,
		_ => (((rng.next() as u128) << 64 | rng.next() as u128) >> rng.below(128)) % top,
	};
	let room = top - 1 - va; // largest addend that does not overflow
	let off: u128 = match rng.below(7) {
		0 => 0,
		1 => room.min(0xFFFF_FFFF),
		2 => (room + 1).min(0xFFFF_FFFF),
		3 => 0xFFFF_FFFF,
		4 => room.saturating_sub(rng.below(4) as u128).min(0xFFFF_FFFF),
		5 => (room + rng.below(4) as u128).min(0xFFFF_FFFF),
		_ => rng.next() as u128 & 0xFFFF_FFFF,
	};
	let so: u128 = match rng.below(6) {
		0 => 0,
		1 => top - 1,                 // -1
		2 => top / 2,                 // MIN
		3 => top / 2 - 1,             // MAX
		4 => top - 1 - rng.below(0x1000) as u128,
		_ => (((rng.next() as u128) << 64 | rng.next() as u128) >> rng.below(128)) % top,
	};
	let sz = *rng.pick(&SIZES);
	let i: u128 = match rng.below(9) {
		0 => 0,
		1 => 1,
		2 if sz > 0 => room / sz as u128,
		3 if sz > 0 => room / sz as u128 + 1,
		4 if sz > 0 => ((1u128 << 64) - 1) / sz as u128,          // largest index whose product fits usize
		5 if sz > 0 => ((1u128 << 64) - 1) / sz as u128 + 1,      // smallest whose product does not
		6 if sz > 0 => (1u128 << 32) / sz as u128 + rng.below(3) as u128, // product near 2^32: the `as Va` cast truncates on pe32
		7 => u64::MAX as u128,
		_ => (rng.next() >> rng.below(64)) as u128,
	}
	.min(u64::MAX as u128);
	format!("va={} off={} so={} i={} sz={}", va, off, so, i, sz)
}

fn gen(rng: &mut Rng, i: u64) -> String {
	// the first 9 * 40 cases sweep every key of every enum1! table of src/stringify.rs deterministically (fourth audit, H1:
	// random draws left 40 of the 52 rows untouched at quick size, and the regenerated mirror Model/WrapStrTab.v follows
	// the source): values 0..33 and the six wide keys, asked for the value's own name and its parse back
	const SWEEP: [u64; 40] = [0, 1, 2, 3, 4, 5, 6, 7, 8, 9, 10, 11, 12, 13, 14, 15, 16, 17, 18, 19, 20, 21, 22, 23, 24, 25, 26, 27, 28, 29, 30, 31, 32, 33,
		0x014c, 0x8664, 0x0200, 0x10b, 0x20b, 0x107];
	if i < 9 * 40 {
		let ty = ENUM_TYPES[(i / 40) as usize];
		return format!("enum ty={} v={} s={} p=0", ty, SWEEP[(i % 40) as usize], hs("*"));
	}
	match rng.below(20) {
		0 | 1 | 2 => format!("wfmt ws={}", hex_of_words(&gen_units(rng, 20))),
		3 | 4 => {
			// length word <, =, > the words available; empty slice
			let body = gen_units(rng, 10);
			let n = body.len() as u64;
			let first: u64 = match rng.below(8) { 0 => n, 1 => n + 1, 2 => n.saturating_sub(1), 3 => 0, 4 => 0xFFFF, 5 => rng.below(n + 3), 6 => n, _ => n };
			if rng.chance(1, 12) {
				return "wwords ws=-".to_string();
			}
			let mut ws = vec![first as u16];
			ws.extend(body);
			format!("wwords ws={}", hex_of_words(&ws))
		},
		5 | 6 => {
			let body = gen_units(rng, 10);
			let n = body.len() as u64;
			let first: u64 = match rng.below(8) { 0 => n, 1 => n + 1, 2 => n.saturating_sub(1), 3 => 0, 4 => 0xFFFF, 5 => rng.below(n + 3), 6 => 0x7FFF, _ => n };
			let mut ws = vec![first as u16];
			ws.extend(body);
			let mut data = unhex(&hex_of_words(&ws));
			if rng.chance(1, 4) { data.push(rng.byte()); }                  // an odd trailing byte
			if rng.chance(1, 10) { data.truncate(2); }
			if rng.chance(1, 10) { data.truncate(3); }
			format!("wbytes data={} al={}", hex(&data), 2 * rng.below(8))
		},
		7 => {
			if rng.chance(1, 12) {
				// more than 65535 code units: the u16 counter
				let c = *rng.pick(&[0x41u32, 0x10400, 0xE9]);
				let units = if c >= 0x10000 { 2 } else { 1 };
				let count = *rng.pick(&[65535u64, 65536, 65537, 70000, 32768, 32767]) / units + rng.below(2);
				let buflen = match rng.below(4) { 0 => 65536, 1 => 65537, 2 => 65538, _ => 65530 + rng.below(20) };
				return format!("wfromrep c={} count={} buflen={}", c, count, buflen);
			}
			let s = gen_string(rng, 12);
			let need = s.encode_utf16().count() as u64;
			let buflen = match rng.below(8) { 0 => 0, 1 => 1, 2 => need + 1, 3 => need, 4 => need + 2, 5 => need.saturating_sub(1), _ => rng.below(need + 4) };
			format!("wfromstr s={} buflen={}", hs(&s), buflen)
		},
		8 => {
			let body = gen_units(rng, 8);
			let mut ws = vec![body.len() as u16];
			ws.extend(body.iter().cloned());
			let s: String = match rng.below(5) {
				0 => gen_string(rng, 8),
				1 => String::from_utf16_lossy(&body),
				2 => { let mut t = String::from_utf16_lossy(&body); t.pop(); t },
				3 => { let mut t = String::from_utf16_lossy(&body); t.push(gen_char(rng)); t },
				_ => char::decode_utf16(body.iter().cloned()).filter_map(|r| r.ok()).collect(),
			};
			format!("weq ws={} s={}", hex_of_words(&ws), hs(&s))
		},
		9 | 10 => {
			// byte strings with zeros at both ends and inside
			let n = match rng.below(6) { 0 => 0, 1 => 1, _ => rng.below(24) };
			let lead = if rng.chance(1, 3) { rng.below(4) } else { 0 };
			let trail = if rng.chance(1, 2) { rng.below(5) } else { 0 };
			let mut d = vec![0u8; lead as usize];
			for _ in 0..n {
				d.push(if rng.chance(1, 8) { 0 } else { rng.range(1, 255) as u8 });
			}
			d.extend(vec![0u8; trail as usize]);
			if rng.chance(1, 2) {
				format!("strn data={}", hex(&d))
			}
			else {
				let ws: Vec<u16> = d.iter().map(|&b| if b == 0 { 0 } else if b & 1 == 1 { b as u16 * 0x101 } else { (b as u16) << 8 }).collect();
				format!("wstrn ws={}", hex_of_words(&ws))
			}
		},
		11 => {
			let mut name = [0u8; 8];
			let n = rng.below(9) as usize;
			for k in 0..n {
				name[k] = match rng.below(10) { 0 => 0, 1 => rng.range(0x80, 0xFF) as u8, 2 => *rng.pick(&[0xC3u8, 0xA9, 0xE2, 0x82, 0xAC, 0xF0, 0x9F, 0x98, 0x80, 0xC0, 0xED, 0xA0]), _ => rng.range(0x21, 0x7E) as u8 };
			}
			if rng.chance(1, 6) {
				// well-formed multi-byte sequences
				let s = gen_string(rng, 4);
				let b = s.as_bytes();
				let k = b.len().min(8);
				name = [0u8; 8];
				name[..k].copy_from_slice(&b[..k]);
			}
			if rng.chance(1, 6) { name[0] = 0; }
			format!("secname name={}", hex(&name))
		},
		12 | 13 => {
			let mut g = [0u8; 16];
			for b in g.iter_mut() {
				*b = match rng.below(5) { 0 => 0, 1 => 0xFF, 2 => rng.below(16) as u8, _ => rng.byte() };
			}
			format!("guid g={}", hex(&g))
		},
		14 => format!("ptr32 {}", gen_ptr_fields(rng, 32)),
		15 => format!("ptr64 {}", gen_ptr_fields(rng, 64)),
		16 => format!("pir {}", gen_ptr_fields(rng, 32)),
		17 | 18 => {
			let ty = *rng.pick(&FLAG_TYPES);
			if rng.chance(1, 20) {
				return format!("flagtab ty={}", ty);
			}
			let x: u32 = match rng.below(6) { 0 => 0, 1 => 0xFFFF_FFFF, 2 => 1 << rng.below(32), 3 => !(1u32 << rng.below(32)), _ => rng.next() as u32 };
			let x = if ty == "SectionChars" { x } else { x & 0xFFFF };
			format!("flags ty={} x={}", ty, x)
		},
		_ => {
			let ty = *rng.pick(&ENUM_TYPES);
			let special = ty == "Machine" || ty == "OptionalMagic";
			let v: u64 = match rng.below(10) {
				0 | 1 | 2 | 3 | 4 if special => *rng.pick(&[0x014cu64, 0x8664, 0x0200, 0x10b, 0x20b, 0x107]),
				0 | 1 | 2 | 3 | 4 => rng.below(26),
				5 => *rng.pick(&[0x014cu64, 0x8664, 0x0200, 0x10b, 0x20b, 0x107, 0xFF, 0xFFFF, 0xFFFF_FFFF]),
				6 => rng.next() >> rng.below(64),
				7 => rng.below(26),
				_ => rng.below(0x400),
			};
			let s = match rng.below(4) {
				0 => "IMAGE_FILE_MACHINE_AMD64".to_string(),
				1 => "RT_ICON".to_string(),
				2 => gen_string(rng, 6),
				_ => "*".to_string(), // the name of v, possibly perturbed (see run)
			};
			format!("enum ty={} v={} s={} p={}", ty, v, hs(&s), rng.below(4))
		},
	}
}

// ---------------------------------------------------------------------------------------------- runs

fn run_wide(ws: &WideStr, base: *const u16) -> String {
	let r: &[u16] = ws.as_ref();
	// the underlying slice starts one word before as_ref()
	let at = (r.as_ptr() as usize - 2 - base as usize) / 2;
	let d: &[u16] = &*ws;
	assert!(d.as_ptr() == r.as_ptr() && d.len() == r.len(), "harness: deref and as_ref differ");
	let st = match ws.to_string() {
		Ok(s) => format!("ok:{}", hs(&s)),
		Err(e) => format!("err:{}", e.unpaired_surrogate()),
	};
	format!("some at={} len={} ref={} str={} disp={} dbg={}", at, r.len() + 1, hex_of_words(r), st, hs(&format!("{}", ws)), hs(&format!("{:?}", ws)))
}

macro_rules! with_sz {
	($sz:expr, $T:ident => $e:expr) => {
		match $sz {
			0 => { type $T = [u8; 0]; $e },
			1 => { type $T = u8; $e },
			2 => { type $T = u16; $e },
			4 => { type $T = u32; $e },
			8 => { type $T = u64; $e },
			12 => { type $T = [u32; 3]; $e },
			40 => { type $T = [u8; 40]; $e },
			65536 => { type $T = [u8; 65536]; $e },
			0x8000_0000 => { type $T = [u8; 0x8000_0000]; $e },
			_ => panic!("harness: element size"),
		}
	};
}
fn show<T: ToString>(r: Result<T, &'static str>) -> String {
	match r { Ok(v) => v.to_string(), Err(k) => format!("panic:{}", k) }
}

macro_rules! run_ptr {
	($case:expr, $ptr:ident, $Va:ty, $SVa:ty) => {{
		let case = $case;
		let va: $Va = field(case, "va").parse().unwrap();
		let off: u32 = field(case, "off").parse().unwrap();
		let so = field(case, "so").parse::<$Va>().unwrap() as $SVa;
		let i: usize = field(case, "i").parse().unwrap();
		let sz: u64 = field(case, "sz").parse().unwrap();
		let member = show(guarded(|| $ptr::Ptr::<u8>::member(va, off).into_raw()));
		let p: $ptr::Ptr<u32> = $ptr::Ptr::from(va);
		let offset: $Va = p.offset::<u8>(so).into_raw();
		let at = with_sz!(sz, T => show(guarded(|| { let q: $ptr::Ptr<[T]> = $ptr::Ptr::from(va); q.at(i).into_raw() })));
		format!("oc={} member={} offset={} at={} disp={} dbg={} x={} X={} ax={} zx={}", overflow_checked() as u8, member, offset, at,
			hs(&format!("{}", p)), hs(&format!("{:?}", p)), hs(&format!("{:x}", p)), hs(&format!("{:X}", p)), hs(&format!("{:#x}", p)), hs(&format!("{:#020X}", p)))
	}};
}

macro_rules! flag_type {
	($ty:expr, $T:ident => $e:expr) => {
		match $ty {
			"FileChars" => { use sfy::FileChars as $T; $e },
			"DllChars" => { use sfy::DllChars as $T; $e },
			"SectionChars" => { use sfy::SectionChars as $T; $e },
			_ => panic!("harness: flag type"),
		}
	};
}
macro_rules! enum_type {
	($ty:expr, $v:expr, $T:ident, $x:ident => $e:expr) => {
		match $ty {
			"Machine" => { use sfy::Machine as $T; let $x = $v as u16; let fits = $x as u64 == $v; (fits, $e) },
			"OptionalMagic" => { use sfy::OptionalMagic as $T; let $x = $v as u16; let fits = $x as u64 == $v; (fits, $e) },
			"Subsystem" => { use sfy::Subsystem as $T; let $x = $v as u16; let fits = $x as u64 == $v; (fits, $e) },
			"DirectoryEntry" => { use sfy::DirectoryEntry as $T; let $x = $v as usize; let fits = $x as u64 == $v; (fits, $e) },
			"ResourceName" => { use sfy::ResourceName as $T; let $x = $v as u16; let fits = $x as u64 == $v; (fits, $e) },
			"RelocType" => { use sfy::RelocType as $T; let $x = $v as u8; let fits = $x as u64 == $v; (fits, $e) },
			"UnwindOp" => { use sfy::UnwindOp as $T; let $x = $v as u8; let fits = $x as u64 == $v; (fits, $e) },
			"UnwindFlag" => { use sfy::UnwindFlag as $T; let $x = $v as u8; let fits = $x as u64 == $v; (fits, $e) },
			"DebugType" => { use sfy::DebugType as $T; let $x = $v as u32; let fits = $x as u64 == $v; (fits, $e) },
			_ => panic!("harness: enum type"),
		}
	};
}

fn run(case: &str) -> String {
	let kind = case.split(' ').next().unwrap();
	match kind {
		"wfmt" => {
			let buf = flush_words(&words_of_hex(field(case, "ws")));
			let ws = words_view(&buf);
			let f = FmtUtf16(ws);
			format!("disp={} dbg={}", hs(&format!("{}", f)), hs(&format!("{:?}", f)))
		},
		"wwords" => {
			let buf = flush_words(&words_of_hex(field(case, "ws")));
			let ws = words_view(&buf);
			match WideStr::from_words(ws) {
				None => "none".to_string(),
				Some(w) => {
					let r: &[u16] = w.as_ref();
					assert!(r.as_ptr() as usize >= ws.as_ptr() as usize + 2 && inside(ws, r), "harness: returned region outside the word slice");
					run_wide(w, ws.as_ptr())
				},
			}
		},
		"wbytes" => {
			let data = unhex(field(case, "data"));
			let al: usize = field(case, "al").parse().unwrap();
			// the caller's guarantees (derva_string / slice in pe.rs): MIN_SIZE_OF bytes present, ALIGN_OF alignment
			assert!(data.len() >= <WideStr as FromBytes>::MIN_SIZE_OF && al % <WideStr as FromBytes>::ALIGN_OF == 0, "harness: precondition of from_bytes");
			let buf = Aligned::new(&data, al);
			let bytes = buf.bytes();
			match unsafe { <WideStr as FromBytes>::from_bytes(bytes) } {
				None => "none".to_string(),
				Some(w) => {
					let r: &[u16] = w.as_ref();
					let at = r.as_ptr() as usize - 2 - bytes.as_ptr() as usize;
					assert!(at + 2 * (r.len() + 1) <= bytes.len(), "harness: returned region outside the byte slice");
					format!("some at={} len={} ref={}", at, r.len() + 1, hex_of_words(r))
				},
			}
		},
		"wfromstr" | "wfromrep" => {
			let big = kind == "wfromrep";
			let s: String = if big {
				let c = char::from_u32(field(case, "c").parse().unwrap()).unwrap();
				let count: usize = field(case, "count").parse().unwrap();
				std::iter::repeat(c).take(count).collect()
			}
			else {
				String::from_utf8(unhex(field(case, "s"))).unwrap()
			};
			let buflen: usize = field(case, "buflen").parse().unwrap();
			let mut buffer = vec![0xAAAAu16; buflen];
			let base = buffer.as_ptr();
			let oc = overflow_checked() as u8;
			let r = guarded(|| {
				let w = WideStr::from_str(&s, &mut buffer);
				let r: &[u16] = w.as_ref();
				let at = (r.as_ptr() as usize - 2 - base as usize) / 2;
				let first = unsafe { *r.as_ptr().offset(-1) };
				if big {
					let sum = r.iter().fold(first as u64, |a, &x| a.wrapping_mul(31).wrapping_add(x as u64));
					format!("at={} n={} len={} sum={}", at, first, r.len() + 1, sum)
				}
				else {
					format!("at={} n={} len={} ref={}", at, first, r.len() + 1, hex_of_words(r))
				}
			});
			match r { Ok(t) => format!("oc={} {}", oc, t), Err(k) => format!("oc={} panic:{}", oc, k) }
		},
		"weq" => {
			let buf = flush_words(&words_of_hex(field(case, "ws")));
			let ws = words_view(&buf);
			let s = String::from_utf8(unhex(field(case, "s"))).unwrap();
			match WideStr::from_words(ws) {
				None => "none".to_string(),
				Some(w) => format!("eq={}", (*w == *s.as_str()) as u8),
			}
		},
		"strn" => {
			let buf = flush(&unhex(field(case, "data")));
			let d = buf.bytes();
			let r = strn(d);
			assert!(inside(d, r), "harness: returned region outside the byte slice");
			format!("at={} len={}", r.as_ptr() as usize - d.as_ptr() as usize, r.len())
		},
		"wstrn" => {
			let buf = flush_words(&words_of_hex(field(case, "ws")));
			let ws = words_view(&buf);
			let r = wstrn(ws);
			assert!(inside(ws, r), "harness: returned region outside the word slice");
			format!("at={} len={}", (r.as_ptr() as usize - ws.as_ptr() as usize) / 2, r.len())
		},
		"secname" => {
			let nb = unhex(field(case, "name"));
			let mut name = [0u8; 8];
			name.copy_from_slice(&nb);
			let spec = ImgSpec { pe64: true, e_lfanew: 64, soh: 0x200, soi: 0x2000, image_base: 0x1_4000_0000, nrva: 16, dirs: vec![(0, 0); 16], opt_size: 240, nsec_field: 1,
				secs: vec![Sec { name, va: 0x1000, vs: 0x10, prd: 0x200, srd: 0x200, chars: 0x4000_0040 }], checksum: 0, magic: 0x20b };
			let mut img = spec.header_bytes();
			img.resize(0x400, 0);
			let buf = flush(&img);
			use pelite::pe64::{Pe, PeFile};
			let file = PeFile::from_bytes(buf.bytes()).expect("harness: image rejected");
			let sh = file.section_headers().iter().next().expect("harness: no section");
			let raw = &sh.Name;
			let t = sh.name_bytes();
			assert!(inside(&raw[..], t), "harness: returned region outside the name field");
			let at = t.as_ptr() as usize - raw.as_ptr() as usize;
			let nm = match sh.name() { Ok(s) => format!("ok:{}", hs(s)), Err(b) => format!("err:{}", hex(b)) };
			format!("trim={}:{} name={}", at, t.len(), nm)
		},
		"guid" => {
			let g = unhex(field(case, "g"));
			let guid = GUID { Data1: u32::from_le_bytes([g[0], g[1], g[2], g[3]]), Data2: u16::from_le_bytes([g[4], g[5]]), Data3: u16::from_le_bytes([g[6], g[7]]),
				Data4: [g[8], g[9], g[10], g[11], g[12], g[13], g[14], g[15]] };
			format!("d={} g={} x={} X={}", hs(&format!("{}", guid)), hs(&format!("{:?}", guid)), hs(&format!("{:x}", guid)), hs(&format!("{:X}", guid)))
		},
		"ptr32" => { use pelite::pe32 as p32; run_ptr!(case, p32, u32, i32) },
		"ptr64" => { use pelite::pe64 as p64; run_ptr!(case, p64, u64, i64) },
		"pir" => {
			let va: u32 = field(case, "va").parse().unwrap();
			let so = field(case, "so").parse::<u32>().unwrap() as i32;
			let i: usize = field(case, "i").parse().unwrap();
			let sz: u64 = field(case, "sz").parse().unwrap();
			let p: pelite::Pir<u32> = pelite::Pir::from(va);
			let offset: u32 = p.offset::<u8>(so).into_raw();
			let at = with_sz!(sz, T => show(guarded(|| { let q: pelite::Pir<[T]> = pelite::Pir::from(va); q.at(i).into_raw() })));
			format!("oc={} offset={} at={} disp={} dbg={} x={} X={} ax={} zx={}", overflow_checked() as u8, offset, at,
				hs(&format!("{}", p)), hs(&format!("{:?}", p)), hs(&format!("{:x}", p)), hs(&format!("{:X}", p)), hs(&format!("{:#x}", p)), hs(&format!("{:#020X}", p)))
		},
		"flags" => {
			let ty = field(case, "ty");
			let x: u32 = field(case, "x").parse().unwrap();
			let names: Vec<&'static str> = flag_type!(ty, T => {
				let it = T(x as _).to_strs();
				let mut v = Vec::new();
				for s in it {
					v.push(s);
					assert!(v.len() <= 32, "harness: more names than bits");
				}
				v
			});
			format!("strs={}", join(&names, ","))
		},
		"flagtab" => {
			let ty = field(case, "ty");
			let rows: Vec<String> = flag_type!(ty, T => (0u32..70).chain([255u32, 256, 0xFFFF_FFFF].iter().cloned()).filter_map(|i| T::flag_str(i).map(|n| {
				let v = T::parse_flag(n).map(|v| (v as u64).to_string()).unwrap_or("none".to_string());
				format!("{}:{}:{}", i, n, v)
			})).collect());
			let unknown = flag_type!(ty, T => T::parse_flag("IMAGE_NO_SUCH_FLAG").is_none() && T::parse_flag("").is_none());
			format!("tab={} unknown={}", join(&rows, ","), unknown as u8)
		},
		"enum" => {
			let ty = field(case, "ty");
			let v: u64 = field(case, "v").parse().unwrap();
			let s_field = String::from_utf8(unhex(field(case, "s"))).unwrap();
			let p: u64 = field(case, "p").parse().unwrap();
			let (fits, out) = enum_type!(ty, v, T, x => {
				let name = T(x).to_str();
				let back = name.map(|n| n.parse::<T>().map(|t| (t.0 as u64).to_string()).unwrap_or("none".to_string())).unwrap_or("-".to_string());
				// the string to parse: given, or the name of v perturbed
				let s: String = if s_field == "*" {
					let n = name.unwrap_or("IMAGE_NONE").to_string();
					match p { 0 => n, 1 => n.to_lowercase(), 2 => n[..n.len() - 1].to_string(), _ => format!("{} ", n) }
				} else { s_field.clone() };
				let parse = s.parse::<T>().map(|t| (t.0 as u64).to_string()).unwrap_or("none".to_string());
				format!("str={} back={} s={} parse={}", name.unwrap_or("none"), back, hs(&s), parse)
			});
			if fits { out } else { "skip".to_string() }
		},
		_ => panic!("harness: unknown kind {}", kind),
	}
}

fn main() {
	harness_main(gen, run);
}
