//! C06: PeFile::to_view / PeView::to_file — implementation side.
//!
//! One case = one image (written by the independent writer of pe.rs) plus queries.
//! Observed: the bytes of `to_view()`, the bytes of `to_file()` on a PeView over those bytes,
//! and for every query the result on PeFile(F), on PeView(to_view F) and how many leading
//! bytes of the two answers agree.
use pelite::pe32;
use pelite::pe64;
use pvh::pe::*;
use pvh::*;

fn up(x: u32, a: u32) -> u32 {
	(x + a - 1) / a * a
}

/// Non-zero runs of a buffer: `len:off.hex/off.hex`; a run ends at 8 consecutive zero bytes.
fn sparse(b: &[u8]) -> String {
	let mut runs: Vec<String> = Vec::new();
	let mut i = 0usize;
	while i < b.len() {
		if b[i] == 0 {
			i += 1;
			continue;
		}
		let s = i;
		let mut last = s;
		let mut j = s + 1;
		while j < b.len() && j - last <= 8 {
			if b[j] != 0 {
				last = j;
			}
			j += 1;
		}
		runs.push(format!("{}.{}", s, hex(&b[s..=last])));
		i = last + 1;
	}
	format!("{}:{}", b.len(), join(&runs, "/"))
}

fn gen(rng: &mut Rng, _i: u64) -> String {
	let pe64 = rng.chance(1, 2);
	let e_lfanew = *rng.pick(&[0x40u32, 0x80, 0xF8]);
	let mut dirs = vec![(0u32, 0u32); 16];
	let mut spec = ImgSpec { pe64, e_lfanew, soh: 0, soi: 0, image_base: if pe64 { *rng.pick(&[0x1_4000_0000u64, 0x1_4000_0000, 0xFFFF_FFFF_FFFF_0000, 0, 0x10000]) } else { *rng.pick(&[0x40_0000u64, 0x40_0000, 0xFFFF_0000, 0xFFFE_F000, 0, 0x10000]) }, nrva: 16, dirs: dirs.clone(), opt_size: 0, nsec_field: 0, secs: Vec::new(), checksum: 0, magic: if pe64 { 0x20b } else { 0x10b } };
	spec.opt_size = spec.std_opt_size();
	let wf = rng.chance(7, 10);
	let mut pokes: Vec<(usize, Vec<u8>)> = Vec::new();
	let mut planted = false;
	let mut planted2 = false;
	let len: usize;
	if wf {
		// ---- well-formed images: 1..96 sections, VS <,=,> SRD, empty raw data, alignment combinations
		let n = match rng.below(32) { 0 | 1 | 2 => 1, 3 | 4 => 96, 5 | 6 => rng.range(30, 95), 7 | 8 | 9 | 10 => rng.range(9, 29), _ => rng.range(1, 8) } as usize;
		let fa = *rng.pick(&[0x200u32, 0x200, 0x80, 0x20, 4, 1]);
		let sa = if n > 16 { *rng.pick(&[0x100u32, 0x80, 0x40]) } else { *rng.pick(&[0x1000u32, 0x1000, 0x200, 0x80, 0x2000]) };
		let fa = fa.min(sa);
		spec.secs = (0..n).map(|i| { let mut s = Sec { name: [0; 8], va: 0, vs: 0, prd: 0, srd: 0, chars: 0x6000_0020 }; let nm = format!(".s{}", i); s.name[..nm.len()].copy_from_slice(nm.as_bytes()); s }).collect();
		spec.nsec_field = n as u16;
		let hdr_end = spec.hdr_end() as u32;
		spec.soh = up(hdr_end, fa.max(4));
		// a gap between headers and the first section's raw data: the file extent may exceed SizeOfImage (F33)
		let gap = if rng.chance(1, 10) { up(rng.range(0x800, 0x3000) as u32, fa) } else if rng.chance(1, 6) { fa * rng.below(3) as u32 } else { 0 };
		let mut va = up(spec.soh, sa);
		let mut prd = spec.soh + gap;
		for k in 0..n {
			let body = match rng.below(8) { 0 => 0, 1 => fa, 2 => rng.range(1, 0x30) as u32, 3 if n <= 16 => rng.range(0x100, 0x500) as u32, _ => rng.range(1, if n > 16 { 0x60 } else { 0x180 }) as u32 };
			let srd = if rng.chance(3, 4) { up(body, fa) } else { body };
			let vs = match rng.below(10) {
				0 | 1 => srd,
				2 | 3 | 4 => body.min(srd).saturating_sub(rng.below(fa.min(0x40) as u64) as u32).max(if srd > 0 { 1 } else { 0 }), // VS < SRD (the usual shape: SRD is VS rounded up)
				5 => srd + rng.range(1, 0x300) as u32,
				6 => srd + sa + rng.below(0x100) as u32,
				7 => if rng.chance(1, 3) { 0 } else { srd / 2 },
				_ => srd + rng.below(0x40) as u32,
			};
			let s = &mut spec.secs[k];
			s.va = va;
			s.vs = vs;
			s.srd = srd;
			s.prd = if srd == 0 && rng.chance(1, 2) { 0 } else { prd };
			// the raw tail beyond VirtualSize is padding: zero in ordinary files
			if vs < srd && rng.chance(7, 8) {
				pokes.push(((prd + vs) as usize, vec![0u8; (srd - vs) as usize]));
			}
			// NUL terminators and a few zeros inside the data
			if srd > 8 && rng.chance(1, 2) {
				pokes.push(((prd + rng.below(srd as u64) as u32) as usize, vec![0u8; rng.range(1, 3) as usize]));
			}
			va = up(va + vs.max(srd).max(1), sa);
			prd = up(prd + srd, fa);
		}
		spec.soi = va;
		len = prd as usize + if rng.chance(1, 5) { rng.below(0x300) as usize } else { 0 };
		// a few data directories inside sections
		for d in 0..rng.below(4) as usize {
			let s = &spec.secs[rng.below(n as u64) as usize];
			let ext = s.vs.max(s.srd);
			if ext == 0 { continue; }
			let off = rng.below(ext as u64) as u32;
			let size = match rng.below(4) { 0 => 0, 1 => ext - off, 2 => (s.vs.min(s.srd)).saturating_sub(off), _ => rng.below((ext - off) as u64 + 1) as u32 };
			dirs[[0usize, 1, 2, 5, 9, 12][d % 6]] = (s.va + off, size);
		}
		// structured export / import / base relocation directories inside one roomy section (half of the images
		// that have one): tables, name strings and thunk arrays that the parsers decode on both representations
		if let Some(k) = (0..n).find(|&k| spec.secs[k].srd >= 0x100 && spec.secs[k].vs >= 0x40) {
			if rng.chance(1, 2) {
				planted = true;
				let (sva, sprd) = (spec.secs[k].va, spec.secs[k].prd);
				// mostly inside min(VS,SRD); sometimes the structures run into the raw tail / beyond the stored data
				let lim = spec.secs[k].vs.min(spec.secs[k].srd).max(0x40);
				let base_off = if lim > 0xF0 && rng.chance(3, 4) { (rng.below((lim - 0xF0) as u64 + 1) as u32) & !7 } else { (rng.below(spec.secs[k].srd as u64) as u32) & !7 };
				let le32 = |x: u32| x.to_le_bytes().to_vec();
				let mut blob: Vec<u8> = Vec::new();
				let at = |blob: &Vec<u8>| sva + base_off + blob.len() as u32;
				// names
				let nm0 = at(&blob); blob.extend_from_slice(b"alpha\0");
				let nm1 = at(&blob); blob.extend_from_slice(b"beta\0\0");
				let dll = at(&blob); blob.extend_from_slice(b"k.dll\0\0\0");
				// export tables: 3 functions, 2 names
				let nf = rng.range(1, 3) as u32;
				let funcs = at(&blob); for i in 0..nf { blob.extend(le32(sva + 0x10 * (i + 1))); }
				let names = at(&blob); blob.extend(le32(nm0)); blob.extend(le32(nm1));
				let ords = at(&blob); blob.extend_from_slice(&[0, 0, 1, 0]);
				let exp = at(&blob);
				for v in [0u32, 0, 0, dll, rng.range(0, 3) as u32, nf, 2, funcs, if rng.chance(1, 8) { 0 } else { names }, ords] { blob.extend(le32(v)); }
				// import: thunk array (hint/name entries + ordinal), descriptor array with its null terminator
				while blob.len() % 8 != 0 { blob.push(0); }
				let hn = at(&blob); blob.extend_from_slice(&[7, 0]); blob.extend_from_slice(b"gamma\0");
				while blob.len() % 8 != 0 { blob.push(0); }
				let thunks = at(&blob);
				if pe64 { blob.extend((hn as u64).to_le_bytes()); blob.extend((0x8000_0000_0000_0005u64).to_le_bytes()); blob.extend(0u64.to_le_bytes()); }
				else { blob.extend(le32(hn)); blob.extend(le32(0x8000_0005)); blob.extend(le32(0)); }
				let imp = at(&blob);
				for v in [thunks, 0u32, 0, dll, thunks] { blob.extend(le32(v)); }
				if rng.chance(7, 8) { blob.extend_from_slice(&[0u8; 20]); }
				// base relocations: one block
				let rel = at(&blob);
				blob.extend(le32(sva)); blob.extend(le32(12)); blob.extend_from_slice(&[0x10, 0x30, 0x00, 0x00]);
				dirs[0] = (exp, 40);
				dirs[1] = (imp, 40);
				dirs[5] = (rel, if rng.chance(1, 6) { rng.range(1, 0x40) as u32 } else { 12 });
				pokes.push(((sprd + base_off) as usize, blob));
			}
		}
		// a second blob in another roomy section (third layer of the property): a three-level resource tree with one data
		// entry, a debug directory of two entries (a CodeView RSDS payload, an unknown type) and an exception table of one
		// function with its UNWIND_INFO.  Mostly inside min(VS,SRD); the debug payload is mostly CONSISTENT (PointerToRawData
		// is the file offset of AddressOfRawData), sometimes in the overlay with AddressOfRawData = 0, sometimes off by 4.
		let first_roomy = (0..n).find(|&k| spec.secs[k].srd >= 0x100 && spec.secs[k].vs >= 0x40);
		let roomy2: Vec<usize> = (0..n).filter(|&k| spec.secs[k].srd >= 0xE0 && spec.secs[k].vs >= 0x40 && !(planted && Some(k) == first_roomy)).collect();
		if let Some(&k2) = roomy2.last() {
			if rng.chance(3, 5) {
				planted2 = true;
				let (sva, sprd, ssrd) = (spec.secs[k2].va, spec.secs[k2].prd, spec.secs[k2].srd);
				let lim = spec.secs[k2].vs.min(ssrd).max(0x40);
				let base_off = if lim > 0xD0 && rng.chance(3, 4) { (rng.below((lim - 0xD0) as u64 + 1) as u32) & !7 } else { (rng.below(ssrd as u64) as u32) & !7 };
				let r2 = sva + base_off;
				let f2 = sprd + base_off;
				let le32 = |x: u32| x.to_le_bytes().to_vec();
				let mut blob: Vec<u8> = Vec::new();
				// resources: root -> type 16 -> name 1 -> language 1033 -> data entry -> 8 bytes
				let dir = |blob: &mut Vec<u8>, id: u32, target: u32| { blob.extend_from_slice(&[0u8; 12]); blob.extend_from_slice(&[0, 0, 1, 0]); blob.extend(id.to_le_bytes()); blob.extend(target.to_le_bytes()); };
				dir(&mut blob, 16, 0x8000_0000 | 24);
				dir(&mut blob, 1, 0x8000_0000 | 48);
				dir(&mut blob, 1033, 72);
				for v in [r2 + 88, 8u32, 1252, 0] { blob.extend(le32(v)); }
				blob.extend_from_slice(b"RESDATA!");
				// debug: the RSDS payload (32 bytes) and the directory (2 x 28 bytes)
				let mut payload: Vec<u8> = b"RSDS".to_vec();
				payload.extend((1u8..=16).collect::<Vec<u8>>());
				payload.extend(le32(3));
				payload.extend_from_slice(b"x.pdb\0\0\0");
				let pay = blob.len() as u32;
				blob.extend_from_slice(&payload);
				let overlay = len.saturating_sub(prd as usize);
				let (addr0, ptr0) = match rng.below(8) {
					0 if overlay >= 32 => { pokes.push((prd as usize, payload.clone())); (0u32, prd) },
					1 => (r2 + pay, f2 + pay + 4),
					_ => (r2 + pay, f2 + pay),
				};
				let dbg = blob.len() as u32;
				for v in [0u32, 0x5000_0000, 0, 2, 32, addr0, ptr0] { blob.extend(le32(v)); }
				for v in [0u32, 0x5000_0001, 0, 99, 8, r2 + 88, f2 + 88] { blob.extend(le32(v)); }
				// exception: one RUNTIME_FUNCTION and its UNWIND_INFO (version 1, 2 code slots)
				let exc = blob.len() as u32;
				for v in [sva, sva + 0x10, r2 + exc + 12] { blob.extend(le32(v)); }
				blob.extend_from_slice(&[0x01, 0x04, 0x02, 0x00, 0x04, 0x42, 0x01, 0x50]);
				dirs[2] = (r2, match rng.below(8) { 0 => 80, 1 => 96 + rng.below(0x200) as u32, 2 => 16, _ => 96 });
				dirs[6] = (r2 + dbg, 56);
				dirs[3] = (r2 + exc, 12);
				pokes.push((f2 as usize, blob));
			}
		}
	}
	else {
		// ---- accepted-but-odd: the shapes of gen_sections (overlaps, raw data outside the file, wrapping
		// ranges, sections over the headers, unsorted), SizeOfImage small or capped at 1 MiB
		let l0: usize = match rng.below(4) { 0 => 0x600, 1 => 0x1000, _ => (0x800 + rng.below(0x1800)) as usize };
		spec.secs = gen_sections(rng, l0 as u32, 0x400);
		if rng.chance(1, 3) {
			// shrink the virtual layout so that sections overlap and fit small images
			for s in spec.secs.iter_mut() { if s.va >= 0x1000 && s.va < 0x100_0000 { s.va = 0x400 + (s.va >> 4); } }
		}
		spec.nsec_field = spec.secs.len() as u16;
		let hdr_end = spec.hdr_end();
		len = l0.max(hdr_end);
		spec.soh = match rng.below(8) { 0 => 0, 1 => len as u32, 2 => hdr_end as u32, 3 => rng.below(len as u64 + 1) as u32, _ => 0x400.min(len as u32) };
		let vmax = spec.secs.iter().map(|s| s.va.wrapping_add(s.vs.max(s.srd))).filter(|e| *e < 0x10_0000).max().unwrap_or(0x1000);
		spec.soi = match rng.below(10) { 0 => spec.soh, 1 => if rng.chance(1, 6) { 0x10_0000 } else { 0x8000 }, 2 => len as u32, 3 => spec.soh + rng.below(0x3000) as u32, 4 => vmax.saturating_sub(rng.range(1, 0x200) as u32), 5 => 0x40, _ => vmax };
		spec.soi = spec.soi.max(spec.soh).min(0x10_0000);
		if spec.soi > 0x1_0000 && spec.soi < 0x10_0000 { spec.soi = 0x1_0000 + (spec.soi & 0xfff); }
		for d in 0..rng.below(3) as usize {
			if spec.secs.is_empty() { break; }
			let s = &spec.secs[rng.below(spec.secs.len() as u64) as usize];
			dirs[[0usize, 1, 2][d]] = (s.va.wrapping_add(rng.below(0x40) as u32), rng.below(0x200) as u32);
		}
	}
	spec.dirs = dirs;
	let fill = if rng.chance(1, 12) { 0 } else { rng.range(1, 1000) as u32 };
	let len = len.max(spec.hdr_end()).max(spec.soh as usize);
	let img = Image { len, fill, hdr: scrambled_header(&spec, rng), pokes };

	// ---- queries
	let mut qs: Vec<String> = Vec::new();
	let n = spec.secs.len();
	let mut edges: Vec<u64> = vec![1, spec.soh as u64, spec.soi as u64, len as u64];
	for s in &spec.secs {
		for e in [s.va as u64, s.va as u64 + s.vs as u64, s.va as u64 + s.srd as u64, s.va as u64 + s.vs.min(s.srd) as u64 / 2] {
			edges.push(e);
		}
	}
	for _ in 0..(12 + n.min(24)) {
		let e = *rng.pick(&edges) as i64 + *rng.pick(&[-2i64, -1, 0, 0, 1, 3, 16]);
		let a = (e.max(0) as u64 & 0xFFFF_FFFF) as u32;
		match rng.below(8) {
			0 | 1 | 2 => qs.push(format!("s:{}:{}", a, 0)),
			3 => qs.push(format!("s:{}:{}", a, *rng.pick(&[1u64, 4, 0x20, 0x200, 1 << 32]))),
			4 | 5 => qs.push(format!("c:{}", a)),
			6 => qs.push(format!("g:{}", rng.below(n as u64 + 1))),
			_ => qs.push(format!("d:{}", rng.below(17))),
		}
	}
	// the directory parsers themselves, on both representations
	if planted || rng.chance(1, 4) {
		qs.push("x:0".to_string());
		qs.push("i:0".to_string());
		qs.push("b:0".to_string());
	}
	// third layer: resources (traversal, fsck, lookup), debug directory with payloads and entries, exception directory with
	// function bytes and unwind info - each on both representations
	if planted2 || rng.chance(1, 4) {
		qs.push("r:0".to_string());
		qs.push("m:0".to_string());
		qs.push("u:0".to_string());
	}
	format!("conv fmt={} wf={} {} soh={} soi={} secs={} q={}", if pe64 { 64 } else { 32 }, wf as u8, img.encode(), spec.soh, spec.soi, secs_field(&spec.secs), join(&qs, ","))
}

fn common(a: &[u8], b: &[u8]) -> usize {
	a.iter().zip(b.iter()).take_while(|(x, y)| x == y).count()
}

macro_rules! run_conv {
	($m:ident, $b:expr, $qs:expr) => {{
		use $m::Pe;
		let b: &[u8] = $b;
		let file = match $m::PeFile::from_bytes(b) { Ok(f) => f, Err(e) => return format!("!ctor {:?}", e) };
		// allocation cap of the harness (the property's quantifier: SizeOfImage below an allocation cap)
		if file.optional_header().SizeOfImage > 0x10_0000 { return "!cap".to_string(); }
		let v = file.to_view();
		let vbuf = Aligned::new(&v, 0);
		let vb = vbuf.bytes();
		let (view, fobs): (Option<$m::PeView>, String) = match $m::PeView::from_bytes(vb) { Ok(w) => (Some(w), sparse(&w.to_file())), Err(e) => (None, format!("!{:?}", e)) };
		let off = |base: &[u8], s: &[u8]| -> usize {
			let o = (s.as_ptr() as usize).wrapping_sub(base.as_ptr() as usize);
			assert!(o <= base.len() && s.len() <= base.len() - o, "harness: returned region outside the buffer");
			o
		};
		// the decoded VALUES of a directory parser: exports tables, import descriptors with dll names and IAT
		// values, base relocation bytes
		fn dq<'a, P: $m::Pe<'a>>(pe: P, k: &str) -> String {
			let jl = |v: Vec<u64>| -> String { join(&v, ".") };
			match k {
				"x" => match pe.exports().and_then(|e| e.by().map(|b| (e, b))) {
					Ok((e, b)) => format!("ok:{}/{}/{}/{}", jl(b.functions().iter().map(|x| *x as u64).collect()), jl(b.names().iter().map(|x| *x as u64).collect()),
						jl(b.name_indices().iter().map(|x| *x as u64).collect()), e.image().Base),
					Err(e) => format!("e:{:?}", e),
				},
				"i" => match pe.imports() {
					Ok(imps) => {
						let ds: Vec<String> = imps.iter().map(|d| {
							let im = d.image();
							let dll = match d.dll_name() { Ok(s) => format!("n{}", hex(s.c_str())), Err(e) => format!("e{:?}", e) };
							let iat = match d.iat() { Ok(it) => format!("v{}", jl(it.map(|x| *x as u64).collect())), Err(e) => format!("e{:?}", e) };
							format!("{}.{}.{}.{}.{}/{}/{}", im.OriginalFirstThunk, im.TimeDateStamp, im.ForwarderChain, im.Name, im.FirstThunk, dll, iat)
						}).collect();
						format!("ok:{}", join(&ds, ";"))
					},
					Err(e) => format!("e:{:?}", e),
				},
				_ => match pe.base_relocs() {
					Ok(br) => format!("ok:{}", hex(br.image())),
					Err(e) => format!("e:{:?}", e),
				},
			}
		}
		// the resource tree: section length, root, fsck, the traversal (4 levels, 64 entries; data entries with their first
		// 16 bytes), find_resource(VERSION, 1).  Offsets are relative to the start of the resource section.
		fn rq<'a, P: $m::Pe<'a>>(pe: P) -> String {
			use pelite::resources::{Directory, Entry, Name, FindError};
			let res = match pe.resources() { Ok(r) => r, Err(e) => return format!("e:{:?}", e) };
			let dd = pe.data_directory()[2];
			let sect = pe.slice_bytes(dd.VirtualAddress).expect("harness: resources() succeeded, slice_bytes must");
			let slen = (dd.Size as usize).min(sect.len());
			let base = sect.as_ptr() as usize;
			fn off(base: usize, slen: usize, p: usize) -> usize {
				let o = p.wrapping_sub(base);
				assert!(o <= slen, "harness: pointer outside the resource section");
				o
			}
			fn show_name(n: Name<'_>) -> String {
				match n {
					Name::Id(id) => format!("i{}", id),
					Name::Wide(ws) => format!("w{}", ws.iter().map(|w| format!("{:04x}", w)).collect::<Vec<_>>().join(".")),
					Name::Str(s) => format!("s{}", hex(s.as_bytes())),
				}
			}
			fn walk(base: usize, slen: usize, dir: Directory<'_>, lvl: u32, depth: u32, budget: &mut u64, out: &mut Vec<String>) {
				if depth == 0 { out.push("cut".into()); return; }
				let named: Vec<usize> = dir.named_entries().map(|e| e.image() as *const _ as usize).collect();
				for e in dir.entries() {
					if *budget == 0 { out.push("stop".into()); break; }
					*budget -= 1;
					let p = e.image() as *const _ as usize;
					let eo = off(base, slen, p);
					let flag = if named.contains(&p) { "n" } else { "i" };
					let nm = match e.name() { Ok(n) => show_name(n), Err(err) => format!("x{:?}", err) };
					let isdir = e.is_dir() as u8;
					match e.entry() {
						Ok(Entry::Directory(d)) => {
							out.push(format!("{}:{}:{}:{}:{}:D/{}", lvl, eo, flag, nm, isdir, off(base, slen, d.image() as *const _ as usize)));
							walk(base, slen, d, lvl + 1, depth - 1, budget, out);
						},
						Ok(Entry::DataEntry(d)) => {
							let b = match d.bytes() {
								Ok(b) => { let o = off(base, slen, b.as_ptr() as usize); assert!(b.len() <= slen - o, "harness: data outside the resource section"); format!("{}/{}/{}", o, b.len(), hex(&b[..b.len().min(16)])) },
								Err(err) => format!("e{:?}", err),
							};
							out.push(format!("{}:{}:{}:{}:{}:F/{}/{}/{}/{}", lvl, eo, flag, nm, isdir, off(base, slen, d.image() as *const _ as usize), b, d.size(), d.code_page()));
						},
						Err(err) => out.push(format!("{}:{}:{}:{}:{}:X/{:?}", lvl, eo, flag, nm, isdir, err)),
					}
				}
			}
			let mut items: Vec<String> = Vec::new();
			let roots = match res.root() {
				Ok(d) => { let mut b = 64u64; walk(base, slen, d, 0, 4, &mut b, &mut items); format!("ok{}", off(base, slen, d.image() as *const _ as usize)) },
				Err(e) => format!("e{:?}", e),
			};
			let fsck = match res.fsck() { Ok(()) => "ok".to_string(), Err(e) => format!("e{:?}", e) };
			let ver = match res.find_resource(&[Name::VERSION, Name::Id(1)]) {
				Ok(b) => format!("R.{}.{}", off(base, slen, b.as_ptr() as usize), b.len()),
				Err(FindError::Pe(e)) => format!("ePe.{:?}", e),
				Err(e) => format!("e{:?}", e),
			};
			format!("ok:{};{};{};{};{}", slen, roots, fsck, join(&items, "+"), ver)
		}
		// the debug directory: per entry the fields, Dir::data (length and first 40 bytes) and Dir::entry
		fn mq<'a, P: $m::Pe<'a>>(pe: P) -> String {
			use $m::debug::{CodeView, Entry};
			let dbg = match pe.debug() { Ok(d) => d, Err(e) => return format!("e:{:?}", e) };
			let raw = |p: *const u8, n: usize| -> String { hex(unsafe { std::slice::from_raw_parts(p, n) }) };
			let es: Vec<String> = dbg.iter().take(8).map(|d| {
				let im = d.image();
				let data = match d.data() { Some(b) => format!("d{}.{}", b.len(), hex(&b[..b.len().min(40)])), None => "none".to_string() };
				let ent = match d.entry() {
					Ok(Entry::CodeView(CodeView::Cv20 { image, pdb_file_name })) => format!("cv20.{}.{}", raw(image as *const _ as *const u8, 16), hex(pdb_file_name.c_str())),
					Ok(Entry::CodeView(CodeView::Cv70 { image, pdb_file_name })) => format!("cv70.{}.{}", raw(image as *const _ as *const u8, 24), hex(pdb_file_name.c_str())),
					Ok(Entry::Dbg(g)) => format!("dbg.{}", raw(g.image() as *const _ as *const u8, 12)),
					Ok(Entry::Pgo(g)) => format!("pgo.{}", g.image().len()),
					Ok(Entry::Unknown(u)) => format!("unk.{}", match u { Some(b) => format!("d{}.{}", b.len(), hex(&b[..b.len().min(40)])), None => "none".to_string() }),
					Err(e) => format!("e{:?}", e),
				};
				format!("{}.{}.{}.{}/{}/{}", im.Type, im.SizeOfData, im.AddressOfRawData, im.PointerToRawData, data, ent)
			}).collect();
			format!("ok:{};{}", dbg.image().len(), join(&es, ";"))
		}
		// the exception directory: per function the RUNTIME_FUNCTION, Function::bytes and Function::unwind_info
		fn uq<'a, P: $m::Pe<'a>>(pe: P) -> String {
			let exc = match pe.exception() { Ok(x) => x, Err(e) => return format!("e:{:?}", e) };
			let fs: Vec<String> = exc.functions().take(8).map(|f| {
				let im = f.image();
				let by = match f.bytes() { Ok(b) => format!("b{}.{}", b.len(), hex(&b[..b.len().min(8)])), Err(e) => format!("e{:?}", e) };
				let uw = match f.unwind_info() {
					Ok(u) => {
						let codes = u.unwind_codes();
						let cb: Vec<u8> = codes.iter().flat_map(|c| [c.CodeOffset, c.UnwindOpInfo]).collect();
						format!("u{}.{}.{}.{}.{}.{}.{}", u.version(), u.flags(), u.size_of_prolog(), u.image().CountOfCodes, u.frame_register(), u.frame_offset(), hex(&cb))
					},
					Err(e) => format!("e{:?}", e),
				};
				format!("{}.{}.{}/{}/{}", im.BeginAddress, im.EndAddress, im.UnwindData, by, uw)
			}).collect();
			format!("ok:{};{}", exc.image().len(), join(&fs, ";"))
		}
		let mut out: Vec<String> = Vec::new();
		for q in $qs {
			let p: Vec<&str> = q.split(':').collect();
			if p[0] == "r" || p[0] == "m" || p[0] == "u" {
				let (sf, sv) = match p[0] {
					"r" => (rq(file), match view { Some(w) => rq(w), None => "-".to_string() }),
					"m" => (mq(file), match view { Some(w) => mq(w), None => "-".to_string() }),
					_ => (uq(file), match view { Some(w) => uq(w), None => "-".to_string() }),
				};
				let eq = (sf == sv) as u8;
				out.push(format!("{}|{}|{}", sf, sv, eq));
				continue;
			}
			if p[0] == "x" || p[0] == "i" || p[0] == "b" {
				let sf = dq(file, p[0]);
				let sv = match view { Some(w) => dq(w, p[0]), None => "-".to_string() };
				let eq = (sf == sv) as u8;
				out.push(format!("{}|{}|{}", sf, sv, eq));
				continue;
			}
			let n = |i: usize| -> u64 { p[i].parse::<u64>().unwrap() };
			// (result on the file, result on the view) as byte slices
			let (rf, rv): (Option<pelite::Result<&[u8]>>, Option<pelite::Result<&[u8]>>) = match p[0] {
				"s" => (Some(file.slice(n(1) as u32, n(2) as usize, 1)), view.map(|w| w.slice(n(1) as u32, n(2) as usize, 1))),
				"c" => (Some(file.derva_c_str(n(1) as u32).map(|s| s.c_str())), view.map(|w| w.derva_c_str(n(1) as u32).map(|s| s.c_str()))),
				"g" => {
					let i = n(1) as usize;
					(file.section_headers().image().get(i).map(|sh| file.get_section_bytes(sh)),
					 view.and_then(|w| w.section_headers().image().get(i).map(|sh| w.get_section_bytes(sh))))
				},
				_ => {
					let i = n(1) as usize;
					(file.data_directory().get(i).map(|d| file.slice(d.VirtualAddress, d.Size as usize, 1)),
					 view.and_then(|w| w.data_directory().get(i).map(|d| w.slice(d.VirtualAddress, d.Size as usize, 1))))
				},
			};
			let show = |base: &[u8], r: &Option<pelite::Result<&[u8]>>| -> String {
				match r { None => "-".to_string(), Some(Ok(s)) => format!("ok:{}:{}", off(base, s), s.len()), Some(Err(e)) => format!("e:{:?}", e) }
			};
			// the VA path on both representations: wherever rva -> va exists, reading at B + r is slicing at r (same bytes, same
			// error) - on the file view and on the view over the converted buffer alike
			if p[0] == "s" {
				let (r, ms) = (n(1) as u32, n(2) as usize);
				if let Ok(va) = file.rva_to_va(r) {
					let (a, b2) = (file.read(va, ms, 1), file.slice(r, ms, 1));
					assert!(a == b2, "harness: read(B+r) differs from slice(r) on the file view at rva {}: {:?} vs {:?}", r, a.map(|x| x.len()), b2.map(|x| x.len()));
				}
				if let Some(w) = view {
					if let Ok(va) = w.rva_to_va(r) {
						let (a, b2) = (w.read(va, ms, 1), w.slice(r, ms, 1));
						assert!(a == b2, "harness: read(B+r) differs from slice(r) on the converted view at rva {}: {:?} vs {:?}", r, a.map(|x| x.len()), b2.map(|x| x.len()));
					}
				}
			}
			let c = match (&rf, &rv) { (Some(Ok(a)), Some(Ok(b))) => common(a, b), _ => 0 };
			out.push(format!("{}|{}|{}", show(b, &rf), show(vb, &rv), c));
		}
		format!("v={} f={} r={}", sparse(&v), fobs, join(&out, ","))
	}};
}

fn run(case: &str) -> String {
	let img = Image::decode(case);
	let bytes = img.bytes();
	let buf = Aligned::new(&bytes, 0);
	let b = buf.bytes();
	let qs: Vec<&str> = split(field(case, "q"), ',');
	match field(case, "fmt") {
		"32" => run_conv!(pe32, b, qs.iter()),
		_ => run_conv!(pe64, b, qs.iter()),
	}
}

fn main() {
	harness_main(gen, run);
}
