//! C18: iterators as faithful sequences — implementation side.
//!
//! A case is one input from which the library hands out an iterator, plus a flat list of
//! calls `hist=<slot><op>[arg],...`:  n next, b next_back, t<k> nth(k), q<k> nth_back(k), l len, h size_hint,
//! c clone().count(), k clone (appends the copy to the pool), d drain (next until None),
//! and `r` = drop the pool and start again from a fresh iterator (separates histories).
//! The observation is the item list obtained by a plain `for` loop and every call's output.
use pelite::base_relocs::BaseRelocs;
use pelite::strings::{Config, Heuristic};
use pvh::pe::*;
use pvh::*;
#[path = "../iters_more.rs"]
mod more;

const K63: u64 = 1 << 63;
/// case index at which the deeper exhaustive enumeration (thorough tier) starts
const DEEP_START: u64 = 100_000;

fn opt(o: Option<String>) -> String {
	match o { Some(s) => format!("S{}", s), None => "N".to_string() }
}
fn nb<I: DoubleEndedIterator>(it: &mut I) -> Option<I::Item> { it.next_back() }
fn ln<I: ExactSizeIterator>(it: &I) -> usize { it.len() }
fn nthb<I: DoubleEndedIterator>(it: &mut I, k: usize) -> Option<I::Item> { it.nth_back(k) }

fn run_hist<I: Iterator + Clone>(fresh: &dyn Fn() -> I, show: &dyn Fn(I::Item) -> String, hist: &str,
	nbf: Option<fn(&mut I) -> Option<I::Item>>, lnf: Option<fn(&I) -> usize>, qf: Option<fn(&mut I, usize) -> Option<I::Item>>) -> String {
	// the item list by a plain forward loop
	let mut items: Vec<String> = Vec::new();
	for x in fresh() {
		items.push(show(x));
		assert!(items.len() <= 100_000, "harness: runaway iterator");
	}
	let limit = items.len() + 2;
	let mut pool: Vec<I> = vec![fresh()];
	let mut outs: Vec<String> = Vec::new();
	for tok in split(hist, ',') {
		if tok == "r" {
			pool = vec![fresh()];
			outs.push("r".to_string());
			continue;
		}
		let p = tok.find(|c: char| !c.is_ascii_digit()).expect("harness: malformed op");
		let slot: usize = tok[..p].parse().expect("harness: malformed slot");
		let opc = tok.as_bytes()[p] as char;
		let arg = &tok[p + 1..];
		if slot >= pool.len() {
			outs.push("x".to_string());
			continue;
		}
		let o = match opc {
			'n' => opt(pool[slot].next().map(|x| show(x))),
			'b' => match nbf { Some(f) => opt(f(&mut pool[slot]).map(|x| show(x))), None => "u".to_string() },
			't' => { let k: u64 = arg.parse().expect("harness: nth arg"); opt(pool[slot].nth(k as usize).map(|x| show(x))) },
			'q' => { let k: u64 = arg.parse().expect("harness: nth_back arg"); match qf { Some(f) => opt(f(&mut pool[slot], k as usize).map(|x| show(x))), None => "u".to_string() } },
			'l' => match lnf { Some(f) => format!("n{}", f(&pool[slot])), None => "u".to_string() },
			'h' => { let (lo, hi) = pool[slot].size_hint(); format!("h{}/{}", lo, hi.map(|h| h.to_string()).unwrap_or("-".to_string())) },
			'c' => format!("n{}", pool[slot].clone().count()),
			'k' => { let c = pool[slot].clone(); pool.push(c); "k".to_string() },
			'd' => {
				let mut parts: Vec<String> = Vec::new();
				loop {
					let x = pool[slot].next();
					let done = x.is_none();
					parts.push(opt(x.map(|x| show(x))));
					if done { break; }
					assert!(parts.len() <= limit, "harness: drain yields more than the forward loop");
				}
				parts.join("+")
			},
			_ => panic!("harness: unknown op"),
		};
		outs.push(o);
	}
	format!("items={} out={}", join(&items, ","), join(&outs, ","))
}
fn run_full<I: DoubleEndedIterator + ExactSizeIterator + Clone>(fresh: &dyn Fn() -> I, show: &dyn Fn(I::Item) -> String, hist: &str) -> String {
	let f: fn(&mut I) -> Option<I::Item> = nb::<I>;
	let g: fn(&I) -> usize = ln::<I>;
	let q: fn(&mut I, usize) -> Option<I::Item> = nthb::<I>;
	run_hist(fresh, show, hist, Some(f), Some(g), Some(q))
}
fn run_fwd<I: Iterator + Clone>(fresh: &dyn Fn() -> I, show: &dyn Fn(I::Item) -> String, hist: &str) -> String {
	run_hist(fresh, show, hist, None, None, None)
}

// ------------------------------------------------------------------ inputs

const DANS: u32 = 0x536e6144;
const RICH: u32 = 0x68636952;

fn in_rich(rng: &mut Rng, n: usize, wild: bool) -> String {
	let stub_len = if wild { rng.range(16, 24) as usize } else { 16 };
	let mut stub: Vec<u32> = (0..stub_len).map(|_| if rng.chance(1, 4) { 0 } else { rng.next() as u32 }).collect();
	stub[0] = (stub[0] & 0xFFFF_0000) | 0x5A4D;
	let key: u32 = loop { let k = rng.next() as u32; if k != 0 { break k; } };
	let recs: Vec<(u16, u16, u32)> = (0..n).map(|_| (
		match rng.below(5) { 0 => 0, 1 => 0xFFFF, _ => rng.next() as u16 },
		match rng.below(5) { 0 => 0, 1 => 0xFFFF, _ => rng.below(0x110) as u16 },
		match rng.below(6) { 0 => 0, 1 => 0xFFFF_FFFF, 2 => 0x8000_0000, _ => rng.below(500) as u32 },
	)).collect();
	let npad = rng.below(4) as usize;
	let total = stub_len + 2 * n + 6 + npad;
	let mut words: Vec<u32> = Vec::new();
	words.extend_from_slice(&stub);
	words.push(DANS ^ key); words.push(key); words.push(key); words.push(key);
	for (b, p, c) in &recs { words.push((((*p as u32) << 16) | *b as u32) ^ key); words.push(*c ^ key); }
	words.push(RICH); words.push(key);
	for _ in 0..npad { words.push(0); }
	if wild {
		match rng.below(12) {
			0 => { let k = stub_len + 4 + 2 * n; words[k] = RICH ^ 1; },          // no Rich marker
			1 => { words[stub_len] ^= 0x100; },                                    // no DanS
			2 => if n >= 2 { let j = stub_len + 4 + 2 * rng.below(n as u64 - 1) as usize; words[j] = DANS ^ key; words[j + 1] = key; words[j + 2] = key; words[j + 3] = key; }, // header pattern inside the records
			// header pattern at an ODD dword distance from the Rich marker (the scan steps two dwords: it must be skipped)
			3 | 4 => if n >= 3 { let j = stub_len + 4 + 2 * rng.below(n as u64 - 2) as usize + 1; words[j] = DANS ^ key; words[j + 1] = key; words[j + 2] = key; words[j + 3] = key; },
			_ => {},
		}
	}
	let e_lfanew = (total * 4) as u32;
	let spec = ImgSpec { pe64: true, e_lfanew, soh: 0, soi: 0x1000, image_base: 0x1_4000_0000, nrva: 0, dirs: vec![], opt_size: 112, nsec_field: 0, secs: vec![], checksum: 0, magic: 0x20b };
	let mut bytes = spec.header_bytes();
	for (i, w) in words.iter().enumerate() {
		if 4 * i + 4 <= e_lfanew as usize && i != 15 {
			bytes[4 * i..4 * i + 4].copy_from_slice(&w.to_le_bytes());
		}
	}
	format!("img={}", hex(&bytes))
}

fn in_relocs(rng: &mut Rng, n: usize, wild: bool) -> String {
	let mut data: Vec<u8> = Vec::new();
	if wild && rng.chance(1, 10) {
		for _ in 0..rng.below(64) { data.push(rng.byte()); }
		data.truncate(data.len() & !3);
	}
	else {
		for _ in 0..n {
			let nwords = rng.below(5) as u32;
			let va = match rng.below(5) { 0 => 0, 1 => 0xFFFF_F000, _ => (rng.below(64) as u32) << 12 };
			let true_size = 8 + 2 * nwords;
			let sob: u32 = if !wild { true_size } else { match rng.below(12) {
				0 => 0, 1 => 1, 2 => 7, 3 => 9, 4 => true_size + 1, 5 => true_size.wrapping_sub(1), 6 => true_size + 2,
				7 => 0xFFFF_FFFC + rng.below(4) as u32, 8 => 0x8000_0000, 9 => rng.next() as u32, _ => true_size } };
			data.extend_from_slice(&va.to_le_bytes());
			data.extend_from_slice(&sob.to_le_bytes());
			for _ in 0..nwords {
				let ty = if rng.chance(1, 4) { 0 } else { rng.below(16) as u16 };
				data.extend_from_slice(&((ty << 12) | rng.below(0x1000) as u16).to_le_bytes());
			}
			if data.len() % 4 != 0 { data.extend_from_slice(&[0, 0]); }
		}
		if wild {
			match rng.below(6) {
				0 => { let cut = rng.below(data.len() as u64 + 1) as usize; data.truncate(cut); },
				1 => { for _ in 0..rng.below(9) { data.push(rng.byte()); } },
				_ => {},
			}
		}
	}
	format!("data={} place={}", hex(&data), *rng.pick(&[0usize, 4, 8, 12]))
}

fn in_strings(rng: &mut Rng, n: usize, wild: bool) -> String {
	let mut data: Vec<u8> = Vec::new();
	let (min, minnul, strict);
	if !wild {
		for _ in 0..n {
			if rng.chance(1, 3) { data.push(*rng.pick(&[0u8, 0x80, 0x1f, 0xff])); }
			if rng.chance(1, 4) { data.push(b'z'); data.push(0); }              // too short: not reported
			for _ in 0..rng.range(3, 8) { data.push(rng.range(0x21, 0x7e) as u8); }
			data.push(0);
		}
		min = 3; minnul = 3; strict = rng.chance(1, 2);
		// end the buffer inside the last run: it is still reported (without NUL) unless strict
		if !strict && n > 0 && rng.chance(1, 3) { data.pop(); }
	}
	else {
		let len = rng.below(100) as usize;
		let noise = rng.chance(1, 10);
		while data.len() < len {
			if noise { data.push(rng.byte()); continue; }
			let run = match rng.below(6) { 0 => 0, 1 => 1, 2 => 2, _ => rng.below(12) } as usize;
			for _ in 0..run { data.push(match rng.below(12) { 0 => 9, 1 => 10, 2 => 13, 3 => 0x20, 4 => 0x7e, _ => rng.range(0x21, 0x7d) as u8 }); }
			data.push(match rng.below(11) { 0 | 1 | 2 | 3 => 0, 4 => 0x7f, 5 => 0x1f, 6 => 0x80, 7 => 0xff, 8 => 8, 9 => 12, _ => 11 });
		}
		if rng.chance(1, 3) { for _ in 0..rng.below(6) { data.push(rng.range(0x41, 0x5a) as u8); } }
		let pick = |rng: &mut Rng| -> u8 { match rng.below(8) { 0 => 1, 1 => 2, 2 => 3, 3 => 6, 4 => 255, 5 => 0, _ => rng.range(1, 10) as u8 } };
		min = pick(rng); minnul = pick(rng); strict = rng.chance(1, 2);
	}
	let base: u32 = match rng.below(5) { 0 => 0, 1 => 0xFFFF_FFFF, 2 => 0xFFFF_FFF0, _ => 0x1000 * rng.below(0x100) as u32 };
	format!("data={} min={} minnul={} strict={} base={}", hex(&data), min, minnul, strict as u8, base)
}

fn in_pgo(rng: &mut Rng, n: usize, wild: bool) -> String {
	let mut words: Vec<u32> = vec![0x50475500 + rng.below(4) as u32];
	for _ in 0..n {
		words.push(rng.next() as u32);
		words.push(rng.below(0x1000) as u32);
		let len = rng.below(10) as usize;
		let mut name: Vec<u8> = (0..len).map(|_| rng.range(0x21, 0x7e) as u8).collect();
		name.push(0);
		while name.len() % 4 != 0 { name.push(if wild && rng.chance(1, 8) { 0x41 } else { 0 }); }
		for c in name.chunks(4) { words.push(u32::from_le_bytes([c[0], c[1], c[2], c[3]])); }
	}
	if wild {
		match rng.below(8) {
			0 => { words.clear(); },
			1 => { let cut = rng.below(words.len() as u64 + 1) as usize; words.truncate(cut); },
			2 => { words.push(rng.next() as u32); words.push(7); words.push(0x41414141); },   // last name without NUL
			3 => { words.push(1); words.push(2); },                                            // two dwords left over
			4 => { let k = rng.below(words.len() as u64) as usize; words[k] = rng.next() as u32 | 0x01010101; },
			_ => {},
		}
	}
	format!("words={}", join(&words, ","))
}

/// one-section PE file with a directory payload at file offset 0x200 + x (rva 0x1000 + x)
fn in_image(rng: &mut Rng, n: usize, wild: bool, pe64: bool, what: usize) -> String {
	// what: 0 import descriptors, 1 debug directories, 2 runtime functions
	let debug = what != 0;
	let mut dirs = vec![(0u32, 0u32); 16];
	let x: u32 = 4 * rng.below(0x20) as u32;
	let esz: usize = [20usize, 28, 12][what];
	let mut payload: Vec<u8> = Vec::new();
	let mut exp: Vec<String> = Vec::new();
	for i in 0..n {
		let off = 0x200 + x as usize + esz * i;
		let mut e: Vec<u8> = (0..esz).map(|_| rng.byte()).collect();
		let tag: u32 = rng.next() as u32 | 1;
		if what == 2 {
			e[0..4].copy_from_slice(&tag.to_le_bytes());        // BeginAddress
		}
		else if debug {
			e[12..16].copy_from_slice(&tag.to_le_bytes());      // Type
		}
		else {
			e[0..4].copy_from_slice(&tag.to_le_bytes());        // OriginalFirstThunk
			let ft: u32 = rng.next() as u32 | 0x10;
			e[16..20].copy_from_slice(&ft.to_le_bytes());       // FirstThunk != 0
		}
		payload.extend_from_slice(&e);
		exp.push(format!("{}.{}", off, tag));
	}
	if !debug { payload.extend_from_slice(&[0u8; 20]); }         // the terminating null descriptor
	let mut size = if debug { (esz * n) as u32 } else { (esz * (n + 1)) as u32 };
	let mut fill = if rng.chance(1, 2) { 0 } else { rng.range(1, 1000) as u32 };
	let mut nodir = false;
	// is an iterator handed out?  1 yes, 0 no, ? not predicted here (the directory runs on into the fill)
	let mut it = "1";
	if wild {
		match rng.below(10) {
			0 => if debug { size += 1 + rng.below(esz as u64 - 1) as u32; it = "0"; },   // size not a multiple: Invalid
			1 => if !debug { payload.truncate(esz * n); fill = rng.range(1, 1000) as u32; it = "?"; }, // no terminator: runs on into the fill
			2 => { nodir = true; it = "0"; },
			_ => {},
		}
	}
	let di = [1usize, 6, 3][what];
	if !nodir { dirs[di] = (0x1000 + x, size); }
	let mut spec = ImgSpec { pe64, e_lfanew: *rng.pick(&[0x40u32, 0x80]), soh: 0x200, soi: 0x2000, image_base: if pe64 { 0x1_4000_0000 } else { 0x40_0000 }, nrva: 16, dirs, opt_size: 0, nsec_field: 1,
		secs: vec![Sec { name: *b".data\0\0\0", va: 0x1000, vs: 0x400, prd: 0x200, srd: 0x400, chars: 0xC000_0040 }], checksum: 0, magic: if pe64 { 0x20b } else { 0x10b } };
	spec.opt_size = spec.std_opt_size();
	let img = Image { len: 0x600, fill, hdr: scrambled_header(&spec, rng), pokes: vec![(0x200 + x as usize, payload)] };
	format!("{} it={} exp={}", img.encode(), it, join(&exp, ","))
}

const KINDS: [&str; 11] = ["rich", "relocs", "strings", "pgo", "imp32", "imp64", "dbg32", "dbg64", "wimp", "wdbg", "exc64"];
fn is_full(kind: &str) -> bool { matches!(kind, "rich" | "imp32" | "imp64" | "dbg32" | "dbg64" | "exc64") || more::is_full(kind) }
/// every (kind, selector): the eleven kinds with hand-written or delegating iterators, then the compositions of std adaptors
fn families() -> Vec<(&'static str, &'static str)> {
	let mut v: Vec<(&'static str, &'static str)> = KINDS.iter().map(|k| (*k, "")).collect();
	v.extend(more::FAMS.iter().cloned());
	v
}

/// the input fields and the number of items the iterator must yield on a structured input
fn make_input(rng: &mut Rng, kind: &str, sel: &str, n: usize, wild: bool) -> (String, usize) {
	if let Some(r) = more::make_input(rng, kind, sel, n, wild) { return r; }
	(make_input_old(rng, kind, n, wild), n)
}
fn make_input_old(rng: &mut Rng, kind: &str, n: usize, wild: bool) -> String {
	match kind {
		"rich" => in_rich(rng, n, wild),
		"relocs" => in_relocs(rng, n, wild),
		"strings" => in_strings(rng, n, wild),
		"pgo" => in_pgo(rng, n, wild),
		"imp32" => in_image(rng, n, wild, false, 0),
		"imp64" => in_image(rng, n, wild, true, 0),
		"dbg32" => in_image(rng, n, wild, false, 1),
		"dbg64" => in_image(rng, n, wild, true, 1),
		"wimp" => { let p = rng.chance(1, 2); in_image(rng, n, wild, p, 0) },
		"wdbg" => { let p = rng.chance(1, 2); in_image(rng, n, wild, p, 1) },
		"exc64" => in_image(rng, n, wild, true, 2),
		_ => unreachable!(),
	}
}

/// the op alphabet of the exhaustive part, for a sequence of n items
fn alphabet(full: bool, n: usize) -> Vec<String> {
	let mut a: Vec<String> = Vec::new();
	a.push("0n".into());
	if full { a.push("0b".into()); }
	for k in [0u64, 1, n as u64, K63, u64::MAX] { a.push(format!("0t{}", k)); }
	if !full { a.push("0t2".into()); a.push(format!("0t{}", n + 1)); }
	// nth_back on the double-ended families: the last item, the one before it, the first, one past the first, far beyond
	// (k = 2 and len + 1 come from the random part)
	if full { for k in [0u64, 1, (n as u64).saturating_sub(1), n as u64, K63] { a.push(format!("0q{}", k)); } }
	if full { a.push("0l".into()); }
	a.push("0h".into());
	a.push("0c".into());
	a.push("0k".into());
	a.push("1n".into());
	if full { a.push("1b".into()); }
	a.push("1t1".into());
	if full { a.push("1q1".into()); }
	a
}

fn gen(rng: &mut Rng, i: u64) -> String {
	// ---- exhaustive part: every history of length `depth` over the alphabet, for sequences of 0..8 items;
	// one case = one (kind, n, prefix of depth-2 ops) with all |alphabet|^2 completions, each followed by a drain
	// The block is walked with a stride coprime to its size, so that ANY run of a few hundred consecutive indices
	// (the component runs of C01 / C02 / C03 take the first 600-800) meets every family.
	for (start, deep) in [(0u64, false), (DEEP_START, true)] {
		if i < start { break; }
		let fam_count = |kind: &str| -> u64 {
			let depth: u32 = (if kind == "rich" { 4 } else { 3 }) + deep as u32;
			9 * (alphabet(is_full(kind), 0).len() as u64).pow(depth - 2)
		};
		let total: u64 = families().iter().map(|(k, _)| fam_count(k)).sum();
		if i >= start + total { continue; }
		fn gcd(a: u64, b: u64) -> u64 { if b == 0 { a } else { gcd(b, a % b) } }
		let stride = *[1009u64, 1013, 1019, 1021, 1031, 1033].iter().find(|s| gcd(**s, total) == 1).unwrap();
		let i = start + ((i - start) * stride) % total;
		let mut base = start;
		for (kind, sel) in families().iter() {
			let full = is_full(kind);
			let depth: u32 = (if *kind == "rich" { 4 } else { 3 }) + deep as u32;
			let asz = alphabet(full, 0).len() as u64;
			let count = fam_count(kind);
			if i < base + count {
				let j = i - base;
				let n = (j % 9) as usize;
				let mut pidx = j / 9;
				// the number of items may differ from n when one of the tables of an export directory is null
				let (input, n) = make_input(rng, kind, sel, n, false);
				let alpha = alphabet(full, n);
				let mut prefix: Vec<String> = Vec::new();
				for _ in 0..depth - 2 { prefix.push(alpha[(pidx % asz) as usize].clone()); pidx /= asz; }
				let mut hist: Vec<String> = Vec::new();
				for a in &alpha {
					for b in &alpha {
						if !hist.is_empty() { hist.push("r".into()); }
						hist.extend(prefix.iter().cloned());
						hist.push(a.clone());
						hist.push(b.clone());
						hist.push("0d".into());
						hist.push("1d".into());
					}
				}
				return format!("{} {} n={} wild=0 hist={}", kind, input, n, hist.join(","));
			}
			base += count;
		}
	}
	// ---- random part
	let (kind, sel) = *rng.pick(&families());
	let full = is_full(kind);
	let wild = rng.chance(1, 3);
	let n = match rng.below(6) { 0 => 0, 1 => 1, 2 => rng.range(9, 20), _ => rng.range(2, 8) } as usize;
	let (input, n) = make_input(rng, kind, sel, n, wild);
	let hlen = match rng.below(4) { 0 => rng.range(1, 6), _ => rng.range(6, 40) } as usize;
	let mut hist: Vec<String> = Vec::new();
	let mut slots = 1u64;
	for _ in 0..hlen {
		let slot = if rng.chance(1, 30) { slots } else { rng.below(slots) };
		let k: u64 = match rng.below(12) {
			0 => 0, 1 => 1, 2 => 2, 3 => n as u64, 4 => n as u64 + 1, 5 => (n as u64).saturating_sub(1), 6 => K63, 7 => u64::MAX,
			8 => 1 << 32, 9 => K63 - 1, 10 => u64::MAX / 2 + 2, _ => rng.below(n as u64 + 3),
		};
		// fourth audit (M3): most of the k above overshoot and exhaust the iterator at once; two thirds of the nth / nth_back
		// calls now skip a few items only, so that several productive calls follow one another
		let k = if rng.chance(2, 3) { rng.below((n as u64 / 3).max(1) + 1) } else { k };
		let op = match rng.below(if full { 20 } else { 12 }) {
			0 | 1 | 2 => "n".to_string(),
			3 | 4 | 5 => format!("t{}", k),
			6 => "h".to_string(),
			7 => "c".to_string(),
			8 => if slots < 4 { slots += 1; "k".to_string() } else { "n".to_string() },
			9 => "h".to_string(),
			10 => format!("t{}", rng.below(3)),
			11 => if rng.chance(1, 4) { "d".to_string() } else { "n".to_string() },
			12 | 13 | 14 => "b".to_string(),
			15 => "l".to_string(),
			_ => format!("q{}", k),
		};
		// forward-only families: next_back / nth_back / len are not callable (the harness cannot even write the call); now and then
		// the history asks all the same, and both sides must answer `u`
		let op = if !full && rng.chance(1, 40) { match rng.below(3) { 0 => "b".to_string(), 1 => "l".to_string(), _ => format!("q{}", k) } } else { op };
		hist.push(format!("{}{}", slot, op));
		if rng.chance(1, 25) { hist.push("r".into()); slots = 1; }
	}
	for s in 0..slots { hist.push(format!("{}h", s)); hist.push(format!("{}d", s)); hist.push(format!("{}n", s)); }
	format!("{} {} n={} wild={} hist={}", kind, input, n, wild as u8, hist.join(","))
}

// ------------------------------------------------------------------ implementation side

fn run(case: &str) -> String {
	let kind = case.split(' ').next().unwrap();
	let hist = field(case, "hist");
	if let Some(obs) = more::run(case, kind, hist) { return obs; }
	match kind {
		"rich" => {
			use pelite::pe64::{Pe, PeFile};
			let bytes = unhex(field(case, "img"));
			let buf = Aligned::new(&bytes, 0);
			let file = match PeFile::from_bytes(buf.bytes()) { Ok(f) => f, Err(e) => return format!("!ctor {:?}", e) };
			let rs = match file.rich_structure() { Ok(rs) => rs, Err(e) => return format!("noiter={:?}", e) };
			run_full(&|| rs.records(), &|r| format!("{}.{}.{}", r.build, r.product, r.count), hist)
		},
		"relocs" => {
			let data = unhex(field(case, "data"));
			let place: usize = field(case, "place").parse().unwrap();
			let buf = Aligned::new(&data, place);
			let bytes = buf.bytes();
			let base = bytes.as_ptr() as usize;
			let relocs = match BaseRelocs::parse(bytes) { Ok(r) => r, Err(e) => return format!("noiter={:?}", e) };
			run_fwd(&|| relocs.iter_blocks(), &|b| {
				let off = b.image() as *const _ as usize - base;
				let ws: Vec<String> = b.words().iter().map(|w| w.to_string()).collect();
				format!("{}.{}.{}.{}", off, b.image().VirtualAddress, b.image().SizeOfBlock, if ws.is_empty() { "-".to_string() } else { ws.join("_") })
			}, hist)
		},
		"strings" => {
			let data = unhex(field(case, "data"));
			let cfg = Config { min_length: field(case, "min").parse().unwrap(), min_length_nul: field(case, "minnul").parse().unwrap(), strict_nul: field(case, "strict") == "1", heuristic: Heuristic::PrintableAscii };
			let base: u32 = field(case, "base").parse().unwrap();
			let p0 = data.as_ptr() as usize;
			run_fwd(&|| cfg.clone().enumerate(base, &data), &|f| format!("{}.{}.{}.{}", f.string.as_ptr() as usize - p0, f.string.len(), f.address, f.has_nul as u8), hist)
		},
		"pgo" => {
			use pelite::pe64::debug::Pgo;
			let words: Vec<u32> = split(field(case, "words"), ',').iter().map(|s| s.parse().unwrap()).collect();
			let pgo = Pgo { image: &words };
			run_fwd(&|| pgo.iter(), &|it| { let b: &[u8] = it.name.as_ref(); format!("{}.{}.{}", it.rva, it.size, hex(b)) }, hist)
		},
		"imp32" | "imp64" | "dbg32" | "dbg64" | "wimp" | "wdbg" | "exc64" => {
			let img = Image::decode(case);
			let bytes = img.bytes();
			let buf = Aligned::new(&bytes, 0);
			let b = buf.bytes();
			let base = b.as_ptr() as usize;
			match kind {
				"imp32" => {
					use pelite::pe32::{Pe, PeFile};
					let file = match PeFile::from_bytes(b) { Ok(f) => f, Err(e) => return format!("!ctor {:?}", e) };
					let imports = match file.imports() { Ok(x) => x, Err(e) => return format!("noiter={:?}", e) };
					run_full(&|| imports.iter(), &|d| format!("{}.{}", d.image() as *const _ as usize - base, d.image().OriginalFirstThunk), hist)
				},
				"imp64" => {
					use pelite::pe64::{Pe, PeFile};
					let file = match PeFile::from_bytes(b) { Ok(f) => f, Err(e) => return format!("!ctor {:?}", e) };
					let imports = match file.imports() { Ok(x) => x, Err(e) => return format!("noiter={:?}", e) };
					run_full(&|| imports.iter(), &|d| format!("{}.{}", d.image() as *const _ as usize - base, d.image().OriginalFirstThunk), hist)
				},
				"dbg32" => {
					use pelite::pe32::{Pe, PeFile};
					let file = match PeFile::from_bytes(b) { Ok(f) => f, Err(e) => return format!("!ctor {:?}", e) };
					let debug = match file.debug() { Ok(x) => x, Err(e) => return format!("noiter={:?}", e) };
					run_full(&|| debug.iter(), &|d| format!("{}.{}", d.image() as *const _ as usize - base, d.image().Type), hist)
				},
				"dbg64" => {
					use pelite::pe64::{Pe, PeFile};
					let file = match PeFile::from_bytes(b) { Ok(f) => f, Err(e) => return format!("!ctor {:?}", e) };
					let debug = match file.debug() { Ok(x) => x, Err(e) => return format!("noiter={:?}", e) };
					run_full(&|| debug.iter(), &|d| format!("{}.{}", d.image() as *const _ as usize - base, d.image().Type), hist)
				},
				"exc64" => {
					use pelite::pe64::{Pe, PeFile};
					let file = match PeFile::from_bytes(b) { Ok(f) => f, Err(e) => return format!("!ctor {:?}", e) };
					let exc = match file.exception() { Ok(x) => x, Err(e) => return format!("noiter={:?}", e) };
					run_full(&|| exc.functions(), &|f| format!("{}.{}", f.image() as *const _ as usize - base, f.image().BeginAddress), hist)
				},
				"wimp" => {
					use pelite::Wrap;
					let file = match pelite::PeFile::from_bytes(b) { Ok(f) => f, Err(e) => return format!("!ctor {:?}", e) };
					let imports = match file.imports() { Ok(x) => x, Err(e) => return format!("noiter={:?}", e) };
					run_fwd(&|| imports.iter(), &|w| match w {
						Wrap::T32(d) => format!("t32.{}.{}", d.image() as *const _ as usize - base, d.image().OriginalFirstThunk),
						Wrap::T64(d) => format!("t64.{}.{}", d.image() as *const _ as usize - base, d.image().OriginalFirstThunk),
					}, hist)
				},
				_ => {
					use pelite::Wrap;
					let file = match pelite::PeFile::from_bytes(b) { Ok(f) => f, Err(e) => return format!("!ctor {:?}", e) };
					let debug = match file.debug() { Ok(x) => x, Err(e) => return format!("noiter={:?}", e) };
					run_fwd(&|| debug.iter(), &|w| match w {
						Wrap::T32(d) => format!("t32.{}.{}", d.image() as *const _ as usize - base, d.image().Type),
						Wrap::T64(d) => format!("t64.{}.{}", d.image() as *const _ as usize - base, d.image().Type),
					}, hist)
				},
			}
		},
		_ => "!unknown-kind".to_string(),
	}
}

fn main() {
	harness_main(gen, run);
}
