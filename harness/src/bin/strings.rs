//! C20: string enumerator — implementation side.
use pelite::strings::{Config, Heuristic};
use pvh::*;

fn gen(rng: &mut Rng, _i: u64) -> String {
	let n = match rng.below(8) { 0 => 0, 1 => 1, 2 => rng.below(8), _ => rng.below(120) } as usize;
	let mut data: Vec<u8> = Vec::with_capacity(n);
	let noise = rng.chance(1, 10);
	while data.len() < n {
		if noise { data.push(rng.byte()); continue; }
		// a run of printable bytes, then a terminator
		let run = match rng.below(6) { 0 => 0, 1 => 1, 2 => 2, _ => rng.below(12) } as usize;
		for _ in 0..run {
			data.push(match rng.below(12) { 0 => 9, 1 => 10, 2 => 13, 3 => 0x20, 4 => 0x7e, _ => rng.range(0x21, 0x7d) as u8 });
		}
		data.push(match rng.below(11) { 0 | 1 | 2 | 3 => 0, 4 => 0x7f, 5 => 0x1f, 6 => 0x80, 7 => 0xff, 8 => 8, 9 => 12, _ => 11 });
		if rng.chance(1, 6) { data.push(0); }
	}
	data.truncate(n);
	// a long run: lengths around 256 and beyond (the length comparison must not be done in 8 bits)
	if rng.chance(1, 8) {
		let k = match rng.below(4) { 0 => 255 + rng.below(6), 1 => 256 + rng.below(12), 2 => 510 + rng.below(6), _ => 250 + rng.below(400) } as usize;
		let at = rng.below(data.len() as u64 + 1) as usize;
		let run: Vec<u8> = (0..k).map(|_| rng.range(0x21, 0x7d) as u8).collect();
		let term: &[u8] = match rng.below(3) { 0 => &[0], 1 => &[0x80], _ => &[] };
		let mut nd = data[..at].to_vec();
		if at > 0 && rng.chance(1, 2) { nd.push(0); }
		nd.extend_from_slice(&run);
		nd.extend_from_slice(term);
		nd.extend_from_slice(&data[at..]);
		data = nd;
	}
	if rng.chance(1, 3) && !data.is_empty() {
		// end the buffer inside a run
		let k = rng.below(6) as usize;
		for _ in 0..k { data.push(rng.range(0x41, 0x5a) as u8); }
	}
	let pick = |rng: &mut Rng| -> u8 { match rng.below(10) { 0 => 1, 1 => 2, 2 => 3, 3 => 6, 4 => 255, 5 => 0, 6 => rng.range(11, 254) as u8, 7 => *rng.pick(&[127u8, 128, 254, 250, 16, 32, 64]), _ => rng.range(1, 10) as u8 } };
	let min = pick(rng);
	let minnul = pick(rng);
	let strict = rng.chance(1, 2);
	let base: u32 = match rng.below(6) { 0 => 0, 1 => 0xFFFF_FFFF, 2 => 0xFFFF_FFFF - data.len() as u32, 3 => 0xFFFF_FFF0, _ => 0x1000 * rng.below(0x100) as u32 };
	format!("strings data={} min={} minnul={} strict={} base={}", hex(&data), min, minnul, strict as u8, base)
}

/// kind "big": a sparse buffer of `len` zero bytes with `text` planted at offset `at` (buffers of 4 GiB and more: the
/// iterator's resume offset must not be truncated to 32 bits)
fn run_big(case: &str) -> String {
	let len: usize = field(case, "len").parse().unwrap();
	let at: usize = field(case, "at").parse().unwrap();
	let text = unhex(field(case, "text"));
	let p = unsafe { libc::mmap(std::ptr::null_mut(), len, libc::PROT_READ | libc::PROT_WRITE, libc::MAP_PRIVATE | libc::MAP_ANONYMOUS | libc::MAP_NORESERVE, -1, 0) };
	if p == libc::MAP_FAILED {
		return "!nomem".to_string();
	}
	let data: &mut [u8] = unsafe { std::slice::from_raw_parts_mut(p as *mut u8, len) };
	data[at..at + text.len()].copy_from_slice(&text);
	let data: &[u8] = data;
	let cfg = Config { min_length: field(case, "min").parse().unwrap(), min_length_nul: field(case, "minnul").parse().unwrap(), strict_nul: field(case, "strict") == "1", heuristic: Heuristic::PrintableAscii };
	let base: u32 = field(case, "base").parse().unwrap();
	let mut it = cfg.enumerate(base, data);
	let mut out = Vec::new();
	let p0 = data.as_ptr() as usize;
	// a correct iterator yields each run once; four calls are enough to see a run reported twice
	for _ in 0..4 {
		match it.next() {
			Some(f) => out.push(format!("{}:{}:{}:{}", f.string.as_ptr() as usize - p0, f.string.len(), f.address, f.has_nul as u8)),
			None => break,
		}
	}
	let again = if it.next().is_none() { "none" } else { "some" };
	unsafe { libc::munmap(p, len) };
	format!("found={} again={}", join(&out, ","), again)
}

fn run(case: &str) -> String {
	if case.starts_with("big ") {
		return run_big(case);
	}
	let data = unhex(field(case, "data"));
	let cfg = Config { min_length: field(case, "min").parse().unwrap(), min_length_nul: field(case, "minnul").parse().unwrap(), strict_nul: field(case, "strict") == "1", heuristic: Heuristic::PrintableAscii };
	let base: u32 = field(case, "base").parse().unwrap();
	let mut it = cfg.enumerate(base, &data);
	let mut out = Vec::new();
	let p0 = data.as_ptr() as usize;
	let mut guard = 0;
	while let Some(f) = it.next() {
		let start = f.string.as_ptr() as usize - p0;
		assert!(start + f.string.len() <= data.len(), "harness: found string outside the buffer");
		out.push(format!("{}:{}:{}:{}", start, f.string.len(), f.address, f.has_nul as u8));
		guard += 1;
		assert!(guard <= data.len() + 2, "harness: more items than bytes");
	}
	// fusedness: after the first None every later call is None
	let again = if it.next().is_none() && it.next().is_none() { "none" } else { "some" };
	format!("found={} again={}", join(&out, ","), again)
}

fn main() {
	harness_main(gen, run);
}
