//! C19, `resources` member of the serialized image: an independent resource-section writer (the one of
//! bin/resources.rs: explicit offsets from the PE/COFF specification, nothing of pelite) and the tree shapes that
//! exercise `mod serde` of src/resources/mod.rs: named and id entries, top-level ids with and without a predefined
//! type name, non-BMP and unpaired-surrogate names, nesting up to and beyond FSCK_MAX_DEPTH (chains and directories
//! that contain themselves), entry counts around the budget (section length / 8), dangling references, a root that
//! cannot be read.  Included with `#[path]` from bin/wrapjson.rs.
use pvh::pe::*;
use pvh::*;

#[derive(Clone, Debug)]
pub enum NameSpec {
	Id(u32),
	Str(Vec<u16>),
	RawName(u32), // explicit Name field (dangling / odd string offsets)
}
#[derive(Clone, Debug)]
pub enum Tgt {
	Dir(usize),
	Data(usize),
	Raw(u32), // explicit Offset field
}
#[derive(Clone, Debug)]
pub struct Ent {
	pub name: NameSpec,
	pub tgt: Tgt,
}
#[derive(Clone, Debug, Default)]
pub struct DirN {
	pub ents: Vec<Ent>,
	pub named_override: Option<(u16, u16)>,
}
#[derive(Clone, Debug)]
pub struct DataN {
	pub bytes: Vec<u8>,
	pub cp: u32,
	pub size_override: Option<u32>,
	pub otd_delta: i64,
}
#[derive(Default)]
pub struct Tree {
	pub dirs: Vec<DirN>,
	pub datas: Vec<DataN>,
}

fn w16(b: &mut Vec<u8>, o: usize, v: u16) {
	b[o..o + 2].copy_from_slice(&v.to_le_bytes());
}
fn w32(b: &mut Vec<u8>, o: usize, v: u32) {
	b[o..o + 4].copy_from_slice(&v.to_le_bytes());
}

impl Tree {
	pub fn data(&mut self, bytes: Vec<u8>, cp: u32) -> usize {
		self.datas.push(DataN { bytes, cp, size_override: None, otd_delta: 0 });
		self.datas.len() - 1
	}
	pub fn dir(&mut self) -> usize {
		self.dirs.push(DirN::default());
		self.dirs.len() - 1
	}
	/// directories, then the name strings, then the data entries, then the data
	pub fn layout(&self, va: u32, pad: u8) -> Vec<u8> {
		let mut dir_off = Vec::new();
		let mut p = 0u32;
		for d in &self.dirs {
			dir_off.push(p);
			p += 16 + 8 * d.ents.len() as u32;
		}
		let mut name_off: Vec<Vec<u32>> = Vec::new();
		for d in &self.dirs {
			let mut v = Vec::new();
			for e in &d.ents {
				if let NameSpec::Str(ws) = &e.name {
					v.push(p);
					p += 2 + 2 * ws.len() as u32;
				}
				else {
					v.push(0);
				}
			}
			name_off.push(v);
		}
		p = (p + 3) & !3;
		let mut data_off = Vec::new();
		for _ in &self.datas {
			data_off.push(p);
			p += 16;
		}
		let mut blob_off = Vec::new();
		for d in &self.datas {
			blob_off.push(p);
			p += d.bytes.len() as u32;
			p = (p + 3) & !3;
		}
		let mut b = vec![pad; p as usize];
		for (i, d) in self.dirs.iter().enumerate() {
			let o = dir_off[i] as usize;
			for k in 0..12 {
				b[o + k] = 0;
			}
			let named = d.ents.iter().filter(|e| !matches!(e.name, NameSpec::Id(_))).count() as u16;
			let (nn, ni) = d.named_override.unwrap_or((named, d.ents.len() as u16 - named));
			w16(&mut b, o + 12, nn);
			w16(&mut b, o + 14, ni);
			for (k, e) in d.ents.iter().enumerate() {
				let eo = o + 16 + 8 * k;
				let nv = match &e.name {
					NameSpec::Id(id) => *id,
					NameSpec::Str(ws) => {
						let no = name_off[i][k] as usize;
						w16(&mut b, no, ws.len() as u16);
						for (j, w) in ws.iter().enumerate() {
							w16(&mut b, no + 2 + 2 * j, *w);
						}
						0x8000_0000 | no as u32
					},
					NameSpec::RawName(v) => *v,
				};
				w32(&mut b, eo, nv);
				let ov = match e.tgt {
					Tgt::Dir(j) => 0x8000_0000 | dir_off[j],
					Tgt::Data(j) => data_off[j],
					Tgt::Raw(v) => v,
				};
				w32(&mut b, eo + 4, ov);
			}
		}
		for (i, d) in self.datas.iter().enumerate() {
			let o = data_off[i] as usize;
			w32(&mut b, o, (va as i64 + blob_off[i] as i64 + d.otd_delta) as u32);
			w32(&mut b, o + 4, d.size_override.unwrap_or(d.bytes.len() as u32));
			w32(&mut b, o + 8, d.cp);
			w32(&mut b, o + 12, 0);
			let bo = blob_off[i] as usize;
			b[bo..bo + d.bytes.len()].copy_from_slice(&d.bytes);
		}
		b
	}
}

/// UTF-16 names: ASCII, BMP characters whose UTF-8 is 2 and 3 bytes, characters that JSON escapes (quote, backslash,
/// control), non-BMP characters as surrogate pairs, unpaired surrogates (lone high, lone low, high at the end, two highs)
pub fn gen_words(rng: &mut Rng) -> Vec<u16> {
	let n = match rng.below(8) { 0 => 0, 1 => 1, _ => rng.range(1, 7) } as usize;
	let mut v = Vec::new();
	for _ in 0..n {
		match rng.below(12) {
			0 | 1 => {
				let c = 0x10000 + rng.below(0x100000) as u32;
				let c = c - 0x10000;
				v.push(0xD800 + (c >> 10) as u16);
				v.push(0xDC00 + (c & 0x3ff) as u16);
			},
			2 => v.push(*rng.pick(&[0xE9u16, 0x4E2D, 0xFFFD, 0x20AC, 0x7FF, 0x800, 0xFFFF, 0xD7FF, 0xE000, 0x7F, 0x80])),
			3 => v.push(*rng.pick(&[b'#' as u16, b'0' as u16, b'"' as u16, b'\\' as u16, b'/' as u16, 1, 0x1f, 0, b'\n' as u16])),
			4 | 5 => v.push(*rng.pick(&[0xD800u16, 0xDBFF, 0xDC00, 0xDFFF])), // unpaired surrogate (or the half of an accidental pair)
			_ => v.push(rng.range(0x41, 0x5a) as u16),
		}
	}
	v
}
fn gen_blob(rng: &mut Rng) -> Vec<u8> {
	let n = match rng.below(6) { 0 => 0, 1 => 1, _ => rng.below(24) } as usize;
	(0..n).map(|_| rng.byte()).collect()
}
/// an id: the whole RSRC_TYPES table (0..=24) with its gaps (0, 13, 15, 18), the first id beyond it, language ids, large values
fn gen_id(rng: &mut Rng) -> u32 {
	match rng.below(10) {
		0 => *rng.pick(&[0u32, 13, 15, 18, 25, 26]),
		1 => *rng.pick(&[0xFFFFu32, 0x7FFF_FFFF, 0x10000, 1033, 1031]),
		2 => rng.below(2000) as u32,
		_ => rng.range(1, 24) as u32,
	}
}

/// a free-form tree of depth 1..4
fn gen_free(rng: &mut Rng, t: &mut Tree, depth: u32) -> usize {
	let di = t.dir();
	let n = match rng.below(8) { 0 => 0, 1 => 1, _ => rng.range(1, 5) } as usize;
	let named = rng.below(n as u64 + 1) as usize;
	let mut ents = Vec::new();
	for k in 0..n {
		let name = if k < named { NameSpec::Str(gen_words(rng)) } else { NameSpec::Id(gen_id(rng)) };
		let tgt = if depth > 1 && rng.chance(1, 2) { Tgt::Dir(gen_free(rng, t, depth - 1)) } else { Tgt::Data(t.data(gen_blob(rng), *rng.pick(&[0u32, 1252, 65001, 0xFFFF_FFFF]))) };
		ents.push(Ent { name, tgt });
	}
	t.dirs[di].ents = ents;
	di
}
/// type -> name -> language, the shape a resource compiler writes
fn gen_typed(rng: &mut Rng, t: &mut Tree) -> usize {
	let root = t.dir();
	let mut ents = Vec::new();
	for _ in 0..rng.range(1, 5) {
		let td = t.dir();
		let mut tents = Vec::new();
		for _ in 0..rng.range(1, 3) {
			let nd = t.dir();
			let da = t.data(gen_blob(rng), *rng.pick(&[0u32, 1252]));
			t.dirs[nd].ents = vec![Ent { name: NameSpec::Id(*rng.pick(&[1033u32, 0, 1031, 3, 16])), tgt: Tgt::Data(da) }];
			tents.push(Ent { name: if rng.chance(1, 3) { NameSpec::Str(gen_words(rng)) } else { NameSpec::Id(gen_id(rng)) }, tgt: Tgt::Dir(nd) });
		}
		tents.sort_by_key(|e| matches!(e.name, NameSpec::Id(_)));
		t.dirs[td].ents = tents;
		ents.push(Ent { name: if rng.chance(1, 4) { NameSpec::Str(gen_words(rng)) } else { NameSpec::Id(gen_id(rng)) }, tgt: Tgt::Dir(td) });
	}
	ents.sort_by_key(|e| matches!(e.name, NameSpec::Id(_)));
	t.dirs[root].ents = ents;
	root
}

/// The bytes of a resource section whose data entries are relative to `rva`, and the length the section shall be
/// declared with (the data directory Size; the bytes are padded with zeros up to it when it is larger).
pub fn gen_res_section(rng: &mut Rng, rva: u32) -> (Vec<u8>, u32) {
	let mut t = Tree::default();
	// the number of entries a complete walk visits, when the shape knows it
	let mut visited: Option<usize> = None;
	match rng.below(12) {
		0 | 1 | 2 => { let d = rng.range(1, 4) as u32; gen_free(rng, &mut t, d); },
		3 | 4 => { gen_typed(rng, &mut t); },
		5 => {
			// a chain of 30..34 nested directories (31 levels below the root are followed, the 32nd is cut), ids of the
			// predefined types on every level (renamed on the first one only), optionally a second entry per level
			let levels = *rng.pick(&[30usize, 31, 32, 32, 33, 33, 34]);
			let wide = rng.chance(1, 3);
			let first = t.dir();
			let mut cur = first;
			for _ in 1..levels {
				let next = t.dir();
				let mut ents = vec![Ent { name: NameSpec::Id(1 + rng.below(3) as u32), tgt: Tgt::Dir(next) }];
				if wide {
					let d = t.data(vec![7], 0);
					ents.push(Ent { name: NameSpec::Id(9), tgt: Tgt::Data(d) });
				}
				t.dirs[cur].ents = ents;
				cur = next;
			}
			if rng.chance(1, 2) {
				let d = t.data(vec![1, 2, 3, 4], 1252);
				t.dirs[cur].ents = vec![Ent { name: NameSpec::Id(1033), tgt: Tgt::Data(d) }];
			}
			visited = Some((levels - 1) * if wide { 2 } else { 1 } + 1);
		},
		6 | 7 => {
			// a directory that contains itself or an ancestor; k entries per level
			let depth = rng.range(1, 3) as u32;
			gen_free(rng, &mut t, depth);
			let a = rng.below(t.dirs.len() as u64) as usize;
			let b = if rng.chance(1, 2) { a } else { 0 };
			for _ in 0..rng.range(1, 2) {
				t.dirs[a].ents.push(Ent { name: NameSpec::Id(gen_id(rng)), tgt: Tgt::Dir(b) });
			}
			if rng.chance(1, 2) {
				// the root first of all contains itself: the walk goes straight down to the depth limit
				t.dirs[0].ents.insert(0, Ent { name: NameSpec::Id(3), tgt: Tgt::Dir(0) });
				t.dirs[0].ents.sort_by_key(|e| matches!(e.name, NameSpec::Id(_)));
			}
			visited = Some(*rng.pick(&[8usize, 31, 32, 33, 40, 64, 100]));
		},
		8 | 9 => {
			// k entries of the root share one directory of m entries (each an empty directory): k + k*m entries are visited
			let k = rng.range(2, 6) as usize;
			let m = rng.range(1, 7) as usize;
			let r = t.dir();
			let shared = t.dir();
			let empty = t.dir();
			t.dirs[r].ents = (0..k).map(|j| Ent { name: NameSpec::Id(1 + j as u32), tgt: Tgt::Dir(shared) }).collect();
			t.dirs[shared].ents = (0..m).map(|j| Ent { name: NameSpec::Id(10 + j as u32), tgt: Tgt::Dir(if rng.chance(1, 8) { shared } else { empty }) }).collect();
			visited = Some(k + k * m);
		},
		10 => {
			// dangling references: entry offsets and name offsets outside the section, odd, or onto the root
			let d = rng.range(1, 3) as u32;
			gen_free(rng, &mut t, d);
			for _ in 0..rng.range(1, 3) {
				let a = rng.below(t.dirs.len() as u64) as usize;
				if rng.chance(1, 2) {
					let v = match rng.below(7) { 0 => 0xFFFF_FFF0u32, 1 => 0x7FFF_FFF0, 2 => 0x8000_0000 | 0x7FFF_FFF0, 3 => 0x8000_0002, 4 => 2, 5 => 0x8000_0000, _ => 0x8000_0000 | 0x10000 };
					t.dirs[a].ents.push(Ent { name: NameSpec::Id(gen_id(rng)), tgt: Tgt::Raw(v) });
				}
				else {
					let v = match rng.below(5) { 0 => 0xFFFF_FFFEu32, 1 => 0x8000_0001, 2 => 0x8001_0000, 3 => 0x8000_0000, _ => 0x8000_0000 | 0x7FFF_FFFE };
					let da = t.data(vec![1, 2, 3], 0);
					t.dirs[a].ents.insert(0, Ent { name: NameSpec::RawName(v), tgt: Tgt::Data(da) });
				}
			}
		},
		_ => {
			// header counts that do not match the named / id split; data entries whose range is wrong (still serialized)
			let d = rng.range(1, 3) as u32;
			gen_free(rng, &mut t, d);
			let a = rng.below(t.dirs.len() as u64) as usize;
			let n = t.dirs[a].ents.len() as u16;
			let k = rng.below(n as u64 + 1) as u16;
			t.dirs[a].named_override = Some(match rng.below(4) { 0 => (k, n - k), 1 => (n, 1), 2 => (0xFFFF, 0xFFFF), _ => (k, n - k + 1) });
			if !t.datas.is_empty() {
				let a = rng.below(t.datas.len() as u64) as usize;
				match rng.below(3) {
					0 => t.datas[a].size_override = Some(*rng.pick(&[0xFFFF_FFFFu32, 0x10000, 0x8000_0000])),
					1 => t.datas[a].otd_delta = -(rva as i64) - 1,
					_ => t.datas[a].otd_delta = 0x10000,
				}
			}
		},
	}
	let pad = if rng.chance(1, 4) { 0xCC } else { 0 };
	let mut sec = t.layout(rva, pad);
	// mutation stream: field pokes
	if rng.chance(1, 8) && sec.len() >= 4 {
		for _ in 0..rng.range(1, 3) {
			let o = (rng.below(sec.len() as u64 / 2) * 2) as usize;
			let v: u32 = *rng.pick(&[0u32, 1, 0xFFFF, 0x10000, 0x7FFF_FFFF, 0x8000_0000, 0xFFFF_FFFF, 0x8000_0010, 16, 0x8000_0000 | 24]);
			let w = if rng.chance(1, 2) { 2 } else { 4 };
			for k in 0..w {
				if o + k < sec.len() {
					sec[o + k] = (v >> (8 * k)) as u8;
				}
			}
		}
	}
	let natural = sec.len() as u32;
	// the declared length: the budget of the walk is (declared length clamped to the bytes that exist) / 8
	let size = match (visited, rng.below(10)) {
		(Some(v), 0..=6) => {
			let want = (v as i64 + *rng.pick(&[-1i64, 0, 0, 1, 2])).max(0) as u32 * 8 + rng.below(8) as u32;
			want.max(natural)
		},
		(_, 7) => *rng.pick(&[0u32, 8, 15, 16, 17, 23, 24, natural / 2, natural.saturating_sub(1), 0xFFFF_FFFF, 0x8000_0000]),
		(_, 8) => natural + 8 * rng.below(40) as u32,
		_ => natural,
	};
	if size > natural && size < 0x10000 {
		sec.resize(size as usize, 0);
	}
	(sec, size)
}

/// A synthetic image (either bitness) with a `.rsrc` section holding `gen_res_section`, for a file (raw data at
/// PointerToRawData) or a mapped view (at VirtualAddress): the fields of the case line.
pub fn gen_res_image(rng: &mut Rng) -> (bool, usize, Image, Vec<u64>, usize) {
	let pe64 = rng.chance(1, 2);
	let view = rng.chance(1, 2);
	let two = rng.chance(1, 2);
	let sec_va: u32 = if two { 0x2000 } else { 0x1000 };
	let sec_prd: u32 = if two { 0x600 } else { *rng.pick(&[0x400u32, 0x1000]) };
	let delta: u32 = *rng.pick(&[0u32, 0, 0, 0, 0, 4, 8, 0x40, 2, 1]);
	let rva = sec_va + delta;
	let (bytes, size) = gen_res_section(rng, rva);
	// room after the section contents: the slice pelite takes may be longer than the declared length
	let tail = *rng.pick(&[0usize, 0, 4, 8, 64]);
	let span = delta as usize + bytes.len() + tail;
	let mut secs = Vec::new();
	if two {
		let mut s = Sec { name: [0; 8], va: 0x1000, vs: 0x200, prd: 0x400, srd: 0x200, chars: 0x6000_0020 };
		s.name[..5].copy_from_slice(b".text");
		secs.push(s);
	}
	let mut s = Sec { name: [0; 8], va: sec_va, vs: span as u32, prd: sec_prd, srd: span as u32, chars: 0x4000_0040 };
	s.name[..5].copy_from_slice(b".rsrc");
	secs.push(s);
	let len = if view { sec_va as usize + span } else { sec_prd as usize + span };
	let ndirs = *rng.pick(&[16usize, 16, 16, 16, 16, 3, 2]);
	let mut dirs = vec![(0u32, 0u32); ndirs];
	if ndirs > 2 {
		dirs[2] = (if rng.chance(1, 16) { *rng.pick(&[0u32, sec_va + span as u32, 0xFFFF_FFF0, 0x800]) } else { rva }, size);
	}
	let soi = if view { len as u32 } else { (sec_va + span as u32 + 0xfff) & !0xfff };
	let mut spec = ImgSpec { pe64, e_lfanew: *rng.pick(&[0x40u32, 0x80]), soh: 0x400, soi, image_base: if pe64 { 0x1_4000_0000 } else { 0x40_0000 }, nrva: ndirs as u32, dirs, opt_size: 0, nsec_field: secs.len() as u16, secs, checksum: rng.next() as u32, magic: if pe64 { 0x20b } else { 0x10b } };
	spec.opt_size = spec.std_opt_size();
	let at = if view { rva as usize } else { (sec_prd + delta) as usize };
	let img = Image { len, fill: if rng.chance(1, 4) { rng.range(1, 1000) as u32 } else { 0 }, hdr: scrambled_header(&spec, rng), pokes: vec![(at, bytes)] };
	let edges: Vec<u64> = vec![0, rva as u64, sec_va as u64, sec_va as u64 + span as u64, sec_prd as u64, len as u64, 0x400];
	let place = *rng.pick(&[0usize, 4, 8, 12]);
	(view, place, img, edges, spec.secs.len())
}
