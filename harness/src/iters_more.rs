//! C18, second part: the iterators the library builds from std adaptors (no hand-written Iterator impl):
//!
//!  exp32 / exp64 / wexp  sel=iter|names|nidx   exports::By::iter / iter_names / iter_name_indices and the same three on
//!                                              Wrap<By32, By64> (through pelite::PeFile)         `impl Clone + Iterator`
//!  res                   sel=all|named|id      resources::Directory::entries / named_entries / id_entries   (Entries: full)
//!  iat32 / iat64 / wiat                        IAT::iter (Map<slice::Iter>: full) / Wrap<IAT32, IAT64>::iter (forward)
//!  int32 / int64 / wint                        Desc::int (Map<slice::Iter>: full) / Wrap<Desc>::int (forward)
//!  dia32 / dia64 / wdia                        Desc::iat (slice::Iter: full)      / Wrap<Desc>::iat (forward)
//!  icons / curs                                Resources::icons / cursors (FlatMap<result::IntoIter<Directory>, Entries, F>: forward)
//!  sect                  via=iter|into|wrap    SectionHeaders::iter / IntoIterator for &SectionHeaders / through pelite::PeFile (slice::Iter: full)
//!  strs                  ty=fc|dc|sc           stringify::{FileChars, DllChars, SectionChars}::to_strs   `impl Clone + Iterator` (FilterMap<Range<u32>>)
//!
//! Every input is a one-section PE file written by `pvh::pe` (independent of pelite's structs) with the tables at
//! fixed offsets of the section; the item text names the item by the file offset of what it points to and its value.
//! Case fields: `it=1|0` an iterator must / must not be handed out; `exp=` the expected items of the iterator (`?` =
//! not predicted: malformed content); exports carry the three tables instead: `ft=` one text per entry of the export
//! address table, `nm=` per entry of the name table, `ix=` the name index table - the model composes the iterator
//! from them; resources carry the entry array `arr=` and the two counts `nn=` `ni=` - the model cuts the slice.
use super::{run_full, run_fwd};
use pvh::pe::*;
use pvh::*;

const SEC_FILE: usize = 0x200; // file offset of the section (rva 0x1000, 0x400 bytes)
const SEC_RVA: u32 = 0x1000;

fn w16(b: &mut [u8], o: usize, v: u16) { b[o..o + 2].copy_from_slice(&v.to_le_bytes()); }
fn w32(b: &mut [u8], o: usize, v: u32) { b[o..o + 4].copy_from_slice(&v.to_le_bytes()); }
fn w64(b: &mut [u8], o: usize, v: u64) { b[o..o + 8].copy_from_slice(&v.to_le_bytes()); }

/// the image: headers + the whole section given as bytes (everything the library can read is written explicitly)
fn image(rng: &mut Rng, pe64: bool, dirs: Vec<(u32, u32)>, sec: &[u8]) -> String {
	let mut spec = ImgSpec { pe64, e_lfanew: *rng.pick(&[0x40u32, 0x80]), soh: 0x200, soi: 0x2000, image_base: if pe64 { 0x1_4000_0000 } else { 0x40_0000 }, nrva: 16, dirs, opt_size: 0, nsec_field: 1,
		secs: vec![Sec { name: *b".data\0\0\0", va: SEC_RVA, vs: 0x400, prd: SEC_FILE as u32, srd: 0x400, chars: 0xC000_0040 }], checksum: 0, magic: if pe64 { 0x20b } else { 0x10b } };
	spec.opt_size = spec.std_opt_size();
	let img = Image { len: 0x600, fill: 0, hdr: scrambled_header(&spec, rng), pokes: vec![(SEC_FILE, sec.to_vec())] };
	img.encode()
}
/// the section before anything is planted: zeros or noise (so that a read beyond a table does not see zeros by luck)
fn blank_section(rng: &mut Rng) -> Vec<u8> {
	if rng.chance(1, 2) { vec![0u8; 0x400] } else { (0..0x400).map(|_| rng.byte() | 1).collect() }
}

// ------------------------------------------------------------------ exports

pub fn in_exports(rng: &mut Rng, n: usize, wild: bool, pe64: bool, sel: &str) -> (String, usize) {
	let mut sec = blank_section(rng);
	let x = 4 * rng.below(16) as usize; // the directory
	let (f_off, n_off, i_off, s_off, fw_off) = (0x80usize, 0x100usize, 0x180usize, 0x200usize, 0x2D0usize);
	let small = |rng: &mut Rng| -> usize { match rng.below(6) { 0 => 0, 1 => 1, _ => rng.range(2, 8) as usize } };
	let (nf, nn) = if sel == "iter" { (n, small(rng)) } else { (small(rng), n) };
	let (mut funcs_null, mut names_null, mut idx_null) = (false, false, false);
	match rng.below(10) { 0 => names_null = true, 1 => idx_null = true, 2 => { names_null = true; idx_null = true; }, 3 => funcs_null = true, _ => {} }
	let dir_rva = SEC_RVA + x as u32;
	let dir_size = 0x300 - x as u32; // the tables, the names and the forwarder strings lie inside: rvas in here are forwarders
	// forwarder strings
	for k in 0..3 { let s = format!("DLL{}.Fn{}\0", k, k); sec[fw_off + 16 * k..fw_off + 16 * k + s.len()].copy_from_slice(s.as_bytes()); }
	// export address table
	let mut ft: Vec<String> = Vec::new();
	for i in 0..nf {
		let slot = f_off + 4 * i;
		let (rva, text): (u32, String) = match rng.below(7) {
			0 => (0, "eNull".to_string()),
			1 => { let k = rng.below(3) as usize; (SEC_RVA + (fw_off + 16 * k) as u32, format!("f{}", SEC_FILE + fw_off + 16 * k)) },
			2 => { let r = rng.range(1, 0xFFF) as u32; (r, format!("s{}.{}", SEC_FILE + slot, r)) },
			3 => { let r = 0x5000 + rng.next() as u32 % 0x7000_0000; (r, format!("s{}.{}", SEC_FILE + slot, r)) },
			_ => { let r = SEC_RVA + 0x300 + 4 * rng.below(0x40) as u32; (r, format!("s{}.{}", SEC_FILE + slot, r)) },
		};
		w32(&mut sec, slot, rva);
		ft.push(text);
	}
	// name table and name strings
	let mut nm: Vec<String> = Vec::new();
	for i in 0..nn {
		let so = s_off + 10 * i;
		let len = rng.range(1, 8) as usize;
		for k in 0..len { sec[so + k] = rng.range(0x41, 0x5a) as u8; }
		sec[so + len] = 0;
		w32(&mut sec, n_off + 4 * i, SEC_RVA + so as u32);
		nm.push(format!("n{}", SEC_FILE + so));
	}
	// name index table: some indices are out of range of the export address table
	let mut ix: Vec<String> = Vec::new();
	for i in 0..nn {
		let v: u16 = match rng.below(6) { 0 => nf as u16, 1 => 0xFFFF, _ => rng.below(nf.max(1) as u64) as u16 };
		w16(&mut sec, i_off + 2 * i, v);
		ix.push(v.to_string());
	}
	let mut it = true;
	let mut dirs = vec![(0u32, 0u32); 16];
	dirs[0] = (dir_rva, dir_size);
	let (mut nof, mut non) = (nf as u32, nn as u32);
	let (mut aof, aon, aoo) = (if funcs_null { 0 } else { SEC_RVA + f_off as u32 }, if names_null { 0 } else { SEC_RVA + n_off as u32 }, if idx_null { 0 } else { SEC_RVA + i_off as u32 });
	if wild {
		match rng.below(10) {
			0 => if !funcs_null { nof = 0x4000_0000; it = false; },                       // the table does not fit: by() fails
			1 => if !names_null || !idx_null { non = 0x2000_0000; it = false; },
			2 => { dirs[0] = (0, 0); it = false; },                                        // no export directory
			3 => for i in 0..nf { if rng.chance(1, 2) { w32(&mut sec, f_off + 4 * i, SEC_RVA + rng.below(0x2FF) as u32); ft[i] = "?".to_string(); } }, // forwarders to anything
			4 => for i in 0..nn { if rng.chance(1, 2) { w32(&mut sec, n_off + 4 * i, rng.next() as u32); nm[i] = "?".to_string(); } },            // name rvas anywhere
			5 => if !funcs_null { aof += 2; it = false; },                                 // misaligned table
			_ => {},
		}
	}
	w32(&mut sec, x + 12, SEC_RVA + fw_off as u32);
	w32(&mut sec, x + 16, rng.below(4) as u32);
	w32(&mut sec, x + 20, nof);
	w32(&mut sec, x + 24, non);
	w32(&mut sec, x + 28, aof);
	w32(&mut sec, x + 32, aon);
	w32(&mut sec, x + 36, aoo);
	if funcs_null { ft.clear(); }
	if names_null { nm.clear(); }
	if idx_null { ix.clear(); }
	let count = match sel { "iter" => ft.len(), "names" => nm.len(), _ => nm.len().min(ix.len()) };
	(format!("{} sel={} it={} ft={} nm={} ix={}", image(rng, pe64, dirs, &sec), sel, it as u8, join(&ft, ","), join(&nm, ","), join(&ix, ",")), count)
}

// ------------------------------------------------------------------ resources

pub fn in_res(rng: &mut Rng, n: usize, wild: bool, sel: &str) -> (String, usize) {
	let mut sec = blank_section(rng);
	let pe64 = rng.chance(1, 2);
	let mut x = 16 * rng.below(4) as usize;
	let (nn, ni): (usize, usize) = match sel {
		// 0..4 named and 0..4 id entries for up to 8 in all; any split beyond that
		"all" => { let (lo, hi) = if n <= 8 { (n.saturating_sub(4), n.min(4)) } else { (0, n) }; let a = rng.range(lo as u64, hi as u64) as usize; (a, n - a) },
		"named" => (n, rng.below(5) as usize),
		_ => (rng.below(5) as usize, n),
	};
	let total = nn + ni;
	let mut size = (0x400 - x) as u32;
	let mut it = true;
	let (mut cnt_named, cnt_id) = (nn as u16, ni as u16);
	let mut nodir = false;
	if wild {
		match rng.below(10) {
			0 => { cnt_named = 0xFFFF; it = false; },                           // the entries do not fit
			1 => { size = (16 + 8 * total) as u32 - 1; it = false; },           // one byte short
			2 => { size = (16 + 8 * total) as u32; },                           // exactly enough
			3 => { nodir = true; it = false; },
			4 => { x += 2; it = false; },                                       // misaligned directory
			_ => {},
		}
	}
	w32(&mut sec, x, 0); w32(&mut sec, x + 4, rng.next() as u32); w32(&mut sec, x + 8, 0);
	w16(&mut sec, x + 12, cnt_named); w16(&mut sec, x + 14, cnt_id);
	let mut all: Vec<String> = Vec::new();
	for i in 0..total {
		let o = x + 16 + 8 * i;
		let name: u32 = if i < nn { 0x8000_0000 | (0x300 + 8 * i as u32) } else { rng.below(0x7FFF_FFFF) as u32 };
		w32(&mut sec, o, name);
		w32(&mut sec, o + 4, if rng.chance(1, 2) { 0x8000_0000 | 0x380 } else { 0x3C0 });
		all.push(format!("{}.{}", SEC_FILE + o, name));
	}
	let exp: Vec<String> = match sel { "all" => all.clone(), "named" => all[..nn].to_vec(), _ => all[nn..].to_vec() };
	let mut dirs = vec![(0u32, 0u32); 16];
	if !nodir { dirs[2] = (SEC_RVA + x as u32, size); }
	let cnt = exp.len();
	// the model cuts the three slices out of the entry array itself (res_all / res_named / res_id)
	(format!("{} sel={} it={} arr={} nn={} ni={}", image(rng, pe64, dirs, &sec), sel, it as u8, join(&all, ","), nn, ni), cnt)
}

// ------------------------------------------------------------------ imports: IAT, Desc::int, Desc::iat

/// plants n thunks (+ optionally the zero terminator) at `at`; hint/name entries at `hn`; returns (import texts, thunk values)
fn plant_thunks(rng: &mut Rng, sec: &mut [u8], pe64: bool, n: usize, at: usize, hn: usize, terminator: bool, garbage: bool) -> (Vec<String>, Vec<u64>) {
	let vs = if pe64 { 8 } else { 4 };
	let flag: u64 = if pe64 { 1 << 63 } else { 1 << 31 };
	let mut texts = Vec::new();
	let mut vals = Vec::new();
	for i in 0..n {
		let (v, t): (u64, String) = if garbage && rng.chance(1, 2) {
			let v = if pe64 { rng.next() | 1 } else { (rng.next() as u32 | 1) as u64 };
			(v, "?".to_string())
		}
		else if rng.chance(1, 3) {
			let ord = 100 + i as u64;
			(flag | ord | if pe64 && rng.chance(1, 2) { 0x7_0000 } else { 0 }, format!("o{}", ord))
		}
		else {
			let e = hn + 16 * i;
			let hint = rng.below(0x1000) as u16;
			w16(sec, e, hint);
			let len = rng.range(1, 10) as usize;
			for k in 0..len { sec[e + 2 + k] = rng.range(0x61, 0x7a) as u8; }
			sec[e + 2 + len] = 0;
			((SEC_RVA + e as u32) as u64, format!("h{}.{}", hint, SEC_FILE + e + 2))
		};
		if pe64 { w64(sec, at + vs * i, v); } else { w32(sec, at + vs * i, v as u32); }
		texts.push(t);
		vals.push(v);
	}
	if terminator { if pe64 { w64(sec, at + vs * n, 0); } else { w32(sec, at + vs * n, 0); } }
	(texts, vals)
}

pub fn in_iat(rng: &mut Rng, n: usize, wild: bool, pe64: bool) -> (String, usize) {
	let mut sec = blank_section(rng);
	let vs = if pe64 { 8 } else { 4 };
	let x = 8 * rng.below(8) as usize;
	let mut it = true;
	let mut garbage = false;
	let mut dirs = vec![(0u32, 0u32); 16];
	let mut size = (vs * n) as u32 + rng.below(vs as u64) as u32; // Size need not be a multiple of the thunk size
	let mut rva = SEC_RVA + x as u32;
	if wild {
		match rng.below(8) {
			0 => garbage = true,
			1 => { rva = 0; it = false; },                                        // no IAT directory
			2 => { size = 0x400 - x as u32 + vs as u32; it = false; },            // runs over the end of the section
			_ => {},
		}
	}
	let (texts, vals) = plant_thunks(rng, &mut sec, pe64, n, x, 0x200, false, garbage);
	let exp: Vec<String> = (0..n).map(|i| if texts[i] == "?" { "?".to_string() } else { format!("{}.{}.{}", SEC_FILE + x + vs * i, vals[i], texts[i]) }).collect();
	dirs[12] = (rva, size);
	(format!("{} it={} exp={}", image(rng, pe64, dirs, &sec), it as u8, join(&exp, ",")), n)
}

/// one import descriptor; what = 0: Desc::int (OriginalFirstThunk), 1: Desc::iat (FirstThunk)
pub fn in_desc(rng: &mut Rng, n: usize, wild: bool, pe64: bool, what: usize) -> (String, usize) {
	let mut sec = blank_section(rng);
	let vs = if pe64 { 8 } else { 4 };
	let x = 4 * rng.below(8) as usize;
	let (int_off, iat_off, hn_off) = (0x80usize, 0x180usize, 0x240usize);
	let mut it = true;
	let mut garbage = false;
	let (mut oft, mut ft) = (SEC_RVA + int_off as u32, SEC_RVA + iat_off as u32);
	if wild {
		match rng.below(8) {
			0 => garbage = true,
			1 => if what == 0 { oft = 0; it = false; } else { ft = 0x3000; it = false; },   // null / unmapped table
			_ => {},
		}
	}
	let (texts, _) = plant_thunks(rng, &mut sec, pe64, n, int_off, hn_off, true, garbage && what == 0);
	// the IAT: any non-zero values (bound addresses)
	let mut iat_vals: Vec<u64> = Vec::new();
	for i in 0..n {
		let v: u64 = if pe64 { rng.next() | 1 } else { (rng.next() as u32 | 1) as u64 };
		if pe64 { w64(&mut sec, iat_off + vs * i, v); } else { w32(&mut sec, iat_off + vs * i, v as u32); }
		iat_vals.push(v);
	}
	if pe64 { w64(&mut sec, iat_off + vs * n, 0); } else { w32(&mut sec, iat_off + vs * n, 0); }
	// descriptor + the null descriptor
	for k in 0..40 { sec[x + k] = 0; }
	w32(&mut sec, x, oft);
	w32(&mut sec, x + 4, rng.next() as u32);
	w32(&mut sec, x + 12, SEC_RVA + 0x3F0);
	w32(&mut sec, x + 16, ft);
	sec[0x3F0..0x3F6].copy_from_slice(b"a.dll\0");
	let exp: Vec<String> = if what == 0 { texts } else { (0..n).map(|i| format!("{}.{}", SEC_FILE + iat_off + vs * i, iat_vals[i])).collect() };
	let mut dirs = vec![(0u32, 0u32); 16];
	dirs[1] = (SEC_RVA + x as u32, 40);
	(format!("{} it={} exp={}", image(rng, pe64, dirs, &sec), it as u8, join(&exp, ",")), n)
}

// ------------------------------------------------------------------ resources: icons() / cursors()

/// root -> the group directory (RT_GROUP_ICON 14 / RT_GROUP_CURSOR 12) with n entries, each -> a directory with one
/// data entry -> a GRPICONDIR blob (shared).  `grp=1` says the group directory can be reached; otherwise the iterator
/// is handed out all the same and is empty.
pub fn in_group(rng: &mut Rng, n: usize, wild: bool, cursors: bool) -> (String, usize) {
	let mut sec = blank_section(rng);
	let pe64 = rng.chance(1, 2);
	let (d1, d2, de, blob, names) = (0x80usize, 0x180usize, 0x1A0usize, 0x1C0usize, 0x200usize);
	let (target, other): (u32, u32) = if cursors { (12, 14) } else { (14, 12) };
	let dirbit = 0x8000_0000u32;
	let mut root: Vec<(u32, u32)> = vec![(3, dirbit | d2 as u32), (target, dirbit | d1 as u32), (16, dirbit | d2 as u32)];
	if rng.chance(1, 2) { root.swap(0, 1); }
	let (mut grp, mut it, mut nodir) = (true, true, false);
	let mut root_ids = root.len() as u16;
	let mut garbage = false;
	if wild {
		match rng.below(10) {
			0 => { for e in root.iter_mut() { if e.0 == target { e.0 = other; } } grp = false; },          // only the other group
			1 => { for e in root.iter_mut() { if e.0 == target { e.1 = de as u32; } } grp = false; },      // a data entry where the directory is expected
			2 => { nodir = true; it = false; },                                                            // no resources at all
			3 => { root_ids = 0xFFFF; grp = false; },                                                      // the root does not parse
			4 => { garbage = true; },
			_ => {},
		}
	}
	// root
	w32(&mut sec, 0, 0); w32(&mut sec, 4, 0); w32(&mut sec, 8, 0); w16(&mut sec, 12, 0); w16(&mut sec, 14, root_ids);
	for (i, (name, off)) in root.iter().enumerate() { w32(&mut sec, 16 + 8 * i, *name); w32(&mut sec, 20 + 8 * i, *off); }
	// the group directory
	let nn = rng.below(n.min(3) as u64 + 1) as usize;
	w32(&mut sec, d1, 0); w32(&mut sec, d1 + 4, 0); w32(&mut sec, d1 + 8, 0); w16(&mut sec, d1 + 12, nn as u16); w16(&mut sec, d1 + 14, (n - nn) as u16);
	let mut exp: Vec<String> = Vec::new();
	for i in 0..n {
		let o = d1 + 16 + 8 * i;
		let name_text = if i < nn {
			let so = names + 16 * i;
			let len = rng.range(1, 6) as usize;
			w16(&mut sec, so, len as u16);
			for k in 0..len { w16(&mut sec, so + 2 + 2 * k, rng.range(0x41, 0x5a) as u16); }
			w32(&mut sec, o, dirbit | so as u32);
			format!("w{}", SEC_FILE + so + 2)
		}
		else {
			let id = 100 + i as u32;
			w32(&mut sec, o, id);
			format!("i{}", id)
		};
		let text = if garbage && rng.chance(1, 2) { w32(&mut sec, o + 4, rng.next() as u32); "?".to_string() }
			else if rng.chance(1, 6) { w32(&mut sec, o + 4, de as u32); "eUnDataEntry".to_string() }       // a data entry where a directory is expected
			else { w32(&mut sec, o + 4, dirbit | d2 as u32); format!("{}@{}", name_text, SEC_FILE + blob) };
		exp.push(text);
	}
	// the leaf directory, its data entry and the group blob
	w32(&mut sec, d2, 0); w32(&mut sec, d2 + 4, 0); w32(&mut sec, d2 + 8, 0); w16(&mut sec, d2 + 12, 0); w16(&mut sec, d2 + 14, 1);
	w32(&mut sec, d2 + 16, 1033); w32(&mut sec, d2 + 20, de as u32);
	let count = rng.below(3) as usize;
	w32(&mut sec, de, SEC_RVA + blob as u32); w32(&mut sec, de + 4, (6 + 14 * count) as u32); w32(&mut sec, de + 8, 0); w32(&mut sec, de + 12, 0);
	w16(&mut sec, blob, 0); w16(&mut sec, blob + 2, if cursors { 2 } else { 1 }); w16(&mut sec, blob + 4, count as u16);
	let mut dirs = vec![(0u32, 0u32); 16];
	if !nodir { dirs[2] = (SEC_RVA, 0x400); }
	let cnt = if grp { n } else { 0 };
	(format!("{} it={} grp={} exp={}", image(rng, pe64, dirs, &sec), it as u8, grp as u8, join(&exp, ",")), cnt)
}

// ------------------------------------------------------------------ section headers

/// an image whose section table holds n headers (0..96; every header written explicitly, raw data absent).
/// Item text: file offset of the header . name bytes . VirtualAddress
pub fn in_sections(rng: &mut Rng, n: usize, wild: bool) -> (String, usize) {
	let pe64 = rng.chance(1, 2);
	// the random part asks for 9..20 items now and then: take the opportunity to go to the limit of 96 sections
	let n = if n >= 9 { *rng.pick(&[n, n, 95, 96, 96]) } else { n };
	let mut secs: Vec<Sec> = Vec::new();
	for i in 0..n {
		let mut name = [0u8; 8];
		let len = rng.range(1, 8) as usize;
		for k in 0..len { name[k] = rng.range(0x41, 0x5a) as u8; }
		secs.push(Sec { name, va: 0x1000 * (i as u32 + 1) + 4 * rng.below(4) as u32, vs: rng.below(0x1000) as u32, prd: 0, srd: 0, chars: rng.next() as u32 });
	}
	let mut spec = ImgSpec { pe64, e_lfanew: *rng.pick(&[0x40u32, 0x80]), soh: *rng.pick(&[0u32, 0x40, 0x100]), soi: 0x100000, image_base: if pe64 { 0x1_4000_0000 } else { 0x40_0000 }, nrva: 16, dirs: vec![(0u32, 0u32); 16], opt_size: 0, nsec_field: n as u16,
		secs, checksum: 0, magic: if pe64 { 0x20b } else { 0x10b } };
	// the table follows the optional header: SizeOfOptionalHeader says where (any multiple of 4 at or beyond the standard size)
	spec.opt_size = spec.std_opt_size() + 4 * rng.below(6) as u16;
	let mut it = true;
	let mut cut = 0usize;
	if wild {
		match rng.below(8) {
			0 => { spec.nsec_field = 97 + rng.below(3) as u16; it = false; },          // Insanity
			1 => if n > 0 { cut = 1 + rng.below(39) as usize; it = false; },           // the last header does not fit the file: Bounds
			2 => { spec.opt_size += 2; it = false; },                                  // Misaligned table
			3 => if n > 0 { spec.nsec_field = n as u16 - 1; },                         // one header fewer is declared than written
			_ => {},
		}
	}
	let declared = (spec.nsec_field as usize).min(n);
	let hdr = scrambled_header(&spec, rng);
	let table = spec.sec_table_off() as usize;
	let exp: Vec<String> = (0..declared).map(|i| format!("{}.{}.{}", table + 40 * i, hex(&spec.secs[i].name), spec.secs[i].va)).collect();
	// the file ends right behind the table (or inside the last header), or some way behind it
	let end = table + 40 * n;
	let len = if cut > 0 { end - cut } else { end.max(spec.e_lfanew as usize + spec.nt_size() as usize + 128) + *rng.pick(&[0usize, 0, 4, 0x200]) };
	let img = Image { len, fill: if rng.chance(1, 2) { 0 } else { rng.range(1, 1000) as u32 }, hdr, pokes: vec![] };
	let via = *rng.pick(&["iter", "into", "wrap"]);
	let cnt = if it { declared } else { 0 };
	(format!("{} via={} it={} exp={}", img.encode(), via, it as u8, join(&exp, ",")), cnt)
}

// ------------------------------------------------------------------ flags!::to_strs

/// the identifiers of the flag bits, from the PE/COFF specification (winnt.h) and pelite's placeholders for the reserved bits;
/// written down here independently of pelite's flags! tables
const FC_NAMES: [&str; 16] = ["IMAGE_FILE_RELOCS_STRIPPED", "IMAGE_FILE_EXECUTABLE_IMAGE", "IMAGE_FILE_LINE_NUMS_STRIPPED", "IMAGE_FILE_LOCAL_SYMS_STRIPPED",
	"IMAGE_FILE_AGGRESIVE_WS_TRIM", "IMAGE_FILE_LARGE_ADDRESS_AWARE", "IMAGE_FILE_6", "IMAGE_FILE_BYTES_REVERSED_LO", "IMAGE_FILE_32BIT_MACHINE",
	"IMAGE_FILE_DEBUG_STRIPPED", "IMAGE_FILE_REMOVABLE_RUN_FROM_SWAP", "IMAGE_FILE_NET_RUN_FROM_SWAP", "IMAGE_FILE_SYSTEM", "IMAGE_FILE_DLL",
	"IMAGE_FILE_UP_SYSTEM_ONLY", "IMAGE_FILE_BYTES_REVERSED_HI"];
const DC_NAMES: [&str; 16] = ["IMAGE_DLLCHARACTERISTICS_0", "IMAGE_DLLCHARACTERISTICS_1", "IMAGE_DLLCHARACTERISTICS_2", "IMAGE_DLLCHARACTERISTICS_3",
	"IMAGE_DLLCHARACTERISTICS_4", "IMAGE_DLLCHARACTERISTICS_HIGH_ENTROPY_VA", "IMAGE_DLLCHARACTERISTICS_DYNAMIC_BASE", "IMAGE_DLLCHARACTERISTICS_FORCE_INTEGRITY",
	"IMAGE_DLLCHARACTERISTICS_NX_COMPAT", "IMAGE_DLLCHARACTERISTICS_NO_ISOLATION", "IMAGE_DLLCHARACTERISTICS_NO_SEH", "IMAGE_DLLCHARACTERISTICS_NO_BIND",
	"IMAGE_DLLCHARACTERISTICS_APPCONTAINER", "IMAGE_DLLCHARACTERISTICS_WDM_DRIVER", "IMAGE_DLLCHARACTERISTICS_GUARD_CF", "IMAGE_DLLCHARACTERISTICS_TERMINAL_SERVER_AWARE"];
const SC_NAMES: [&str; 32] = ["IMAGE_SCN_0", "IMAGE_SCN_1", "IMAGE_SCN_2", "IMAGE_SCN_TYPE_NO_PAD", "IMAGE_SCN_4", "IMAGE_SCN_CNT_CODE", "IMAGE_SCN_CNT_INITIALIZED_DATA",
	"IMAGE_SCN_CNT_UNINITIALIZED_DATA", "IMAGE_SCN_LNK_OTHER", "IMAGE_SCN_LNK_INFO", "IMAGE_SCN_10", "IMAGE_SCN_LNK_REMOVE", "IMAGE_SCN_LNK_COMDAT", "IMAGE_SCN_13",
	"IMAGE_SCN_NO_DEFER_SPEC_EXC", "IMAGE_SCN_GPREL", "IMAGE_SCN_16", "IMAGE_SCN_MEM_PURGEABLE", "IMAGE_SCN_MEM_LOCKED", "IMAGE_SCN_MEM_PRELOAD", "IMAGE_SCN_ALIGN_1",
	"IMAGE_SCN_ALIGN_2", "IMAGE_SCN_ALIGN_4", "IMAGE_SCN_ALIGN_8", "IMAGE_SCN_LNK_NRELOC_OVFL", "IMAGE_SCN_MEM_DISCARDABLE", "IMAGE_SCN_MEM_NOT_CACHED",
	"IMAGE_SCN_MEM_NOT_PAGED", "IMAGE_SCN_MEM_SHARED", "IMAGE_SCN_MEM_EXECUTE", "IMAGE_SCN_MEM_READ", "IMAGE_SCN_MEM_WRITE"];

/// a flags value with exactly min(n, bits) bits set (bit 0 and the top bit among them more often than chance), or any value
pub fn in_strs(rng: &mut Rng, n: usize, wild: bool) -> (String, usize) {
	let ty = if n > 16 { "sc" } else { *rng.pick(&["fc", "dc", "sc"]) };
	let bits: u32 = if ty == "sc" { 32 } else { 16 };
	let mask: u64 = (1u64 << bits) - 1;
	let mut v: u64 = 0;
	if wild {
		v = match rng.below(6) { 0 => 0, 1 => mask, 2 => 1, 3 => 1 << (bits - 1), _ => rng.next() & mask };
	}
	else {
		let want = n.min(bits as usize);
		if want > 0 && rng.chance(1, 2) { v |= 1; }
		if want > 1 && rng.chance(1, 2) { v |= 1 << (bits - 1); }
		while (v.count_ones() as usize) < want { v |= 1 << rng.below(bits as u64); }
	}
	let tab: &[&str] = match ty { "fc" => &FC_NAMES, "dc" => &DC_NAMES, _ => &SC_NAMES };
	(format!("ty={} value={} bits={} it=1 tab={}", ty, v, bits, tab.join(",")), v.count_ones() as usize)
}

// ------------------------------------------------------------------ families

/// (kind, sel) of the second part, in the order of the exhaustive enumeration
pub const FAMS: [(&str, &str); 25] = [
	("exp32", "iter"), ("exp32", "names"), ("exp32", "nidx"), ("exp64", "iter"), ("exp64", "names"), ("exp64", "nidx"),
	("wexp", "iter"), ("wexp", "names"), ("wexp", "nidx"),
	("res", "all"), ("res", "named"), ("res", "id"),
	("iat32", ""), ("iat64", ""), ("wiat", ""), ("int32", ""), ("int64", ""), ("wint", ""), ("dia32", ""), ("dia64", ""), ("wdia", ""),
	("icons", ""), ("curs", ""),
	("sect", ""), ("strs", ""),
];
pub fn is_full(kind: &str) -> bool { matches!(kind, "res" | "iat32" | "iat64" | "int32" | "int64" | "dia32" | "dia64" | "sect") }

pub fn make_input(rng: &mut Rng, kind: &str, sel: &str, n: usize, wild: bool) -> Option<(String, usize)> {
	Some(match kind {
		"exp32" => in_exports(rng, n, wild, false, sel),
		"exp64" => in_exports(rng, n, wild, true, sel),
		"wexp" => { let p = rng.chance(1, 2); in_exports(rng, n, wild, p, sel) },
		"res" => in_res(rng, n, wild, sel),
		"iat32" => in_iat(rng, n, wild, false),
		"iat64" => in_iat(rng, n, wild, true),
		"wiat" => { let p = rng.chance(1, 2); in_iat(rng, n, wild, p) },
		"int32" => in_desc(rng, n, wild, false, 0),
		"int64" => in_desc(rng, n, wild, true, 0),
		"wint" => { let p = rng.chance(1, 2); in_desc(rng, n, wild, p, 0) },
		"dia32" => in_desc(rng, n, wild, false, 1),
		"dia64" => in_desc(rng, n, wild, true, 1),
		"wdia" => { let p = rng.chance(1, 2); in_desc(rng, n, wild, p, 1) },
		"icons" => in_group(rng, n, wild, false),
		"curs" => in_group(rng, n, wild, true),
		"sect" => in_sections(rng, n, wild),
		"strs" => in_strs(rng, n, wild),
		_ => return None,
	})
}

// ------------------------------------------------------------------ implementation side

use pelite::util::CStr;
use pelite::Wrap;
type Export<'a> = pelite::pe64::exports::Export<'a>;
type Import<'a> = pelite::pe64::imports::Import<'a>;

fn show_export(base: usize, r: pelite::Result<Export<'_>>) -> String {
	match r {
		Ok(Export::Symbol(rva)) => format!("s{}.{}", rva as *const u32 as usize - base, rva),
		Ok(Export::Forward(c)) => format!("f{}", c.c_str().as_ptr() as usize - base),
		Err(e) => format!("e{:?}", e),
	}
}
fn show_name(base: usize, r: pelite::Result<&CStr>) -> String {
	match r { Ok(c) => format!("n{}", c.c_str().as_ptr() as usize - base), Err(e) => format!("e{:?}", e) }
}
fn show_import(base: usize, r: pelite::Result<Import<'_>>) -> String {
	match r {
		Ok(Import::ByName { hint, name }) => format!("h{}.{}", hint, name.c_str().as_ptr() as usize - base),
		Ok(Import::ByOrdinal { ord }) => format!("o{}", ord),
		Err(e) => format!("e{:?}", e),
	}
}

macro_rules! exports_of {
	($pe:ident, $b:expr, $base:expr, $sel:expr, $hist:expr) => {{
		use pelite::$pe::{Pe, PeFile};
		let file = match PeFile::from_bytes($b) { Ok(f) => f, Err(e) => return Some(format!("!ctor {:?}", e)) };
		let exports = match file.exports() { Ok(x) => x, Err(e) => return Some(format!("noiter={:?}", e)) };
		let by = match exports.by() { Ok(x) => x, Err(e) => return Some(format!("noiter={:?}", e)) };
		let base = $base;
		match $sel {
			"iter" => run_fwd(&|| by.iter(), &|r| show_export(base, r), $hist),
			"names" => run_fwd(&|| by.iter_names(), &|(nm, ex)| format!("{}/{}", show_name(base, nm), show_export(base, ex)), $hist),
			_ => run_fwd(&|| by.iter_name_indices(), &|(nm, ix)| format!("{}/{}", show_name(base, nm), ix), $hist),
		}
	}};
}
macro_rules! imports_of {
	($pe:ident, $b:expr, $base:expr, $kind:expr, $hist:expr) => {{
		use pelite::$pe::{Pe, PeFile};
		let file = match PeFile::from_bytes($b) { Ok(f) => f, Err(e) => return Some(format!("!ctor {:?}", e)) };
		let base = $base;
		if $kind.starts_with("iat") {
			let iat = match file.iat() { Ok(x) => x, Err(e) => return Some(format!("noiter={:?}", e)) };
			run_full(&|| iat.iter(), &|(va, imp)| format!("{}.{}.{}", va as *const _ as usize - base, *va, show_import(base, imp)), $hist)
		}
		else {
			let imports = match file.imports() { Ok(x) => x, Err(e) => return Some(format!("noiter={:?}", e)) };
			let desc = match imports.iter().next() { Some(d) => d, None => return Some("noiter=NoDescriptor".to_string()) };
			if $kind.starts_with("int") {
				if let Err(e) = desc.int() { return Some(format!("noiter={:?}", e)); }
				run_full(&|| desc.int().unwrap(), &|imp| show_import(base, imp), $hist)
			}
			else {
				if let Err(e) = desc.iat() { return Some(format!("noiter={:?}", e)); }
				run_full(&|| desc.iat().unwrap(), &|va| format!("{}.{}", va as *const _ as usize - base, *va), $hist)
			}
		}
	}};
}

pub fn run(case: &str, kind: &str, hist: &str) -> Option<String> {
	if !FAMS.iter().any(|(k, _)| *k == kind) { return None; }
	if kind == "strs" {
		use pelite::stringify::{DllChars, FileChars, SectionChars};
		let v: u32 = field(case, "value").parse().expect("harness: value");
		return Some(match field(case, "ty") {
			"fc" => run_fwd(&|| FileChars(v as u16).to_strs(), &|s| s.to_string(), hist),
			"dc" => run_fwd(&|| DllChars(v as u16).to_strs(), &|s| s.to_string(), hist),
			_ => run_fwd(&|| SectionChars(v).to_strs(), &|s| s.to_string(), hist),
		});
	}
	let img = Image::decode(case);
	let bytes = img.bytes();
	let buf = Aligned::new(&bytes, 0);
	let b = buf.bytes();
	let base = b.as_ptr() as usize;
	let sel = if kind.starts_with("exp") || kind == "wexp" || kind == "res" { field(case, "sel") } else { "" };
	Some(match kind {
		"exp32" => exports_of!(pe32, b, base, sel, hist),
		"exp64" => exports_of!(pe64, b, base, sel, hist),
		"wexp" => {
			let file = match pelite::PeFile::from_bytes(b) { Ok(f) => f, Err(e) => return Some(format!("!ctor {:?}", e)) };
			let exports = match file.exports() { Ok(x) => x, Err(e) => return Some(format!("noiter={:?}", e)) };
			let by = match exports.by() { Ok(x) => x, Err(e) => return Some(format!("noiter={:?}", e)) };
			match sel {
				"iter" => run_fwd(&|| by.iter(), &|r| show_export(base, r), hist),
				"names" => run_fwd(&|| by.iter_names(), &|(nm, ex)| format!("{}/{}", show_name(base, nm), show_export(base, ex)), hist),
				_ => run_fwd(&|| by.iter_name_indices(), &|(nm, ix)| format!("{}/{}", show_name(base, nm), ix), hist),
			}
		},
		"res" => {
			let file = match pelite::PeFile::from_bytes(b) { Ok(f) => f, Err(e) => return Some(format!("!ctor {:?}", e)) };
			let resources = match file.resources() { Ok(x) => x, Err(e) => return Some(format!("noiter={:?}", e)) };
			let root = match resources.root() { Ok(x) => x, Err(e) => return Some(format!("noiter={:?}", e)) };
			let show = |e: pelite::resources::DirectoryEntry<'_>| format!("{}.{}", e.image() as *const _ as usize - base, e.image().Name);
			match sel {
				"all" => run_full(&|| root.entries(), &show, hist),
				"named" => run_full(&|| root.named_entries(), &show, hist),
				_ => run_full(&|| root.id_entries(), &show, hist),
			}
		},
		"sect" => {
			// a constructor error is the answer "no iterator" here (the section count and the table's place are what varies)
			let show = |h: &pelite::image::IMAGE_SECTION_HEADER| format!("{}.{}.{}", h as *const _ as usize - base, hex(&h.Name), h.VirtualAddress);
			match field(case, "via") {
				"wrap" => {
					let file = match pelite::PeFile::from_bytes(b) { Ok(f) => f, Err(e) => return Some(format!("noiter={:?}", e)) };
					let sh = file.section_headers();
					run_full(&|| sh.iter(), &|s| show(&**s), hist)
				},
				via => {
					let magic = { let e = u32::from_le_bytes([b[60], b[61], b[62], b[63]]) as usize; u16::from_le_bytes([b[e + 24], b[e + 25]]) };
					let sh = if magic == 0x20b {
						use pelite::pe64::{Pe, PeFile};
						match PeFile::from_bytes(b) { Ok(f) => f.section_headers(), Err(e) => return Some(format!("noiter={:?}", e)) }
					}
					else {
						use pelite::pe32::{Pe, PeFile};
						match PeFile::from_bytes(b) { Ok(f) => f.section_headers(), Err(e) => return Some(format!("noiter={:?}", e)) }
					};
					if via == "into" { run_full(&|| sh.into_iter(), &|s| show(&**s), hist) } else { run_full(&|| sh.iter(), &|s| show(&**s), hist) }
				},
			}
		},
		"icons" | "curs" => {
			use pelite::resources::Name;
			let file = match pelite::PeFile::from_bytes(b) { Ok(f) => f, Err(e) => return Some(format!("!ctor {:?}", e)) };
			let resources = match file.resources() { Ok(x) => x, Err(e) => return Some(format!("noiter={:?}", e)) };
			let name = |n: Name<'_>| match n { Name::Id(i) => format!("i{}", i), Name::Wide(w) => format!("w{}", w.as_ptr() as usize - base), Name::Str(_) => "str".to_string() };
			if kind == "icons" {
				run_fwd(&|| resources.icons(), &|r| match r { Ok((n, g)) => format!("{}@{}", name(n), g.header() as *const _ as usize - base), Err(e) => format!("e{:?}", e) }, hist)
			}
			else {
				run_fwd(&|| resources.cursors(), &|r| match r { Ok((n, g)) => format!("{}@{}", name(n), g.header() as *const _ as usize - base), Err(e) => format!("e{:?}", e) }, hist)
			}
		},
		"iat32" | "int32" | "dia32" => imports_of!(pe32, b, base, kind, hist),
		"iat64" | "int64" | "dia64" => imports_of!(pe64, b, base, kind, hist),
		"wiat" => {
			let file = match pelite::PeFile::from_bytes(b) { Ok(f) => f, Err(e) => return Some(format!("!ctor {:?}", e)) };
			let iat = match file.iat() { Ok(x) => x, Err(e) => return Some(format!("noiter={:?}", e)) };
			run_fwd(&|| iat.iter(), &|w| match w {
				Wrap::T32((va, imp)) => format!("t32.{}.{}.{}", va as *const _ as usize - base, *va, show_import(base, imp)),
				Wrap::T64((va, imp)) => format!("t64.{}.{}.{}", va as *const _ as usize - base, *va, show_import(base, imp)),
			}, hist)
		},
		"wint" | "wdia" => {
			let file = match pelite::PeFile::from_bytes(b) { Ok(f) => f, Err(e) => return Some(format!("!ctor {:?}", e)) };
			let imports = match file.imports() { Ok(x) => x, Err(e) => return Some(format!("noiter={:?}", e)) };
			let desc = match imports.iter().next() { Some(d) => d, None => return Some("noiter=NoDescriptor".to_string()) };
			if kind == "wint" {
				if let Err(e) = desc.int() { return Some(format!("noiter={:?}", e)); }
				run_fwd(&|| desc.int().unwrap(), &|imp| show_import(base, imp), hist)
			}
			else {
				if let Err(e) = desc.iat() { return Some(format!("noiter={:?}", e)); }
				run_fwd(&|| desc.iat().unwrap(), &|w| match w {
					Wrap::T32(va) => format!("t32.{}.{}", va as *const _ as usize - base, *va),
					Wrap::T64(va) => format!("t64.{}.{}", va as *const _ as usize - base, *va),
				}, hist)
			}
		},
		_ => return None,
	})
}
