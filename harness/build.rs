//! Writes $OUT_DIR/pelite_paths.rs: `#[path]` module declarations for source files of the pelite tree the harness
//! is built against (the `path = ".."` of the pelite dependency in Cargo.toml).  Used by src/bin/util.rs to compile
//! src/util/wide_str.rs - a module the crate does not export - into the harness, text unchanged.
use std::{env, fs, path::Path};

fn main() {
	let dir = env::var("CARGO_MANIFEST_DIR").unwrap();
	let manifest = fs::read_to_string(Path::new(&dir).join("Cargo.toml")).unwrap();
	let mut repo = String::new();
	for line in manifest.lines() {
		let l = line.trim();
		if l.starts_with("pelite") {
			if let Some(p) = l.find("path") {
				let rest = &l[p..];
				if let Some(a) = rest.find('"') {
					if let Some(b) = rest[a + 1..].find('"') {
						repo = rest[a + 1..a + 1 + b].to_string();
					}
				}
			}
		}
	}
	assert!(!repo.is_empty(), "build.rs: no pelite path dependency in Cargo.toml");
	let repo = if Path::new(&repo).is_absolute() { Path::new(&repo).to_path_buf() } else { Path::new(&dir).join(&repo) };
	let wide = repo.join("src/util/wide_str.rs");
	let out = Path::new(&env::var("OUT_DIR").unwrap()).join("pelite_paths.rs");
	if wide.is_file() {
		fs::write(&out, format!("#[path = {:?}]\npub mod wide_str;\n", wide.to_str().unwrap())).unwrap();
	} else {
		// the (unexported) module is gone from the tree: only src/bin/util.rs, which includes this file, stops building;
		// every other harness binary is unaffected
		fs::write(&out, "pub mod wide_str {}\n").unwrap();
	}
	println!("cargo:rerun-if-changed={}", wide.display());
	println!("cargo:rerun-if-changed=Cargo.toml");
	println!("cargo:rerun-if-changed=build.rs");
}
