(* C20 — The string enumerator reports exactly the qualifying printable runs.
   Statements only; every proof is [exact <lemma>]. *)
From PV.Model Require Import Machine Strings.
From PV.Spec Require Import Runs.
From PV.Proofs Require StringsProofs.
Import StringsProofs.

(* For every byte string, every configuration (any thresholds 0..255, either policy) and
   every base: iterating the enumerator to exhaustion terminates within fuel = length + 1
   and yields exactly the qualifying runs of the split, in order, with address
   base + start (in RVA space) and the NUL flag; nothing else. *)
Theorem C20_enumerate : forall c base bytes, enumerate c base bytes = Ok (enumerate_spec c base bytes).
Proof. exact StringsProofs.enumerate_correct. Qed.
Print Assumptions C20_enumerate.

(* each call: the first qualifying run at or after the resume offset, and the iterator
   resumes directly after that run's terminator *)
Theorem C20_next : forall c base rest start i, start <= i ->
  match scan c base rest start i with
  | None => filter (qualifies c) (runs_aux rest start (i - start)) = []
  | Some (f, off') =>
    exists r, f = found_of base r /\ off' = after r /\ i <= off' /\ (rest <> [] -> i < off') /\ start <= r_start r /\
      filter (qualifies c) (runs_aux rest start (i - start))
      = r :: filter (qualifies c) (runs_aux (skipn (N.to_nat (off' - i)) rest) off' 0)
  end.
Proof. exact StringsProofs.scan_spec. Qed.
Print Assumptions C20_next.

(* what the split means: runs consist of printable bytes only, are maximal, and carry the right terminator kind *)
Theorem C20_runs_sound : forall bs start len r, In r (runs_aux bs start len) ->
  (start <= r_start r /\ start + len <= r_start r + r_len r) /\
  r_start r + r_len r <= start + len + lenN bs /\
  (forall k, r_start r <= k -> start + len <= k -> k < r_start r + r_len r ->
     printable (nth (N.to_nat (k - (start + len))) bs 0) = true) /\
  match r_term r with
  | TEnd => r_start r + r_len r = start + len + lenN bs /\ 0 < r_len r
  | TNul => nth (N.to_nat (r_start r + r_len r - (start + len))) bs 1 = 0 /\ r_start r + r_len r < start + len + lenN bs
  | TOther => printable (nth (N.to_nat (r_start r + r_len r - (start + len))) bs 0) = false /\
              nth (N.to_nat (r_start r + r_len r - (start + len))) bs 0 <> 0 /\ r_start r + r_len r < start + len + lenN bs
  end.
Proof. exact StringsProofs.runs_aux_sound. Qed.
Print Assumptions C20_runs_sound.

(* in order and without overlap *)
Theorem C20_runs_ordered : forall bs start len, ordered start (runs_aux bs start len).
Proof. exact StringsProofs.runs_aux_ordered. Qed.
Print Assumptions C20_runs_ordered.

(* the implementation's printable test is the documented set *)
Theorem C20_printable_set : forall b, is_printable b = printable b.
Proof. exact StringsProofs.printable_spec. Qed.
Print Assumptions C20_printable_set.

Theorem C20_F18_printable_orig_refuted : is_printable_orig 127 = true /\ printable 127 = false.
Proof. exact StringsProofs.is_printable_orig_refuted. Qed.
Print Assumptions C20_F18_printable_orig_refuted.

Example C20_nonvacuous :
  enumerate {| min_len := 6; min_len_nul := 3; strict := false |} 4096
            [31; 67;45;83;84;82;73;78;71; 0; 128;129; 65;65;65;65;65;65;65;65;65;65; 255; 97;98; 0; 99;100;101;102;103;104]
  = Ok [ {| f_start := 1; f_len := 8; f_addr := 4097; f_nul := true |};
         {| f_start := 12; f_len := 10; f_addr := 4108; f_nul := false |};
         {| f_start := 26; f_len := 6; f_addr := 4122; f_nul := false |} ].
Proof. vm_compute. reflexivity. Qed.

(* ---- leaf functions regenerated from the source on every run (tools/gen_leaf.py -> gen/Leaf.v): agreement with the hand-written model ---- *)
(* src/strings.rs is_printable_ascii, regenerated from the source on every run, is the model's byte test for every u8 and
   cannot panic (the shift count is below 32 on the branch that shifts) *)
From PV.Model Require Strings.
From PV.gen Require Leaf.
From PV.Proofs Require LeafStrings.
Theorem C20_leaf_is_printable_ascii : forall b, Leaf.L_strings_is_printable_ascii_dom b = true ->
  Leaf.L_strings_is_printable_ascii_ok b = true /\ Leaf.L_strings_is_printable_ascii b = Strings.is_printable b.
Proof. exact LeafStrings.is_printable_ascii_agrees. Qed.
Print Assumptions C20_leaf_is_printable_ascii.
Theorem C20_leaf_is_printable_ascii_domain : forall b, Leaf.L_strings_is_printable_ascii_dom b = true <-> b < 256.
Proof. exact LeafStrings.is_printable_ascii_dom. Qed.
Print Assumptions C20_leaf_is_printable_ascii_domain.
