(* C20 — The string enumerator reports exactly the qualifying printable runs.
   Statements only; every proof is [exact <lemma>]. *)
From PV.Model Require Import Machine Strings.
From PV.Spec Require Import Runs.
From PV.Proofs Require StringsProofs.
Import StringsProofs.

(* For every byte string, every configuration (any thresholds 0..255, either policy) and
   every base: iterating the enumerator to exhaustion terminates within fuel = length + 1
   and yields exactly the qualifying runs of the split, in order, with address
   base + start (in RVA space) and the NUL flag; nothing else. *)
Theorem C20_enumerate : forall c base bytes, enumerate c base bytes = Ok (enumerate_spec c base bytes).
Proof. exact StringsProofs.enumerate_correct. Qed.
Print Assumptions C20_enumerate.

(* each call: the first qualifying run at or after the resume offset, and the iterator
   resumes directly after that run's terminator *)
Theorem C20_next : forall c base rest start i, start <= i ->
  match scan c base rest start i with
  | None => filter (qualifies c) (runs_aux rest start (i - start)) = []
  | Some (f, off') =>
    exists r, f = found_of base r /\ off' = after r /\ i <= off' /\ (rest <> [] -> i < off') /\ start <= r_start r /\
      filter (qualifies c) (runs_aux rest start (i - start))
      = r :: filter (qualifies c) (runs_aux (skipn (N.to_nat (off' - i)) rest) off' 0)
  end.
Proof. exact StringsProofs.scan_spec. Qed.
Print Assumptions C20_next.

(* what the split means: runs consist of printable bytes only, are maximal, and carry the right terminator kind *)
Theorem C20_runs_sound : forall bs start len r, In r (runs_aux bs start len) ->
  (start <= r_start r /\ start + len <= r_start r + r_len r) /\
  r_start r + r_len r <= start + len + lenN bs /\
  (forall k, r_start r <= k -> start + len <= k -> k < r_start r + r_len r ->
     printable (nth (N.to_nat (k - (start + len))) bs 0) = true) /\
  match r_term r with
  | TEnd => r_start r + r_len r = start + len + lenN bs /\ 0 < r_len r
  | TNul => nth (N.to_nat (r_start r + r_len r - (start + len))) bs 1 = 0 /\ r_start r + r_len r < start + len + lenN bs
  | TOther => printable (nth (N.to_nat (r_start r + r_len r - (start + len))) bs 0) = false /\
              nth (N.to_nat (r_start r + r_len r - (start + len))) bs 0 <> 0 /\ r_start r + r_len r < start + len + lenN bs
  end.
Proof. exact StringsProofs.runs_aux_sound. Qed.
Print Assumptions C20_runs_sound.

(* in order and without overlap *)
Theorem C20_runs_ordered : forall bs start len, ordered start (runs_aux bs start len).
Proof. exact StringsProofs.runs_aux_ordered. Qed.
Print Assumptions C20_runs_ordered.

(* the implementation's printable test is the documented set *)
Theorem C20_printable_set : forall b, is_printable b = printable b.
Proof. exact StringsProofs.printable_spec. Qed.
Print Assumptions C20_printable_set.

Theorem C20_F18_printable_orig_refuted : is_printable_orig 127 = true /\ printable 127 = false.
Proof. exact StringsProofs.is_printable_orig_refuted. Qed.
Print Assumptions C20_F18_printable_orig_refuted.

Example C20_nonvacuous :
  enumerate {| min_len := 6; min_len_nul := 3; strict := false |} 4096
            [31; 67;45;83;84;82;73;78;71; 0; 128;129; 65;65;65;65;65;65;65;65;65;65; 255; 97;98; 0; 99;100;101;102;103;104]
  = Ok [ {| f_start := 1; f_len := 8; f_addr := 4097; f_nul := true |};
         {| f_start := 12; f_len := 10; f_addr := 4108; f_nul := false |};
         {| f_start := 26; f_len := 6; f_addr := 4122; f_nul := false |} ].
Proof. vm_compute. reflexivity. Qed.

(* ---- declarative characterisation (audit: the split [runs] is itself a scanner; the two theorems above allow
   gaps and give no left-maximality and no coverage).  Spec/RunsDecl.v defines, position by position over the bytes
   and without any scanner, what a maximal printable run IS:
     is_maximal_run bs s l t := 0 < l, every byte of [s, s+l) is printable, s = 0 or byte s-1 is not printable,
                                and byte s+l is the end of the buffer (TEnd), a NUL (TNul) or another
                                non-printable byte (TOther);
     is_empty_run bs s t     := byte s is not printable (kind t) and s = 0 or byte s-1 is not printable
                                (these only matter for a threshold of 0);
     meets c l t             := the threshold rule;  item base s l t := the reported record.
   The theorems below state both directions against these definitions. ---- *)
From Coq Require Import Sorted.
From PV.Spec Require Import RunsDecl.
From PV.Proofs Require StringsDecl.

(* soundness: every non-empty element of the split is a maximal printable run (left AND right maximal) with its terminator kind *)
Theorem C20_runs_sound_maximal : forall bs r, In r (runs bs) -> 0 < r_len r ->
  is_maximal_run bs (r_start r) (r_len r) (r_term r).
Proof. exact StringsDecl.runs_sound_maximal. Qed.
Print Assumptions C20_runs_sound_maximal.

(* and every empty element sits at a non-printable byte with nothing printable directly before it *)
Theorem C20_runs_sound_empty : forall bs r, In r (runs bs) -> r_len r = 0 -> is_empty_run bs (r_start r) (r_term r).
Proof. exact StringsDecl.runs_sound_empty. Qed.
Print Assumptions C20_runs_sound_empty.

(* completeness: every maximal printable run of the byte string is listed by the split *)
Theorem C20_runs_complete : forall bs s l t, is_maximal_run bs s l t ->
  In {| r_start := s; r_len := l; r_term := t |} (runs bs).
Proof. exact StringsDecl.runs_complete_maximal. Qed.
Print Assumptions C20_runs_complete.

Theorem C20_runs_complete_empty : forall bs s t, is_empty_run bs s t ->
  In {| r_start := s; r_len := 0; r_term := t |} (runs bs).
Proof. exact StringsDecl.runs_complete_empty. Qed.
Print Assumptions C20_runs_complete_empty.

(* both directions in one line *)
Theorem C20_runs_exact : forall bs s l t, 0 < l ->
  (In {| r_start := s; r_len := l; r_term := t |} (runs bs) <-> is_maximal_run bs s l t).
Proof. exact StringsDecl.runs_exact. Qed.
Print Assumptions C20_runs_exact.

(* each exactly once, in ascending order with no overlap: every run starts after the terminator position of every earlier one *)
Theorem C20_runs_sorted : forall bs, StronglySorted run_lt (runs bs).
Proof. exact StringsDecl.runs_sorted. Qed.
Print Assumptions C20_runs_sorted.
Theorem C20_runs_NoDup : forall bs, NoDup (runs bs).
Proof. exact StringsDecl.runs_NoDup. Qed.
Print Assumptions C20_runs_NoDup.

(* tiling: every position of the buffer is accounted for by exactly one listed run -
   a printable byte lies inside exactly one, a non-printable byte terminates exactly one; nothing is skipped *)
Theorem C20_runs_tiling : forall bs k, k < lenN bs ->
  if printable (byte_at bs k)
  then exists r, In r (runs bs) /\ r_start r <= k /\ k < r_start r + r_len r /\
         forall r', In r' (runs bs) -> r_start r' <= k -> k < r_start r' + r_len r' -> r' = r
  else exists r, In r (runs bs) /\ r_start r + r_len r = k /\ r_term r <> TEnd /\
         forall r', In r' (runs bs) -> r_start r' + r_len r' = k -> r' = r.
Proof. exact StringsDecl.runs_tiling. Qed.
Print Assumptions C20_runs_tiling.

(* the declarative notion is unambiguous: two maximal runs that share a position are the same run *)
Theorem C20_maximal_run_overlap : forall bs s l t s' l' t' k,
  is_maximal_run bs s l t -> is_maximal_run bs s' l' t' ->
  s <= k -> k < s + l -> s' <= k -> k < s' + l' -> s = s' /\ l = l' /\ t = t'.
Proof. exact StringsDecl.maximal_run_overlap. Qed.
Print Assumptions C20_maximal_run_overlap.

(* THE ENUMERATOR against the declarative notion (does not mention [runs]).  For every byte string, every base and
   every configuration with thresholds of at least 1 (the documented range): iteration terminates, and the reported
   items are exactly the items of the maximal printable runs that meet the threshold rule -
   nothing else (->), none missed (<-), each once (NoDup), ascending without overlap (StronglySorted found_lt). *)
Theorem C20_enumerate_exact : forall c base bs, 1 <= min_len c -> 1 <= min_len_nul c -> exists fs,
  enumerate c base bs = Ok fs /\
  (forall f, In f fs <-> reported_maximal c base bs f) /\
  StronglySorted found_lt fs /\ NoDup fs.
Proof. exact StringsDecl.enumerate_exact. Qed.
Print Assumptions C20_enumerate_exact.

(* the same for all thresholds including 0, where the empty runs in front of non-printable bytes qualify as well *)
Theorem C20_enumerate_exact_general : forall c base bs, exists fs,
  enumerate c base bs = Ok fs /\
  (forall f, In f fs <-> reported c base bs f) /\
  StronglySorted found_lt fs /\ NoDup fs.
Proof. exact StringsDecl.enumerate_exact_general. Qed.
Print Assumptions C20_enumerate_exact_general.

(* that description leaves no freedom: ANY ascending list whose elements are exactly the reported items is the output *)
Theorem C20_enumerate_determined : forall c base bs fs, StronglySorted found_lt fs ->
  (forall f, In f fs <-> reported c base bs f) -> enumerate c base bs = Ok fs.
Proof. exact StringsDecl.enumerate_determined. Qed.
Print Assumptions C20_enumerate_determined.

(* no reported string reaches outside the buffer or contains a byte outside the printable set *)
Theorem C20_reported_printable : forall c base bs f, reported c base bs f ->
  f_start f + f_len f <= lenN bs /\
  forall k, f_start f <= k -> k < f_start f + f_len f -> printable (byte_at bs k) = true.
Proof. exact StringsDecl.reported_printable. Qed.
Print Assumptions C20_reported_printable.

(* non-vacuity of the declarative notions: the buffer 1F 'C' '-' 00 'A' has exactly the maximal runs (1,2,NUL) and (4,1,End);
   a run that could be extended to the right, one that could be extended to the left and one with the wrong terminator kind are rejected *)
Example C20_decl_nonvacuous :
  let bs := [31; 67; 45; 0; 65] in
  is_maximal_run bs 1 2 TNul /\ is_maximal_run bs 4 1 TEnd /\ is_empty_run bs 0 TOther /\
  ~ is_maximal_run bs 1 1 TOther /\ ~ is_maximal_run bs 2 1 TNul /\ ~ is_maximal_run bs 1 2 TOther /\
  (forall s l t, is_maximal_run bs s l t -> (s, l, t) = (1, 2, TNul) \/ (s, l, t) = (4, 1, TEnd)).
Proof. exact StringsDecl.decl_nonvacuous. Qed.

(* ---- leaf functions regenerated from the source on every run (tools/gen_leaf.py -> gen/Leaf.v): agreement with the hand-written model ---- *)
(* src/strings.rs is_printable_ascii, regenerated from the source on every run, is the model's byte test for every u8 and
   cannot panic (the shift count is below 32 on the branch that shifts) *)
From PV.Model Require Strings.
From PV.gen Require Leaf.
From PV.Proofs Require LeafStrings.
Theorem C20_leaf_is_printable_ascii : forall b, Leaf.L_strings_is_printable_ascii_dom b = true ->
  Leaf.L_strings_is_printable_ascii_ok b = true /\ Leaf.L_strings_is_printable_ascii b = Strings.is_printable b.
Proof. exact LeafStrings.is_printable_ascii_agrees. Qed.
Print Assumptions C20_leaf_is_printable_ascii.
Theorem C20_leaf_is_printable_ascii_domain : forall b, Leaf.L_strings_is_printable_ascii_dom b = true <-> b < 256.
Proof. exact LeafStrings.is_printable_ascii_dom. Qed.
Print Assumptions C20_leaf_is_printable_ascii_domain.

(* the source places the binders of the generated leaf definitions stand for (third audit, F2) *)
From Coq Require Import List String.
Import ListNotations.
Theorem C20_leaf_reads_strings :
  Leaf.L_strings_is_printable_ascii_args = ["arg1 : u8"%string].
Proof. exact LeafStrings.leaf_reads_strings. Qed.
Print Assumptions C20_leaf_reads_strings.
