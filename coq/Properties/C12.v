(* C12 - Resource tree traversal, lookup and reassembly reflect the stored directory.
   Statements only; every proof is [exact <lemma>].

   A resource section [s : rsec] is a byte function with its length, its machine address (for the alignment
   tests) and the VirtualAddress of the resource data directory.  [sec_ok s] says the byte function yields bytes.
   Structures are identified by their offset in the section.  [repr s t] (Spec/ResTree.v) is the format's
   denotation: "the bytes at [rt_off t] represent the tree t".  *)
From PV.Model Require Import Machine Mapping Views Resources.
From PV.Spec Require Import ResTree Ico.
From PV.Proofs Require ResourcesProofs.
Import ResourcesProofs.

(* ---- entry arrays: named first, ids last, at off + 16 + 8 i ---- *)
Theorem C12_entries_named_then_ids : forall s off, entries s off = named_entries s off ++ id_entries s off.
Proof. exact ResourcesProofs.entries_named_then_ids. Qed.
Print Assumptions C12_entries_named_then_ids.

Theorem C12_entries_positions : forall s off i d,
  (i < N.to_nat (n_named s off + n_ids s off))%nat -> nth i (entries s off) d = off + 16 + 8 * N.of_nat i.
Proof. exact ResourcesProofs.entries_positions. Qed.
Print Assumptions C12_entries_positions.

(* the unchecked slice::from_raw_parts in entries() is inside the section and aligned for every Directory value *)
Theorem C12_entries_safe : forall s off o, dir_try_from s off = Ok o -> entries_safe s o = true.
Proof. exact ResourcesProofs.dir_try_from_entries_safe. Qed.
Print Assumptions C12_entries_safe.

(* ---- the one-step functions never fault (after the F4 repair), for ANY section ---- *)
Theorem C12_dir_try_from_no_fault : forall s off, no_fault (dir_try_from s off).
Proof. exact ResourcesProofs.dir_try_from_no_fault. Qed.
Print Assumptions C12_dir_try_from_no_fault.
Theorem C12_name_no_fault : forall s e, no_fault (e_name s e).
Proof. exact ResourcesProofs.e_name_no_fault. Qed.
Print Assumptions C12_name_no_fault.
Theorem C12_entry_no_fault : forall s e, no_fault (e_entry s e).
Proof. exact ResourcesProofs.e_entry_no_fault. Qed.
Print Assumptions C12_entry_no_fault.
Theorem C12_data_bytes_no_fault : forall s o, no_fault (data_bytes s o).
Proof. exact ResourcesProofs.data_bytes_no_fault. Qed.
Print Assumptions C12_data_bytes_no_fault.

(* ---- names and data entries are what the bytes say, both ways ---- *)
Theorem C12_name_complete : forall s e n, name_at s e n = true -> e_name s e = Ok n.
Proof. exact ResourcesProofs.name_at_e_name. Qed.
Print Assumptions C12_name_complete.
Theorem C12_name_sound : forall s e n, e_name s e = Ok n -> name_at s e n = true.
Proof. exact ResourcesProofs.e_name_name_at. Qed.
Print Assumptions C12_name_sound.

(* a data entry yields exactly Size bytes at OffsetToData - VA, with its code page *)
Theorem C12_data_entry_complete : forall s o st sz cp,
  data_at s o st sz cp = true ->
  rslice s o 16 4 = Ok o /\ data_bytes s o = Ok {| r_off := st; r_len := sz |} /\ data_size s o = sz /\ data_cp s o = cp.
Proof. exact ResourcesProofs.data_at_bytes. Qed.
Print Assumptions C12_data_entry_complete.
Theorem C12_data_entry_sound : forall s o rg,
  rslice s o 16 4 = Ok o -> data_bytes s o = Ok rg ->
  data_at s o (r_off rg) (r_len rg) (data_cp s o) = true /\ r_len rg = data_size s o.
Proof. exact ResourcesProofs.bytes_data_at. Qed.
Print Assumptions C12_data_entry_sound.

(* ---- 1. traversal = the tree the bytes denote: entries in stored order, named flag by position, names, kinds,
        targets at their stored offsets, data ranges and code pages; any depth and budget that suffice ---- *)
Theorem C12_traverse_repr : forall s o kids d lvl b,
  repr s (RDir o kids) = true -> (height (RDir o kids) <= d)%nat -> size (RDir o kids) <= b ->
  walk d s o lvl b = (flatten s lvl (RDir o kids), b - size (RDir o kids)).
Proof. exact ResourcesProofs.walk_repr. Qed.
Print Assumptions C12_traverse_repr.

(* ---- 3. fsck: never faults and always terminates (structural recursion: 32 levels, len/8 entries), on ANY bytes
        including directories that contain themselves; succeeds exactly on the sections whose root denotes a tree of
        at most 32 nested directories and at most len/8 entries ---- *)
Theorem C12_fsck_no_fault : forall s, no_fault (fsck s).
Proof. exact ResourcesProofs.fsck_no_fault. Qed.
Print Assumptions C12_fsck_no_fault.

Theorem C12_fsck_iff : forall s,
  fsck s = Ok tt <->
  exists kids, repr s (RDir 0 kids) = true /\ (height (RDir 0 kids) <= FSCK_DEPTH)%nat /\ size (RDir 0 kids) <= rs_len s / 8.
Proof. exact ResourcesProofs.fsck_iff. Qed.
Print Assumptions C12_fsck_iff.

(* ---- 2. name matching is the documented rule ('#<id>' decimal, predefined '#TYPE', exact UTF-16 incl. surrogate
        pairs), and lookup returns the first entry in stored order whose stored name matches ---- *)
Theorem C12_name_matching : forall n q, stored n -> valid_query q -> name_eq n q = name_matches n q.
Proof. exact ResourcesProofs.name_eq_matches. Qed.
Print Assumptions C12_name_matching.

Theorem C12_lookup_first_match : forall s off q,
  sec_ok s -> valid_query q ->
  find_entry 48 s off q = find (fun e => match e_name s e with Ok n => name_matches n q | _ => false end) (entries s off).
Proof. exact ResourcesProofs.find_entry_first_match. Qed.
Print Assumptions C12_lookup_first_match.

Theorem C12_find_api_no_fault : forall lo s a b c off q rooted parts g id,
  fnf (dir_get lo s off q) /\ fnf (get_dir lo s off q) /\ fnf (get_data lo s off q) /\ fnf (first s off) /\
  fnf (first_data s off) /\ fnf (first_dir s off) /\ fnf (find_resources lo s a b) /\ fnf (find_resource lo s a b) /\
  fnf (find_resource_ex lo s a b c) /\ fnf (find_path lo s rooted parts) /\ fnf (manifest s) /\ fnf (version_info s) /\
  fnf (g_image s g id) /\ no_fault (group_new s g).
Proof. exact ResourcesProofs.find_api_no_fault. Qed.
Print Assumptions C12_find_api_no_fault.

(* ---- 4. group reassembly = Ico.encode: header, entries with recomputed offsets 6 + 16 n + sum of sizes, data ---- *)
Theorem C12_group_write_ico : forall s lookup g datas,
  sec_ok s -> group_new s g = Ok g ->
  Forall2 (fun e d => lookup (ge_id s e) = Some d /\ lenN d = ge_bytes_in_res s e) (g_entries s g) datas ->
  6 + 16 * g_count s g + total_len datas < W32 ->
  write_with s lookup g = (ico_encode (g_type s g) (mk_images s (g_entries s g) datas), true).
Proof. exact ResourcesProofs.group_write_ico. Qed.
Print Assumptions C12_group_write_ico.

(* ---- the code as it stood ---- *)
Theorem C12_F4_slice_orig_refuted :
  dir_try_from_orig f4_witness 0 = Fault UBAlign /\ dir_try_from f4_witness 0 = Err EMisaligned.
Proof. exact ResourcesProofs.rslice_orig_refuted. Qed.
Print Assumptions C12_F4_slice_orig_refuted.

Theorem C12_F16_fsck_orig_refuted :
  (forall fuel, fsck_orig fuel f16_witness = Fault OutOfFuel) /\ fsck f16_witness = Err EInsanity.
Proof. exact ResourcesProofs.fsck_orig_refuted. Qed.
Print Assumptions C12_F16_fsck_orig_refuted.

Theorem C12_F29_eq_string_orig_refuted :
  display_id 0 = [35; 48] /\ eq_string_orig (NId 0) (display_id 0) = false /\ eq_string (NId 0) (display_id 0) = true /\
  str_matches_id 0 (display_id 0) = true.
Proof. exact ResourcesProofs.eq_string_orig_refuted. Qed.
Print Assumptions C12_F29_eq_string_orig_refuted.

Theorem C12_F26_group_write_orig_refuted :
  group_new f26_witness {| r_off := 0; r_len := 20 |} = Ok {| r_off := 0; r_len := 20 |} /\
  write_with_orig f26_witness (fun _ => None) {| r_off := 0; r_len := 20 |} = Fault POverflow /\
  write_with f26_witness (fun _ => None) {| r_off := 0; r_len := 20 |} = ([0;0; 2;0; 1;0], false).
Proof. exact ResourcesProofs.group_write_orig_refuted. Qed.
Print Assumptions C12_F26_group_write_orig_refuted.

(* OPEN: C12_traverse_repr_converse : forall s d b items b', walk d s 0 0 b = (items, b') -> items_clean items = true ->
     exists kids, repr s (RDir 0 kids) = true /\ items = flatten s 0 (RDir 0 kids)
   (the existence of the tree is proved through fsck: C12_fsck_iff; the equality of the listing is not) *)
(* OPEN: C12_walk_sound : forall s d b, dir_at s 0 = true -> walk_sound s (fst (walk d s 0 0 b)) = true
   (the extracted oracle accepts every listing of the model; evaluated at run time only) *)
(* OPEN: C12_lookup_on_listing : forall s o kids q, repr s (RDir o kids) = true -> sec_ok s -> valid_query q ->
     dir_get 48 s o q = t_get_ent lvl (flatten s lvl (RDir o kids)) q
   (the listing-level lookup functions of the Spec used by the oracle; and likewise t_find_resource, t_find_resource_ex,
    t_find_parts for find_resource, find_resource_ex, find_path) *)
(* OPEN: C12_display_roundtrip : forall id, id < W32 -> eq_string (NId id) (display_id id) = true *)
(* OPEN: C12_fsck_work_bound : the number of entries fsck_dir visits is at most its budget (len/8); holds by
   construction of the budget counter, not stated as a theorem about an instrumented function *)

Example C12_nonvacuous :
  repr ex_sec ex_tree = true /\ fsck ex_sec = Ok tt /\
  fst (walk 32 ex_sec 0 0 5) = flatten ex_sec 0 ex_tree /\
  flatten ex_sec 0 ex_tree = [WItem {| i_lvl := 0; i_eoff := 16; i_named := false; i_name := Ok (NId 7); i_isdir := false;
                                      i_tgt := TData 24 (Ok {| r_off := 40; r_len := 4 |}) 4 1252 |}] /\
  dir_get 48 ex_sec 0 (NStr [35; 48; 55]) = FOk (EData 24) /\ dir_get 48 ex_sec 0 (NStr [35; 56]) = FErr FNotFound.
Proof. exact ResourcesProofs.ex_nonvacuous. Qed.
