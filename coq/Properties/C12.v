(* C12 - Resource tree traversal, lookup and reassembly reflect the stored directory.
   Statements only; every proof is [exact <lemma>].

   A resource section [s : rsec] is a byte function with its length, its machine address (for the alignment
   tests) and the VirtualAddress of the resource data directory.  [sec_ok s] says the byte function yields bytes.
   Structures are identified by their offset in the section.  [repr s t] (Spec/ResTree.v) is the format's
   denotation: "the bytes at [rt_off t] represent the tree t".  *)
From PV.Model Require Import Machine Mapping Views Resources.
From PV.Spec Require Import ResTree Ico SafetySpec ResSafety.
From PV.Spec Require Cur.
From PV.Model Require ResourcesArt.
From PV.Proofs Require ResourcesProofs ResourcesDeep ResourcesCount ResourcesSafety ResourcesCur ResourcesArt.
Import ResourcesProofs ResourcesDeep ResourcesCount ResourcesCur.

(* ---- entry arrays: named first, ids last, at off + 16 + 8 i ---- *)
Theorem C12_entries_named_then_ids : forall s off, entries s off = named_entries s off ++ id_entries s off.
Proof. exact ResourcesProofs.entries_named_then_ids. Qed.
Print Assumptions C12_entries_named_then_ids.

Theorem C12_entries_positions : forall s off i d,
  (i < N.to_nat (n_named s off + n_ids s off))%nat -> nth i (entries s off) d = off + 16 + 8 * N.of_nat i.
Proof. exact ResourcesProofs.entries_positions. Qed.
Print Assumptions C12_entries_positions.

(* the unchecked slice::from_raw_parts in entries() is inside the section and aligned for every Directory value *)
Theorem C12_entries_safe : forall s off o, dir_try_from s off = Ok o -> entries_safe s o = true.
Proof. exact ResourcesProofs.dir_try_from_entries_safe. Qed.
Print Assumptions C12_entries_safe.

(* ---- the one-step functions never fault (after the F4 repair), for ANY section ---- *)
Theorem C12_dir_try_from_no_fault : forall s off, no_fault (dir_try_from s off).
Proof. exact ResourcesProofs.dir_try_from_no_fault. Qed.
Print Assumptions C12_dir_try_from_no_fault.
Theorem C12_name_no_fault : forall s e, no_fault (e_name s e).
Proof. exact ResourcesProofs.e_name_no_fault. Qed.
Print Assumptions C12_name_no_fault.
Theorem C12_entry_no_fault : forall s e, no_fault (e_entry s e).
Proof. exact ResourcesProofs.e_entry_no_fault. Qed.
Print Assumptions C12_entry_no_fault.
Theorem C12_data_bytes_no_fault : forall s o, no_fault (data_bytes s o).
Proof. exact ResourcesProofs.data_bytes_no_fault. Qed.
Print Assumptions C12_data_bytes_no_fault.

(* ---- names and data entries are what the bytes say, both ways ---- *)
Theorem C12_name_complete : forall s e n, name_at s e n = true -> e_name s e = Ok n.
Proof. exact ResourcesProofs.name_at_e_name. Qed.
Print Assumptions C12_name_complete.
Theorem C12_name_sound : forall s e n, e_name s e = Ok n -> name_at s e n = true.
Proof. exact ResourcesProofs.e_name_name_at. Qed.
Print Assumptions C12_name_sound.

(* a data entry yields exactly Size bytes at OffsetToData - VA, with its code page *)
Theorem C12_data_entry_complete : forall s o st sz cp,
  data_at s o st sz cp = true ->
  rslice s o 16 4 = Ok o /\ data_bytes s o = Ok {| r_off := st; r_len := sz |} /\ data_size s o = sz /\ data_cp s o = cp.
Proof. exact ResourcesProofs.data_at_bytes. Qed.
Print Assumptions C12_data_entry_complete.
Theorem C12_data_entry_sound : forall s o rg,
  rslice s o 16 4 = Ok o -> data_bytes s o = Ok rg ->
  data_at s o (r_off rg) (r_len rg) (data_cp s o) = true /\ r_len rg = data_size s o.
Proof. exact ResourcesProofs.bytes_data_at. Qed.
Print Assumptions C12_data_entry_sound.

(* ---- 1. traversal = the tree the bytes denote: entries in stored order, named flag by position, names, kinds,
        targets at their stored offsets, data ranges and code pages; any depth and budget that suffice ---- *)
Theorem C12_traverse_repr : forall s o kids d lvl b,
  repr s (RDir o kids) = true -> (height (RDir o kids) <= d)%nat -> size (RDir o kids) <= b ->
  walk d s o lvl b = (flatten s lvl (RDir o kids), b - size (RDir o kids)).
Proof. exact ResourcesProofs.walk_repr. Qed.
Print Assumptions C12_traverse_repr.

(* ---- 3. fsck: never faults and always terminates (structural recursion: 32 levels, len/8 entries), on ANY bytes
        including directories that contain themselves; succeeds exactly on the sections whose root denotes a tree of
        at most 32 nested directories and at most len/8 entries ---- *)
Theorem C12_fsck_no_fault : forall s, no_fault (fsck s).
Proof. exact ResourcesProofs.fsck_no_fault. Qed.
Print Assumptions C12_fsck_no_fault.

Theorem C12_fsck_iff : forall s,
  fsck s = Ok tt <->
  exists kids, repr s (RDir 0 kids) = true /\ (height (RDir 0 kids) <= FSCK_DEPTH)%nat /\ size (RDir 0 kids) <= rs_len s / 8.
Proof. exact ResourcesProofs.fsck_iff. Qed.
Print Assumptions C12_fsck_iff.

(* ---- 3a. "the consistency check succeeds on every well-formed tree": a tree the bytes denote (every name, reference and
        data range valid) whose 8-byte entry records are pairwise disjoint - no directory referenced twice, no overlapping
        entry arrays - has at most len/8 entries, so fsck accepts it whenever it is nested at most 32 directories deep
        (the depth limit of the F16 repair, which the tree printer always had) ---- *)
Theorem C12_wellformed_size : forall s o kids lvl, repr s (RDir o kids) = true ->
  disjoint_records (entry_offsets (flatten s lvl (RDir o kids))) -> size (RDir o kids) <= rs_len s / 8.
Proof. exact ResourcesSafety.wellformed_size. Qed.
Print Assumptions C12_wellformed_size.
Theorem C12_fsck_wellformed : forall s kids, repr s (RDir 0 kids) = true -> (height (RDir 0 kids) <= FSCK_DEPTH)%nat ->
  disjoint_records (entry_offsets (flatten s 0 (RDir 0 kids))) -> fsck s = Ok tt.
Proof. exact ResourcesSafety.fsck_wellformed. Qed.
Print Assumptions C12_fsck_wellformed.

(* the depth limit of the consistency check, the resource type ids and the predefined '#TYPE' names of the model are
   the constants and the RSRC_TYPES table of src/resources/mod.rs and src/image.rs, regenerated on every run *)
From PV.gen Require Consts.
From PV.Proofs Require ConstsResources.
Theorem C12_constants_match_source :
  N.of_nat FSCK_DEPTH = Consts.K_FSCK_MAX_DEPTH /\
  (forall id, rsrc_type id = match nth_error Consts.K_RSRC_TYPES (N.to_nat id) with Some (Some s) => Some s | _ => None end) /\
  RT_CURSOR = Consts.K_RT_CURSOR /\ RT_ICON = Consts.K_RT_ICON /\ RT_GROUP_CURSOR = Consts.K_RT_GROUP_CURSOR /\
  RT_GROUP_ICON = Consts.K_RT_GROUP_ICON /\ RT_VERSION = Consts.K_RT_VERSION /\ RT_MANIFEST = Consts.K_RT_MANIFEST.
Proof. exact ConstsResources.resources_consts. Qed.
Print Assumptions C12_constants_match_source.

Example C12_wellformed_nonvacuous :
  entry_offsets (flatten ex3_sec 0 ex3_tree) = [16; 40; 64] /\ disjoint_records (entry_offsets (flatten ex3_sec 0 ex3_tree)) /\
  fsck ex3_sec = Ok tt.
Proof. exact ResourcesSafety.ex3_wellformed. Qed.

(* ---- 3c. "... and fails when any reachable reference is out of bounds or a directory contains itself".  [dir_path s n 0 o]
        (Spec/ResTree.v): o is reached from the root through n directory entries, read off the bytes.  Any section in
        which a reachable directory contains itself (directly or through descendants) is rejected; in an accepted
        section every reachable directory is valid and every entry of it has a valid name, target and data range ---- *)
Theorem C12_fsck_rejects_cycles : forall s, cyclic s -> fsck s <> Ok tt.
Proof. exact ResourcesDeep.fsck_rejects_cycles. Qed.
Print Assumptions C12_fsck_rejects_cycles.
Theorem C12_fsck_ok_reachable : forall s n o, fsck s = Ok tt -> dir_path s n 0 o ->
  dir_try_from s o = Ok o /\
  forall e, In e (entries s o) ->
    (exists nm, e_name s e = Ok nm) /\
    (exists en, e_entry s e = Ok en /\ match en with EData d => exists rg, data_bytes s d = Ok rg | EDir _ => True end).
Proof. exact ResourcesDeep.fsck_ok_reachable. Qed.
Print Assumptions C12_fsck_ok_reachable.
Example C12_cyclic_nonvacuous : cyclic f16_witness.
Proof. exact ResourcesDeep.f16_cyclic. Qed.

(* ---- 2. name matching is the documented rule ('#<id>' decimal, predefined '#TYPE', exact UTF-16 incl. surrogate
        pairs), and lookup returns the first entry in stored order whose stored name matches ---- *)
Theorem C12_name_matching : forall n q, stored n -> valid_query q -> name_eq n q = name_matches n q.
Proof. exact ResourcesProofs.name_eq_matches. Qed.
Print Assumptions C12_name_matching.

Theorem C12_lookup_first_match : forall s off q,
  sec_ok s -> valid_query q ->
  find_entry 48 s off q = find (fun e => match e_name s e with Ok n => name_matches n q | _ => false end) (entries s off).
Proof. exact ResourcesProofs.find_entry_first_match. Qed.
Print Assumptions C12_lookup_first_match.

Theorem C12_find_api_no_fault : forall lo s a b c off q rooted parts g id,
  fnf (dir_get lo s off q) /\ fnf (get_dir lo s off q) /\ fnf (get_data lo s off q) /\ fnf (first s off) /\
  fnf (first_data s off) /\ fnf (first_dir s off) /\ fnf (find_resources lo s a b) /\ fnf (find_resource lo s a b) /\
  fnf (find_resource_ex lo s a b c) /\ fnf (find_path lo s rooted parts) /\ fnf (manifest s) /\ fnf (version_info s) /\
  fnf (g_image s g id) /\ no_fault (group_new s g).
Proof. exact ResourcesProofs.find_api_no_fault. Qed.
Print Assumptions C12_find_api_no_fault.

(* ---- 4. group reassembly reproduces the file: header, entries with recomputed offsets 6 + 16 n + sum of sizes, then the image
        data in entry order.
        ICON groups (idType = 1): the group entry is the file entry with the offset replaced by the resource id, so the file is
        Ico.encode of the first 12 bytes of every entry and the RT_ICON resources.  (Restated after the independent audit: the
        statement used to cover idType = 2 as well, through the same encoder - which was the code's own assumption that a
        cursor group has the icon layout, see F44 below.  It now says idType = 1.) ---- *)
Theorem C12_group_write_ico : forall s lookup g datas,
  sec_ok s -> group_new s g = Ok g -> g_type s g = 1 ->
  Forall2 (fun e d => lookup (ge_id s e) = Some d /\ lenN d = ge_bytes_in_res s e) (g_entries s g) datas ->
  6 + 16 * g_count s g + total_len datas < W32 ->
  write_with s lookup g = (ico_encode 1 (mk_images s (g_entries s g) datas), true).
Proof. exact ResourcesProofs.group_write_ico. Qed.
Print Assumptions C12_group_write_ico.

(* ---- 4b. CURSOR groups (idType = 2), after the F44 repair.  Spec/Cur.v is an independent model of the .cur FILE
        (Cur.file = list of width, height, hotspot, DIB; Cur.encode_file: ICONDIR, CURSORDIRENTRY { bWidth, bHeight, 0, 0, wXHotspot,
        wYHotspot, dwBytesInRes, dwImageOffset } with offsets 6 + 16 n + sums, then the DIBs) and of what a resource compiler
        stores for it (Cur.to_resources: RT_GROUP_CURSOR entries { wWidth, wHeight = twice the height, wPlanes, wBitCount,
        dwBytesInRes, nId } and RT_CURSOR resources = 4-byte hotspot + DIB).
        (i)   the written file is the .cur file of the cursor images that the stored pieces denote ([Cur.of_resources] on the
              14-byte entries and the resources found), for every accepted cursor group whose resources are found, hold at
              least the hotspot and have the stated sizes; this is what the check evaluates on the implementation's output;
        (ii)  reading back what the compiler stored gives the file (Spec only);
        (iii) hence: compile any .cur file, put the group bytes and the resources in a section: write reproduces the file. ---- *)
Theorem C12_group_write_cur_pieces : forall s lookup g ps,
  sec_ok s -> group_new s g = Ok g -> g_type s g = 2 ->
  Forall2 (fun e p => lookup (ge_id s e) = Some p /\ bytes_ok (firstn 4 p) /\ 4 <= lenN p /\ lenN p = ge_bytes_in_res s e) (g_entries s g) ps ->
  Cur.file_size (Cur.of_resources (map (fun e => sec_bytes s e 14) (g_entries s g)) ps) < W32 ->
  write_with s lookup g = (Cur.encode_file (Cur.of_resources (map (fun e => sec_bytes s e 14) (g_entries s g)) ps), true).
Proof. exact ResourcesCur.group_write_cur_pieces. Qed.
Print Assumptions C12_group_write_cur_pieces.

Theorem C12_cur_resources_roundtrip : forall c ids, Forall Cur.image_ok c -> length ids = length c ->
  Cur.of_resources (Cur.group_entries c ids) (Cur.payloads c) = c.
Proof. exact ResourcesCur.of_resources_compiled. Qed.
Print Assumptions C12_cur_resources_roundtrip.

Theorem C12_group_write_cur : forall s lookup g c ids,
  sec_ok s -> group_new s g = Ok g ->
  Forall Cur.image_ok c -> length ids = length c -> Forall (fun id => id < 65536) ids ->
  sec_bytes s (r_off g) (r_len g) = fst (Cur.to_resources c ids) ->
  Forall (fun x => lookup (fst x) = Some (snd x)) (snd (Cur.to_resources c ids)) ->
  Cur.file_size c < W32 ->
  write_with s lookup g = (Cur.encode_file c, true).
Proof. exact ResourcesCur.group_write_cur. Qed.
Print Assumptions C12_group_write_cur.

(* the same with the resources looked up through GroupResource::image, i.e. for the model of write itself *)
Theorem C12_group_write_cur_image : forall s g c ids,
  sec_ok s -> group_new s g = Ok g ->
  Forall Cur.image_ok c -> length ids = length c -> Forall (fun id => id < 65536) ids ->
  sec_bytes s (r_off g) (r_len g) = fst (Cur.to_resources c ids) ->
  Forall (fun x => exists rg, g_image s g (fst x) = FOk rg /\ sec_bytes s (r_off rg) (r_len rg) = snd x) (snd (Cur.to_resources c ids)) ->
  Cur.file_size c < W32 ->
  group_write s g = (Cur.encode_file c, true).
Proof. exact ResourcesCur.group_write_cur_image. Qed.
Print Assumptions C12_group_write_cur_image.

(* ---- the code as it stood ---- *)
Theorem C12_F4_slice_orig_refuted :
  dir_try_from_orig f4_witness 0 = Fault UBAlign /\ dir_try_from f4_witness 0 = Err EMisaligned.
Proof. exact ResourcesProofs.rslice_orig_refuted. Qed.
Print Assumptions C12_F4_slice_orig_refuted.

Theorem C12_F16_fsck_orig_refuted :
  (forall fuel, fsck_orig fuel f16_witness = Fault OutOfFuel) /\ fsck f16_witness = Err EInsanity.
Proof. exact ResourcesProofs.fsck_orig_refuted. Qed.
Print Assumptions C12_F16_fsck_orig_refuted.

Theorem C12_F29_eq_string_orig_refuted :
  display_id 0 = [35; 48] /\ eq_string_orig (NId 0) (display_id 0) = false /\ eq_string (NId 0) (display_id 0) = true /\
  str_matches_id 0 (display_id 0) = true.
Proof. exact ResourcesProofs.eq_string_orig_refuted. Qed.
Print Assumptions C12_F29_eq_string_orig_refuted.

Theorem C12_F26_group_write_orig_refuted :
  group_new f26_witness {| r_off := 0; r_len := 20 |} = Ok {| r_off := 0; r_len := 20 |} /\
  write_with_orig f26_witness (fun _ => None) {| r_off := 0; r_len := 20 |} = Fault POverflow /\
  write_with f26_witness (fun _ => None) {| r_off := 0; r_len := 20 |} = ([0;0; 2;0; 1;0], false).
Proof. exact ResourcesProofs.group_write_orig_refuted. Qed.
Print Assumptions C12_F26_group_write_orig_refuted.

(* F44 (found by the independent audit; rediscovered by the check once the harness stored real cursors): as it stood, write
   copied cursor group entries like icon entries and left the hotspot in front of the image.  The witness is the section of
   corpus/C12/f44-cursor-group-written-as-icon.case: what Cur.to_resources makes of a one-image cursor file. *)
Theorem C12_F44_cursor_group_orig_refuted :
  sec_bytes f43_witness 172 20 = fst (Cur.to_resources f43_file [2]) /\
  image_lookup f43_witness f43_group 2 = Some (Cur.payload (hd {| Cur.cur_w := 0; Cur.cur_h := 0; Cur.cur_hx := 0; Cur.cur_hy := 0; Cur.cur_dib := [] |} f43_file)) /\
  group_list f43_witness RT_GROUP_CURSOR = [FOk (NId 177, f43_group)] /\
  Cur.encode_file f43_file = [0;0; 2;0; 1;0;  255; 255; 0; 0; 127;0; 205;0; 7;0;0;0; 22;0;0;0;  88; 219; 255; 117; 197; 159; 166] /\
  group_write_orig f43_witness f43_group =
    Ok [0;0; 2;0; 1;0;  255; 0; 254; 1; 0;0; 0;0; 11;0;0;0; 22;0;0;0;  127;0; 205;0; 88; 219; 255; 117; 197; 159; 166] /\
  group_write_orig f43_witness f43_group <> Ok (Cur.encode_file f43_file) /\
  group_write f43_witness f43_group = (Cur.encode_file f43_file, true).
Proof. exact ResourcesCur.cursor_group_orig_refuted. Qed.
Print Assumptions C12_F44_cursor_group_orig_refuted.

(* ---- 1b. the converse: a traversal (any depth, any budget) of an accepted directory that lists only valid names,
        references and data ranges and is neither cut nor stopped IS the depth-first listing of a tree the bytes denote;
        the tree is no deeper than the depth given and the budget consumed is its size.  [dir_at s o] is what
        Directory::try_from / root() establish (walk itself does not look at the header: C12_traverse_converse_needs_root) ---- *)
Theorem C12_traverse_repr_converse : forall s d o lvl b items b',
  dir_at s o = true -> walk d s o lvl b = (items, b') -> items_clean items = true ->
  exists kids, repr s (RDir o kids) = true /\ (height (RDir o kids) <= d)%nat /\ size (RDir o kids) + b' = b /\
               items = flatten s lvl (RDir o kids).
Proof. exact ResourcesDeep.walk_repr_converse. Qed.
Print Assumptions C12_traverse_repr_converse.

Theorem C12_traverse_clean_iff : forall s d o lvl b items b',
  dir_at s o = true ->
  (walk d s o lvl b = (items, b') /\ items_clean items = true <->
   exists kids, repr s (RDir o kids) = true /\ (height (RDir o kids) <= d)%nat /\ size (RDir o kids) + b' = b /\
                items = flatten s lvl (RDir o kids)).
Proof. exact ResourcesDeep.walk_clean_iff. Qed.
Print Assumptions C12_traverse_clean_iff.

Theorem C12_traverse_converse_needs_root :
  walk 1 empty_sec 0 0 0 = ([], 0) /\ items_clean [] = true /\ (forall kids, repr empty_sec (RDir 0 kids) = false).
Proof. exact ResourcesDeep.walk_converse_needs_root. Qed.
Print Assumptions C12_traverse_converse_needs_root.

(* ---- 1c. the run-time oracle is the reflection of a theorem: [walk_sound] (Spec/ResTree.v; extracted and evaluated by
        the check on the IMPLEMENTATION's listing) accepts every listing the model produces - any bytes, any depth, any
        budget, cut or stopped, with invalid names, dangling references and bad data ranges in it ---- *)
Theorem C12_walk_sound : forall s d b, dir_at s 0 = true -> walk_sound s (fst (walk d s 0 0 b)) = true.
Proof. exact ResourcesDeep.walk_sound_model. Qed.
Print Assumptions C12_walk_sound.
Theorem C12_walk_sound_root : forall s r d b, root s = Ok r -> walk_sound s (fst (walk d s r 0 b)) = true.
Proof. exact ResourcesDeep.walk_sound_root. Qed.
Print Assumptions C12_walk_sound_root.

(* ---- 2b. lookups return the same entries a full traversal finds.  The Spec's lookups are read off a listing
        (Spec/ResTree.v part 4: "the first entry of the traversal, at that level, whose name matches", then the listing
        below it); the check evaluates them on the IMPLEMENTATION's listing.  For every complete (neither cut nor stopped)
        listing of the root the model produces - the entries in it may be invalid - and in particular for the depth-first
        listing of every section that denotes a tree: get, [type, name] -> first language, [type, name, language], rooted
        paths, manifest(), version_info(), GroupResource::image(id), icons() and cursors() are the listing's answer.
        [valid_parts parts] = every component a sequence of Unicode scalar values. ---- *)
Theorem C12_lookups_on_traversal : forall s d b,
  sec_ok s -> dir_at s 0 = true -> complete (fst (walk d s 0 0 b)) = true ->
  let l := fst (walk d s 0 0 b) in
  (forall q, valid_query q -> dir_get 48 s 0 q = t_get_ent 0 l q) /\
  (forall a b, valid_query a -> valid_query b -> find_resource 48 s a b = t_find_resource l a b) /\
  (forall a b c, valid_query a -> valid_query b -> valid_query c -> find_resource_ex 48 s a b c = t_find_resource_ex l a b c) /\
  (forall parts, valid_parts parts -> find_path 48 s true parts = t_find_parts 0 (FOk (EDir 0)) (Some l) parts) /\
  manifest s = (rg <-- t_manifest l ;; if utf8_valid (sec_bytes s (r_off rg) (r_len rg)) then FOk rg else FErr (FPe EEncoding)) /\
  version_info s = (rg <-- t_find_resource l (NId 16) (NId 1) ;;
                    if aligned_to 4 (wadd64 (rs_addr s) (r_off rg)) then FOk rg else FErr (FPe EMisaligned)) /\
  (forall g id, g_image s g id = t_find_resource l (NId (if g_type s g =? 1 then 3 else 1)) (NId id)) /\
  (forall ty, group_list s ty = map (fun r => x <-- r ;; g <-- lift (group_new s (snd x)) ;; FOk (fst x, g)) (t_groups l ty)).
Proof. exact ResourcesDeep.lookups_on_walk. Qed.
Print Assumptions C12_lookups_on_traversal.

Theorem C12_lookups_on_tree : forall s kids,
  sec_ok s -> repr s (RDir 0 kids) = true ->
  let l := flatten s 0 (RDir 0 kids) in
  (forall q, valid_query q -> dir_get 48 s 0 q = t_get_ent 0 l q) /\
  (forall a b, valid_query a -> valid_query b -> find_resource 48 s a b = t_find_resource l a b) /\
  (forall a b c, valid_query a -> valid_query b -> valid_query c -> find_resource_ex 48 s a b c = t_find_resource_ex l a b c) /\
  (forall parts, valid_parts parts -> find_path 48 s true parts = t_find_parts 0 (FOk (EDir 0)) (Some l) parts) /\
  manifest s = (rg <-- t_manifest l ;; if utf8_valid (sec_bytes s (r_off rg) (r_len rg)) then FOk rg else FErr (FPe EEncoding)) /\
  version_info s = (rg <-- t_find_resource l (NId 16) (NId 1) ;;
                    if aligned_to 4 (wadd64 (rs_addr s) (r_off rg)) then FOk rg else FErr (FPe EMisaligned)) /\
  (forall g id, g_image s g id = t_find_resource l (NId (if g_type s g =? 1 then 3 else 1)) (NId id)) /\
  (forall ty, group_list s ty = map (fun r => x <-- r ;; g <-- lift (group_new s (snd x)) ;; FOk (fst x, g)) (t_groups l ty)).
Proof. exact ResourcesDeep.lookups_on_tree. Qed.
Print Assumptions C12_lookups_on_tree.

(* get in any directory, at any level of the tree *)
Theorem C12_lookup_on_listing : forall s o kids lvl q, sec_ok s -> valid_query q -> repr s (RDir o kids) = true ->
  dir_get 48 s o q = t_get_ent lvl (flatten s lvl (RDir o kids)) q.
Proof. exact ResourcesDeep.dir_get_on_tree. Qed.
Print Assumptions C12_lookup_on_listing.
Theorem C12_lookup_on_traversal : forall s d o lvl b q, sec_ok s -> valid_query q -> complete (fst (walk d s o lvl b)) = true ->
  dir_get 48 s o q = t_get_ent lvl (fst (walk d s o lvl b)) q.
Proof. exact ResourcesDeep.dir_get_on_walk. Qed.
Print Assumptions C12_lookup_on_traversal.

(* ---- 2c. Display / eq round trip for EVERY id (after the F29 repair): the text `Name::Id(id)` displays as - '#' and the
        decimal digits of id - compares equal to `Name::Id(id)` through eq_string and through PartialEq in both argument
        orders, is a match under the documented rule, and equals no other id ---- *)
Theorem C12_display_roundtrip : forall id, id < W32 ->
  eq_string (NId id) (display_id id) = true /\
  name_eq (NId id) (NStr (display_id id)) = true /\ name_eq (NStr (display_id id)) (NId id) = true /\
  name_matches (NId id) (NStr (display_id id)) = true.
Proof. exact ResourcesDeep.display_roundtrip. Qed.
Print Assumptions C12_display_roundtrip.
Theorem C12_display_is_decimal : forall id, id < W32 ->
  exists c r, display_id id = 35 :: c :: r /\ forallb digit (c :: r) = true /\ decimal_value (c :: r) 0 = id.
Proof. exact ResourcesDeep.display_id_spec. Qed.
Print Assumptions C12_display_is_decimal.
Theorem C12_display_injective : forall id id', id < W32 -> id' < W32 -> eq_string (NId id') (display_id id) = true -> id' = id.
Proof. exact ResourcesDeep.display_injective. Qed.
Print Assumptions C12_display_injective.

(* ---- 3b. explicit step counts (the polynomial bound of C03).  [fsck_c] / [fsck_dir_c] (Model/Resources.v) are fsck /
        fsck_dir instrumented with ghost counters: number of directory entries visited, deepest nesting of directories
        entered.  They compute the same result, and on ANY bytes the consistency check visits at most len/8 entries and
        nests at most 32 deep; a successful check of a directory visits exactly (budget - remaining budget) entries.
        The traversal lists exactly (budget - remaining budget) entries, all at levels below lvl + depth; the tree printer
        writes at most 1 + len/8 lines. ---- *)
Theorem C12_fsck_counted : forall s,
  fst (fsck_c s) = fsck s /\ c_steps (snd (fsck_c s)) <= rs_len s / 8 /\ (c_depth (snd (fsck_c s)) <= 32)%nat.
Proof. exact ResourcesCount.fsck_counted. Qed.
Print Assumptions C12_fsck_counted.
Theorem C12_fsck_dir_counted : forall s d o b,
  fst (fsck_dir_c d s o b) = fsck_dir d s o b /\ c_steps (snd (fsck_dir_c d s o b)) <= b /\ (c_depth (snd (fsck_dir_c d s o b)) <= d)%nat /\
  (forall b', fsck_dir d s o b = Ok b' -> c_steps (snd (fsck_dir_c d s o b)) + b' = b).
Proof. exact ResourcesCount.fsck_dir_counted. Qed.
Print Assumptions C12_fsck_dir_counted.
Theorem C12_walk_count : forall s d o lvl b, count_items (fst (walk d s o lvl b)) + snd (walk d s o lvl b) = b.
Proof. exact ResourcesCount.walk_count. Qed.
Print Assumptions C12_walk_count.
Theorem C12_walk_levels : forall s d o lvl b, lvl_lt (lvl + N.of_nat d) (fst (walk d s o lvl b)) = true.
Proof. exact ResourcesCount.walk_levels. Qed.
Print Assumptions C12_walk_levels.
Theorem C12_display_lines_bound : forall s, display_lines s <= 1 + rs_len s / 8.
Proof. exact ResourcesCount.display_lines_bound. Qed.
Print Assumptions C12_display_lines_bound.

(* ---- 3d. the TEXT of the tree printer (Model/ResourcesArt.v mirrors art.rs: margin cells, "+-- " / "`-- " prefixes, predefined
        '#TYPE' names at the root level only, UTF-16 names with U+FFFD for unpaired surrogates, error texts for invalid
        names, "/" after directories; the check compares the implementation's text with it byte by byte).  The text has the
        recursion skeleton the bounds above are proved for: exactly display_lines lines, for ANY section. ---- *)
Theorem C12_display_text_lines : forall s, lenN (ResourcesArt.display_text s) = display_lines s.
Proof. exact PV.Proofs.ResourcesArt.display_text_lines. Qed.
Print Assumptions C12_display_text_lines.
Example C12_display_text_nonvacuous :
  ResourcesArt.display_text ex_sec = [ResourcesArt.T_HEADING; [96; 45; 45; 32; 35; 70; 79; 78; 84; 68; 73; 82; 10]] /\
  ResourcesArt.display_text f16_witness =
    [ResourcesArt.T_HEADING; [96; 45; 45; 32; 35; 67; 85; 82; 83; 79; 82; 47; 10];
                             [32; 32; 32; 32; 96; 45; 45; 32; 35; 49; 47; 10];
                             [32; 32; 32; 32; 32; 32; 32; 32; 96; 45; 45; 32; 35; 49; 47; 10]] /\
  display_lines f16_witness = 4 /\
  ResourcesArt.display_text (sec_of 4098 4096 [0;0;0;0; 0;0;0;0; 0;0;0;0; 0;0; 0;0]) =
    [ResourcesArt.T_HEADING ++ [97; 100; 100; 114; 101; 115; 115; 32; 109; 105; 115; 97; 108; 105; 103; 110; 101; 100]].
Proof. exact PV.Proofs.ResourcesArt.art_nonvacuous. Qed.

(* ---- 5. memory safety of the borrows (C01 vocabulary, Spec/SafetySpec.v + Spec/ResSafety.v): every reference and slice
        the resources API hands out lies inside the section bytes and its ADDRESS is aligned for its type - for any
        bytes, length, section address and directory RVA.  [sec_typed s a r] = typed_safe (rs_addr s) (rs_len s) a r;
        [dir_safe s o] = the 16-byte header at o and the three entry arrays behind it (all / named / id), 4-aligned. ---- *)
Theorem C12_try_from_safe : forall s off o, dir_try_from s off = Ok o -> o = off /\ dir_safe s o.
Proof. exact ResourcesSafety.dir_try_from_safe. Qed.
Print Assumptions C12_try_from_safe.
(* every &IMAGE_RESOURCE_DIRECTORY_ENTRY that entries(), named_entries() and id_entries() yield *)
Theorem C12_entry_refs_safe : forall s o e, dir_safe s o ->
  In e (entries s o) \/ In e (named_entries s o) \/ In e (id_entries s o) ->
  sec_typed s 4 (reg e 8) /\ o + 16 <= e /\ e + 8 <= o + 16 + 8 * (n_named s o + n_ids s o).
Proof. exact ResourcesSafety.entry_refs_safe. Qed.
Print Assumptions C12_entry_refs_safe.
(* DirectoryEntry::name: the u16 length prefix and the &[u16] behind it *)
Theorem C12_name_safe : forall s e ws, e_name s e = Ok (NWide ws) ->
  exists o n, sec_typed s 2 (reg (o - 2) 2) /\ sec_typed s 2 (reg o (2 * n)) /\ 2 <= o /\ ws = words s o n /\ lenN ws = n.
Proof. exact ResourcesSafety.e_name_safe. Qed.
Print Assumptions C12_name_safe.
(* DirectoryEntry::entry: a Directory, or the &IMAGE_RESOURCE_DATA_ENTRY *)
Theorem C12_entry_safe : forall s e en, e_entry s e = Ok en ->
  match en with EDir o => dir_safe s o | EData o => sec_typed s 4 (reg o 16) end.
Proof. exact ResourcesSafety.e_entry_safe. Qed.
Print Assumptions C12_entry_safe.
(* DataEntry::bytes *)
Theorem C12_data_bytes_safe : forall s o rg, data_bytes s o = Ok rg -> region_in (rs_len s) rg /\ r_len rg = data_size s o.
Proof. exact ResourcesSafety.data_bytes_safe. Qed.
Print Assumptions C12_data_bytes_safe.
(* GroupResource::new on a slice of the section: &GRPICONDIR, the &[GRPICONDIRENTRY] of entries(), each entry *)
Theorem C12_group_new_safe : forall s g g', region_in (rs_len s) g -> group_new s g = Ok g' ->
  g' = g /\ sec_typed s 2 (reg (r_off g) 6) /\ sec_typed s 2 (reg (r_off g + 6) (14 * g_count s g)) /\
  6 + 14 * g_count s g = r_len g /\
  (forall e, In e (g_entries s g) -> sec_typed s 2 (reg e 14) /\ r_off g + 6 <= e /\ e + 14 <= r_off g + r_len g).
Proof. exact ResourcesSafety.group_new_safe. Qed.
Print Assumptions C12_group_new_safe.
(* the byte slices of the find API and the helpers *)
Theorem C12_find_resource_safe : forall lo s a b rg, find_resource lo s a b = FOk rg -> region_in (rs_len s) rg.
Proof. exact ResourcesSafety.find_resource_safe. Qed.
Print Assumptions C12_find_resource_safe.
Theorem C12_find_resource_ex_safe : forall lo s a b c rg, find_resource_ex lo s a b c = FOk rg -> region_in (rs_len s) rg.
Proof. exact ResourcesSafety.find_resource_ex_safe. Qed.
Print Assumptions C12_find_resource_ex_safe.
Theorem C12_manifest_safe : forall s rg, manifest s = FOk rg -> region_in (rs_len s) rg.
Proof. exact ResourcesSafety.manifest_safe. Qed.
Print Assumptions C12_manifest_safe.
Theorem C12_version_info_safe : forall s rg, version_info s = FOk rg -> sec_typed s 4 rg.
Proof. exact ResourcesSafety.version_info_safe. Qed.
Print Assumptions C12_version_info_safe.
Theorem C12_group_image_safe : forall s g id rg, g_image s g id = FOk rg -> region_in (rs_len s) rg.
Proof. exact ResourcesSafety.g_image_safe. Qed.
Print Assumptions C12_group_image_safe.
Theorem C12_group_list_safe : forall s ty nm g, In (FOk (nm, g)) (group_list s ty) ->
  region_in (rs_len s) g /\ group_new s g = Ok g /\
  match nm with NWide ws => exists o n, sec_typed s 2 (reg o (2 * n)) /\ ws = words s o n | _ => True end.
Proof. exact ResourcesSafety.group_list_safe. Qed.
Print Assumptions C12_group_list_safe.
(* Pe::resources(): the section is a slice of the mapped image, no longer than the directory Size *)
Theorem C12_pe_resources_safe : forall img_addr img_len get rva size s, placed img_addr img_len ->
  pe_resources img_addr img_len get rva size = Ok s ->
  exists off, rs_addr s = img_addr + off /\ off + rs_len s <= img_len /\ rs_len s <= size /\ rs_va s = rva /\
              (forall i, rs_get s i = get (off + i)).
Proof. exact ResourcesSafety.pe_resources_safe. Qed.
Print Assumptions C12_pe_resources_safe.
(* every reference carried by every item of every traversal below an accepted directory / below the root *)
Theorem C12_walk_refs_safe : forall s d o lvl b, dir_safe s o -> Forall (witem_safe s) (fst (walk d s o lvl b)).
Proof. exact ResourcesSafety.walk_safe. Qed.
Print Assumptions C12_walk_refs_safe.
Theorem C12_walk_root_refs_safe : forall s r d b, root s = Ok r -> Forall (witem_safe s) (fst (walk d s r 0 b)).
Proof. exact ResourcesSafety.walk_root_safe. Qed.
Print Assumptions C12_walk_root_refs_safe.

Example C12_nonvacuous :
  repr ex_sec ex_tree = true /\ fsck ex_sec = Ok tt /\
  fst (walk 32 ex_sec 0 0 5) = flatten ex_sec 0 ex_tree /\
  flatten ex_sec 0 ex_tree = [WItem {| i_lvl := 0; i_eoff := 16; i_named := false; i_name := Ok (NId 7); i_isdir := false;
                                      i_tgt := TData 24 (Ok {| r_off := 40; r_len := 4 |}) 4 1252 |}] /\
  dir_get 48 ex_sec 0 (NStr [35; 48; 55]) = FOk (EData 24) /\ dir_get 48 ex_sec 0 (NStr [35; 56]) = FErr FNotFound.
Proof. exact ResourcesProofs.ex_nonvacuous. Qed.

(* the hypotheses of C12_group_write_cur_image hold for a concrete section; sizes of 256 are the byte 0 in the file and 256 / 512 in
   the group entry; the group entry found in user32.dll decodes to 32 x 32; a cursor entry whose resource is missing or
   shorter than the hotspot is an error and nothing of it is written *)
Example C12_cursor_nonvacuous :
  group_new f43_witness f43_group = Ok f43_group /\ Forall Cur.image_ok f43_file /\
  Forall (fun x => exists rg, g_image f43_witness f43_group (fst x) = FOk rg /\ sec_bytes f43_witness (r_off rg) (r_len rg) = snd x)
         (snd (Cur.to_resources f43_file [2])) /\
  Cur.file_size f43_file = 29 /\
  Cur.of_resources (Cur.group_entries f43_file [2]) (Cur.payloads f43_file) = f43_file /\
  Cur.file_entry {| Cur.cur_w := 256; Cur.cur_h := 256; Cur.cur_hx := 0; Cur.cur_hy := 65535; Cur.cur_dib := [] |} 22 =
    [0; 0; 0; 0; 0;0; 255;255; 0;0;0;0; 22;0;0;0] /\
  Cur.group_entry {| Cur.cur_w := 256; Cur.cur_h := 256; Cur.cur_hx := 0; Cur.cur_hy := 65535; Cur.cur_dib := [] |} 7 =
    [0;1; 0;2; 0;0; 0;0; 4;0;0;0; 7;0] /\
  Cur.cur_w (Cur.of_entry [32;0; 64;0; 1;0; 1;0; 52;1;0;0; 1;0] [6;0; 3;0; 40]) = 32 /\
  Cur.cur_h (Cur.of_entry [32;0; 64;0; 1;0; 1;0; 52;1;0;0; 1;0] [6;0; 3;0; 40]) = 32 /\
  write_with f43_witness (fun _ => None) f43_group = ([0;0; 2;0; 1;0], false) /\
  write_with f43_witness (fun _ => Some [1; 2; 3]) f43_group = ([0;0; 2;0; 1;0], false).
Proof. exact ResourcesCur.cur_nonvacuous. Qed.

Example C12_nonvacuous_deep :
  repr ex3_sec ex3_tree = true /\
  walk 32 ex3_sec 0 0 11 = (flatten ex3_sec 0 ex3_tree, 8) /\ items_clean (flatten ex3_sec 0 ex3_tree) = true /\
  walk_sound ex3_sec (fst (walk 32 ex3_sec 0 0 11)) = true /\
  walk_sound ex3_sec (fst (walk 2 ex3_sec 0 0 11)) = true /\ complete (fst (walk 2 ex3_sec 0 0 11)) = false /\
  find_resource 48 ex3_sec (NId 24) (NStr [35; 49]) = FOk {| r_off := 88; r_len := 4 |} /\
  t_find_resource (flatten ex3_sec 0 ex3_tree) (NId 24) (NStr [35; 49]) = FOk {| r_off := 88; r_len := 4 |} /\
  t_find_resource_ex (flatten ex3_sec 0 ex3_tree) (NStr [35; 77; 65; 78; 73; 70; 69; 83; 84]) (NId 1) (NId 1033) = FOk {| r_off := 88; r_len := 4 |} /\
  t_find_parts 0 (FOk (EDir 0)) (Some (flatten ex3_sec 0 ex3_tree)) [[35; 50; 52]; [35; 49]; [35; 49; 48; 51; 51]] = FOk (EData 72) /\
  manifest ex3_sec = FOk {| r_off := 88; r_len := 4 |} /\ t_manifest (flatten ex3_sec 0 ex3_tree) = FOk {| r_off := 88; r_len := 4 |} /\
  fsck_c ex3_sec = (Ok tt, {| c_steps := 3; c_depth := 3 |}) /\
  display_id 4294967295 = [35; 52; 50; 57; 52; 57; 54; 55; 50; 57; 53] /\ display_lines ex3_sec = 4.
Proof. exact ResourcesDeep.ex_nonvacuous_deep. Qed.

(* ---- leaf functions regenerated from the source on every run (tools/gen_leaf.py -> gen/Leaf.v): agreement with the hand-written model ---- *)
(* src/resources/mod.rs DirectoryEntry::is_dir and the high-bit tests / offset masks of ::name and ::entry, regenerated
   from the source on every run: the model's arithmetic forms (2^31 <=? x, x - 2^31) are these bit operations *)
From PV.Model Require Resources.
From PV.gen Require Leaf Layout.
From PV.Proofs Require LeafResources.
Theorem C12_leaf_is_dir : forall s e,
  Leaf.L_resources_DirectoryEntry_is_dir_dom (Resources.rd32 s (e + Layout.IMAGE_RESOURCE_DIRECTORY_ENTRY_Offset_off)) = true ->
  Leaf.L_resources_DirectoryEntry_is_dir_ok (Resources.rd32 s (e + Layout.IMAGE_RESOURCE_DIRECTORY_ENTRY_Offset_off)) = true /\
  Leaf.L_resources_DirectoryEntry_is_dir (Resources.rd32 s (e + Layout.IMAGE_RESOURCE_DIRECTORY_ENTRY_Offset_off)) = Resources.e_is_dir s e.
Proof. exact LeafResources.is_dir_agrees. Qed.
Print Assumptions C12_leaf_is_dir.
Theorem C12_leaf_entry_name : forall slws s e,
  Leaf.L_resources_DirectoryEntry_name__is_wide_dom (Resources.rd32 s (e + Layout.IMAGE_RESOURCE_DIRECTORY_ENTRY_Name_off)) = true ->
  Resources.e_name_g slws s e =
    (let v := Resources.rd32 s (e + Layout.IMAGE_RESOURCE_DIRECTORY_ENTRY_Name_off) in
     if Leaf.L_resources_DirectoryEntry_name__is_wide v
     then r <- slws s (Leaf.L_resources_DirectoryEntry_name__offset v) ;; Ok (Resources.NWide (Resources.words s (fst r) (snd r)))
     else Ok (Resources.NId v)).
Proof. exact LeafResources.e_name_agrees. Qed.
Print Assumptions C12_leaf_entry_name.
Theorem C12_leaf_entry_entry : forall sl s e,
  Leaf.L_resources_DirectoryEntry_is_dir_dom (Resources.rd32 s (e + Layout.IMAGE_RESOURCE_DIRECTORY_ENTRY_Offset_off)) = true ->
  Resources.e_entry_g sl s e =
    (let v := Resources.rd32 s (e + Layout.IMAGE_RESOURCE_DIRECTORY_ENTRY_Offset_off) in
     if Leaf.L_resources_DirectoryEntry_is_dir v
     then o <- Resources.dir_try_from_g sl s (Leaf.L_resources_DirectoryEntry_entry__offset v) ;; Ok (Resources.EDir o)
     else o <- sl s v 16 4 ;; Ok (Resources.EData o)).
Proof. exact LeafResources.e_entry_agrees. Qed.
Print Assumptions C12_leaf_entry_entry.

(* the source places the binders of the generated leaf definitions stand for (third audit, F2) *)
From Coq Require Import List String.
Import ListNotations.
Theorem C12_leaf_reads_resources :
  Leaf.L_resources_DirectoryEntry_is_dir_args = ["self.image.Offset : u32"%string] /\
  Leaf.L_resources_DirectoryEntry_name__is_wide_args = ["self.image.Name : u32"%string] /\
  Leaf.L_resources_DirectoryEntry_name__offset_args = ["self.image.Name : u32"%string] /\
  Leaf.L_resources_DirectoryEntry_entry__offset_args = ["self.image.Offset : u32"%string].
Proof. exact LeafResources.leaf_reads_resources. Qed.
Print Assumptions C12_leaf_reads_resources.
